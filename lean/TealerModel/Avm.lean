/-
  SPEC side: a concrete small-step semantics of the modelled AVM fragment (written from the AVM
  specification, not from tealer).  Used (i) as the semantic oracle of the failing-input search and of
  the per-run oracle comparison, (ii) as the `Accepts` / `Through` notions the soundness theorems are about.

  Nothing is defaulted: stack underflow, type confusion, out-of-range group reads, `err`, failed `assert`,
  arithmetic overflow, `retsub` with an empty call stack are explicit `reject` outcomes; an opcode outside the
  fragment is `unsupported`.
-/
import TealerModel.Syntax
namespace Tealer.Avm

inductive Val
  | int (n : Nat)
  | bytes (s : String)
deriving DecidableEq, Repr, Inhabited

def MAXU64 : Nat := 18446744073709551615
def zeroAddress : String := "ZERO"        -- abstract name of the all-zero address in environments
def zeroAddressLiteral : String := "AAAAAAAAAAAAAAAAAAAAAAAAAAAAAAAAAAAAAAAAAAAAAAAAAAAAY5HFKQ"

/-- one transaction of the group: its fields by name -/
structure Txn where
  fields : List (String × Val)
deriving Repr, Inhabited

structure Env where
  size : Nat
  self : Nat
  txns : List Txn
  creator : String := "CREATOR"
  globals : List (String × Val) := []
deriving Repr, Inhabited

def addressFields : List String :=
  ["Sender", "Receiver", "CloseRemainderTo", "RekeyTo", "AssetCloseTo", "AssetSender", "AssetReceiver",
   "FreezeAssetAccount", "ConfigAssetManager", "ConfigAssetReserve", "ConfigAssetFreeze", "ConfigAssetClawback"]

/-- value of field `f` of transaction `i`; absent fields have the AVM zero value of their type -/
def Env.field (e : Env) (i : Nat) (f : String) : Option Val :=
  if i ≥ e.size then none else
  if f == "GroupIndex" then some (.int i) else
  match e.txns[i]? with
  | none => none
  | some t =>
    match t.fields.find? (·.1 == f) with
    | some (_, v) => some v
    | none => if addressFields.contains f then some (.bytes zeroAddress) else some (.int 0)

def Env.global (e : Env) (f : String) : Val :=
  if f == "GroupSize" then .int e.size
  else if f == "ZeroAddress" then .bytes zeroAddress
  else if f == "CreatorAddress" then .bytes e.creator
  else match e.globals.find? (·.1 == f) with
    | some (_, v) => v
    | none => .int 0

/-- field `f` of the inner transaction the program submitted last (`itxn f`, `gitxn t f`): NOT a member of the group - the
    environment carries it as the entry at position 16 of `txns`, beyond every group size; absent: the zero value of the type -/
def Env.inner (e : Env) (f : String) : Val :=
  let dflt : Val := if addressFields.contains f then .bytes zeroAddress else .int 0
  match e.txns[16]? with
  | none => dflt
  | some t =>
    match t.fields.find? (·.1 == f) with
    | some (_, v) => v
    | none => dflt

structure State where
  pc : Nat := 0
  stack : List Val := []            -- top of stack = END of the list
  scratch : List (Nat × Val) := []
  calls : List Nat := []
  intcs : List Nat := []
deriving Repr, Inhabited

inductive Outcome
  | next (s : State)
  | accept
  | reject (why : String)
  | unsupported (what : String)
deriving Repr, Inhabited

/-- named integer constants the assembler accepts after `int` -/
def namedConst : String → Option Nat
  | "NoOp" => some 0 | "OptIn" => some 1 | "CloseOut" => some 2 | "ClearState" => some 3
  | "UpdateApplication" => some 4 | "DeleteApplication" => some 5
  | "unknown" => some 0 | "pay" => some 1 | "keyreg" => some 2 | "acfg" => some 3 | "axfer" => some 4
  | "afrz" => some 5 | "appl" => some 6
  | _ => none

def intValOf : IntVal → Option Nat
  | .lit n => if n ≤ MAXU64 then some n else none
  | .named s => namedConst s

def labelPos (prog : List Ins) (l : String) : Option Nat :=
  (prog.zipIdx.reverse.find? fun (i, _) => i.op == .label l).map (·.2)

def pop1 (st : List Val) : Option (Val × List Val) :=
  match st.getLast? with
  | some v => some (v, st.dropLast)
  | none => none

def popInt (st : List Val) : Option (Nat × List Val) :=
  match pop1 st with
  | some (.int n, r) => some (n, r)
  | _ => none

def b2n (b : Bool) : Val := .int (if b then 1 else 0)

def scratchGet (s : State) (k : Nat) : Val :=
  match s.scratch.find? (·.1 == k) with | some (_, v) => v | none => .int 0

/-- stack-shuffling and scratch opcodes of the fragment that tealer parses into dedicated classes but the
    analyses treat generically; recognised by their printed form -/
def stepOther (e : Env) (s : State) (name : String) : Outcome :=
  let st := s.stack
  let n := st.length
  let adv (st' : List Val) : Outcome := .next { s with pc := s.pc + 1, stack := st' }
  match name.splitOn " " with
  | ["pop"] => match pop1 st with | some (_, r) => adv r | none => .reject "underflow"
  | ["dup"] => match st.getLast? with | some v => adv (st ++ [v]) | none => .reject "underflow"
  | ["dup2"] => if n ≥ 2 then adv (st ++ st.drop (n - 2)) else .reject "underflow"
  | ["swap"] =>
    if n ≥ 2 then adv (st.take (n - 2) ++ [st[n - 1]!, st[n - 2]!]) else .reject "underflow"
  | ["select"] =>
    if n ≥ 3 then
      match st[n - 1]! with
      | .int c => adv (st.take (n - 3) ++ [if c != 0 then st[n - 2]! else st[n - 3]!])
      | _ => .reject "type"
    else .reject "underflow"
  | ["dig", k] =>
    match k.toNat? with
    | some k => if k < n then adv (st ++ [st[n - 1 - k]!]) else .reject "underflow"
    | none => .unsupported name
  | ["cover", k] =>
    match k.toNat? with
    | some k =>
      if k < n then
        let top := st[n - 1]!
        let rest := st.dropLast
        adv (rest.take (n - 1 - k) ++ [top] ++ rest.drop (n - 1 - k))
      else .reject "underflow"
    | none => .unsupported name
  | ["uncover", k] =>
    match k.toNat? with
    | some k =>
      if k < n then
        let v := st[n - 1 - k]!
        adv (st.take (n - 1 - k) ++ st.drop (n - k) ++ [v])
      else .reject "underflow"
    | none => .unsupported name
  | ["bury", k] =>
    match k.toNat? with
    | some k =>
      if k == 0 then .reject "bury0" else
      if k < n then adv ((st.dropLast).set (n - 1 - k) st[n - 1]!) else .reject "underflow"
    | none => .unsupported name
  | ["popn", k] =>
    match k.toNat? with
    | some k => if k ≤ n then adv (st.take (n - k)) else .reject "underflow"
    | none => .unsupported name
  | ["dupn", k] =>
    match k.toNat?, st.getLast? with
    | some k, some v => adv (st ++ List.replicate k v)
    | some _, none => .reject "underflow"
    | none, _ => .unsupported name
  | ["load", k] =>
    match k.toNat? with
    | some k => adv (st ++ [scratchGet s k])
    | none => .unsupported name
  | ["store", k] =>
    match k.toNat?, pop1 st with
    | some k, some (v, r) =>
      .next { s with pc := s.pc + 1, stack := r, scratch := (k, v) :: s.scratch.filter (·.1 != k) }
    | some _, none => .reject "underflow"
    | none, _ => .unsupported name
  | ["itxn_begin"] => adv st
  | ["itxn_next"] => adv st
  | ["itxn_submit"] => adv st
  | ["itxn_field", _] => match pop1 st with | some (_, r) => adv r | none => .reject "underflow"
  | ["itxn", f] => adv (st ++ [e.inner f])
  | ["gitxn", _, f] => adv (st ++ [e.inner f])
  | "byte" :: rest => adv (st ++ [.bytes (" ".intercalate rest)])
  | "pushbytes" :: rest => adv (st ++ [.bytes (" ".intercalate rest)])
  | _ => .unsupported name

/-- one step of the machine on program `prog` under environment `e` -/
def step (prog : List Ins) (e : Env) (s : State) : Outcome :=
  match prog[s.pc]? with
  | none =>
    -- fell off the end: approve iff exactly one value is left and it is a non-zero integer
    match s.stack with
    | [.int n] => if n != 0 then .accept else .reject "zero"
    | _ => .reject "final-stack"
  | some i =>
    let st := s.stack
    let adv (st' : List Val) : Outcome := .next { s with pc := s.pc + 1, stack := st' }
    let jump (l : String) (st' : List Val) : Outcome :=
      match labelPos prog l with
      | some p => .next { s with pc := p, stack := st' }
      | none => .reject "label"
    match i.op with
    | .pragma _ | .label _ | .bytecblock => adv st
    | .b l => jump l st
    | .bz l => match popInt st with
      | some (n, r) => if n == 0 then jump l r else adv r
      | none => .reject "bz-arg"
    | .bnz l => match popInt st with
      | some (n, r) => if n != 0 then jump l r else adv r
      | none => .reject "bnz-arg"
    | .switch ls => match popInt st with
      | some (n, r) => match ls[n]? with | some l => jump l r | none => adv r
      | none => .reject "switch-arg"
    | .match_ ls =>
      let k := ls.length
      if st.length < k + 1 then .reject "underflow" else
      let v := st[st.length - 1]!
      let cands := (st.drop (st.length - 1 - k)).take k
      let r := st.take (st.length - 1 - k)
      -- all compared values must have the type of the matched value
      let sameTy (a b : Val) : Bool := match a, b with | .int _, .int _ => true | .bytes _, .bytes _ => true | _, _ => false
      if !cands.all (sameTy v) then .reject "type" else
      match (cands.zip ls).find? fun (c, _) => c == v with
      | some (_, l) => jump l r
      | none => adv r
    | .callsub l =>
      match labelPos prog l with
      | some p => .next { s with pc := p, calls := s.calls ++ [s.pc + 1] }
      | none => .reject "label"
    | .retsub =>
      match s.calls.getLast? with
      | some p => .next { s with pc := p, calls := s.calls.dropLast }
      | none => .reject "retsub-empty"
    | .err | .customErr => .reject "err"
    | .ret => match popInt st with
      | some (n, _) => if n != 0 then .accept else .reject "return-zero"
      | none => .reject "return-arg"
    | .assert => match popInt st with
      | some (n, r) => if n != 0 then adv r else .reject "assert"
      | none => .reject "assert-arg"
    | .int v | .pushint v => match intValOf v with
      | some n => adv (st ++ [.int n])
      | none => .reject "int-literal"
    | .intcblock cs => .next { s with pc := s.pc + 1, intcs := cs }
    | .intc k => match s.intcs[k]? with
      | some n => adv (st ++ [.int n])
      | none => .reject "intc"
    | .addr a => adv (st ++ [.bytes (if a == zeroAddressLiteral then zeroAddress else a)])
    | .txn f => match e.field e.self f with
      | some v => adv (st ++ [v])
      | none => .reject "txn"
    | .gtxn k f => match e.field k f with
      | some v => adv (st ++ [v])
      | none => .reject "gtxn-range"
    | .gtxns f => match popInt st with
      | some (k, r) => match e.field k f with
        | some v => adv (r ++ [v])
        | none => .reject "gtxns-range"
      | none => .reject "gtxns-arg"
    | .gtxnImm _ | .gtxnStk _ => .unsupported "gtxna"
    | .global f => adv (st ++ [e.global f])
    | .cmp c =>
      match pop1 st with
      | some (y, r1) =>
        match pop1 r1 with
        | some (x, r) =>
          match x, y with
          | .int a, .int b => adv (r ++ [b2n (c.eval a b)])
          | .bytes a, .bytes b =>
            (match c with
             | .eq => adv (r ++ [b2n (a == b)])
             | .neq => adv (r ++ [b2n (a != b)])
             | _ => .reject "type")
          | _, _ => .reject "type"
        | none => .reject "underflow"
      | none => .reject "underflow"
    | .and | .or =>
      match popInt st with
      | some (y, r1) =>
        match popInt r1 with
        | some (x, r) =>
          adv (r ++ [b2n (if i.op == .and then (x != 0 && y != 0) else (x != 0 || y != 0))])
        | none => .reject "logic-arg"
      | none => .reject "logic-arg"
    | .not => match popInt st with
      | some (x, r) => adv (r ++ [b2n (x == 0)])
      | none => .reject "not-arg"
    | .add =>
      match popInt st with
      | some (y, r1) => match popInt r1 with
        | some (x, r) => if x + y ≤ MAXU64 then adv (r ++ [.int (x + y)]) else .reject "overflow"
        | none => .reject "add-arg"
      | none => .reject "add-arg"
    | .sub =>
      match popInt st with
      | some (y, r1) => match popInt r1 with
        | some (x, r) => if y ≤ x then adv (r ++ [.int (x - y)]) else .reject "underflow-sub"
        | none => .reject "sub-arg"
      | none => .reject "sub-arg"
    | .other name _ _ => stepOther e s name

inductive Result
  | accept (trace : List Nat)
  | reject (why : String) (trace : List Nat)
  | outOfFuel (trace : List Nat)
  | unsupported (what : String) (trace : List Nat)
deriving Repr, Inhabited

/-- run with fuel, recording the pc trace (executed instruction positions, most recent first) -/
def runRev (prog : List Ins) (e : Env) : Nat → State → List Nat → Result
  | 0, _, tr => .outOfFuel tr
  | fuel + 1, s, tr =>
    let tr' := if s.pc < prog.length then s.pc :: tr else tr
    match step prog e s with
    | .next s' => runRev prog e fuel s' tr'
    | .accept => .accept tr'
    | .reject w => .reject w tr'
    | .unsupported w => .unsupported w tr'

def Result.mapTrace (f : List Nat → List Nat) : Result → Result
  | .accept t => .accept (f t)
  | .reject w t => .reject w (f t)
  | .outOfFuel t => .outOfFuel (f t)
  | .unsupported w t => .unsupported w (f t)

/-- run from the initial state; the trace is in execution order -/
def run (prog : List Ins) (e : Env) (fuel : Nat) : Result :=
  (runRev prog e fuel {} []).mapTrace List.reverse

def Accepts (prog : List Ins) (e : Env) : Prop := ∃ fuel tr, run prog e fuel = .accept tr

end Tealer.Avm
