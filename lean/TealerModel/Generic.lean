/-
  MODEL of tealer/analyses/dataflow/transaction_context/generic.py:
  _get_asserted, _block_level_constraints, _path_level_constraints, _calculate_reachin/_livein,
  forward_analyis / backward_analysis (worklists, with fuel), _update_gtxn_constraints, run_analysis.
-/
import TealerModel.Function
import TealerModel.Dom
namespace Tealer

variable {D : Type} [DecidableEq D]

def relOffsets : List Int :=
  ((List.range 31).map fun (i : Nat) => Int.ofNat i - 15).filter (· != 0)

/-- gtx_keys in the order run_analysis builds them -/
def gtxKeys (A : Analysis D) : List Key :=
  A.keysWithGtxn.flatMap fun base =>
    ((List.range MAX_GROUP_SIZE).flatMap fun i => [⟨base, .atIndex i⟩, ⟨base, .abs i⟩]) ++
      relOffsets.map fun k => ⟨base, .rel k⟩

def baseKeysOf (A : Analysis D) : List Key := A.baseKeys.map fun b => ⟨b, .self⟩

def isUnknownRef : Ref → Bool | none => true | some _ => false

/-- `_get_asserted(key, ins_stack_value)` for the value produced at position `p`;
    fuel bounds the expression depth (running out returns the universal sets) -/
def getAsserted (A : Analysis D) (intcs : Option (List Nat)) (a : Ast) (key : Key) : Nat → Nat → D × D
  | 0, _ => (A.univ key.base, A.univ key.base)
  | n + 1, p =>
    let U := A.univ key.base
    match a.opOf p with
    | .not =>
      match a.argsOf p with
      | [some (q, _)] => let r := getAsserted A intcs a key n q; (r.2, r.1)
      | _ => (U, U)
    | .and =>
      let eqs := flattenAst a .and (n + 1) (some (p, 0))
      let hasUnknown := eqs.any isUnknownRef
      let known := eqs.filterMap fun r => r.map (·.1)
      let t := known.foldl (fun acc q => A.dom.inter acc (getAsserted A intcs a key n q).1) U
      let f := known.foldl (fun acc q => A.dom.union acc (getAsserted A intcs a key n q).2) A.dom.null
      (t, if hasUnknown then U else f)
    | .or =>
      let eqs := flattenAst a .or (n + 1) (some (p, 0))
      let hasUnknown := eqs.any isUnknownRef
      let known := eqs.filterMap fun r => r.map (·.1)
      let f := known.foldl (fun acc q => A.dom.inter acc (getAsserted A intcs a key n q).2) U
      let t := known.foldl (fun acc q => A.dom.union acc (getAsserted A intcs a key n q).1) A.dom.null
      (if hasUnknown then U else t, f)
    | _ => A.single intcs a key p

/-- leaf positions at which `_get_asserted_single` is evaluated (used only to model exceptions) -/
def assertedLeaves (a : Ast) : Nat → Nat → List Nat
  | 0, _ => []
  | n + 1, p =>
    match a.opOf p with
    | .not =>
      match a.argsOf p with
      | [some (q, _)] => assertedLeaves a n q
      | _ => []
    | .and =>
      ((flattenAst a .and (n + 1) (some (p, 0))).filterMap fun r => r.map (·.1)).flatMap (assertedLeaves a n)
    | .or =>
      ((flattenAst a .or (n + 1) (some (p, 0))).filterMap fun r => r.map (·.1)).flatMap (assertedLeaves a n)
    | _ => [p]

/-- value asserted / returned / branched on by instruction `p` when it is known -/
def condArg (a : Ast) (p : Nat) : Option Nat :=
  match a.argsOf p with
  | [some (q, _)] => some q
  | _ => none

/-- `_block_level_constraints` for one key and one block -/
def blockConstraint (A : Analysis D) (intcs : Option (List Nat)) (b : FBlock) (key : Key) : D :=
  let a := constructAst b.ins
  let fuel := b.ins.length + 1
  (b.ins.zipIdx).foldl (fun ctx (i, p) =>
    match i.op with
    | .assert =>
      match condArg a p with
      | none => ctx
      | some q => A.dom.inter ctx (getAsserted A intcs a key fuel q).1
    | .ret =>
      match condArg a p with
      | none => ctx
      | some q =>
        if intPush intcs (a.opOf q) == some (some (.lit 0)) then A.dom.null
        else A.dom.inter ctx (getAsserted A intcs a key fuel q).1
    | .err | .customErr => A.dom.null
    | _ => ctx) (A.univ key.base)

/-- `_path_level_constraints`: constraint of the edge `pred → succ` for one key -/
def pathConstraint (A : Analysis D) (intcs : Option (List Nat)) (pred : FBlock) (succ : Nat) (key : Key) : D :=
  let U := A.univ key.base
  let a := constructAst pred.ins
  let p := pred.ins.length - 1
  let branch (isBz : Bool) : D :=
    match condArg a p with
    | none => U
    | some q =>
      let (t, f) := getAsserted A intcs a key (pred.ins.length + 1) q
      let (dflt, jump) : Option Nat × Option Nat :=
        match pred.next with
        | [j] => if pred.exitNexts > 1 then (none, none)   -- branch to the next instruction: no constraint
                 else (none, some j)
        | d :: j :: _ => (some d, some j)
        | [] => (none, none)
      -- the jump edge is written first, then the default edge
      if dflt == some succ then (if isBz then t else f)
      else if jump == some succ then (if isBz then f else t)
      else U
  match pred.exitOp with
  | some (.bz _) => branch true
  | some (.bnz _) => branch false
  | _ => U

/-! ### worklist solver over vectors of key values -/

def updMap {V : Type} (m : List (Nat × V)) (k : Nat) (v : V) : List (Nat × V) :=
  if m.any (·.1 == k) then m.map fun (k', v') => if k' == k then (k', v) else (k', v')
  else m ++ [(k, v)]

def getMap {V : Type} (m : List (Nat × V)) (k : Nat) (dflt : V) : V :=
  match m.find? (·.1 == k) with | some (_, v) => v | none => dflt

/-- the generic `while worklist:` loop: `F cur b` = new value of `b`; `deps b` = blocks re-queued when `b` changes;
    `skip b` = blocks for which the merge returns False immediately -/
def worklistRun {V : Type} [DecidableEq V] (F : List (Nat × V) → Nat → V) (deps : Nat → List Nat)
    (dflt : V) : Nat → List (Nat × V) → List Nat → Option (List (Nat × V))
  | 0, _, _ => none
  | _ + 1, cur, [] => some cur
  | fuel + 1, cur, b :: rest =>
    let v := F cur b
    if v = getMap cur b dflt then worklistRun F deps dflt fuel cur rest
    else
      let wl := (deps b).foldl (fun wl d => if wl.contains d then wl else wl ++ [d]) rest
      worklistRun F deps dflt fuel (updMap cur b v) wl

/-- `_postorder(entry)` over local successors -/
def postorder (f : Function) (entry : Nat) : List Nat :=
  let rec dfs (fuel : Nat) (b : Nat) (st : List Nat × List Nat) : List Nat × List Nat :=
    match fuel with
    | 0 => st
    | fuel + 1 =>
      let (visited, order) := st
      let visited := visited ++ [b]
      let nx := match f.block? b with | some blk => blk.next | none => []
      let (visited, order) := nx.foldl (fun st s =>
        if st.1.contains s then st else dfs fuel s st) (visited, order)
      (visited, order ++ [b])
  (dfs (f.blocks.length + 1) entry ([], [])).2

structure Graph where
  keys : List Nat                      -- function.blocks
  entry : Nat
  nextG : Nat → List Nat
  prevG : Nat → List Nat
  isLeaf : Nat → Bool
  retPointOf : Nat → Option Nat        -- for callsub blocks with a return point
  callsubOf : Nat → Option Nat         -- for return-point blocks
  calleeHasRetsub : Nat → Bool         -- callsub block whose callee has retsub blocks
  postorders : List (List Nat)

/-- everything generic.py looks up, with the exceptions it can raise made explicit -/
def mkGraph (f : Function) : Except Err Graph := do
  let keys := f.blocks.map (·.key)
  let nexts ← f.blocks.mapM fun b => do pure (b.key, ← f.nextGlobal b)
  let prevs ← f.blocks.mapM fun b => do pure (b.key, ← f.prevGlobal b)
  let nextG (k : Nat) : List Nat := getMap nexts k []
  let prevG (k : Nat) : List Nat := getMap prevs k []
  -- dictionary lookups of _calculate_reachin / _calculate_livein
  for (k, ps) in prevs do
    for p in ps do
      if !keys.contains p then throw "KeyError"
      if !(nextG p).contains k then throw "KeyError"
  for (_, ns) in nexts do
    for n in ns do
      if !keys.contains n then throw "KeyError"
  for b in f.blocks do
    match f.callsubBlockOf b with
    | some c => if !keys.contains c then throw "KeyError"
    | none => pure ()
    if b.isCallsub then
      match b.retPoint with
      | some r => if !keys.contains r then throw "KeyError"
      | none => pure ()
  let blk (k : Nat) : Option FBlock := f.block? k
  pure {
    keys, entry := f.entry, nextG, prevG,
    isLeaf := fun k => match blk k with | some b => b.isLeaf | none => false
    retPointOf := fun k => match blk k with | some b => if b.isCallsub then b.retPoint else none | none => none
    callsubOf := fun k => match blk k with | some b => f.callsubBlockOf b | none => none
    calleeHasRetsub := fun k => match blk k with
      | some b => (match b.calledSub.bind fun n => f.subs.find? (·.name == n) with
                   | some s => s.retsubs.length != 0 | none => false)
      | none => false
    postorders := postorder f f.entry :: f.subs.map fun s => postorder f s.entry }

/-- RCHout(b) for one key: `_merge_information_forward` / `_calculate_reachin`.
    The Python solves all keys of an analysis in one worklist; the keys never interact, so the model solves
    them one at a time (that the schedule is immaterial is what C14_confluence is about, and the
    correspondence check compares the results). -/
def fwdF (A : Analysis D) (g : Graph) (univ : D) (blockCtx : Nat → D)
    (pathCtx : Nat → Nat → D) (cur : List (Nat × D)) (b : Nat) : D :=
  let rout (k : Nat) : D := getMap cur k A.dom.null
  let init : D := if b == g.entry then univ else A.dom.null
  let r0 := (g.prevG b).foldl (fun acc p => A.dom.union acc (A.dom.inter (rout p) (pathCtx b p))) init
  let r1 := match g.callsubOf b with
    | some c => A.dom.inter r0 (rout c)
    | none => r0
  A.dom.inter r1 (blockCtx b)

/-- LIVEout(b) for one key: `_merge_information_backward` / `_calculate_livein` -/
def bwdF (A : Analysis D) (g : Graph) (blockCtx : Nat → D) (cur : List (Nat × D)) (b : Nat) : D :=
  let lout (k : Nat) : D := getMap cur k A.dom.null
  if g.isLeaf b then lout b else
  let l0 := (g.nextG b).foldl (fun acc n => A.dom.union acc (lout n)) A.dom.null
  let l1 := match g.retPointOf b with
    | some r => if g.calleeHasRetsub b then A.dom.inter l0 (lout r) else l0
    | none => l0
  A.dom.inter l1 (blockCtx b)

def fwdDeps (g : Graph) (b : Nat) : List Nat :=
  g.nextG b ++ (match g.retPointOf b with | some r => [r] | none => [])

def bwdDeps (g : Graph) (b : Nat) : List Nat :=
  g.prevG b ++ (match g.callsubOf b with | some c => [c] | none => [])

def solverFuel (g : Graph) : Nat := (g.keys.length + 2) * (g.keys.length + 2) * 64 + 1000

def fwdWorklist (g : Graph) : List Nat := g.postorders.flatMap List.reverse
def bwdWorklist (g : Graph) : List Nat := g.postorders.flatMap fun l => l.filter fun b => !g.isLeaf b

/-- forward_analyis for one key -/
def solveFwd (A : Analysis D) (g : Graph) (univ : D) (blockCtx : Nat → D) (pathCtx : Nat → Nat → D) :
    Option (List (Nat × D)) :=
  worklistRun (fwdF A g univ blockCtx pathCtx) (fwdDeps g) A.dom.null (solverFuel g)
    (g.keys.map fun k => (k, A.dom.null)) (fwdWorklist g)

/-- backward_analysis for one key, on the forward solution `ctx1` -/
def solveBwd (A : Analysis D) (g : Graph) (ctx1 : Nat → D) : Option (List (Nat × D)) :=
  worklistRun (bwdF A g ctx1) (bwdDeps g) A.dom.null (solverFuel g)
    (g.keys.map fun k => (k, if g.isLeaf k then ctx1 k else A.dom.null)) (bwdWorklist g)

/-- forward_analyis followed by backward_analysis for one key -/
def solve (A : Analysis D) (g : Graph) (univ : D) (blockCtx : Nat → D)
    (pathCtx : Nat → Nat → D) : Except Err (List (Nat × D)) := do
  let rout ← match solveFwd A g univ blockCtx pathCtx with
    | some r => pure r
    | none => throw "Timeout"
  match solveBwd A g (fun k => getMap rout k A.dom.null) with
  | some r => pure r
  | none => throw "Timeout"

/-- `_update_gtxn_constraints`, one entry: the at-index context `GTXN_i_field` of a block is narrowed by what is known of the own
    transaction when `i` is a possible own index, and is empty otherwise -/
def updateGtxn (A : Analysis D) (groupIndices : List Nat) (i : Nat) (v base : D) : D :=
  if groupIndices.contains i then A.dom.inter v base else A.dom.null

structure AnalysisResult (D : Type) where
  blockC : List (Key × List (Nat × D))     -- step-1 block constraints per key (gtx keys: after _update_gtxn_constraints)
  vals : List (Key × List (Nat × D))       -- final solution per key

/-- run_analysis.  `groupIndices b` = `function.transaction_context(b).group_indices` (stored by GroupIndices) -/
def runAnalysis (A : Analysis D) (f : Function) (groupIndices : Nat → List Nat) :
    Except Err (AnalysisResult D) := do
  let g ← mkGraph f
  let bkeys := baseKeysOf A
  let gkeys := gtxKeys A
  let allKeys := bkeys ++ gkeys
  -- exceptions raised by the leaf matchers while step 1 runs
  for b in f.blocks do
    let a := constructAst b.ins
    for (i, p) in b.ins.zipIdx do
      let isCond := match i.op with
        | .assert | .ret => true
        | .bz _ | .bnz _ => p + 1 == b.ins.length
        | _ => false
      if isCond then
        match condArg a p with
        | some q =>
          let skip := (i.op == .ret) && intPush f.intcs (a.opOf q) == some (some (.lit 0))
          if !skip then
            for l in assertedLeaves a (b.ins.length + 1) q do
              for key in allKeys do
                if A.raises f.intcs a key l then throw "KeyError"
        | none => pure ()
    if (match b.exitOp with | some (.bz _) | some (.bnz _) => true | _ => false) && b.next.isEmpty then
      throw "IndexError"
  let blk (k : Nat) : FBlock := (f.block? k).getD default
  let bc (key : Key) : List (Nat × D) := f.blocks.map fun b => (b.key, blockConstraint A f.intcs b key)
  let pc (key : Key) (succ pred : Nat) : D := pathConstraint A f.intcs (blk pred) succ key
  let baseRes ← bkeys.mapM fun key => do
    let c := bc key
    let r ← solve A g (A.univ key.base) (fun k => getMap c k A.dom.null) (pc key)
    pure (key, c, r)
  let baseVal (k : Nat) (baseName : String) : D :=
    match baseRes.find? fun (key, _, _) => key.base == baseName with
    | some (_, _, r) => getMap r k A.dom.null
    | none => A.dom.null
  let gtxRes ← gkeys.mapM fun key => do
    let c0 := bc key
    -- _update_gtxn_constraints
    let c := match key.kind with
      | .atIndex i => c0.map fun (k, v) =>
          (k, updateGtxn A (groupIndices k) i v (baseVal k key.base))
      | _ => c0
    let r ← solve A g (A.univ key.base) (fun k => getMap c k A.dom.null) (pc key)
    pure (key, c, r)
  let all := baseRes ++ gtxRes
  pure { blockC := all.map fun (k, c, _) => (k, c), vals := all.map fun (k, _, r) => (k, r) }

end Tealer
