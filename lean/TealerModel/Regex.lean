/-
  MODEL of tealer/utils/regex/regex.py: _is_equal / _is_match / _find_instructions / match_regex over the
  instruction-level successor lists built by parse_teal (Teal.insNexts).
-/
import TealerModel.Cfg
namespace Tealer.Regex

structure IG where
  next : Nat → List Nat            -- Instruction.next (positions in the full instruction list)
  same : Nat → Nat → Bool          -- _is_equal(instruction at position, k-th pattern instruction): same class, same str()

/-- `_is_match(current, regex)` from pattern position `k` on, `n` pattern instructions left -/
def isMatch (g : IG) : Nat → Nat → Option Nat → Bool
  | 0, _, _ => true
  | _ + 1, _, none => false
  | n + 1, k, some c =>
    g.same c k && isMatch g n (k + 1) (if (g.next c).length == 1 then (g.next c).head? else none)

/-- the instructions of a match: follow the unique successors -/
def matchList (g : IG) : Nat → Nat → List Nat
  | 0, c => [c]
  | n + 1, c => c :: (match (g.next c).head? with | some d => matchList g n d | none => [])

structure St where
  visited : List Nat := []
  matches_ : List (List Nat) := []
  covered : List Nat := []

/-- `_find_instructions`; returns (reaches, state) -/
def find (g : IG) (plen : Nat) : Nat → Nat → St → Bool × St
  | 0, _, st => (false, st)
  | fuel + 1, cur, st =>
    if st.visited.contains cur then (false, st) else
    let st := { st with visited := cur :: st.visited }
    let hit := isMatch g plen 0 (some cur)
    let st := if hit then { st with matches_ := st.matches_ ++ [matchList g (plen - 1) cur] } else st
    (g.next cur).foldl (fun (acc : Bool × St) nx =>
      if acc.2.covered.contains nx then acc else
      let (r, st') := find g plen fuel nx acc.2
      if r then (true, { st' with covered := cur :: st'.covered }) else (acc.1, st')) (hit, st)

/-- match_regex from the start instruction -/
def matchRegex (g : IG) (plen n start : Nat) : List (List Nat) × List Nat :=
  let (_, st) := find g plen (n + 1) start {}
  (st.matches_, st.covered)

/-- reachability along instruction-level control flow -/
inductive Reach (g : IG) (s : Nat) : Nat → Prop
  | refl : Reach g s s
  | step (a b) : Reach g s a → b ∈ g.next a → Reach g s b

end Tealer.Regex
