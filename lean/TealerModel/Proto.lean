/-
  Line protocol between the Python harness and the model driver: decoding of requests and
  canonical rendering of model results.
-/
import TealerModel.Detect
namespace Tealer.Proto

def hexVal (c : Char) : Nat :=
  if '0' ≤ c && c ≤ '9' then c.toNat - '0'.toNat
  else if 'a' ≤ c && c ≤ 'f' then c.toNat - 'a'.toNat + 10
  else if 'A' ≤ c && c ≤ 'F' then c.toNat - 'A'.toNat + 10
  else 0

/-- percent-decoding of one protocol field -/
def pdecode (s : String) : String :=
  let rec go : List Char → List Char
    | '%' :: a :: b :: rest => Char.ofNat (hexVal a * 16 + hexVal b) :: go rest
    | c :: rest => c :: go rest
    | [] => []
  String.ofList (go s.toList)

def pencode (s : String) : String :=
  String.join (s.toList.map fun c =>
    if c == '%' then "%25" else if c == ',' then "%2C" else if c == ' ' then "%20"
    else if c == '\n' then "%0A" else if c == '|' then "%7C" else if c == '=' then "%3D" else c.toString)

def parseIntVal (lit : Bool) (s : String) : Option IntVal :=
  if lit then s.toNat?.map IntVal.lit else some (IntVal.named s)

def parseOp (name : String) (args : List String) : Option Op :=
  match name, args with
  | "pragma", [v] => v.toNat?.map Op.pragma
  | "label", [l] => some (.label l)
  | "b", [l] => some (.b l)
  | "bz", [l] => some (.bz l)
  | "bnz", [l] => some (.bnz l)
  | "switch", ls => some (.switch ls)
  | "match", ls => some (.match_ ls)
  | "callsub", [l] => some (.callsub l)
  | "retsub", [] => some .retsub
  | "err", [] => some .err
  | "ret", [] => some .ret
  | "assert", [] => some .assert
  | "int", [n] => (parseIntVal true n).map Op.int
  | "intn", [n] => (parseIntVal false n).map Op.int
  | "pushint", [n] => (parseIntVal true n).map Op.pushint
  | "pushintn", [n] => (parseIntVal false n).map Op.pushint
  | "intcblock", ns => (ns.mapM String.toNat?).map Op.intcblock
  | "bytecblock", _ => some .bytecblock
  | "intc", [i] => i.toNat?.map Op.intc
  | "addr", [a] => some (.addr a)
  | "txn", [f] => some (.txn f)
  | "gtxn", [i, f] => i.toNat?.map fun i => .gtxn i f
  | "gtxns", [f] => some (.gtxns f)
  | "gtxnimm", [p] => p.toNat?.map Op.gtxnImm
  | "gtxnstk", [p] => p.toNat?.map Op.gtxnStk
  | "global", [f] => some (.global f)
  | "cmp", [c] => (Cmp.ofStr? c).map Op.cmp
  | "and", [] => some .and
  | "or", [] => some .or
  | "not", [] => some .not
  | "add", [] => some .add
  | "sub", [] => some .sub
  | "customerr", [] => some .customErr
  | "other", [n, p, q] => do some (.other n (← p.toNat?) (← q.toNat?))
  | _, _ => none

/-- token = `line,text,op,arg,...` (fields percent-encoded) -/
def parseIns (tok : String) : Option Ins :=
  match (tok.splitOn ",").map pdecode with
  | line :: text :: name :: args => do
    let l ← line.toNat?
    let op ← parseOp name args
    some { line := l, op, text }
  | _ => none

def natList (l : List Nat) : String := ",".intercalate (l.map toString)

def renderRef : Ref → String
  | none => "?"
  | some (p, o) => toString p ++ "." ++ toString o

def renderAddr (a : AddrFV) : String :=
  (if a.any then "A" else "") ++ (if a.no then "N" else "") ++ "[" ++ ";".intercalate a.addrs ++ "]"

def renderCtx (c : Ctx) : String :=
  "sizes=" ++ natList c.sizes ++ " indices=" ++ natList c.indices ++ " types=" ++ natList c.types ++
  " rekey=" ++ renderAddr c.rekeyto ++ " close=" ++ renderAddr c.closeto ++
  " aclose=" ++ renderAddr c.assetcloseto ++ " sender=" ++ renderAddr c.sender ++
  " fee=" ++ (if c.maxFeeUnknown then "unknown" else toString c.maxFee)

/-- the value of a derived context nobody constrained (not printed, on both sides) -/
def defaultTail : Ctx := tailCtx

end Tealer.Proto
