/-
  Syntax of the modelled TEAL fragment, as produced by tealer's line parser
  (tealer/teal/instructions/parse_instruction.py).  Import-free so that the driver links.
-/
namespace Tealer

inductive Cmp | eq | neq | lt | le | gt | ge
deriving DecidableEq, Repr, Inhabited

def Cmp.eval : Cmp → Nat → Nat → Bool
  | .eq, x, c => x == c
  | .neq, x, c => x != c
  | .lt, x, c => decide (x < c)
  | .le, x, c => decide (x ≤ c)
  | .gt, x, c => decide (x > c)
  | .ge, x, c => decide (x ≥ c)

/-- the comparison that holds for (b, a) exactly when the given one holds for (a, b) -/
def Cmp.mirror : Cmp → Cmp
  | .lt => .gt | .le => .ge | .gt => .lt | .ge => .le | c => c

theorem Cmp.mirror_eval (c : Cmp) (a b : Nat) : c.mirror.eval a b = c.eval b a := by
  cases c <;> simp [Cmp.mirror, Cmp.eval, bne, Bool.beq_comm]

def Cmp.toStr : Cmp → String
  | .eq => "==" | .neq => "!=" | .lt => "<" | .le => "<=" | .gt => ">" | .ge => ">="

def Cmp.ofStr? : String → Option Cmp
  | "==" => some .eq | "!=" => some .neq | "<" => some .lt
  | "<=" => some .le | ">" => some .gt | ">=" => some .ge | _ => none

/-- value of an `int` / `pushint` immediate: a literal, or a named constant that tealer keeps symbolic -/
inductive IntVal
  | lit (n : Nat)
  | named (s : String)
deriving DecidableEq, Repr, Inhabited

/-- The instruction classes the analyses distinguish; everything else is `other` with its stack effect. -/
inductive Op
  | pragma (v : Nat)
  | label (l : String)
  | b (l : String)
  | bz (l : String)
  | bnz (l : String)
  | switch (ls : List String)
  | match_ (ls : List String)
  | callsub (l : String)
  | retsub
  | err
  | ret
  | assert
  | int (v : IntVal)
  | pushint (v : IntVal)
  | intcblock (cs : List Nat)
  | bytecblock
  | intc (i : Nat)
  | addr (a : String)
  | txn (f : String)
  | gtxn (i : Nat) (f : String)
  | gtxns (f : String)
  | gtxnImm (pops : Nat)          -- gtxna t f i (0 pops) / gtxnas t f (1 pop): immediate group index
  | gtxnStk (pops : Nat)          -- gtxnsa f i (1 pop) / gtxnsas f (2 pops): index from the stack
  | global (f : String)
  | cmp (c : Cmp)
  | and
  | or
  | not
  | add
  | sub
  | customErr                     -- TealerCustomErrInstruction (only in constructed functions)
  | other (name : String) (pops pushes : Nat)
deriving DecidableEq, Repr, Inhabited

structure Ins where
  line : Nat
  op : Op
  text : String := ""        -- `str(instruction)` as printed by tealer
deriving DecidableEq, Repr, Inhabited

/-- number of stack values consumed (tealer's `stack_pop_size`) -/
def Op.pops : Op → Nat
  | .bz _ | .bnz _ | .switch _ | .ret | .assert | .gtxns _ | .not => 1
  | .match_ ls => ls.length + 1
  | .gtxnStk p => p
  | .gtxnImm p => p
  | .cmp _ | .and | .or | .add | .sub => 2
  | .other _ p _ => p
  | _ => 0

/-- number of stack values produced (tealer's `stack_push_size`) -/
def Op.pushes : Op → Nat
  | .int _ | .pushint _ | .intc _ | .addr _ | .txn _ | .gtxn _ _ | .gtxns _ | .gtxnImm _
  | .gtxnStk _ | .global _ | .cmp _ | .and | .or | .not | .add | .sub => 1
  | .other _ _ p => p
  | _ => 0

def Op.isLabel : Op → Bool | .label _ => true | _ => false
def Op.isCallsub : Op → Bool | .callsub _ => true | _ => false
def Op.isRetsub : Op → Bool | .retsub => true | _ => false
def Op.isB : Op → Bool | .b _ => true | _ => false
/-- `B, Err, Return, Retsub`: no default edge to the following instruction (first_pass) -/
def Op.noFallthrough : Op → Bool
  | .b _ | .err | .ret | .retsub => true
  | _ => false
/-- labels of the jump edges added by second_pass, in order -/
def Op.jumpLabels : Op → List String
  | .b l | .bz l | .bnz l => [l]
  | .switch ls | .match_ ls => ls
  | _ => []

end Tealer
