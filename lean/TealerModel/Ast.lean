/-
  MODEL of tealer/analyses/utils/stack_ast_builder.py (Stack, construct_stack_ast, _flatten_ast,
  compute_equations), of tealer/utils/analyses.py is_int_push_ins, and of
  tealer/analyses/dataflow/transaction_context/utils/{group_helpers,key_helpers}.py.

  A stack value is a reference to (position of the producing instruction in the block, output index),
  or `none` for UnknownStackValue.
-/
import TealerModel.Syntax
namespace Tealer

abbrev Ref := Option (Nat × Nat)

/-- `Stack.pop_n_values`: top of stack is the END of the list; the result keeps stack order -/
def popN (st : List Ref) (k : Nat) : List Ref × List Ref :=
  if k ≤ st.length then (st.drop (st.length - k), st.take (st.length - k))
  else (List.replicate (k - st.length) none ++ st, [])

/-- one step of construct_stack_ast for the instruction at position `p` -/
def astStep (st : List Ref) (p : Nat) (op : Op) : List Ref × List Ref :=
  let (args, rest) := popN st op.pops
  (args, rest ++ (List.range op.pushes).map fun j => some (p, j))

structure Ast where
  ins : List Ins
  args : List (List Ref)      -- args[p] = stack arguments of instruction p (first pushed first)
deriving Repr, Inhabited

def constructAst (ins : List Ins) : Ast :=
  let (_, args) := (ins.zipIdx).foldl (fun (st, acc) (i, p) =>
    let (a, st') := astStep st p i.op
    (st', acc ++ [a])) (([] : List Ref), ([] : List (List Ref)))
  { ins, args }

def Ast.opOf (a : Ast) (p : Nat) : Op := match a.ins[p]? with | some i => i.op | none => .err
def Ast.textOf (a : Ast) (p : Nat) : String := match a.ins[p]? with | some i => i.text | none => ""
def Ast.argsOf (a : Ast) (p : Nat) : List Ref := a.args[p]?.getD []

/-- is_int_push_ins: `none` = not an int push, `some none` = int push of unknown value -/
def intPush (intcs : Option (List Nat)) : Op → Option (Option IntVal)
  | .int v | .pushint v => some (some v)
  | .intc i =>
    match intcs with
    | some cs => match cs[i]? with | some n => some (some (.lit n)) | none => some none
    | none => some none
  | _ => none

/-- the literal integer pushed, when tealer knows it and it is an `int` (not a named constant) -/
def intLit (intcs : Option (List Nat)) (op : Op) : Option Nat :=
  match intPush intcs op with
  | some (some (.lit n)) => some n
  | _ => none

inductive IndexType
  | self
  | absolute (i : Nat)
  | relative (k : Int)
  | unknown
deriving DecidableEq, Repr, Inhabited

def isGroupIndexRead (a : Ast) : Ref → Bool
  | some (p, _) => a.opOf p == .txn "GroupIndex"
  | none => false

/-- group_helpers._get_index -/
def getIndex (intcs : Option (List Nat)) (a : Ast) (p : Nat) : IndexType :=
  let op := a.opOf p
  if op == .txn "GroupIndex" then .self else
  match intPush intcs op with
  | some (some (.lit n)) => .absolute n
  | some _ => .unknown
  | none =>
    match op, a.argsOf p with
    | .sub, [some (p1, o1), some (p2, _)] =>
      if !isGroupIndexRead a (some (p1, o1)) then .unknown else
      match intLit intcs (a.opOf p2) with
      | some n => .relative (-(n : Int))
      | none => .unknown
    | .add, [some (p1, o1), some (p2, o2)] =>
      let offArg := if isGroupIndexRead a (some (p1, o1)) then some p2
                    else if isGroupIndexRead a (some (p2, o2)) then some p1 else none
      match offArg with
      | none => .unknown
      | some q =>
        match intLit intcs (a.opOf q) with
        | some n => .relative (n : Int)
        | none => .unknown
    | _, _ => .unknown

/-- group_helpers.get_index_and_field: for a known stack value produced at position `p` -/
def getIndexAndField (intcs : Option (List Nat)) (a : Ast) (p : Nat) : Option (IndexType × String) :=
  match a.opOf p with
  | .txn f => some (.self, f)
  | .gtxn i f => some (.absolute i, f)
  | .gtxns f =>
    match a.argsOf p with
    | [some (q, _)] => some (getIndex intcs a q, f)
    | _ => some (.unknown, f)
  | _ => none

inductive KeyKind
  | self
  | atIndex (i : Nat)
  | abs (i : Nat)
  | rel (k : Int)
deriving DecidableEq, Repr, Inhabited

structure Key where
  base : String
  kind : KeyKind
deriving DecidableEq, Repr, Inhabited

/-- key_helpers.is_value_matches_key (with `key_field` when given) -/
def valueMatchesKey (intcs : Option (List Nat)) (a : Ast) (key : Key) (r : Ref)
    (keyField : Option String := none) : Bool :=
  match r with
  | none => false
  | some (p, _) =>
    match getIndexAndField intcs a p with
    | none => false
    | some (ix, f) =>
      if ix == .unknown then false else
      let field := keyField.getD key.base
      if f != field then false else
      match key.kind with
      | .atIndex i | .abs i => ix == .absolute i
      | .rel k => ix == .relative k
      | .self => ix == .self

/-- `_flatten_ast(root, node_ins)`; fuel bounds the depth (≤ number of instructions of the block) -/
def flattenAst (a : Ast) (node : Op) : Nat → Ref → List Ref
  | 0, r => [r]
  | _, none => [none]
  | n + 1, some (p, o) =>
    if a.opOf p == node then
      match a.argsOf p with
      | [l, r] => flattenAst a node n l ++ flattenAst a node n r
      | _ => [some (p, o)]
    else [some (p, o)]

end Tealer
