/-
  MODEL of tealer/teal/parse_teal.py: passes 1-4 over the parsed instruction list, block indices,
  subroutine discovery, unreachable-block pruning, caller / return-point tables.
  Kept statement-by-statement close to the Python; every Python operation that can raise is an
  explicit `Except`.
-/
import TealerModel.Syntax
namespace Tealer

abbrev Err := String

/-- Python `list.remove(x)`: remove the first occurrence; `ValueError` if absent -/
def removeFirst [BEq α] (l : List α) (x : α) : Except Err (List α) :=
  if l.contains x then .ok (l.erase x) else .error "ValueError"

def lookupLabel (labels : List (String × Nat)) (l : String) : Except Err Nat :=
  -- dict semantics: the last definition wins
  match labels.reverse.find? (·.1 == l) with
  | some (_, i) => .ok i
  | none => .error "KeyError"

/-- label table built by first_pass: label name ↦ instruction position -/
def labelTable (ins : List Ins) : List (String × Nat) :=
  (ins.zipIdx).filterMap fun (i, k) =>
    match i.op with
    | .label l => some (l, k)
    | _ => none

/-- `Instruction.next` after first_pass + second_pass: default successor first, then jump targets in operand order -/
def insNext (ins : List Ins) : Except Err (List (List Nat)) := do
  let labels := labelTable ins
  let n := ins.length
  (ins.zipIdx).mapM fun (i, k) => do
    let dflt := if !i.op.noFallthrough && k + 1 < n then [k + 1] else []
    let jumps ← i.op.jumpLabels.mapM (lookupLabel labels)
    pure (dflt ++ jumps)

/-- `Instruction.prev`: default predecessor first (first_pass), then jump sources in instruction order (second_pass) -/
def insPrev (ins : List Ins) (nexts : List (List Nat)) : List (List Nat) :=
  (ins.zipIdx).map fun (_, k) =>
    let dflt := match k with
      | 0 => []
      | k' + 1 => match ins[k']? with
        | some p => if p.op.noFallthrough then [] else [k']
        | none => []
    -- jump edges: for every source (in order), one entry per jump label that resolves to k
    let labels := labelTable ins
    let jumps := (ins.zipIdx).flatMap fun (j, kj) =>
      j.op.jumpLabels.filterMap fun l =>
        match lookupLabel labels l with
        | .ok t => if t == k then some kj else none
        | .error _ => none
    let _ := nexts
    dflt ++ jumps

/-- state of create_bb: finished blocks (creation order), the current block, default edges -/
structure BBState where
  done : List (List Nat) := []
  cur : List Nat := []
  edges : List (Nat × Nat) := []

def BBState.close (s : BBState) (withEdge : Bool) : BBState :=
  let id := s.done.length
  { done := s.done ++ [s.cur], cur := [],
    edges := if withEdge then s.edges ++ [(id, id + 1)] else s.edges }

/-- one iteration of the loop of create_bb -/
def createBBStep (n : Nat) (s : BBState) (x : Ins × Nat × List Nat) : BBState :=
  let (i, k, nx) := x
  let isLast := k + 1 == n
  let s := if i.op.isLabel && !s.cur.isEmpty then s.close true else s
  let s := { s with cur := s.cur ++ [k] }
  if nx.length > 1 || i.op.isCallsub then
    if isLast then s else
    let s := s.close true
    if nx.length == 0 || i.op.isB then s.close false else s
  else if nx.length == 0 || i.op.isB then
    if isLast then s else s.close false
  else s

/-- third pass: blocks as lists of instruction positions (creation order) and the default edges -/
def createBB (ins : List Ins) (nexts : List (List Nat)) : List (List Nat) × List (Nat × Nat) :=
  let xs := (ins.zipIdx).zipWith (fun (i, k) nx => (i, k, nx)) nexts
  let s := xs.foldl (createBBStep ins.length) {}
  (s.done ++ [s.cur], s.edges)

structure RawBlock where
  ins : List Nat            -- instruction positions
  next : List Nat := []     -- block ids
  prev : List Nat := []
deriving Repr, Inhabited

def blockOfIns (blocks : List (List Nat)) (k : Nat) : Except Err Nat :=
  match (blocks.zipIdx).find? (fun (b, _) => b.contains k) with
  | some (_, id) => .ok id
  | none => .error "AttributeError"

def addEdge (bs : List RawBlock) (a b : Nat) : List RawBlock :=
  (bs.zipIdx).map fun (blk, id) =>
    let blk := if id == a then { blk with next := blk.next ++ [b] } else blk
    if id == b then { blk with prev := blk.prev ++ [a] } else blk

/-- fourth pass: jump edges between blocks, skipping an edge already present -/
def fourthPass (blocks : List (List Nat)) (nexts : List (List Nat)) (bs : List RawBlock) :
    Except Err (List RawBlock) :=
  (List.range bs.length).foldlM (init := bs) fun bs id => do
    let blk := bs[id]!
    match blk.ins.getLast? with
    | none => .error "IndexError"          -- exit_instr of an empty block
    | some ex =>
      (nexts[ex]!).foldlM (init := bs) fun bs t => do
        let nb ← blockOfIns blocks t
        if (bs[id]!).next.contains nb then pure bs
        else if (bs[nb]!).prev.contains id then .error "AssertionError"
        else pure (addEdge bs id nb)

/-- identify_subroutine_blocks: iterative DFS with an explicit stack, visiting order as in the Python -/
def identifyBlocks (bs : List RawBlock) (entry : Nat) : List Nat :=
  let rec go (fuel : Nat) (stack out : List Nat) : List Nat :=
    match fuel with
    | 0 => out
    | fuel + 1 =>
      match stack.getLast? with
      | none => out
      | some bb =>
        let stack := stack.dropLast
        let out := out ++ [bb]
        let stack := (bs[bb]!).next.foldl (fun st nb =>
          if !out.contains nb && !st.contains nb then st ++ [nb] else st) stack
        go fuel stack out
  go (bs.length + 1) [entry] []

structure Sub where
  name : String
  entry : Nat
  blocks : List Nat
  exits : List Nat
  callers : List Nat
  retPoints : List Nat
deriving Repr, Inhabited, DecidableEq

structure Block where
  idx : Nat
  ins : List Ins
  next : List Nat
  prev : List Nat
  sub : Option String        -- owning subroutine (`none` for blocks never assigned one: unreachable)
  exitNexts : Nat := 0       -- len(exit_instr.next) as built by passes 1-2
deriving Repr, Inhabited, DecidableEq

structure Teal where
  version : Nat
  allBlocks : List Block     -- every block created (after the pruning edits), by idx
  live : List Nat            -- `Teal.bbs`: retained blocks, sorted by idx
  main : Sub
  subs : List Sub            -- dict order (first callsub occurrence)
  intcs : Option (List Nat)  -- constants of a unique entry-block intcblock
  insNexts : List (List Nat) -- instruction-level successor lists after pruning
  insPrevs : List (List Nat)
  instrs : List Ins          -- `Teal.instructions` after pruning
deriving Repr, Inhabited

def mainName : String := "__main__"

/-- callsub labels in order of first occurrence (dict insertion order of `subroutine_callsubs`) -/
def callsubLabels (ins : List Ins) : List String :=
  (ins.filterMap fun i => match i.op with | .callsub l => some l | _ => none).eraseDups

/-- each callsub label with the positions of its callsub instructions -/
def callsubTable (ins : List Ins) : List (String × List Nat) :=
  (callsubLabels ins).map fun l =>
    (l, (ins.zipIdx).filterMap fun (i, k) => if i.op == .callsub l then some k else none)

def exitOp (ins : List Ins) (b : RawBlock) : Option Op :=
  b.ins.getLast?.bind fun k => ins[k]?.map (·.op)

/-- the pruning loop of parse_teal (l.538-552) applied to one unreachable block `bi` -/
def pruneOne (bs : List RawBlock) (bi : Nat) : Except Err (List RawBlock) := do
  let (visited, left) := ((bs[bi]!).next, ([] : List Nat))   -- `for bnext in list(bi.next)`
  let bs ← visited.foldlM (init := bs) fun bs bn => do
    let p ← removeFirst (bs[bn]!).prev bi
    pure ((bs.zipIdx).map fun (blk, id) => if id == bn then { blk with prev := p } else blk)
  pure ((bs.zipIdx).map fun (blk, id) => if id == bi then { blk with next := left } else blk)

def pruneIns (nexts prevs : List (List Nat)) (ex : Nat) : Except Err (List (List Nat) × List (List Nat)) := do
  let (visited, left) := (nexts[ex]!, ([] : List Nat))
  let prevs ← visited.foldlM (init := prevs) fun prevs t => do
    let p ← removeFirst (prevs[t]!) ex
    pure ((prevs.zipIdx).map fun (l, id) => if id == t then p else l)
  pure ((nexts.zipIdx).map (fun (l, id) => if id == ex then left else l), prevs)

def parseTeal (ins : List Ins) : Except Err Teal := do
  if ins.isEmpty then .error "IndexError"
  let nexts ← insNext ins
  let prevs := insPrev ins nexts
  let (blocks, dflt) := createBB ins nexts
  let bs0 : List RawBlock := blocks.map fun b => { ins := b }
  let bs1 := dflt.foldl (fun bs (a, b) => addEdge bs a b) bs0
  let bs ← fourthPass blocks nexts bs1
  let version := match ins.head? with
    | some { op := .pragma v, .. } => v
    | _ => 1
  let csubs := callsubTable ins
  let labels := labelTable ins
  -- subroutine discovery
  let subBlocks ← csubs.mapM fun (name, _) => do
    let li ← lookupLabel labels name
    let eb ← blockOfIns blocks li
    pure (name, eb, identifyBlocks bs eb)
  let mainBlocks := identifyBlocks bs 0
  let reachable := (subBlocks.flatMap fun (_, _, l) => l) ++ mainBlocks
  let mkSub (name : String) (entry : Nat) (bl : List Nat) (callers : List Nat) : Sub :=
    { name, entry, blocks := bl,
      exits := bl.filter fun b => (bs[b]!).next.length == 0 || exitOp ins (bs[b]!) == some .retsub,
      callers,
      retPoints := callers.filterMap fun c => if (bs[c]!).next.length == 1 then (bs[c]!).next.head? else none }
  let subs ← subBlocks.mapM fun (name, eb, bl) => do
    let cpos := (csubs.find? (·.1 == name)).map (·.2) |>.getD []
    let cblocks ← cpos.mapM (blockOfIns blocks)
    pure (mkSub name eb bl (cblocks.filter reachable.contains))
  let main := mkSub mainName 0 mainBlocks []
  -- owner of each block: subroutines in dict order, then main overrides
  let owner (b : Nat) : Option String :=
    if mainBlocks.contains b then some mainName
    else (subs.reverse.find? fun s => s.blocks.contains b).map (·.name)
  -- pruning of unreachable blocks
  let dead := (List.range bs.length).filter fun b => !reachable.contains b
  let bsP ← dead.foldlM (init := bs) pruneOne
  let (nextsP, prevsP) ← dead.foldlM (init := (nexts, prevs)) fun (nx, pv) b =>
    match (bs[b]!).ins.getLast? with
    | some ex => pruneIns nx pv ex
    | none => .error "IndexError"
  let deadIns := dead.flatMap fun b => (bs[b]!).ins
  let live := (List.range bs.length).filter reachable.contains
  let allBlocks := (bsP.zipIdx).map fun (b, id) =>
    { idx := id, ins := b.ins.filterMap (ins[·]?), next := b.next, prev := b.prev, sub := owner id,
      exitNexts := match b.ins.getLast? with | some ex => (nexts[ex]!).length | none => 0 : Block }
  -- constant block: known only when there is exactly one intcblock and it is in the entry block
  let icb := (ins.zipIdx).filterMap fun (i, k) => match i.op with | .intcblock cs => some (k, cs) | _ => none
  let intcs := match icb with
    | [(k, cs)] => if (bs[0]!).ins.contains k then some cs else none
    | _ => none
  pure { version, allBlocks, live, main, subs, intcs, insNexts := nextsP, insPrevs := prevsP,
         instrs := (ins.zipIdx).filterMap fun (i, k) => if deadIns.contains k then none else some i }

def Teal.block? (t : Teal) (idx : Nat) : Option Block := t.allBlocks[idx]?

end Tealer
