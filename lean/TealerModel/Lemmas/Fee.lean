/-
  Lemmas about the fee domain (model of fee_field.py): concretisation, lattice soundness, operator table.
-/
import TealerModel.Dom
namespace Tealer.Fee

/-- concretisation: the set of fees a FeeValue admits.  An "unknown" bound is read as "bounded by the
    group-cost bound" (the tool's documented heuristic). -/
def gamma (a : FeeValue) (fee : Nat) : Prop :=
  if a.isUnknown then fee ≤ MAX_TRANSACTION_COST else fee ≤ a.value

instance (a : FeeValue) (fee : Nat) : Decidable (gamma a fee) := by unfold gamma; exact inferInstance

theorem univ_top (fee : Nat) (h : fee ≤ MAX_UINT64) : gamma feeUniv fee := by
  simp [gamma, feeUniv, h]

theorem null_only_zero (fee : Nat) : gamma feeNull fee ↔ fee = 0 := by
  simp [gamma, feeNull]

theorem union_sound (a b : FeeValue) (fee : Nat) :
    gamma a fee ∨ gamma b fee → gamma (feeUnion a b) fee := by
  cases a with | mk au av => cases b with | mk bu bv =>
  cases au <;> cases bu <;> simp [gamma, feeUnion, MAX_TRANSACTION_COST] <;> grind

theorem inter_sound (a b : FeeValue) (fee : Nat) :
    gamma a fee → gamma b fee → gamma (feeInter a b) fee := by
  cases a with | mk au av => cases b with | mk bu bv =>
  cases au <;> cases bu <;> simp [gamma, feeInter, MAX_TRANSACTION_COST] <;> grind

/-- exactness of the intersection (needed for precision, C03) -/
theorem inter_exact (a b : FeeValue) (fee : Nat) :
    gamma (feeInter a b) fee ↔ gamma a fee ∧ gamma b fee := by
  cases a with | mk au av => cases b with | mk bu bv =>
  cases au <;> cases bu <;> simp [gamma, feeInter, MAX_TRANSACTION_COST] <;> grind

/-- the union is the least upper bound on the chain: it admits nothing above both operands' bounds -/
theorem union_exact (a b : FeeValue) (fee : Nat) :
    gamma (feeUnion a b) fee ↔ gamma a fee ∨ gamma b fee := by
  cases a with | mk au av => cases b with | mk bu bv =>
  cases au <;> cases bu <;> simp [gamma, feeUnion, MAX_TRANSACTION_COST] <;> grind

/-- operator table, field as FIRST operand: `fee op c` -/
theorem assertedMax_sound (op : Cmp) (c fee : Nat) (hfee : fee ≤ MAX_UINT64) :
    (op.eval fee c = true → gamma (feeAssertedMax op { value := c }).1 fee) ∧
    (op.eval fee c = false → gamma (feeAssertedMax op { value := c }).2 fee) := by
  cases op <;> simp [Cmp.eval, feeAssertedMax, gamma, feeUniv, MAX_UINT64] at * <;> omega

/-- a comparison with a value the tool cannot evaluate: sound only under the heuristic reading
    "the unknown comparand is at most the group-cost bound" -/
theorem assertedMax_unknown_sound (op : Cmp) (c fee : Nat) (hfee : fee ≤ MAX_UINT64)
    (hHeur : c ≤ MAX_TRANSACTION_COST) :
    (op.eval fee c = true → gamma (feeAssertedMax op { isUnknown := true }).1 fee) ∧
    (op.eval fee c = false → gamma (feeAssertedMax op { isUnknown := true }).2 fee) := by
  cases op <;> simp [Cmp.eval, feeAssertedMax, gamma, feeUniv, MAX_UINT64, MAX_TRANSACTION_COST] at * <;> omega

/-- single direct check: the bound is exactly the implied one (C09, third sentence) -/
theorem single_exact_le (c : Nat) : (feeAssertedMax .le { value := c }).1 = { value := c } := rfl
theorem single_exact_lt (c : Nat) : (feeAssertedMax .lt { value := c }).1 = { value := c - 1 } := rfl
theorem single_exact_eq (c : Nat) : (feeAssertedMax .eq { value := c }).1 = { value := c } := rfl
theorem single_exact_gt_neg (c : Nat) : (feeAssertedMax .gt { value := c }).2 = { value := c } := rfl
theorem single_exact_ge_neg (c : Nat) : (feeAssertedMax .ge { value := c }).2 = { value := c - 1 } := rfl

/-- the detector predicate: a block is "validated" exactly when no fee above the cost bound is admitted -/
theorem feeCheck_iff (v : FeeValue) :
    (v.isUnknown || decide (v.value ≤ MAX_TRANSACTION_COST)) = true ↔ ∀ fee, gamma v fee → fee ≤ MAX_TRANSACTION_COST := by
  cases v with | mk u x =>
  cases u <;> simp [gamma]
  constructor
  · intro h fee hf; omega
  · intro h; exact h x (Nat.le_refl _)

end Tealer.Fee
