/-
  Which group member a `gtxns f` reads, against the CONCRETE semantics: in a straight run of a block, a `gtxns f` whose
  reconstructed index operand is `txn GroupIndex; int n; +` reads field f of the member at the own index plus n; one whose
  index operand is `int i` reads member i.  (The classification `getIndex` of the tool says `relative n` / `absolute i` in these
  two cases: `getIndex_add`, `getIndex_int`.)
-/
import TealerModel.Lemmas.FeeLeaf
namespace Tealer.IndexLeaf
open Tealer.Avm Tealer.OperandValues Tealer.EvalRun Tealer.FeeLeaf List

theorem step_add (prog : List Ins) (e : Env) (s s' : State) (i : Ins) (hi : prog[s.pc]? = some i)
    (hop : i.op = .add) (hs : step prog e s = .next s') :
    ∃ r x y, s.stack = r ++ [.int x, .int y] ∧ s'.stack = r ++ [.int (x + y)] := by
  unfold step at hs
  simp only [hi, hop] at hs
  split at hs
  · rename_i y r1 hp1
    split at hs
    · rename_i x r hp2
      split at hs
      · simp only [Outcome.next.injEq] at hs
        subst hs
        have e1 := StackEffect.popInt_spec _ _ _ hp1
        have e2 := StackEffect.popInt_spec _ _ _ hp2
        exact ⟨r, x, y, by rw [e1, e2]; simp, rfl⟩
      · cases hs
    · cases hs
  · cases hs

theorem step_sub (prog : List Ins) (e : Env) (s s' : State) (i : Ins) (hi : prog[s.pc]? = some i)
    (hop : i.op = .sub) (hs : step prog e s = .next s') :
    ∃ r x y, s.stack = r ++ [.int x, .int y] ∧ y ≤ x ∧ s'.stack = r ++ [.int (x - y)] := by
  unfold step at hs
  simp only [hi, hop] at hs
  split at hs
  · rename_i y r1 hp1
    split at hs
    · rename_i x r hp2
      split at hs
      · rename_i hle
        simp only [Outcome.next.injEq] at hs
        subst hs
        have e1 := StackEffect.popInt_spec _ _ _ hp1
        have e2 := StackEffect.popInt_spec _ _ _ hp2
        exact ⟨r, x, y, by rw [e1, e2]; simp, hle, rfl⟩
      · cases hs
    · cases hs
  · cases hs

theorem step_gtxns (prog : List Ins) (e : Env) (s s' : State) (i : Ins) (f : String) (hi : prog[s.pc]? = some i)
    (hop : i.op = .gtxns f) (hs : step prog e s = .next s') :
    ∃ r k v, s.stack = r ++ [.int k] ∧ e.field k f = some v ∧ s'.stack = r ++ [v] := by
  unfold step at hs
  simp only [hi, hop] at hs
  split at hs
  · rename_i k r hp
    split at hs
    · rename_i v hv
      simp only [Outcome.next.injEq] at hs
      subst hs
      exact ⟨r, k, v, StackEffect.popInt_spec _ _ _ hp, hv, rfl⟩
    · cases hs
  · cases hs

theorem field_groupIndex (e : Env) (i : Nat) (v : Val) (h : e.field i "GroupIndex" = some v) : v = .int i := by
  unfold Env.field at h
  split at h
  · cases h
  · simp at h; exact h.symm

/-- WHICH MEMBER IS READ, relative form.  In a straight run, let instruction `p` be `gtxns f` whose reconstructed index operand
    is the output of `pa = +`, whose reconstructed operands are the outputs of `p1 = txn GroupIndex` and `p2 = int n`.  Then the
    value the AVM pushes at `p` is field `f` of the member at position (own index + n) -/
theorem index_leaf_rel (prog : List Ins) (e : Env) (blockIns : List Ins) (pc0 : Nat) (st : Nat → State) (k : Nat)
    (hrun : BlockRun prog e blockIns pc0 k st) (valOf : Nat × Nat → Val)
    (hout : ∀ j, j < k → ∀ i, i < (blockIns[j]!).op.pushes →
      (st (j + 1)).stack[(st j).stack.length - (blockIns[j]!).op.pops + i]? = some (valOf (j, i)))
    (hargs : ∀ j, j < k → Forall₂ (Agree valOf) (argsAt blockIns j)
      ((st j).stack.drop ((st j).stack.length - (blockIns[j]!).op.pops)))
    (p pa p1 p2 : Nat) (f : String) (n : Nat) (hp : p < k) (hpa : pa < k) (hp1 : p1 < k) (hp2 : p2 < k)
    (hopp : (blockIns[p]!).op = .gtxns f) (hopa : (blockIns[pa]!).op = .add)
    (hop1 : (blockIns[p1]!).op = .txn "GroupIndex") (hop2 : (blockIns[p2]!).op = .int (.lit n))
    (hargsp : argsAt blockIns p = [some (pa, 0)]) (hargsa : argsAt blockIns pa = [some (p1, 0), some (p2, 0)]) :
    e.field (e.self + n) f = some (valOf (p, 0)) := by
  have code : ∀ j, j < k → prog[(st j).pc]? = some (blockIns[j]!) := by
    intro j hj; rw [hrun.pcs j (by omega)]; exact hrun.code j hj
  -- the producers
  obtain ⟨v, hv, hs1⟩ := step_txn prog e (st p1) (st (p1 + 1)) _ "GroupIndex" (code p1 hp1) hop1 (hrun.steps p1 hp1)
  have hvi := field_groupIndex e e.self v hv
  have hv1 := hout p1 hp1 0 (by rw [hop1]; simp [Op.pushes])
  rw [hop1, hs1] at hv1
  simp [Op.pops] at hv1
  obtain ⟨hs2, _⟩ := step_int prog e (st p2) (st (p2 + 1)) _ n (code p2 hp2) hop2 (hrun.steps p2 hp2)
  have hv2 := hout p2 hp2 0 (by rw [hop2]; simp [Op.pushes])
  rw [hop2, hs2] at hv2
  simp [Op.pops] at hv2
  -- the addition
  obtain ⟨r, x, y, hst, hres⟩ := step_add prog e (st pa) (st (pa + 1)) _ (code pa hpa) hopa (hrun.steps pa hpa)
  have hag := hargs pa hpa
  rw [hargsa, hopa, hst] at hag
  simp [Op.pops] at hag
  obtain ⟨hx, hy⟩ := hag
  have hx' : Val.int x = valOf (p1, 0) := hx (p1, 0) rfl
  have hy' : Val.int y = valOf (p2, 0) := hy (p2, 0) rfl
  rw [← hv1, hvi] at hx'
  rw [← hv2] at hy'
  have hxe : x = e.self := by injection hx'
  have hye : y = n := by injection hy'
  have hva := hout pa hpa 0 (by rw [hopa]; simp [Op.pushes])
  rw [hopa, hst, hres] at hva
  simp [Op.pops] at hva
  -- the read
  obtain ⟨r', kk, w, hst', hw, hres'⟩ := step_gtxns prog e (st p) (st (p + 1)) _ f (code p hp) hopp (hrun.steps p hp)
  have hag' := hargs p hp
  rw [hargsp, hopp, hst'] at hag'
  simp [Op.pops] at hag'
  have hk : Val.int kk = valOf (pa, 0) := hag' (pa, 0) rfl
  rw [← hva, hxe, hye] at hk
  have hke : kk = e.self + n := by injection hk
  have hvp := hout p hp 0 (by rw [hopp]; simp [Op.pushes])
  rw [hopp, hst', hres'] at hvp
  simp [Op.pops] at hvp
  rw [← hvp, ← hke]
  exact hw

/-- WHICH MEMBER IS READ, relative form with `-`: `txn GroupIndex; int n; -; gtxns f` reads the member at (own index - n); the
    machine rejects the subtraction when n exceeds the own index, so in a run that gets past it n ≤ own index -/
theorem index_leaf_rel_sub (prog : List Ins) (e : Env) (blockIns : List Ins) (pc0 : Nat) (st : Nat → State) (k : Nat)
    (hrun : BlockRun prog e blockIns pc0 k st) (valOf : Nat × Nat → Val)
    (hout : ∀ j, j < k → ∀ i, i < (blockIns[j]!).op.pushes →
      (st (j + 1)).stack[(st j).stack.length - (blockIns[j]!).op.pops + i]? = some (valOf (j, i)))
    (hargs : ∀ j, j < k → Forall₂ (Agree valOf) (argsAt blockIns j)
      ((st j).stack.drop ((st j).stack.length - (blockIns[j]!).op.pops)))
    (p pa p1 p2 : Nat) (f : String) (n : Nat) (hp : p < k) (hpa : pa < k) (hp1 : p1 < k) (hp2 : p2 < k)
    (hopp : (blockIns[p]!).op = .gtxns f) (hopa : (blockIns[pa]!).op = .sub)
    (hop1 : (blockIns[p1]!).op = .txn "GroupIndex") (hop2 : (blockIns[p2]!).op = .int (.lit n))
    (hargsp : argsAt blockIns p = [some (pa, 0)]) (hargsa : argsAt blockIns pa = [some (p1, 0), some (p2, 0)]) :
    n ≤ e.self ∧ e.field (e.self - n) f = some (valOf (p, 0)) := by
  have code : ∀ j, j < k → prog[(st j).pc]? = some (blockIns[j]!) := by
    intro j hj; rw [hrun.pcs j (by omega)]; exact hrun.code j hj
  obtain ⟨v, hv, hs1⟩ := step_txn prog e (st p1) (st (p1 + 1)) _ "GroupIndex" (code p1 hp1) hop1 (hrun.steps p1 hp1)
  have hvi := field_groupIndex e e.self v hv
  have hv1 := hout p1 hp1 0 (by rw [hop1]; simp [Op.pushes])
  rw [hop1, hs1] at hv1
  simp [Op.pops] at hv1
  obtain ⟨hs2, _⟩ := step_int prog e (st p2) (st (p2 + 1)) _ n (code p2 hp2) hop2 (hrun.steps p2 hp2)
  have hv2 := hout p2 hp2 0 (by rw [hop2]; simp [Op.pushes])
  rw [hop2, hs2] at hv2
  simp [Op.pops] at hv2
  obtain ⟨r, x, y, hst, hle, hres⟩ := step_sub prog e (st pa) (st (pa + 1)) _ (code pa hpa) hopa (hrun.steps pa hpa)
  have hag := hargs pa hpa
  rw [hargsa, hopa, hst] at hag
  simp [Op.pops] at hag
  obtain ⟨hx, hy⟩ := hag
  have hx' : Val.int x = valOf (p1, 0) := hx (p1, 0) rfl
  have hy' : Val.int y = valOf (p2, 0) := hy (p2, 0) rfl
  rw [← hv1, hvi] at hx'
  rw [← hv2] at hy'
  have hxe : x = e.self := by injection hx'
  have hye : y = n := by injection hy'
  have hva := hout pa hpa 0 (by rw [hopa]; simp [Op.pushes])
  rw [hopa, hst, hres] at hva
  simp [Op.pops] at hva
  obtain ⟨r', kk, w, hst', hw, hres'⟩ := step_gtxns prog e (st p) (st (p + 1)) _ f (code p hp) hopp (hrun.steps p hp)
  have hag' := hargs p hp
  rw [hargsp, hopp, hst'] at hag'
  simp [Op.pops] at hag'
  have hk : Val.int kk = valOf (pa, 0) := hag' (pa, 0) rfl
  rw [← hva, hxe, hye] at hk
  have hke : kk = e.self - n := by injection hk
  have hvp := hout p hp 0 (by rw [hopp]; simp [Op.pushes])
  rw [hopp, hst', hres'] at hvp
  simp [Op.pops] at hvp
  refine ⟨by rw [← hxe, ← hye]; exact hle, ?_⟩
  rw [← hvp, ← hke]
  exact hw

/-- WHICH MEMBER IS READ, absolute form: `int i; gtxns f` reads member `i` -/
theorem index_leaf_abs (prog : List Ins) (e : Env) (blockIns : List Ins) (pc0 : Nat) (st : Nat → State) (k : Nat)
    (hrun : BlockRun prog e blockIns pc0 k st) (valOf : Nat × Nat → Val)
    (hout : ∀ j, j < k → ∀ i, i < (blockIns[j]!).op.pushes →
      (st (j + 1)).stack[(st j).stack.length - (blockIns[j]!).op.pops + i]? = some (valOf (j, i)))
    (hargs : ∀ j, j < k → Forall₂ (Agree valOf) (argsAt blockIns j)
      ((st j).stack.drop ((st j).stack.length - (blockIns[j]!).op.pops)))
    (p p2 : Nat) (f : String) (n : Nat) (hp : p < k) (hp2 : p2 < k)
    (hopp : (blockIns[p]!).op = .gtxns f) (hop2 : (blockIns[p2]!).op = .int (.lit n))
    (hargsp : argsAt blockIns p = [some (p2, 0)]) :
    e.field n f = some (valOf (p, 0)) := by
  have code : ∀ j, j < k → prog[(st j).pc]? = some (blockIns[j]!) := by
    intro j hj; rw [hrun.pcs j (by omega)]; exact hrun.code j hj
  obtain ⟨hs2, _⟩ := step_int prog e (st p2) (st (p2 + 1)) _ n (code p2 hp2) hop2 (hrun.steps p2 hp2)
  have hv2 := hout p2 hp2 0 (by rw [hop2]; simp [Op.pushes])
  rw [hop2, hs2] at hv2
  simp [Op.pops] at hv2
  obtain ⟨r', kk, w, hst', hw, hres'⟩ := step_gtxns prog e (st p) (st (p + 1)) _ f (code p hp) hopp (hrun.steps p hp)
  have hag' := hargs p hp
  rw [hargsp, hopp, hst'] at hag'
  simp [Op.pops] at hag'
  have hk : Val.int kk = valOf (p2, 0) := hag' (p2, 0) rfl
  rw [← hv2] at hk
  have hke : kk = n := by injection hk
  have hvp := hout p hp 0 (by rw [hopp]; simp [Op.pushes])
  rw [hopp, hst', hres'] at hvp
  simp [Op.pops] at hvp
  rw [← hvp, ← hke]
  exact hw

end Tealer.IndexLeaf
