/-
  The leaf of the group-size analysis against the CONCRETE semantics: a comparison whose reconstructed operands are
  `global GroupSize` and an integer literal pushes exactly the truth of `size op n` for the size of the group being approved.
-/
import TealerModel.Lemmas.FeeLeaf
import TealerModel.Lemmas.IntSet
namespace Tealer.IntLeaf
open Tealer.Avm Tealer.OperandValues Tealer.EvalRun List

theorem step_global (prog : List Ins) (e : Env) (s s' : State) (i : Ins) (f : String) (hi : prog[s.pc]? = some i)
    (hop : i.op = .global f) (hs : step prog e s = .next s') : s'.stack = s.stack ++ [e.global f] := by
  unfold step at hs
  simp only [hi, hop] at hs
  simp only [Outcome.next.injEq] at hs
  subst hs
  rfl

/-- THE GROUP-SIZE LEAF, CONCRETELY -/
theorem size_leaf (prog : List Ins) (e : Env) (blockIns : List Ins) (pc0 : Nat) (st : Nat → State) (k : Nat)
    (hrun : BlockRun prog e blockIns pc0 k st) (valOf : Nat × Nat → Val)
    (hout : ∀ j, j < k → ∀ i, i < (blockIns[j]!).op.pushes →
      (st (j + 1)).stack[(st j).stack.length - (blockIns[j]!).op.pops + i]? = some (valOf (j, i)))
    (hargs : ∀ j, j < k → Forall₂ (Agree valOf) (argsAt blockIns j)
      ((st j).stack.drop ((st j).stack.length - (blockIns[j]!).op.pops)))
    (p p1 p2 : Nat) (c : Cmp) (n : Nat) (hp : p < k) (hp1 : p1 < k) (hp2 : p2 < k)
    (hopp : (blockIns[p]!).op = .cmp c) (hop1 : (blockIns[p1]!).op = .global "GroupSize")
    (hop2 : (blockIns[p2]!).op = .int (.lit n))
    (hargsp : argsAt blockIns p = [some (p1, 0), some (p2, 0)]) :
    truthy (valOf (p, 0)) = c.eval e.size n := by
  have code : ∀ j, j < k → prog[(st j).pc]? = some (blockIns[j]!) := by
    intro j hj; rw [hrun.pcs j (by omega)]; exact hrun.code j hj
  have hs1 := step_global prog e (st p1) (st (p1 + 1)) _ "GroupSize" (code p1 hp1) hop1 (hrun.steps p1 hp1)
  have hv1 := hout p1 hp1 0 (by rw [hop1]; simp [Op.pushes])
  rw [hop1, hs1] at hv1
  simp [Op.pops, Env.global] at hv1
  obtain ⟨hs2, _⟩ := FeeLeaf.step_int prog e (st p2) (st (p2 + 1)) _ n (code p2 hp2) hop2 (hrun.steps p2 hp2)
  have hv2 := hout p2 hp2 0 (by rw [hop2]; simp [Op.pushes])
  rw [hop2, hs2] at hv2
  simp [Op.pops] at hv2
  obtain ⟨r, x, y, hst, hres⟩ := FeeLeaf.step_cmp prog e (st p) (st (p + 1)) _ c (code p hp) hopp (hrun.steps p hp)
  have hag := hargs p hp
  rw [hargsp, hopp, hst] at hag
  simp [Op.pops] at hag
  obtain ⟨hx, hy⟩ := hag
  have hx' : x = valOf (p1, 0) := hx (p1, 0) rfl
  have hy' : y = valOf (p2, 0) := hy (p2, 0) rfl
  rw [← hv1] at hx'
  rw [← hv2] at hy'
  have hpush := hres e.size n hx' hy'
  have hvp := hout p hp 0 (by rw [hopp]; simp [Op.pushes])
  rw [hopp, hst, hpush] at hvp
  simp [Op.pops] at hvp
  rw [← hvp, truthy_b2n]

/-- the tool's leaf matcher on the direct check `global GroupSize; int n; op` -/
theorem intSingle_direct (ic : Option (List Nat)) (a : Ast) (p p1 p2 o1 o2 : Nat) (c : Cmp) (n : Nat)
    (hp : a.opOf p = .cmp c) (hargs : a.argsOf p = [some (p1, o1), some (p2, o2)])
    (h1 : a.opOf p1 = .global "GroupSize") (h2 : a.opOf p2 = .int (.lit n)) :
    intSingle ic a ⟨"GroupSize", .self⟩ p =
      (OSet.ofList (assertedIntValues c n (intUniv "GroupSize")),
       OSet.diff (intUniv "GroupSize") (OSet.ofList (assertedIntValues c n (intUniv "GroupSize")))) := by
  unfold intSingle
  simp only [hp, hargs]
  have hlit : intLit ic (a.opOf p2) = some n := by
    rw [h2]; simp [intLit, intPush]
  simp [h1, hlit]

end Tealer.IntLeaf
