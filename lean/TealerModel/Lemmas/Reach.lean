/-
  identify_subroutine_blocks (model: `identifyBlocks`) returns exactly the blocks reachable from the entry along successor
  edges, each once — including that the fuel the model gives the loop (number of blocks + 1) is sufficient.
-/
import TealerModel.Cfg
import Batteries.Data.List.Perm
namespace Tealer.Reach

/-- reachable from `entry` along `next` edges -/
inductive Reach (bs : List RawBlock) (entry : Nat) : Nat → Prop
  | refl : Reach bs entry entry
  | step {a b : Nat} : Reach bs entry a → b ∈ (bs[a]!).next → Reach bs entry b

/-- every successor is a block of the list -/
def WF (bs : List RawBlock) : Prop := ∀ a, a < bs.length → ∀ b ∈ (bs[a]!).next, b < bs.length

/-- the successor loop of one iteration -/
def push (out st ns : List Nat) : List Nat :=
  ns.foldl (fun st nb => if !out.contains nb && !st.contains nb then st ++ [nb] else st) st

theorem mem_push (out ns st : List Nat) (x : Nat) :
    x ∈ push out st ns ↔ x ∈ st ∨ (x ∈ ns ∧ x ∉ out) := by
  induction ns generalizing st with
  | nil => simp [push]
  | cons n ns ih =>
    have hstep : push out st (n :: ns) = push out (if !out.contains n && !st.contains n then st ++ [n] else st) ns := rfl
    rw [hstep, ih]
    by_cases hc : (!out.contains n && !st.contains n) = true
    · rw [if_pos hc]
      simp only [Bool.and_eq_true, Bool.not_eq_true', List.contains_eq_mem, decide_eq_false_iff_not] at hc
      simp only [List.mem_append, List.mem_cons, List.not_mem_nil, or_false]
      constructor
      · rintro ((h | h) | h)
        · exact Or.inl h
        · subst h; exact Or.inr ⟨Or.inl rfl, hc.1⟩
        · exact Or.inr ⟨Or.inr h.1, h.2⟩
      · rintro (h | ⟨h | h, h'⟩)
        · exact Or.inl (Or.inl h)
        · exact Or.inl (Or.inr h)
        · exact Or.inr ⟨h, h'⟩
    · rw [if_neg hc]
      simp only [Bool.and_eq_true, Bool.not_eq_true', List.contains_eq_mem, decide_eq_false_iff_not, not_and,
        Classical.not_not] at hc
      simp only [List.mem_cons]
      constructor
      · rintro (h | h)
        · exact Or.inl h
        · exact Or.inr ⟨Or.inr h.1, h.2⟩
      · rintro (h | ⟨h | h, h'⟩)
        · exact Or.inl h
        · subst h; exact Or.inl (hc h')
        · exact Or.inr ⟨h, h'⟩

theorem nodup_push (out ns st : List Nat) (h : st.Nodup) : (push out st ns).Nodup := by
  induction ns generalizing st with
  | nil => simpa [push]
  | cons n ns ih =>
    simp only [push, List.foldl_cons]
    split
    · rename_i hc
      apply ih
      simp only [Bool.and_eq_true, Bool.not_eq_true', List.contains_eq_mem, decide_eq_false_iff_not] at hc
      rw [List.nodup_append]
      exact ⟨h, by simp, by intro a ha b hb; simp at hb; subst hb; intro e; subst e; exact hc.2 ha⟩
    · exact ih st h

/-- a duplicate-free list of numbers below `n` has at most `n` elements -/
theorem length_le_of_nodup_lt (l : List Nat) (n : Nat) (hn : l.Nodup) (hb : ∀ x ∈ l, x < n) : l.length ≤ n := by
  have hs : l ⊆ List.range n := fun x hx => List.mem_range.mpr (hb x hx)
  have := (List.subperm_of_subset hn hs).length_le
  simpa using this

structure Inv (bs : List RawBlock) (entry : Nat) (stack out : List Nat) : Prop where
  nodup : (stack ++ out).Nodup
  reach : ∀ x ∈ stack ++ out, Reach bs entry x ∧ x < bs.length
  closed : ∀ x ∈ out, ∀ y ∈ (bs[x]!).next, y ∈ out ∨ y ∈ stack
  entry : entry ∈ out ∨ entry ∈ stack

theorem closed_of_done (bs : List RawBlock) (entry : Nat) (out : List Nat) (h : Inv bs entry [] out) (x : Nat) :
    x ∈ out ↔ Reach bs entry x := by
  constructor
  · intro hx; exact (h.reach x (by simpa using hx)).1
  · intro hr
    induction hr with
    | refl => rcases h.entry with h | h; exact h; cases h
    | step _ hb ih => rcases h.closed _ ih _ hb with h | h; exact h; cases h

theorem go_spec (bs : List RawBlock) (entry : Nat) (hwf : WF bs) :
    ∀ (fuel : Nat) (stack out : List Nat), Inv bs entry stack out → bs.length + 1 ≤ out.length + fuel →
      (∀ x, x ∈ identifyBlocks.go bs fuel stack out ↔ Reach bs entry x) ∧ (identifyBlocks.go bs fuel stack out).Nodup := by
  intro fuel
  induction fuel with
  | zero =>
    intro stack out hinv hf
    exfalso
    have hn : out.Nodup := (List.nodup_append.mp hinv.nodup).2.1
    have := length_le_of_nodup_lt out bs.length hn (fun x hx => (hinv.reach x (by simp [hx])).2)
    omega
  | succ fuel ih =>
    intro stack out hinv hf
    unfold identifyBlocks.go
    cases hlast : stack.getLast? with
    | none =>
      have : stack = [] := by simpa using hlast
      subst this
      exact ⟨closed_of_done bs entry out hinv, by simpa using hinv.nodup⟩
    | some bb =>
      simp only []
      have hbbmem : bb ∈ stack := List.mem_of_getLast? hlast
      have hstack : stack = stack.dropLast ++ [bb] := by
        have hne : stack ≠ [] := by intro e; subst e; simp at hlast
        have h1 := List.dropLast_concat_getLast hne
        have h2 : stack.getLast hne = bb := by
          have := List.getLast?_eq_some_getLast hne
          rw [hlast] at this
          exact (Option.some.inj this).symm
        rw [h2] at h1
        exact h1.symm
      have hnd := hinv.nodup
      have hbbout : bb ∉ out := by
        intro h
        have := (List.nodup_append.mp hnd).2.2 bb hbbmem bb h
        exact this rfl
      have hbbdrop : bb ∉ stack.dropLast := by
        intro h
        have h1 : stack.Nodup := (List.nodup_append.mp hnd).1
        rw [hstack] at h1
        have := (List.nodup_append.mp h1).2.2 bb h bb (by simp)
        exact this rfl
      have hbb := hinv.reach bb (by simp [hbbmem])
      apply ih
      · -- the invariant is preserved
        have hpush := mem_push (out ++ [bb]) (bs[bb]!).next stack.dropLast
        have hpushf : ∀ x, x ∈ List.foldl (fun st nb => if (!(out ++ [bb]).contains nb && !st.contains nb) = true then st ++ [nb] else st)
            stack.dropLast (bs[bb]!).next ↔ x ∈ stack.dropLast ∨ (x ∈ (bs[bb]!).next ∧ x ∉ out ++ [bb]) := hpush
        constructor
        · -- nodup
          rw [List.nodup_append]
          refine ⟨nodup_push _ _ _ ?_, ?_, ?_⟩
          · have h1 : stack.Nodup := (List.nodup_append.mp hnd).1
            rw [hstack] at h1
            exact (List.nodup_append.mp h1).1
          · rw [List.nodup_append]
            exact ⟨(List.nodup_append.mp hnd).2.1, by simp, by
              intro a ha b hb; simp at hb; subst hb; intro e; subst e; exact hbbout ha⟩
          · intro a ha b hb e
            subst e
            rcases (hpushf a).mp ha with h | h
            · rcases List.mem_append.mp hb with h' | h'
              · exact (List.nodup_append.mp hnd).2.2 a (List.dropLast_subset _ h) a h' rfl
              · simp at h'; subst h'; exact hbbdrop h
            · exact h.2 hb
        · -- reach and bound
          intro x hx
          rcases List.mem_append.mp hx with h | h
          · rcases (hpushf x).mp h with h | h
            · exact hinv.reach x (by simp [List.dropLast_subset _ h])
            · exact ⟨Reach.step hbb.1 h.1, hwf bb hbb.2 x h.1⟩
          · rcases List.mem_append.mp h with h | h
            · exact hinv.reach x (by simp [h])
            · simp at h; subst h; exact hbb
        · -- closed
          intro x hx y hy
          rcases List.mem_append.mp hx with h | h
          · rcases hinv.closed x h y hy with h' | h'
            · exact Or.inl (by simp [h'])
            · rw [hstack] at h'
              rcases List.mem_append.mp h' with h'' | h''
              · exact Or.inr ((hpushf y).mpr (Or.inl h''))
              · simp at h''; subst h''; exact Or.inl (by simp)
          · simp at h; subst h
            by_cases hyo : y ∈ out ++ [x]
            · exact Or.inl hyo
            · exact Or.inr ((hpushf y).mpr (Or.inr ⟨hy, hyo⟩))
        · -- entry
          rcases hinv.entry with h | h
          · exact Or.inl (by simp [h])
          · rw [hstack] at h
            rcases List.mem_append.mp h with h' | h'
            · exact Or.inr ((hpushf entry).mpr (Or.inl h'))
            · simp at h'; subst h'; exact Or.inl (by simp)
      · simp only [List.length_append, List.length_cons, List.length_nil]
        omega

/-- identify_subroutine_blocks: the result is exactly the set of blocks reachable from the entry, without repetition -/
theorem identifyBlocks_spec (bs : List RawBlock) (entry : Nat) (hwf : WF bs) (he : entry < bs.length) :
    (∀ x, x ∈ identifyBlocks bs entry ↔ Reach bs entry x) ∧ (identifyBlocks bs entry).Nodup := by
  unfold identifyBlocks
  apply go_spec bs entry hwf
  · refine { nodup := ?_, reach := ?_, closed := ?_, entry := ?_ }
    · simp
    · intro x hx
      simp only [List.append_nil, List.mem_singleton] at hx
      subst hx
      exact ⟨Reach.refl, he⟩
    · intro x hx; cases hx
    · exact Or.inr (by simp)
  · simp

end Tealer.Reach
