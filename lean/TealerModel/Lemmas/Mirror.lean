/-
  Successor and predecessor lists mirror each other — with multiplicity — in the block graph parse_teal builds (third and
  fourth pass) and still after the pruning of unreachable blocks; a pruned block is left with no successor and is named by
  no predecessor list.
-/
import TealerModel.Lemmas.CfgWF
namespace Tealer.Mirror
open Tealer.Reach

/-- `b` occurs in the successor list of `a` as often as `a` occurs in the predecessor list of `b` -/
def Mirror (bs : List RawBlock) : Prop :=
  ∀ a b, a < bs.length → b < bs.length → (bs[a]!).next.count b = (bs[b]!).prev.count a

theorem addEdge_prev_eq (bs : List RawBlock) (a b x : Nat) (hx : x < bs.length) :
    ((addEdge bs a b)[x]!).prev = if x = b then (bs[x]!).prev ++ [a] else (bs[x]!).prev := by
  unfold addEdge
  simp [hx]
  by_cases h1 : x = a <;> by_cases h2 : x = b
  · subst h1; subst h2; simp
  · subst h1; have : ¬ x = b := h2; simp [this]
  · subst h2; have : ¬ x = a := h1; simp [this]
  · simp [h1, h2]

theorem addEdge_mirror (bs : List RawBlock) (a b : Nat) (h : Mirror bs) (ha : a < bs.length) (hb : b < bs.length) :
    Mirror (addEdge bs a b) := by
  intro x y hx hy
  rw [CfgWF.addEdge_length] at hx hy
  rw [CfgWF.addEdge_next_eq bs a b x hx, addEdge_prev_eq bs a b y hy]
  have := h x y hx hy
  generalize (bs[x]!).next = nx at this ⊢
  generalize (bs[y]!).prev = py at this ⊢
  by_cases h1 : x = a <;> by_cases h2 : y = b
  · subst h1; subst h2; simp [List.count_append, this]
  · subst h1
    have hne : ¬ b = y := fun e => h2 e.symm
    simp [h2, List.count_append, this, hne]
  · subst h2
    have hne : ¬ a = x := fun e => h1 e.symm
    simp [h1, this, hne]
  · simp [h1, h2, this]

theorem fold_addEdge_mirror (es : List (Nat × Nat)) (bs : List RawBlock) (h : Mirror bs)
    (he : ∀ e ∈ es, e.1 < bs.length ∧ e.2 < bs.length) :
    Mirror (es.foldl (fun bs (e : Nat × Nat) => addEdge bs e.1 e.2) bs) := by
  induction es generalizing bs with
  | nil => exact h
  | cons e es ih =>
    simp only [List.foldl_cons]
    have h1 := addEdge_mirror bs e.1 e.2 h (he e (by simp)).1 (he e (by simp)).2
    exact ih _ h1 (by intro e' he'; rw [CfgWF.addEdge_length]; exact he e' (by simp [he']))

/-- invariant of create_bb, refined: a default edge leads from a closed block to the next block index -/
def EdgesOk2 (s : BBState) : Prop := ∀ e ∈ s.edges, e.2 = e.1 + 1 ∧ e.2 ≤ s.done.length

theorem close_ok2 (s : BBState) (w : Bool) (h : EdgesOk2 s) : EdgesOk2 (s.close w) := by
  intro e he
  unfold BBState.close at he ⊢
  simp only [List.length_append, List.length_cons, List.length_nil] at *
  split at he
  · rcases List.mem_append.mp he with h' | h'
    · have := h e h'; omega
    · simp at h'; subst h'; simp
  · have := h e he; omega

theorem step_ok2 (n : Nat) (s : BBState) (x : Ins × Nat × List Nat) (h : EdgesOk2 s) : EdgesOk2 (createBBStep n s x) := by
  obtain ⟨i, k, nx⟩ := x
  unfold createBBStep
  simp only []
  have h0 : EdgesOk2 (if (i.op.isLabel && !s.cur.isEmpty) = true then s.close true else s) := by
    split
    · exact close_ok2 s true h
    · exact h
  generalize (if (i.op.isLabel && !s.cur.isEmpty) = true then s.close true else s) = s0 at h0
  have h1 : EdgesOk2 { s0 with cur := s0.cur ++ [k] } := h0
  generalize ({ s0 with cur := s0.cur ++ [k] } : BBState) = s1 at h1
  repeat' split
  all_goals first
    | exact h1
    | exact close_ok2 _ _ h1
    | exact close_ok2 _ _ (close_ok2 _ _ h1)

theorem fold_ok2 (n : Nat) (xs : List (Ins × Nat × List Nat)) (s : BBState) (h : EdgesOk2 s) :
    EdgesOk2 (xs.foldl (createBBStep n) s) := by
  induction xs generalizing s with
  | nil => exact h
  | cons x xs ih => exact ih _ (step_ok2 n s x h)

theorem createBB_edges2 (ins : List Ins) (nexts : List (List Nat)) :
    ∀ e ∈ (createBB ins nexts).2, e.1 < (createBB ins nexts).1.length ∧ e.2 < (createBB ins nexts).1.length := by
  intro e he
  unfold createBB at he ⊢
  simp only [] at he ⊢
  have := fold_ok2 ins.length ((ins.zipIdx).zipWith (fun (x : Ins × Nat) nx => (x.1, x.2, nx)) nexts) {} (by intro e he; cases he) e he
  simp only [List.length_append, List.length_cons, List.length_nil]
  omega

theorem inner_mirror (blocks : List (List Nat)) (id : Nat) (ts : List Nat) (bs bs' : List RawBlock)
    (hlen : bs.length = blocks.length) (hid : id < blocks.length) (h : Mirror bs)
    (hr : ts.foldlM (init := bs) (fun bs t => do
        let nb ← blockOfIns blocks t
        if (bs[id]!).next.contains nb then pure bs
        else if (bs[nb]!).prev.contains id then (Except.error "AssertionError" : Except Err (List RawBlock))
        else pure (addEdge bs id nb)) = .ok bs') :
    Mirror bs' ∧ bs'.length = blocks.length := by
  induction ts generalizing bs with
  | nil =>
    simp only [List.foldlM_nil, pure, Except.pure, Except.ok.injEq] at hr
    subst hr; exact ⟨h, hlen⟩
  | cons t ts ih =>
    simp only [List.foldlM_cons, bind, Except.bind] at hr
    split at hr
    · cases hr
    · rename_i bs1 h1
      split at h1
      · cases h1
      · rename_i nb hnb
        have hlt := CfgWF.blockOfIns_lt blocks t nb hnb
        split at h1
        · simp only [pure, Except.pure, Except.ok.injEq] at h1
          subst h1
          exact ih bs hlen h hr
        · split at h1
          · cases h1
          · simp only [pure, Except.pure, Except.ok.injEq] at h1
            subst h1
            exact ih _ (by rw [CfgWF.addEdge_length]; exact hlen) (addEdge_mirror bs id nb h (by omega) (by omega)) hr

theorem fourthPass_mirror (blocks : List (List Nat)) (nexts : List (List Nat)) (bs bs' : List RawBlock)
    (hlen : bs.length = blocks.length) (h : Mirror bs) (hr : fourthPass blocks nexts bs = .ok bs') :
    Mirror bs' ∧ bs'.length = blocks.length := by
  unfold fourthPass at hr
  have hids : ∀ id ∈ List.range bs.length, id < blocks.length := by
    intro id hid; rw [← hlen]; exact List.mem_range.mp hid
  generalize List.range bs.length = ids at hr hids
  induction ids generalizing bs with
  | nil =>
    simp only [List.foldlM_nil, pure, Except.pure, Except.ok.injEq] at hr
    subst hr; exact ⟨h, hlen⟩
  | cons id ids ih =>
    simp only [List.foldlM_cons, bind, Except.bind] at hr
    split at hr
    · cases hr
    · rename_i bs1 h1
      split at h1
      · cases h1
      · rename_i ex hex
        have := inner_mirror blocks id _ bs bs1 hlen (hids id (by simp)) h h1
        exact ih bs1 this.2 this.1 hr (by intro i hi; exact hids i (by simp [hi]))

/-- the graph of passes 3-4 is mirrored -/
theorem passes_mirror (ins : List Ins) (nexts : List (List Nat)) (bs : List RawBlock)
    (hr : CfgWF.graphOf ins nexts = .ok bs) : Mirror bs := by
  unfold CfgWF.graphOf at hr
  have h0 : Mirror ((createBB ins nexts).1.map fun b => ({ ins := b } : RawBlock)) := by
    intro a b ha hb
    simp only [List.length_map] at ha hb
    simp [getElem!_pos, ha, hb]
  have hwf0 : WF ((createBB ins nexts).1.map fun b => ({ ins := b } : RawBlock)) := by
    intro a ha b hb
    simp only [List.length_map] at ha
    simp [getElem!_pos, ha] at hb
  have hlen0 := (CfgWF.fold_addEdge_wf (createBB ins nexts).2 _ hwf0
    (by intro e he; simp only [List.length_map]; exact CfgWF.createBB_edges ins nexts e he)).2
  have h1 := fold_addEdge_mirror (createBB ins nexts).2 _ h0 (by
    intro e he; simp only [List.length_map]; exact createBB_edges2 ins nexts e he)
  exact (fourthPass_mirror _ nexts _ bs (by rw [hlen0]; simp) h1 hr).1

end Tealer.Mirror

namespace Tealer.Mirror
open Tealer.Reach

def setPrev (bs : List RawBlock) (bn : Nat) (p : List Nat) : List RawBlock :=
  (bs.zipIdx).map fun (blk, id) => if id == bn then { blk with prev := p } else blk

def clearNext (bs : List RawBlock) (bi : Nat) : List RawBlock :=
  (bs.zipIdx).map fun (blk, id) => if id == bi then { blk with next := ([] : List Nat) } else blk

theorem setPrev_length (bs : List RawBlock) (bn : Nat) (p : List Nat) : (setPrev bs bn p).length = bs.length := by
  simp [setPrev]

theorem clearNext_length (bs : List RawBlock) (bi : Nat) : (clearNext bs bi).length = bs.length := by
  simp [clearNext]

theorem setPrev_get (bs : List RawBlock) (bn : Nat) (p : List Nat) (x : Nat) (hx : x < bs.length) :
    ((setPrev bs bn p)[x]!).next = (bs[x]!).next ∧
    ((setPrev bs bn p)[x]!).prev = if x = bn then p else (bs[x]!).prev := by
  unfold setPrev
  simp [hx]
  by_cases h : x = bn <;> simp [h]

theorem clearNext_get (bs : List RawBlock) (bi : Nat) (x : Nat) (hx : x < bs.length) :
    ((clearNext bs bi)[x]!).prev = (bs[x]!).prev ∧
    ((clearNext bs bi)[x]!).next = if x = bi then [] else (bs[x]!).next := by
  unfold clearNext
  simp [hx]
  by_cases h : x = bi <;> simp [h]

/-- the removal loop of the pruning of one block: successor lists are untouched, and the predecessor list of `x` loses
    exactly as many occurrences of `bi` as `x` occurs in the visited list -/
theorem removal_fold (bi : Nat) (vis : List Nat) (bs bs' : List RawBlock)
    (hr : vis.foldlM (init := bs) (fun bs bn => do
        let p ← removeFirst (bs[bn]!).prev bi
        pure (setPrev bs bn p)) = .ok bs') :
    bs'.length = bs.length ∧ ∀ x, x < bs.length →
      (bs'[x]!).next = (bs[x]!).next ∧
      ∀ a, (bs[x]!).prev.count a = (bs'[x]!).prev.count a + (if a = bi then vis.count x else 0) := by
  induction vis generalizing bs with
  | nil =>
    simp only [List.foldlM_nil, pure, Except.pure, Except.ok.injEq] at hr
    subst hr
    exact ⟨rfl, fun x _ => ⟨rfl, fun a => by simp⟩⟩
  | cons bn vis ih =>
    simp only [List.foldlM_cons, bind, Except.bind] at hr
    split at hr
    · cases hr
    · rename_i bs1 h1
      split at h1
      · cases h1
      · rename_i p hp
        simp only [pure, Except.pure, Except.ok.injEq] at h1
        subst h1
        unfold removeFirst at hp
        split at hp
        · rename_i hc
          simp only [Except.ok.injEq] at hp
          subst hp
          obtain ⟨hlen, hrest⟩ := ih (setPrev bs bn ((bs[bn]!).prev.erase bi)) hr
          rw [setPrev_length] at hlen
          refine ⟨hlen, ?_⟩
          intro x hx
          obtain ⟨hn, hp'⟩ := hrest x (by rw [setPrev_length]; exact hx)
          obtain ⟨g1, g2⟩ := setPrev_get bs bn ((bs[bn]!).prev.erase bi) x hx
          refine ⟨by rw [hn, g1], ?_⟩
          intro a
          have := hp' a
          rw [g2] at this
          have hmem : bi ∈ (bs[bn]!).prev := by simpa using hc
          by_cases hxb : x = bn
          · subst hxb
            simp only [if_true] at this
            rw [List.count_erase] at this
            by_cases hab : a = bi
            · subst hab
              have hpos : 0 < (bs[x]!).prev.count a := List.count_pos_iff.mpr hmem
              simp only [beq_self_eq_true, if_true, List.count_cons] at this ⊢
              omega
            · have hba : (bi == a) = false := by
                simp only [beq_eq_false_iff_ne, ne_eq]; exact fun e => hab e.symm
              simp [hba, hab] at this ⊢
              omega
          · have hne : ¬ bn = x := fun e => hxb e.symm
            simp only [hxb, if_false] at this
            by_cases hab : a = bi
            · simp only [hab, if_true, List.count_cons] at this ⊢
              have : (bn == x) = false := by simpa using hne
              simp_all
            · simp only [hab, if_false] at this ⊢
              exact this
        · cases hp

theorem pruneOne_eq (bs : List RawBlock) (bi : Nat) :
    pruneOne bs bi = (do
      let bs1 ← (bs[bi]!).next.foldlM (init := bs) (fun bs bn => do
        let p ← removeFirst (bs[bn]!).prev bi
        pure (setPrev bs bn p))
      pure (clearNext bs1 bi)) := rfl

/-- pruning one block keeps the graph mirrored, empties the successor list of the pruned block and leaves the other
    successor lists alone -/
theorem pruneOne_mirror (bs bs' : List RawBlock) (bi : Nat) (h : Mirror bs) (hbi : bi < bs.length)
    (hr : pruneOne bs bi = .ok bs') :
    Mirror bs' ∧ bs'.length = bs.length ∧ (bs'[bi]!).next = [] ∧
      ∀ x, x < bs.length → x ≠ bi → (bs'[x]!).next = (bs[x]!).next := by
  rw [pruneOne_eq] at hr
  simp only [bind, Except.bind, pure, Except.pure] at hr
  split at hr
  · cases hr
  · rename_i bs1 h1
    simp only [Except.ok.injEq] at hr
    subst hr
    obtain ⟨hlen, hrest⟩ := removal_fold bi _ bs bs1 h1
    have hbi1 : bi < bs1.length := by rw [hlen]; exact hbi
    refine ⟨?_, by rw [clearNext_length, hlen], ?_, ?_⟩
    · intro a b ha hb
      rw [clearNext_length, hlen] at ha hb
      obtain ⟨_, ga⟩ := clearNext_get bs1 bi a (by rw [hlen]; exact ha)
      obtain ⟨gb, _⟩ := clearNext_get bs1 bi b (by rw [hlen]; exact hb)
      rw [ga, gb]
      obtain ⟨hnb, hpb⟩ := hrest b hb
      obtain ⟨hna, _⟩ := hrest a ha
      have hm := h a b ha hb
      have hcount := hpb a
      by_cases hab : a = bi
      · subst hab
        simp only [if_true] at hcount ⊢
        simp only [List.count_nil]
        omega
      · simp only [hab, if_false] at hcount ⊢
        rw [hna]; omega
    · exact ((clearNext_get bs1 bi bi hbi1).2).trans (by simp)
    · intro x hx hne
      rw [(clearNext_get bs1 bi x (by rw [hlen]; exact hx)).2]
      simp only [hne, if_false]
      exact (hrest x hx).1

/-- the whole pruning loop -/
theorem prune_fold (dead : List Nat) (bs bs' : List RawBlock) (h : Mirror bs) (hd : ∀ d ∈ dead, d < bs.length)
    (hr : dead.foldlM (init := bs) pruneOne = .ok bs') :
    Mirror bs' ∧ bs'.length = bs.length ∧ (∀ d ∈ dead, (bs'[d]!).next = []) ∧
      ∀ x, x < bs.length → x ∉ dead → (bs'[x]!).next = (bs[x]!).next := by
  induction dead generalizing bs with
  | nil =>
    simp only [List.foldlM_nil, pure, Except.pure, Except.ok.injEq] at hr
    subst hr
    exact ⟨h, rfl, (by intro d hd; cases hd), fun _ _ _ => rfl⟩
  | cons d ds ih =>
    simp only [List.foldlM_cons, bind, Except.bind] at hr
    split at hr
    · cases hr
    · rename_i bs1 h1
      obtain ⟨hm1, hl1, hnil, hother⟩ := pruneOne_mirror bs bs1 d h (hd d (by simp)) h1
      obtain ⟨hm, hl, hdead, hkeep⟩ := ih bs1 hm1 (by intro x hx; rw [hl1]; exact hd x (by simp [hx])) hr
      refine ⟨hm, by rw [hl, hl1], ?_, ?_⟩
      · intro x hx
        rcases List.mem_cons.mp hx with rfl | hx'
        · by_cases hin : x ∈ ds
          · exact hdead x hin
          · rw [hkeep x (by rw [hl1]; exact hd x (by simp)) hin]; exact hnil
        · exact hdead x hx'
      · intro x hx hnot
        have hxd : x ≠ d := fun e => hnot (by simp [e])
        have hxds : x ∉ ds := fun e => hnot (by simp [e])
        rw [hkeep x (by rw [hl1]; exact hx) hxds, hother x hx hxd]

end Tealer.Mirror

namespace Tealer.Mirror
open Tealer.Reach

/-- the final block list of `parseTeal`: mirrored with multiplicity; never names a block outside the list; a pruned
    (non-retained) block has no successor and is named in no predecessor list; a retained block keeps the successor list
    of the graph of passes 3-4 (the one subroutine discovery ran on) -/
theorem parse_mirror (ins : List Ins) (t : Teal) (h : parseTeal ins = .ok t) :
    ∃ nexts bs, insNext ins = .ok nexts ∧ CfgWF.graphOf ins nexts = .ok bs ∧ t.allBlocks.length = bs.length ∧
      (∀ a b, a < t.allBlocks.length → b < t.allBlocks.length →
        (t.allBlocks[a]!).next.count b = (t.allBlocks[b]!).prev.count a) ∧
      (∀ d, d < t.allBlocks.length → d ∉ t.live →
        (t.allBlocks[d]!).next = [] ∧ ∀ b, b < t.allBlocks.length → d ∉ (t.allBlocks[b]!).prev) ∧
      (∀ x, x ∈ t.live → x < t.allBlocks.length ∧ (t.allBlocks[x]!).next = (bs[x]!).next) ∧
      (∀ a, a < t.allBlocks.length → ∀ b ∈ (t.allBlocks[a]!).next, b < t.allBlocks.length) := by
  unfold parseTeal at h
  simp only [bind, Except.bind, pure, Except.pure] at h
  split at h
  · cases h
  · split at h
    · cases h
    · rename_i nexts hn
      split at h
      · cases h
      · rename_i bs hbs
        have hwf := CfgWF.passes_wf ins nexts bs hbs
        have hmir := passes_mirror ins nexts bs hbs
        split at h
        · cases h
        · rename_i v hv
          split at h
          · cases h
          · rename_i v1 hv1
            split at h
            · cases h
            · rename_i bsP hP
              split at h
              · cases h
              · simp only [Except.ok.injEq] at h
                generalize hreach : (List.flatMap (fun (x : String × Nat × List Nat) => x.2.2) v ++ identifyBlocks bs 0) = reach at hP h
                have hAB : ∃ F : RawBlock × Nat → Block, t.allBlocks = bsP.zipIdx.map F ∧
                    ∀ x, (F x).next = x.1.next ∧ (F x).prev = x.1.prev := by
                  rw [← h]; exact ⟨_, rfl, fun x => ⟨rfl, rfl⟩⟩
                have hlive : t.live = (List.range bs.length).filter reach.contains := by rw [← h]
                obtain ⟨F, hF, hFx⟩ := hAB
                obtain ⟨hm, hl, hdead, hkeep⟩ := prune_fold _ bs bsP hmir (by
                  intro d hd
                  exact List.mem_range.mp (List.mem_filter.mp hd).1) hP
                have hget : ∀ x, x < bsP.length →
                    ((bsP.zipIdx.map F)[x]!).next = (bsP[x]!).next ∧ ((bsP.zipIdx.map F)[x]!).prev = (bsP[x]!).prev := by
                  intro x hx
                  have h1 : (bsP.zipIdx.map F)[x]! = F (bsP[x], x) := by simp [hx]
                  rw [h1, (hFx _).1, (hFx _).2]
                  simp [hx]
                have hlenAB : (bsP.zipIdx.map F).length = bsP.length := by simp
                rw [hF, hlive, hlenAB]
                refine ⟨nexts, bs, hn, hbs, hl, ?_, ?_, ?_, ?_⟩
                · intro a b ha hb
                  rw [(hget a ha).1, (hget b hb).2]
                  exact hm a b ha hb
                · intro d hd hnl
                  have hdd : d ∈ List.filter (fun b => !reach.contains b) (List.range bs.length) := by
                    rw [List.mem_filter]
                    refine ⟨List.mem_range.mpr (by rw [← hl]; exact hd), ?_⟩
                    simp only [List.mem_filter, List.mem_range, not_and] at hnl
                    have := hnl (by rw [← hl]; exact hd)
                    simpa using this
                  have hnil := hdead d hdd
                  refine ⟨by rw [(hget d hd).1]; exact hnil, ?_⟩
                  intro b hb
                  rw [(hget b hb).2]
                  have := hm d b hd hb
                  rw [hnil] at this
                  simp only [List.count_nil] at this
                  exact List.count_eq_zero.mp this.symm
                · intro x hx
                  simp only [List.mem_filter, List.mem_range] at hx
                  have hxl : x < bsP.length := by rw [hl]; exact hx.1
                  refine ⟨hxl, ?_⟩
                  rw [(hget x hxl).1]
                  apply hkeep x hx.1
                  intro hmem
                  have := (List.mem_filter.mp hmem).2
                  have h2 := hx.2
                  simp only [List.contains_eq_mem, decide_eq_true_eq, Bool.not_eq_true', decide_eq_false_iff_not] at this h2
                  exact this h2
                · intro a ha b hb
                  rw [(hget a ha).1] at hb
                  by_cases hdead' : a ∈ List.filter (fun b => !reach.contains b) (List.range bs.length)
                  · rw [hdead a hdead'] at hb; cases hb
                  · rw [hkeep a (by rw [← hl]; exact ha) hdead'] at hb
                    rw [hl]
                    exact hwf.1 a (by rw [← hl]; exact ha) b hb

end Tealer.Mirror
