/-
  The truth value `Asserted.Eval` assigns to a condition of the stack AST is the truth value the concrete run computes:
  with the leaves read as "the value the leaf instruction pushed is non-zero", the `!`, `&&`, `||` structure above them
  evaluates, in the AST, to exactly what the AVM pushes.
-/
import TealerModel.Lemmas.OperandValues
import TealerModel.Lemmas.Asserted
namespace Tealer.EvalRun
open Tealer.Avm Tealer.OperandValues Tealer.Asserted List

/-- AVM truth of a value -/
def truthy : Val → Bool
  | .int n => n != 0
  | .bytes _ => true

theorem step_not (prog : List Ins) (e : Env) (s s' : State) (i : Ins) (hi : prog[s.pc]? = some i) (hop : i.op = .not)
    (hs : step prog e s = .next s') : ∃ r x, s.stack = r ++ [.int x] ∧ s'.stack = r ++ [b2n (x == 0)] := by
  unfold step at hs
  simp only [hi, hop] at hs
  split at hs
  · rename_i x r hp
    simp only [Outcome.next.injEq] at hs
    subst hs
    exact ⟨r, x, StackEffect.popInt_spec _ _ _ hp, rfl⟩
  · cases hs

theorem step_and (prog : List Ins) (e : Env) (s s' : State) (i : Ins) (hi : prog[s.pc]? = some i) (hop : i.op = .and)
    (hs : step prog e s = .next s') :
    ∃ r x y, s.stack = r ++ [.int x, .int y] ∧ s'.stack = r ++ [b2n (x != 0 && y != 0)] := by
  unfold step at hs
  simp only [hi, hop] at hs
  split at hs
  · rename_i y r1 hp1
    split at hs
    · rename_i x r hp2
      simp only [Outcome.next.injEq] at hs
      subst hs
      have e1 := StackEffect.popInt_spec _ _ _ hp1
      have e2 := StackEffect.popInt_spec _ _ _ hp2
      refine ⟨r, x, y, by rw [e1, e2]; simp, by simp⟩
    · cases hs
  · cases hs

theorem step_or (prog : List Ins) (e : Env) (s s' : State) (i : Ins) (hi : prog[s.pc]? = some i) (hop : i.op = .or)
    (hs : step prog e s = .next s') :
    ∃ r x y, s.stack = r ++ [.int x, .int y] ∧ s'.stack = r ++ [b2n (x != 0 || y != 0)] := by
  unfold step at hs
  simp only [hi, hop] at hs
  split at hs
  · rename_i y r1 hp1
    split at hs
    · rename_i x r hp2
      simp only [Outcome.next.injEq] at hs
      subst hs
      have e1 := StackEffect.popInt_spec _ _ _ hp1
      have e2 := StackEffect.popInt_spec _ _ _ hp2
      refine ⟨r, x, y, by rw [e1, e2]; simp, by simp⟩
    · cases hs
  · cases hs

theorem argsAt_length (ins : List Ins) (j : Nat) : (argsAt ins j).length = (ins[j]!).op.pops := by
  unfold argsAt astStep popN
  by_cases hk : (ins[j]!).op.pops ≤ (symRun ins j).length
  · simp only [hk, if_true, List.length_drop]; omega
  · simp only [hk, if_false, List.length_append, List.length_replicate]; omega

/-- output indices on the symbolic stack are below the producer's push count -/
theorem symRun_out (ins : List Ins) : ∀ j, ∀ c ∈ symRun ins j, ∀ q o, c = some (q, o) → o < (ins[q]!).op.pushes := by
  intro j
  induction j with
  | zero => intro c hc; cases hc
  | succ j ih =>
    intro c hc q o hq
    simp only [symRun] at hc
    unfold astStep popN at hc
    by_cases hk : (ins[j]!).op.pops ≤ (symRun ins j).length
    · simp only [hk, if_true] at hc
      rcases List.mem_append.mp hc with h | h
      · exact ih c (List.mem_of_mem_take h) q o hq
      · obtain ⟨j', hj', rfl⟩ := List.mem_map.mp h
        simp only [Option.some.injEq, Prod.mk.injEq] at hq
        obtain ⟨rfl, rfl⟩ := hq
        exact List.mem_range.mp hj'
    · simp only [hk, if_false, List.nil_append] at hc
      obtain ⟨j', hj', rfl⟩ := List.mem_map.mp hc
      simp only [Option.some.injEq, Prod.mk.injEq] at hq
      obtain ⟨rfl, rfl⟩ := hq
      exact List.mem_range.mp hj'

theorem argsAt_out (ins : List Ins) (j : Nat) : ∀ c ∈ argsAt ins j, ∀ q o, c = some (q, o) → o < (ins[q]!).op.pushes := by
  intro c hc q o hq
  rcases (astStep_cells (symRun ins j) j (ins[j]!).op).1 c hc with h | h
  · rw [h] at hq; cases hq
  · exact symRun_out ins j c h q o hq

theorem dedicated_pushes_le_one (op : Op) (h : ∀ n a b, op ≠ .other n a b) : op.pushes ≤ 1 := by
  cases op <;> simp [Op.pushes]
  case other n a b => exact absurd rfl (h n a b)

theorem truthy_b2n (b : Bool) : truthy (b2n b) = b := by
  cases b <;> simp [truthy, b2n]

theorem opOf_constructAst (ins : List Ins) (p : Nat) (hp : p < ins.length) : (constructAst ins).opOf p = (ins[p]!).op := by
  unfold Ast.opOf constructAst
  simp [hp]

theorem argsOf_constructAst (ins : List Ins) (p : Nat) (hp : p < ins.length) : (constructAst ins).argsOf p = argsAt ins p := by
  unfold Ast.argsOf
  rw [constructAst_args]
  simp [hp]

/-- one operand of a logical instruction: it denotes (in the sense of `Eval`) the truth of the integer really popped -/
theorem operand_eval (blockIns : List Ins) (valOf : Nat × Nat → Val) (p k : Nat) (hpk : p < k)
    (hded : ∀ j, j < k → ∀ n a b, (blockIns[j]!).op ≠ .other n a b)
    (ih : ∀ q, q < p → (blockIns[q]!).op.pushes = 1 →
      Eval (constructAst blockIns) (fun p => truthy (valOf (p, 0))) (some (q, 0)) (truthy (valOf (q, 0))))
    (c : Ref) (hc : c ∈ argsAt blockIns p) (x : Nat) (hag : Agree valOf c (.int x)) :
    Eval (constructAst blockIns) (fun p => truthy (valOf (p, 0))) c (x != 0) := by
  cases c with
  | none => exact Eval.unknown _
  | some qo =>
    obtain ⟨q, o⟩ := qo
    have hq : q < p := argsAt_tags blockIns p _ hc (q, o) rfl
    have ho := argsAt_out blockIns p _ hc q o rfl
    have hle := dedicated_pushes_le_one (blockIns[q]!).op (hded q (by omega))
    have ho0 : o = 0 := by omega
    subst ho0
    have hval := hag (q, 0) rfl
    have := ih q hq (by omega)
    rw [← hval] at this
    simpa [truthy] using this

/-- THE CONDITION TREE EVALUATES TO WHAT THE AVM COMPUTES.  For a straight run through the first `k` instructions of a block
    there is an assignment of values to producer references (as in `block_operands`) such that, reading every leaf as "the
    value that instruction pushed is non-zero", the stack AST's `!` / `&&` / `||` structure gives every single-output
    instruction of the run exactly the truth value of the value the AVM pushed for it. -/
theorem eval_realized (prog : List Ins) (e : Env) (blockIns : List Ins) (pc0 : Nat) (st : Nat → State) (k : Nat)
    (hrun : BlockRun prog e blockIns pc0 k st) :
    ∃ valOf : Nat × Nat → Val,
      (∀ j, j < k → ∀ i, i < (blockIns[j]!).op.pushes →
        (st (j + 1)).stack[(st j).stack.length - (blockIns[j]!).op.pops + i]? = some (valOf (j, i))) ∧
      (∀ j, j < k → Forall₂ (Agree valOf) (argsAt blockIns j)
        ((st j).stack.drop ((st j).stack.length - (blockIns[j]!).op.pops))) ∧
      VSim valOf (symRun blockIns k) (st k).stack ∧
      ∀ p, p < k → (blockIns[p]!).op.pushes = 1 →
        Eval (constructAst blockIns) (fun p => truthy (valOf (p, 0))) (some (p, 0)) (truthy (valOf (p, 0))) := by
  obtain ⟨valOf, hvsim, hargs, hout⟩ := block_operands prog e blockIns pc0 st k hrun
  refine ⟨valOf, hout, hargs, hvsim, ?_⟩
  intro p
  induction p using Nat.strongRecOn with
  | _ p ih =>
    intro hpk hpush
    have hpl : p < blockIns.length := by have := hrun.len; omega
    have hi : prog[(st p).pc]? = some (blockIns[p]!) := by
      rw [hrun.pcs p (by omega)]; exact hrun.code p hpk
    have hstep := hrun.steps p hpk
    have hop_eq := opOf_constructAst blockIns p hpl
    have hargs_eq := argsOf_constructAst blockIns p hpl
    have ih' : ∀ q, q < p → (blockIns[q]!).op.pushes = 1 →
        Eval (constructAst blockIns) (fun p => truthy (valOf (p, 0))) (some (q, 0)) (truthy (valOf (q, 0))) :=
      fun q hq hpq => ih q hq (by omega) hpq
    have hag := hargs p hpk
    have hlen := argsAt_length blockIns p
    by_cases hnot : (blockIns[p]!).op = .not
    · obtain ⟨r, x, hs1, hs2⟩ := step_not prog e (st p) (st (p + 1)) _ hi hnot hstep
      have hpops : (blockIns[p]!).op.pops = 1 := by rw [hnot]; rfl
      -- the recorded output
      have hv := hout p hpk 0 (by omega)
      rw [hpops, hs1, hs2] at hv
      simp at hv
      -- the operand
      rw [hpops, hs1] at hag
      simp at hag
      rw [hpops] at hlen
      obtain ⟨c, hc⟩ : ∃ c, argsAt blockIns p = [c] := by
        match h : argsAt blockIns p, hlen with
        | [c], _ => exact ⟨c, rfl⟩
      rw [hc] at hag
      simp at hag
      have hev := operand_eval blockIns valOf p k hpk hrun.dedicated ih' c (by rw [hc]; simp) x hag
      rw [← hv, truthy_b2n]
      cases c with
      | none =>
        exact Eval.notUnknown p 0 _ (by rw [hop_eq]; exact hnot) (by rw [hargs_eq, hc])
      | some qo =>
        obtain ⟨q, o⟩ := qo
        have := Eval.not p 0 q o _ (by rw [hop_eq]; exact hnot) (by rw [hargs_eq, hc]) hev
        simpa [bne] using this
    · by_cases hand : (blockIns[p]!).op = .and
      · obtain ⟨r, x, y, hs1, hs2⟩ := step_and prog e (st p) (st (p + 1)) _ hi hand hstep
        have hpops : (blockIns[p]!).op.pops = 2 := by rw [hand]; rfl
        have hv := hout p hpk 0 (by omega)
        rw [hpops, hs1, hs2] at hv
        simp at hv
        rw [hpops, hs1] at hag
        simp at hag
        rw [hpops] at hlen
        obtain ⟨c1, c2, hc⟩ : ∃ c1 c2, argsAt blockIns p = [c1, c2] := by
          match h : argsAt blockIns p, hlen with
          | [c1, c2], _ => exact ⟨c1, c2, rfl⟩
        rw [hc] at hag
        simp at hag
        have e1 := operand_eval blockIns valOf p k hpk hrun.dedicated ih' c1 (by rw [hc]; simp) x hag.1
        have e2 := operand_eval blockIns valOf p k hpk hrun.dedicated ih' c2 (by rw [hc]; simp) y hag.2
        rw [← hv, truthy_b2n]
        exact Eval.and p 0 c1 c2 _ _ (by rw [hop_eq]; exact hand) (by rw [hargs_eq, hc]) e1 e2
      · by_cases hor : (blockIns[p]!).op = .or
        · obtain ⟨r, x, y, hs1, hs2⟩ := step_or prog e (st p) (st (p + 1)) _ hi hor hstep
          have hpops : (blockIns[p]!).op.pops = 2 := by rw [hor]; rfl
          have hv := hout p hpk 0 (by omega)
          rw [hpops, hs1, hs2] at hv
          simp at hv
          rw [hpops, hs1] at hag
          simp at hag
          rw [hpops] at hlen
          obtain ⟨c1, c2, hc⟩ : ∃ c1 c2, argsAt blockIns p = [c1, c2] := by
            match h : argsAt blockIns p, hlen with
            | [c1, c2], _ => exact ⟨c1, c2, rfl⟩
          rw [hc] at hag
          simp at hag
          have e1 := operand_eval blockIns valOf p k hpk hrun.dedicated ih' c1 (by rw [hc]; simp) x hag.1
          have e2 := operand_eval blockIns valOf p k hpk hrun.dedicated ih' c2 (by rw [hc]; simp) y hag.2
          rw [← hv, truthy_b2n]
          exact Eval.or p 0 c1 c2 _ _ (by rw [hop_eq]; exact hor) (by rw [hargs_eq, hc]) e1 e2
        · exact Eval.leaf p 0 (by rw [hop_eq]; exact hand) (by rw [hop_eq]; exact hor) (by rw [hop_eq]; exact hnot)

end Tealer.EvalRun
