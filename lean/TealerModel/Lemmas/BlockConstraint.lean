/-
  Soundness of the block-level constraint (`_block_level_constraints`, model: `blockConstraint`) against the concrete
  semantics: for a straight run through a whole block (no `return` / `err` executed), the block constraint of every key
  admits the governed value, provided the leaf matcher is sound for the actual truth of the leaves.
-/
import TealerModel.Lemmas.EvalRun
namespace Tealer.BlockConstraint
open Tealer.Avm Tealer.OperandValues Tealer.EvalRun Tealer.Asserted List

variable {D V : Type} [DecidableEq D]

/-- the loop body of `_block_level_constraints` -/
def bcStep (A : Analysis D) (ic : Option (List Nat)) (a : Ast) (key : Key) (fuel : Nat) (ctx : D) (x : Ins × Nat) : D :=
  match x.1.op with
  | .assert =>
    match condArg a x.2 with
    | none => ctx
    | some q => A.dom.inter ctx (getAsserted A ic a key fuel q).1
  | .ret =>
    match condArg a x.2 with
    | none => ctx
    | some q =>
      if intPush ic (a.opOf q) == some (some (.lit 0)) then A.dom.null
      else A.dom.inter ctx (getAsserted A ic a key fuel q).1
  | .err | .customErr => A.dom.null
  | _ => ctx

theorem blockConstraint_eq (A : Analysis D) (ic : Option (List Nat)) (b : FBlock) (key : Key) :
    blockConstraint A ic b key =
      (b.ins.zipIdx).foldl (bcStep A ic (constructAst b.ins) key (b.ins.length + 1)) (A.univ key.base) := by
  rfl

theorem step_assert (prog : List Ins) (e : Env) (s s' : State) (i : Ins) (hi : prog[s.pc]? = some i) (hop : i.op = .assert)
    (hs : step prog e s = .next s') : ∃ r n, s.stack = r ++ [.int n] ∧ n ≠ 0 := by
  unfold step at hs
  simp only [hi, hop] at hs
  split at hs
  · rename_i n r hp
    split at hs
    · rename_i hn
      exact ⟨r, n, StackEffect.popInt_spec _ _ _ hp, by simpa using hn⟩
    · cases hs
  · cases hs

theorem zipIdx_take_succ (l : List Ins) (k : Nat) (hk : k < l.length) :
    (l.take (k + 1)).zipIdx = (l.take k).zipIdx ++ [(l[k]!, k)] := by
  rw [List.take_succ_eq_append_getElem hk, List.zipIdx_append]
  simp [getElem!_pos, hk, List.length_take, Nat.min_eq_left (Nat.le_of_lt hk)]

/-- core of the argument, for a given assignment of values to producer references -/
theorem prefix_sound_core {A : Analysis D} {γ : D → V → Prop} (L : Flow.GammaLaws A γ)
    (prog : List Ins) (e : Env) (blockIns : List Ins) (pc0 : Nat) (st : Nat → State) (k : Nat)
    (hrun : BlockRun prog e blockIns pc0 k st) (valOf : Nat × Nat → Val)
    (hargs : ∀ j, j < k → Forall₂ (Agree valOf) (argsAt blockIns j)
      ((st j).stack.drop ((st j).stack.length - (blockIns[j]!).op.pops)))
    (hev : ∀ p, p < k → (blockIns[p]!).op.pushes = 1 →
      Eval (constructAst blockIns) (fun p => truthy (valOf (p, 0))) (some (p, 0)) (truthy (valOf (p, 0)))) :
      ∀ (ic : Option (List Nat)) (key : Key) (v : V) (fuel : Nat), γ (A.univ key.base) v →
        (∀ p, (truthy (valOf (p, 0)) = true → γ (A.single ic (constructAst blockIns) key p).1 v) ∧
              (truthy (valOf (p, 0)) = false → γ (A.single ic (constructAst blockIns) key p).2 v)) →
        ∀ k', k' ≤ k →
          γ (((blockIns.take k').zipIdx).foldl (bcStep A ic (constructAst blockIns) key fuel) (A.univ key.base)) v := by
  intro ic key v fuel huniv hs k'
  induction k' with
  | zero => intro _; simpa using huniv
  | succ j ih =>
    intro hj
    have hjk : j < k := by omega
    have hjl : j < blockIns.length := by have := hrun.len; omega
    rw [zipIdx_take_succ blockIns j hjl, List.foldl_append]
    simp only [List.foldl_cons, List.foldl_nil]
    have hprev := ih (by omega)
    generalize ((blockIns.take j).zipIdx).foldl (bcStep A ic (constructAst blockIns) key fuel) (A.univ key.base) = ctx at hprev ⊢
    have hi : prog[(st j).pc]? = some (blockIns[j]!) := by
      rw [hrun.pcs j (by omega)]; exact hrun.code j hjk
    have hstep := hrun.steps j hjk
    unfold bcStep
    simp only []
    cases hop : (blockIns[j]!).op <;> simp only [] <;> try exact hprev
    case assert =>
      cases hcond : condArg (constructAst blockIns) j with
      | none => simpa [hcond] using hprev
      | some q =>
        simp only [hcond]
        refine L.inter_sound _ _ _ hprev ?_
        -- the operand of the assert
        obtain ⟨r, n, hst, hn⟩ := step_assert prog e (st j) (st (j + 1)) _ hi hop hstep
        have hag := hargs j hjk
        have hlen := argsAt_length blockIns j
        rw [hop] at hlen hag
        simp only [Op.pops] at hlen hag
        rw [hst] at hag
        simp at hag
        have hargs_eq := argsOf_constructAst blockIns j hjl
        unfold condArg at hcond
        rw [hargs_eq] at hcond
        obtain ⟨c, hc⟩ : ∃ c, argsAt blockIns j = [c] := by
          match h : argsAt blockIns j, hlen with
          | [c], _ => exact ⟨c, rfl⟩
        rw [hc] at hcond hag
        simp at hag
        cases c with
        | none => simp at hcond
        | some qo =>
          obtain ⟨q', o⟩ := qo
          simp only [Option.some.injEq] at hcond
          subst hcond
          have hq : q' < j := argsAt_tags blockIns j _ (by rw [hc]; simp) (q', o) rfl
          have ho := argsAt_out blockIns j _ (by rw [hc]; simp) q' o rfl
          have hle := dedicated_pushes_le_one (blockIns[q']!).op (hrun.dedicated q' (by omega))
          have ho0 : o = 0 := by omega
          subst ho0
          have hval := hag (q', 0) rfl
          have hpush : (blockIns[q']!).op.pushes = 1 := by omega
          have htr : truthy (valOf (q', 0)) = true := by
            rw [← hval]; simp [truthy, hn]
          exact (getAsserted_sound L ic key v huniv hs fuel q' 0 _ (hev q' (by omega) hpush)).1 htr
    case ret =>
      exfalso
      unfold step at hstep
      simp only [hi, hop] at hstep
      split at hstep
      · split at hstep <;> cases hstep
      · cases hstep
    case err =>
      exfalso
      unfold step at hstep
      simp only [hi, hop] at hstep
      cases hstep
    case customErr =>
      exfalso
      unfold step at hstep
      simp only [hi, hop] at hstep
      cases hstep

/-- the constraint accumulated over the instructions a straight run has executed admits the governed value -/
theorem prefix_sound {A : Analysis D} {γ : D → V → Prop} (L : Flow.GammaLaws A γ)
    (prog : List Ins) (e : Env) (blockIns : List Ins) (pc0 : Nat) (st : Nat → State) (k : Nat)
    (hrun : BlockRun prog e blockIns pc0 k st) :
    ∃ valOf : Nat × Nat → Val,
      (∀ j, j < k → ∀ i, i < (blockIns[j]!).op.pushes →
        (st (j + 1)).stack[(st j).stack.length - (blockIns[j]!).op.pops + i]? = some (valOf (j, i))) ∧
      ∀ (ic : Option (List Nat)) (key : Key) (v : V) (fuel : Nat), γ (A.univ key.base) v →
        (∀ p, (truthy (valOf (p, 0)) = true → γ (A.single ic (constructAst blockIns) key p).1 v) ∧
              (truthy (valOf (p, 0)) = false → γ (A.single ic (constructAst blockIns) key p).2 v)) →
        ∀ k', k' ≤ k →
          γ (((blockIns.take k').zipIdx).foldl (bcStep A ic (constructAst blockIns) key fuel) (A.univ key.base)) v := by
  obtain ⟨valOf, hout, hargs, _, hev⟩ := eval_realized prog e blockIns pc0 st k hrun
  exact ⟨valOf, hout, prefix_sound_core L prog e blockIns pc0 st k hrun valOf hargs hev⟩

/-- a straight run through ALL instructions of a block (it ends in a branch, a call, or falls through): the block-level
    constraint of every key admits the governed value -/
theorem whole_block_sound {A : Analysis D} {γ : D → V → Prop} (L : Flow.GammaLaws A γ)
    (prog : List Ins) (e : Env) (b : FBlock) (pc0 : Nat) (st : Nat → State)
    (hrun : BlockRun prog e b.ins pc0 b.ins.length st) :
    ∃ valOf : Nat × Nat → Val,
      (∀ j, j < b.ins.length → ∀ i, i < (b.ins[j]!).op.pushes →
        (st (j + 1)).stack[(st j).stack.length - (b.ins[j]!).op.pops + i]? = some (valOf (j, i))) ∧
      ∀ (ic : Option (List Nat)) (key : Key) (v : V), γ (A.univ key.base) v →
        (∀ p, (truthy (valOf (p, 0)) = true → γ (A.single ic (constructAst b.ins) key p).1 v) ∧
              (truthy (valOf (p, 0)) = false → γ (A.single ic (constructAst b.ins) key p).2 v)) →
        γ (blockConstraint A ic b key) v := by
  obtain ⟨valOf, hout, h⟩ := prefix_sound L prog e b.ins pc0 st b.ins.length hrun
  refine ⟨valOf, hout, ?_⟩
  intro ic key v huniv hs
  have := h ic key v (b.ins.length + 1) huniv hs b.ins.length (Nat.le_refl _)
  rw [List.take_length] at this
  rw [blockConstraint_eq]
  exact this

theorem step_branch (prog : List Ins) (e : Env) (s s' : State) (i : Ins) (hi : prog[s.pc]? = some i)
    (hop : (∃ l, i.op = .bz l) ∨ (∃ l, i.op = .bnz l)) (hs : step prog e s = .next s') :
    ∃ r n, s.stack = r ++ [.int n] := by
  unfold step at hs
  simp only [hi] at hs
  rcases hop with ⟨l, hop⟩ | ⟨l, hop⟩ <;> simp only [hop] at hs
  all_goals
    split at hs
    · rename_i n r hp
      exact ⟨r, n, StackEffect.popInt_spec _ _ _ hp⟩
    · cases hs

/-- THE EDGE CONSTRAINT.  For a straight run through all instructions of a block that ends in `bz` / `bnz`, with `n` the
    integer the branch popped: the sets `_get_asserted` computes for the branch condition admit the governed value on the
    side of `n` (true set if `n ≠ 0`, false set if `n = 0`) — so `_path_level_constraints`, which stores the true set on the
    edge taken when the condition holds and the false set on the other, admits the value on the edge the run takes. -/
theorem branch_sound {A : Analysis D} {γ : D → V → Prop} (L : Flow.GammaLaws A γ)
    (prog : List Ins) (e : Env) (b : FBlock) (pc0 : Nat) (st : Nat → State)
    (hrun : BlockRun prog e b.ins pc0 b.ins.length st) (hne : b.ins ≠ [])
    (hop : (∃ l, (b.ins[b.ins.length - 1]!).op = .bz l) ∨ (∃ l, (b.ins[b.ins.length - 1]!).op = .bnz l)) :
    ∃ (valOf : Nat × Nat → Val) (r : List Val) (n : Nat),
      (st (b.ins.length - 1)).stack = r ++ [.int n] ∧
      ∀ (ic : Option (List Nat)) (key : Key) (v : V), γ (A.univ key.base) v →
        (∀ p, (truthy (valOf (p, 0)) = true → γ (A.single ic (constructAst b.ins) key p).1 v) ∧
              (truthy (valOf (p, 0)) = false → γ (A.single ic (constructAst b.ins) key p).2 v)) →
        ∀ q, condArg (constructAst b.ins) (b.ins.length - 1) = some q → ∀ fuel,
          (n ≠ 0 → γ (getAsserted A ic (constructAst b.ins) key fuel q).1 v) ∧
          (n = 0 → γ (getAsserted A ic (constructAst b.ins) key fuel q).2 v) := by
  have hlen : 0 < b.ins.length := List.length_pos_iff.mpr hne
  have hj : b.ins.length - 1 < b.ins.length := by omega
  obtain ⟨valOf, hout, hargs, _, hev⟩ := eval_realized prog e b.ins pc0 st b.ins.length hrun
  have hi : prog[(st (b.ins.length - 1)).pc]? = some (b.ins[b.ins.length - 1]!) := by
    rw [hrun.pcs _ (by omega)]; exact hrun.code _ hj
  have hstep := hrun.steps _ hj
  have hsucc : b.ins.length - 1 + 1 = b.ins.length := by omega
  obtain ⟨r, n, hst⟩ := step_branch prog e _ _ _ hi hop hstep
  refine ⟨valOf, r, n, hst, ?_⟩
  intro ic key v huniv hs q hcond fuel
  have hag := hargs _ hj
  have hlena := argsAt_length b.ins (b.ins.length - 1)
  have hpops : (b.ins[b.ins.length - 1]!).op.pops = 1 := by
    rcases hop with ⟨l, h⟩ | ⟨l, h⟩ <;> rw [h] <;> rfl
  rw [hpops] at hlena hag
  rw [hst] at hag
  simp at hag
  have hargs_eq := argsOf_constructAst b.ins (b.ins.length - 1) hj
  unfold condArg at hcond
  rw [hargs_eq] at hcond
  obtain ⟨c, hc⟩ : ∃ c, argsAt b.ins (b.ins.length - 1) = [c] := by
    match h : argsAt b.ins (b.ins.length - 1), hlena with
    | [c], _ => exact ⟨c, rfl⟩
  rw [hc] at hcond hag
  simp at hag
  cases c with
  | none => simp at hcond
  | some qo =>
    obtain ⟨q', o⟩ := qo
    simp only [Option.some.injEq] at hcond
    subst hcond
    have hq : q' < b.ins.length - 1 := argsAt_tags b.ins _ _ (by rw [hc]; simp) (q', o) rfl
    have ho := argsAt_out b.ins _ _ (by rw [hc]; simp) q' o rfl
    have hle := dedicated_pushes_le_one (b.ins[q']!).op (hrun.dedicated q' (by omega))
    have ho0 : o = 0 := by omega
    subst ho0
    have hval := hag (q', 0) rfl
    have hpush : (b.ins[q']!).op.pushes = 1 := by omega
    have hsound := getAsserted_sound L ic key v huniv hs fuel q' 0 _ (hev q' (by omega) hpush)
    constructor
    · intro hn
      exact hsound.1 (by rw [← hval]; simp [truthy, hn])
    · intro hn
      exact hsound.2 (by rw [← hval]; simp [truthy, hn])

/-- the successors `_path_level_constraints` treats as fall-through / jump edge of a branching block -/
def edgesOf (pred : FBlock) : Option Nat × Option Nat :=
  match pred.next with
  | [j] => if pred.exitNexts > 1 then (none, none) else (none, some j)
  | d :: j :: _ => (some d, some j)
  | [] => (none, none)

theorem getLast_op (b : FBlock) (hne : b.ins ≠ []) : b.exitOp = some (b.ins[b.ins.length - 1]!).op := by
  unfold FBlock.exitOp
  have hlen : 0 < b.ins.length := List.length_pos_iff.mpr hne
  rw [List.getLast?_eq_getElem?]
  have : b.ins.length - 1 < b.ins.length := by omega
  simp [List.getElem?_eq_getElem this, getElem!_pos, this]

/-- `_path_level_constraints` is sound on the edge a run really takes: if `succ` is recorded as the fall-through successor
    only when the branch fell through, and as the jump successor only when it jumped, the edge constraint admits the value -/
theorem pathConstraint_sound {A : Analysis D} {γ : D → V → Prop} (L : Flow.GammaLaws A γ)
    (prog : List Ins) (e : Env) (b : FBlock) (pc0 : Nat) (st : Nat → State)
    (hrun : BlockRun prog e b.ins pc0 b.ins.length st) (hne : b.ins ≠ []) :
    ∃ (valOf : Nat × Nat → Val),
      ∀ (ic : Option (List Nat)) (key : Key) (v : V) (succ : Nat), γ (A.univ key.base) v →
        (∀ p, (truthy (valOf (p, 0)) = true → γ (A.single ic (constructAst b.ins) key p).1 v) ∧
              (truthy (valOf (p, 0)) = false → γ (A.single ic (constructAst b.ins) key p).2 v)) →
        (∀ l r n, (b.ins[b.ins.length - 1]!).op = .bz l → (st (b.ins.length - 1)).stack = r ++ [.int n] →
          ((edgesOf b).1 = some succ → n ≠ 0) ∧ ((edgesOf b).1 ≠ some succ → (edgesOf b).2 = some succ → n = 0)) →
        (∀ l r n, (b.ins[b.ins.length - 1]!).op = .bnz l → (st (b.ins.length - 1)).stack = r ++ [.int n] →
          ((edgesOf b).1 = some succ → n = 0) ∧ ((edgesOf b).1 ≠ some succ → (edgesOf b).2 = some succ → n ≠ 0)) →
        γ (pathConstraint A ic b succ key) v := by
  by_cases hop : (∃ l, (b.ins[b.ins.length - 1]!).op = .bz l) ∨ (∃ l, (b.ins[b.ins.length - 1]!).op = .bnz l)
  · obtain ⟨valOf, r, n, hst, hbr⟩ := branch_sound L prog e b pc0 st hrun hne hop
    refine ⟨valOf, ?_⟩
    intro ic key v succ huniv hs hbz hbnz
    unfold pathConstraint
    simp only [getLast_op b hne]
    rcases hop with ⟨l, hl⟩ | ⟨l, hl⟩
    · simp only [hl]
      cases hq : condArg (constructAst b.ins) (b.ins.length - 1) with
      | none => simpa [hq] using huniv
      | some q =>
        have hside := hbr ic key v huniv hs q hq (b.ins.length + 1)
        obtain ⟨h1, h2⟩ := hbz l r n hl hst
        simp only [hq]
        change γ (if ((edgesOf b).1 == some succ) = true then (getAsserted A ic (constructAst b.ins) key (b.ins.length + 1) q).1
          else if ((edgesOf b).2 == some succ) = true then (getAsserted A ic (constructAst b.ins) key (b.ins.length + 1) q).2
          else A.univ key.base) v
        by_cases hd : (edgesOf b).1 = some succ
        · simp only [hd, beq_self_eq_true, if_true]
          exact hside.1 (h1 hd)
        · have hd' : ((edgesOf b).1 == some succ) = false := by simpa using hd
          simp only [hd']
          by_cases hjmp : (edgesOf b).2 = some succ
          · simp only [hjmp, beq_self_eq_true, if_true]
            exact hside.2 (h2 hd hjmp)
          · have hj' : ((edgesOf b).2 == some succ) = false := by simpa using hjmp
            simpa [hj'] using huniv
    · simp only [hl]
      cases hq : condArg (constructAst b.ins) (b.ins.length - 1) with
      | none => simpa [hq] using huniv
      | some q =>
        have hside := hbr ic key v huniv hs q hq (b.ins.length + 1)
        obtain ⟨h1, h2⟩ := hbnz l r n hl hst
        simp only [hq]
        change γ (if ((edgesOf b).1 == some succ) = true then (getAsserted A ic (constructAst b.ins) key (b.ins.length + 1) q).2
          else if ((edgesOf b).2 == some succ) = true then (getAsserted A ic (constructAst b.ins) key (b.ins.length + 1) q).1
          else A.univ key.base) v
        by_cases hd : (edgesOf b).1 = some succ
        · simp only [hd, beq_self_eq_true, if_true]
          exact hside.2 (h1 hd)
        · have hd' : ((edgesOf b).1 == some succ) = false := by simpa using hd
          simp only [hd']
          by_cases hjmp : (edgesOf b).2 = some succ
          · simp only [hjmp, beq_self_eq_true, if_true]
            exact hside.1 (h2 hd hjmp)
          · have hj' : ((edgesOf b).2 == some succ) = false := by simpa using hjmp
            simpa [hj'] using huniv
  · -- not a conditional branch: no constraint
    refine ⟨fun _ => .int 0, ?_⟩
    intro ic key v succ huniv _ _ _
    unfold pathConstraint
    simp only [getLast_op b hne]
    cases hlast : (b.ins[b.ins.length - 1]!).op <;> simp only [] <;> try exact huniv
    · exact absurd (Or.inl ⟨_, hlast⟩) hop
    · exact absurd (Or.inr ⟨_, hlast⟩) hop

theorem step_ret_accept (prog : List Ins) (e : Env) (s : State) (i : Ins) (hi : prog[s.pc]? = some i) (hop : i.op = .ret)
    (hs : step prog e s = .accept) : ∃ r n, s.stack = r ++ [.int n] ∧ n ≠ 0 := by
  unfold step at hs
  simp only [hi, hop] at hs
  split at hs
  · rename_i n r hp
    split at hs
    · rename_i hn
      exact ⟨r, n, StackEffect.popInt_spec _ _ _ hp, by simpa using hn⟩
    · cases hs
  · cases hs

/-- A BLOCK THAT APPROVES.  A straight run through all instructions of a block but the last, whose last instruction is a
    `return` that approves (the machine's outcome is `accept`): the block-level constraint admits the governed value
    (when the returned value is not the literal the tool reads as `return 0`). -/
theorem accepting_block_sound {A : Analysis D} {γ : D → V → Prop} (L : Flow.GammaLaws A γ)
    (prog : List Ins) (e : Env) (b : FBlock) (pc0 : Nat) (st : Nat → State) (hne : b.ins ≠ [])
    (hrun : BlockRun prog e b.ins pc0 (b.ins.length - 1) st)
    (hlast : (b.ins[b.ins.length - 1]!).op = .ret)
    (hcode : prog[pc0 + (b.ins.length - 1)]? = some (b.ins[b.ins.length - 1]!))
    (hacc : step prog e (st (b.ins.length - 1)) = .accept) :
    ∃ valOf : Nat × Nat → Val,
      ∀ (ic : Option (List Nat)) (key : Key) (v : V), γ (A.univ key.base) v →
        (∀ p, (truthy (valOf (p, 0)) = true → γ (A.single ic (constructAst b.ins) key p).1 v) ∧
              (truthy (valOf (p, 0)) = false → γ (A.single ic (constructAst b.ins) key p).2 v)) →
        (∀ q, condArg (constructAst b.ins) (b.ins.length - 1) = some q →
          intPush ic ((constructAst b.ins).opOf q) ≠ some (some (.lit 0))) →
        γ (blockConstraint A ic b key) v := by
  have hlen : 0 < b.ins.length := List.length_pos_iff.mpr hne
  have hjl : b.ins.length - 1 < b.ins.length := by omega
  obtain ⟨valOf, _, hargs, hvsim, hev⟩ := eval_realized prog e b.ins pc0 st (b.ins.length - 1) hrun
  have hcore := prefix_sound_core L prog e b.ins pc0 st (b.ins.length - 1) hrun valOf hargs hev
  refine ⟨valOf, ?_⟩
  intro ic key v huniv hs hnz
  have hprev := hcore ic key v (b.ins.length + 1) huniv hs (b.ins.length - 1) (Nat.le_refl _)
  rw [blockConstraint_eq]
  have hsplit : b.ins.zipIdx = (b.ins.take (b.ins.length - 1)).zipIdx ++ [(b.ins[b.ins.length - 1]!, b.ins.length - 1)] := by
    have := zipIdx_take_succ b.ins (b.ins.length - 1) hjl
    have e1 : b.ins.length - 1 + 1 = b.ins.length := by omega
    rw [e1, List.take_length] at this
    exact this
  rw [hsplit, List.foldl_append]
  simp only [List.foldl_cons, List.foldl_nil]
  generalize ((b.ins.take (b.ins.length - 1)).zipIdx).foldl (bcStep A ic (constructAst b.ins) key (b.ins.length + 1))
    (A.univ key.base) = ctx at hprev ⊢
  unfold bcStep
  simp only [hlast]
  cases hcond : condArg (constructAst b.ins) (b.ins.length - 1) with
  | none => simpa using hprev
  | some q =>
    simp only []
    have hq0 := hnz q hcond
    have hb : (intPush ic ((constructAst b.ins).opOf q) == some (some (IntVal.lit 0))) = false := by
      simpa using hq0
    simp only [hb]
    refine L.inter_sound _ _ _ hprev ?_
    -- the value `return` pops
    have hi : prog[(st (b.ins.length - 1)).pc]? = some (b.ins[b.ins.length - 1]!) := by
      rw [hrun.pcs _ (Nat.le_refl _)]; exact hcode
    obtain ⟨r, n, hst, hn⟩ := step_ret_accept prog e _ _ hi hlast hacc
    -- the operand reconstructed for it: the top cell of the symbolic stack
    have hargs_eq := argsOf_constructAst b.ins (b.ins.length - 1) hjl
    unfold condArg at hcond
    rw [hargs_eq] at hcond
    obtain ⟨below, vs, hstack, hf⟩ := hvsim
    have hpops : (b.ins[b.ins.length - 1]!).op.pops = 1 := by rw [hlast]; rfl
    unfold argsAt astStep popN at hcond
    rw [hpops] at hcond
    by_cases hk : 1 ≤ (symRun b.ins (b.ins.length - 1)).length
    · simp only [hk, if_true] at hcond
      -- split the last cell
      have hsymne : symRun b.ins (b.ins.length - 1) ≠ [] := by
        intro e0; rw [e0] at hk; simp at hk
      obtain ⟨sym', c, hsym⟩ : ∃ sym' c, symRun b.ins (b.ins.length - 1) = sym' ++ [c] :=
        ⟨_, _, (List.dropLast_concat_getLast hsymne).symm⟩
      rw [hsym] at hcond hf
      simp at hcond
      have hvs : ∃ vs' x, vs = vs' ++ [x] ∧ Agree valOf c x := by
        have hl := hf.length_eq
        rcases List.eq_nil_or_concat vs with hnil | ⟨vs', x, hcat⟩
        · rw [hnil] at hl; simp at hl
        · rw [List.concat_eq_append] at hcat
          subst hcat
          have hl2 : sym'.length = vs'.length := by
            simp only [List.length_append, List.length_cons, List.length_nil] at hl; omega
          have hmemz : (c, x) ∈ List.zip (sym' ++ [c]) (vs' ++ [x]) := by
            rw [List.zip_append hl2]; simp
          exact ⟨vs', x, rfl, (forall₂_iff_zip.mp hf).2 hmemz⟩
      obtain ⟨vs', x, hvs', hagx⟩ := hvs
      rw [hstack, hvs'] at hst
      have hx : x = .int n := by
        have := congrArg List.getLast? hst
        simp at this
        exact this
      cases c with
      | none => simp at hcond
      | some qo =>
        obtain ⟨q', o⟩ := qo
        simp only [Option.some.injEq] at hcond
        subst hcond
        have hmem : some (q', o) ∈ symRun b.ins (b.ins.length - 1) := by rw [hsym]; simp
        have hq : q' < b.ins.length - 1 := symRun_tags b.ins _ _ hmem (q', o) rfl
        have ho := symRun_out b.ins _ _ hmem q' o rfl
        have hle := dedicated_pushes_le_one (b.ins[q']!).op (hrun.dedicated q' hq)
        have ho0 : o = 0 := by omega
        subst ho0
        have hval := hagx (q', 0) rfl
        have hpush : (b.ins[q']!).op.pushes = 1 := by omega
        have htr : truthy (valOf (q', 0)) = true := by
          rw [← hval, hx]; simp [truthy, hn]
        exact (getAsserted_sound L ic key v huniv hs (b.ins.length + 1) q' 0 _ (hev q' hq hpush)).1 htr
    · simp only [hk, if_false] at hcond
      have : (symRun b.ins (b.ins.length - 1)).length = 0 := by omega
      have hnil : symRun b.ins (b.ins.length - 1) = [] := List.length_eq_zero_iff.mp this
      rw [hnil] at hcond
      simp at hcond

end Tealer.BlockConstraint
