/-
  Soundness of ANY solution of the forward (reach-out) and backward (live-out) equations of generic.py
  (model: `fwdF`, `bwdF`), for any value domain whose union / intersection over-approximate, along the block
  trace of a concrete accepting execution.
-/
import TealerModel.Lemmas.Worklist
set_option linter.unusedSectionVars false
namespace Tealer.Flow

variable {D V : Type} [DecidableEq D]

/-- what the generic solver needs from a domain's concretisation -/
structure GammaLaws (A : Analysis D) (γ : D → V → Prop) : Prop where
  union_sound : ∀ a b v, γ a v ∨ γ b v → γ (A.dom.union a b) v
  inter_sound : ∀ a b v, γ a v → γ b v → γ (A.dom.inter a b) v

variable {A : Analysis D} {γ : D → V → Prop}

theorem foldl_union_init (L : GammaLaws A γ) (f : Nat → D) (xs : List Nat) (init : D) (v : V)
    (h : γ init v) : γ (xs.foldl (fun acc p => A.dom.union acc (f p)) init) v := by
  induction xs generalizing init with
  | nil => simpa
  | cons x xs ih => exact ih _ (L.union_sound _ _ _ (Or.inl h))

theorem foldl_union_mem (L : GammaLaws A γ) (f : Nat → D) (xs : List Nat) (init : D) (v : V)
    (x : Nat) (hx : x ∈ xs) (h : γ (f x) v) : γ (xs.foldl (fun acc p => A.dom.union acc (f p)) init) v := by
  induction xs generalizing init with
  | nil => cases hx
  | cons y ys ih =>
    cases hx with
    | head => exact foldl_union_init L f ys _ v (L.union_sound _ _ _ (Or.inr h))
    | tail _ hm => exact ih _ hm

/-- facts about the block trace of a concrete accepting execution that forward soundness uses -/
structure FwdTrace (g : Graph) (γ : D → V → Prop) (univ : D) (bc : Nat → D) (pc : Nat → Nat → D)
    (v : V) (tr : List Nat) : Prop where
  starts : tr.head? = some g.entry
  univOk : γ univ v
  edges : ∀ i, i + 1 < tr.length → tr[i]! ∈ g.prevG tr[i+1]!
  blockOk : ∀ b ∈ tr, γ (bc b) v
  edgeOk : ∀ i, i + 1 < tr.length → γ (pc tr[i+1]! tr[i]!) v
  /-- a return point is only reached after its call site -/
  matched : ∀ i, i < tr.length → ∀ c, g.callsubOf tr[i]! = some c → ∃ j, j < i ∧ tr[j]! = c

/-- every solution of the reach-out equations admits the concrete value at every block of the trace -/
theorem forward_sound (L : GammaLaws A γ) (g : Graph) (univ : D) (bc : Nat → D) (pc : Nat → Nat → D)
    (rout : List (Nat × D)) (v : V) (tr : List Nat) (ht : FwdTrace g γ univ bc pc v tr)
    (hsol : ∀ b ∈ tr, getMap rout b A.dom.null = fwdF A g univ bc pc rout b) :
    ∀ i, i < tr.length → γ (getMap rout tr[i]! A.dom.null) v := by
  intro i
  induction i using Nat.strongRecOn with
  | _ i ih =>
    intro hi
    have hmem : tr[i]! ∈ tr := by simp [hi]
    rw [hsol _ hmem]
    unfold fwdF
    refine L.inter_sound _ _ _ ?_ (ht.blockOk _ hmem)
    have hr0 : γ ((g.prevG tr[i]!).foldl
        (fun acc p => A.dom.union acc (A.dom.inter (getMap rout p A.dom.null) (pc tr[i]! p)))
        (if (tr[i]! == g.entry) = true then univ else A.dom.null)) v := by
      cases i with
      | zero =>
        have h0 : tr[0]! = g.entry := by
          have := ht.starts
          cases tr with
          | nil => simp at hi
          | cons a t => simpa using this
        apply foldl_union_init L
        simp [h0, ht.univOk]
      | succ k =>
        have hk : k < tr.length := by omega
        apply foldl_union_mem L _ _ _ _ tr[k]! (ht.edges k hi)
        exact L.inter_sound _ _ _ (ih k (by omega) hk) (ht.edgeOk k hi)
    cases hc : g.callsubOf tr[i]! with
    | none => simpa [hc] using hr0
    | some c =>
      obtain ⟨j, hj, hjc⟩ := ht.matched i hi c hc
      have := ih j hj (by omega)
      simp only []
      exact L.inter_sound _ _ _ hr0 (hjc ▸ this)

/-- facts about the trace that backward soundness uses -/
structure BwdTrace (g : Graph) (γ : D → V → Prop) (ctx1 : Nat → D) (v : V) (tr : List Nat) : Prop where
  nonempty : tr ≠ []
  lastLeaf : g.isLeaf tr[tr.length - 1]! = true
  interior : ∀ i, i + 1 < tr.length → g.isLeaf tr[i]! = false
  edges : ∀ i, i + 1 < tr.length → tr[i+1]! ∈ g.nextG tr[i]!
  ctxOk : ∀ b ∈ tr, γ (ctx1 b) v
  /-- a call whose callee can return, made from a block with a return point, does return in this execution -/
  returns : ∀ i, i < tr.length → ∀ r, g.retPointOf tr[i]! = some r → g.calleeHasRetsub tr[i]! = true →
    ∃ j, i < j ∧ j < tr.length ∧ tr[j]! = r

/-- every solution of the live-out equations (with leaf values = the forward solution) admits the concrete
    value at every block of an accepting trace -/
theorem backward_sound (L : GammaLaws A γ) (g : Graph) (ctx1 : Nat → D) (lout : List (Nat × D))
    (v : V) (tr : List Nat) (ht : BwdTrace g γ ctx1 v tr)
    (hleaf : ∀ b ∈ tr, g.isLeaf b = true → getMap lout b A.dom.null = ctx1 b)
    (hsol : ∀ b ∈ tr, getMap lout b A.dom.null = bwdF A g ctx1 lout b) :
    ∀ i, i < tr.length → γ (getMap lout tr[i]! A.dom.null) v := by
  -- induction on the distance from the end
  have key : ∀ d i, i + d + 1 = tr.length → γ (getMap lout tr[i]! A.dom.null) v := by
    intro d
    induction d using Nat.strongRecOn with
    | _ d ih =>
      intro i hid
      have hi : i < tr.length := by omega
      have hmem : tr[i]! ∈ tr := by simp [hi]
      cases d with
      | zero =>
        have : i = tr.length - 1 := by omega
        subst this
        rw [hleaf _ hmem ht.lastLeaf]
        exact ht.ctxOk _ hmem
      | succ d' =>
        have hi1 : i + 1 < tr.length := by omega
        rw [hsol _ hmem]
        unfold bwdF
        simp only [ht.interior i hi1, Bool.false_eq_true, if_false]
        refine L.inter_sound _ _ _ ?_ (ht.ctxOk _ hmem)
        have hl0 : γ ((g.nextG tr[i]!).foldl
            (fun acc n => A.dom.union acc (getMap lout n A.dom.null)) A.dom.null) v := by
          apply foldl_union_mem L (fun n => getMap lout n A.dom.null) _ _ _ tr[i+1]! (ht.edges i hi1)
          exact ih d' (by omega) (i + 1) (by omega)
        cases hr : g.retPointOf tr[i]! with
        | none => simpa [hr] using hl0
        | some r =>
          simp only []
          by_cases hc : g.calleeHasRetsub tr[i]! = true
          · simp only [hc, if_true]
            obtain ⟨j, hij, hj, hjr⟩ := ht.returns i hi r hr hc
            have := ih (tr.length - 1 - j) (by omega) j (by omega)
            exact L.inter_sound _ _ _ hl0 (hjr ▸ this)
          · simp only [hc]; exact hl0
  intro i hi
  exact key (tr.length - 1 - i) i (by omega)

end Tealer.Flow
