/-
  Block-level soundness of the CFG of passes 3-4: an instruction-level successor either is the next instruction inside
  the same block, or the instruction is the last one of its block and the successor's block is in that block's successor
  list.  Together with `StepEdge` this lifts "every step of the concrete semantics follows a recorded instruction
  successor" to blocks.
-/
import TealerModel.Lemmas.BlockShape
import TealerModel.Lemmas.BlockEdge
import TealerModel.Lemmas.StepEdge
namespace Tealer.BlockWalk
open Tealer.BlockShape Tealer.Reach

theorem last_or_adj (l : List Nat) (x : Nat) (hx : x ∈ l) : l.getLast? = some x ∨ ∃ b, Adj l x b := by
  obtain ⟨pre, post, rfl⟩ := List.append_of_mem hx
  cases post with
  | nil => left; simp
  | cons b post' => right; exact ⟨b, pre, post', rfl⟩

theorem mem_block (blocks : List (List Nat)) (n pc : Nat) (hf : blocks.flatten = List.range n) (hpc : pc < n) :
    ∃ B, blockOfIns blocks pc = .ok B ∧ B < blocks.length ∧ pc ∈ blocks[B]! := by
  have hm : pc ∈ blocks.flatten := by rw [hf]; exact List.mem_range.mpr hpc
  obtain ⟨blk, hblk, hin⟩ := List.mem_flatten.mp hm
  unfold blockOfIns
  have hex : ∃ x ∈ blocks.zipIdx, (fun (x : List Nat × Nat) => x.1.contains pc) x = true := by
    obtain ⟨i, hi, rfl⟩ := List.getElem_of_mem hblk
    exact ⟨(blocks[i], i), by simp [List.mem_zipIdx_iff_getElem?, hi], by simpa using hin⟩
  cases hfind : blocks.zipIdx.find? (fun (x : List Nat × Nat) => x.1.contains pc) with
  | none =>
    rw [List.find?_eq_none] at hfind
    obtain ⟨x, hx, hp⟩ := hex
    exact absurd hp (hfind x hx)
  | some y =>
    obtain ⟨b, id⟩ := y
    have hmem := List.mem_of_find?_eq_some hfind
    have hsat := List.find?_some hfind
    have hz := List.mem_zipIdx hmem
    simp only [Nat.zero_add, Nat.sub_zero] at hz
    have hfind' : (blocks.zipIdx.find? fun (x : List Nat × Nat) => match x with | (b, _) => b.contains pc) = some (b, id) := by
      simpa using hfind
    refine ⟨id, by simp only [hfind'], by omega, ?_⟩
    have : blocks[id]! = b := by
      rw [getElem!_pos blocks id (by omega)]
      exact hz.2.2.symm
    rw [this]
    simpa using hsat

theorem adj_consecutive (blocks : List (List Nat)) (n : Nat) (hf : blocks.flatten = List.range n)
    (blk : List Nat) (hb : blk ∈ blocks) (a b : Nat) (hab : Adj blk a b) : b = a + 1 ∧ b < n := by
  obtain ⟨L, R, rfl⟩ := List.append_of_mem hb
  obtain ⟨pre, post, rfl⟩ := hab
  have e : (L ++ (pre ++ a :: b :: post) :: R).flatten = (L.flatten ++ pre) ++ a :: b :: (post ++ R.flatten) := by
    simp
  rw [e] at hf
  have h1 : (List.range n)[(L.flatten ++ pre).length]? = some a := by
    rw [← hf]; simp
  have h2 : (List.range n)[(L.flatten ++ pre).length + 1]? = some b := by
    rw [← hf, List.getElem?_append_right (by omega)]
    simp
  have hl := congrArg List.length hf
  simp only [List.length_append, List.length_cons, List.length_range] at hl
  have hj : (L.flatten ++ pre).length + 1 < n := by
    simp only [List.length_append] at hl ⊢; omega
  rw [List.getElem?_range (by omega)] at h1
  rw [List.getElem?_range hj] at h2
  simp only [Option.some.injEq] at h1 h2
  omega

/-- every recorded instruction successor is an instruction position -/
theorem insNext_lt (ins : List Ins) (nexts : List (List Nat)) (h : insNext ins = .ok nexts) (k : Nat) (i : Ins)
    (hi : ins[k]? = some i) : ∀ t ∈ nexts[k]!, t < ins.length := by
  obtain ⟨jumps, hj, hn⟩ := StepEdge.insNext_get ins nexts h k i hi
  intro t ht
  rw [hn] at ht
  rcases List.mem_append.mp ht with h1 | h1
  · split at h1
    · rename_i hc
      simp only [List.mem_singleton] at h1
      simp only [Bool.and_eq_true, decide_eq_true_eq] at hc
      omega
    · cases h1
  · obtain ⟨l, hl, hlk⟩ := StepEdge.mapM_except_mem_rev _ _ _ hj t h1
    unfold lookupLabel at hlk
    split at hlk
    · rename_i nm pos hfind
      simp only [Except.ok.injEq] at hlk
      subst hlk
      have hm := List.mem_of_find?_eq_some hfind
      rw [List.mem_reverse] at hm
      unfold labelTable at hm
      simp only [List.mem_filterMap] at hm
      obtain ⟨⟨i', k'⟩, hz, hsome⟩ := hm
      simp only [] at hsome
      split at hsome
      · simp only [Option.some.injEq, Prod.mk.injEq] at hsome
        have := List.mem_zipIdx hz
        omega
      · cases hsome
    · cases hlk

/-- an instruction that is followed by another one inside its block has that one as its only successor -/
theorem inner_successor (ins : List Ins) (nexts : List (List Nat)) (h : insNext ins = .ok nexts)
    (blk : List Nat) (hb : blk ∈ (createBB ins nexts).1) (pc b : Nat) (hab : Adj blk pc b) :
    nexts[pc]! = [pc + 1] ∧ b = pc + 1 := by
  have hlen := CfgL.insNext_length ins nexts h
  have hf := CfgL.createBB_partition ins nexts hlen
  obtain ⟨hb1, hbn⟩ := adj_consecutive _ _ hf blk hb pc b hab
  obtain ⟨hcl, _⟩ := createBB_shape ins nexts hlen blk hb pc b hab
  have hpc : pc < ins.length := by omega
  have hi : ins[pc]? = some ins[pc] := List.getElem?_eq_getElem hpc
  obtain ⟨jumps, hj, hn⟩ := StepEdge.insNext_get ins nexts h pc ins[pc] hi
  have hop : (ins[pc]!).op = ins[pc].op := by rw [getElem!_pos ins pc hpc]
  unfold closes at hcl
  simp only [hop, Bool.or_eq_false_iff, decide_eq_false_iff_not, beq_eq_false_iff_ne, ne_eq] at hcl
  obtain ⟨⟨⟨h1, h2⟩, h3⟩, h4⟩ := hcl
  refine ⟨?_, hb1⟩
  have hnf : ins[pc].op.noFallthrough = false := by
    cases hop' : ins[pc].op <;> simp [Op.noFallthrough]
    all_goals
      simp only [hop', Op.isB, Op.jumpLabels, Op.noFallthrough, List.mapM_nil, pure, Except.pure, Except.ok.injEq] at hj hn h4
    · cases h4
    all_goals
      subst hj
      rw [hn] at h3
      simp at h3
  rw [hn] at h1 h3 ⊢
  simp only [hnf, Bool.not_false, Bool.true_and, decide_eq_true_eq] at h1 h3 ⊢
  have hlt : pc + 1 < ins.length := by omega
  simp only [hlt, if_true, List.length_append, List.length_cons, List.length_nil] at h1 h3 ⊢
  have : jumps = [] := by
    cases jumps with
    | nil => rfl
    | cons _ _ => simp at h1
  simp [this]

/-- BLOCK-LEVEL EDGE SOUNDNESS.  In the graph `bs` of passes 3-4 over the blocks of the third pass, a recorded
    instruction successor `pc'` of `pc` is either the next instruction inside the block of `pc`, or `pc` is the last
    instruction of its block `B` and the block of `pc'` is in the successor list of `B`. -/
theorem block_walk (ins : List Ins) (nexts : List (List Nat)) (bs : List RawBlock) (h : insNext ins = .ok nexts)
    (hg : CfgWF.graphOf ins nexts = .ok bs) (pc : Nat) (i : Ins) (hi : ins[pc]? = some i)
    (pc' : Nat) (hp : pc' ∈ nexts[pc]!) :
    (∃ blk ∈ (createBB ins nexts).1, Adj blk pc pc' ∧ pc' = pc + 1) ∨
    (∃ B B', blockOfIns (createBB ins nexts).1 pc = .ok B ∧ blockOfIns (createBB ins nexts).1 pc' = .ok B' ∧
      ((createBB ins nexts).1[B]!).getLast? = some pc ∧ B' ∈ (bs[B]!).next) := by
  have hlen := CfgL.insNext_length ins nexts h
  have hf := CfgL.createBB_partition ins nexts hlen
  have hpc : pc < ins.length := (List.getElem?_eq_some_iff.mp hi).1
  have hpc' : pc' < ins.length := insNext_lt ins nexts h pc i hi pc' hp
  obtain ⟨B, hB, hBlt, hBin⟩ := mem_block _ _ pc hf hpc
  obtain ⟨B', hB', _, _⟩ := mem_block _ _ pc' hf hpc'
  rcases last_or_adj _ pc hBin with hlast | ⟨b, hab⟩
  · right
    refine ⟨B, B', hB, hB', hlast, ?_⟩
    -- the graph handed to the fourth pass has the blocks' instruction lists
    unfold CfgWF.graphOf at hg
    have hwf0 : WF ((createBB ins nexts).1.map fun b => ({ ins := b } : RawBlock)) := by
      intro a ha b hb
      simp only [List.length_map] at ha
      simp [getElem!_pos, ha] at hb
    have h1 := CfgWF.fold_addEdge_wf (createBB ins nexts).2 _ hwf0
      (by intro e he; simp only [List.length_map]; exact CfgWF.createBB_edges ins nexts e he)
    have hins : ∀ (es : List (Nat × Nat)) (b0 : List RawBlock) (x : Nat),
        ((es.foldl (fun bs (e : Nat × Nat) => addEdge bs e.1 e.2) b0)[x]!).ins = (b0[x]!).ins := by
      intro es
      induction es with
      | nil => intro b0 x; rfl
      | cons e es ih => intro b0 x; simp only [List.foldl_cons]; rw [ih, BlockEdge.addEdge_ins]
    obtain ⟨_, _, _, hpost⟩ := BlockEdge.fourthPass_post _ nexts _ bs hg
    apply hpost B (by rw [h1.2]; simpa using hBlt) pc ?_ pc' hp B' hB'
    rw [hins]
    have e : ((List.map (fun b => ({ ins := b } : RawBlock)) (createBB ins nexts).1)[B]!).ins = (createBB ins nexts).1[B]! := by
      simp [getElem!_pos, hBlt]
    rw [e]; exact hlast
  · left
    have hmem : (createBB ins nexts).1[B]! ∈ (createBB ins nexts).1 := by
      rw [getElem!_pos _ B hBlt]; exact List.getElem_mem _
    obtain ⟨hnx, hb⟩ := inner_successor ins nexts h _ hmem pc b hab
    rw [hnx] at hp
    simp only [List.mem_singleton] at hp
    subst hp
    subst hb
    exact ⟨_, hmem, hab, rfl⟩

end Tealer.BlockWalk

namespace Tealer.BlockWalk
open Tealer.BlockShape Tealer.Reach Tealer.Avm

/-- every return address on the call stack is the position after a `callsub` instruction -/
def CallsOk (prog : List Ins) (calls : List Nat) : Prop :=
  ∀ a ∈ calls, ∃ c l, a = c + 1 ∧ ∃ i, prog[c]? = some i ∧ i.op = .callsub l

theorem stepOther_calls (e : Env) (s s' : State) (name : String) (h : stepOther e s name = .next s') : s'.calls = s.calls := by
  unfold stepOther at h
  simp only [] at h
  repeat' split at h
  all_goals first
    | (cases h; done)
    | (simp only [Outcome.next.injEq] at h; subst h; rfl)

/-- the call-stack invariant is preserved by every step (it holds initially: the stack is empty) -/
theorem callsOk_step (prog : List Ins) (e : Env) (s s' : State) (h : CallsOk prog s.calls)
    (hs : step prog e s = .next s') : CallsOk prog s'.calls := by
  unfold step at hs
  split at hs
  · split at hs <;> (try split at hs) <;> cases hs
  · rename_i i hi
    simp only [] at hs
    cases hop : i.op <;> simp only [hop] at hs
    case callsub l =>
      split at hs
      · simp only [Outcome.next.injEq] at hs; subst hs
        intro a ha
        simp only [List.mem_append, List.mem_singleton] at ha
        rcases ha with ha | ha
        · exact h a ha
        · exact ⟨s.pc, l, ha, i, hi, hop⟩
      · cases hs
    case retsub =>
      split at hs
      · simp only [Outcome.next.injEq] at hs; subst hs
        intro a ha
        exact h a (List.dropLast_subset _ ha)
      · cases hs
    case other name po pu =>
      rw [stepOther_calls e s s' name hs]; exact h
    all_goals
      repeat' split at hs
    all_goals first
      | (cases hs; done)
      | (simp only [Outcome.next.injEq] at hs; subst hs; exact h)

theorem closes_callsub (opAt : Nat → Op) (nxAt : Nat → List Nat) (c : Nat) (h : (opAt c).isCallsub = true) :
    closes opAt nxAt c = true := by
  unfold closes; simp [h]

/-- a `callsub` instruction is the last instruction of its block -/
theorem callsub_ends_block (ins : List Ins) (nexts : List (List Nat)) (h : insNext ins = .ok nexts)
    (c : Nat) (i : Ins) (l : String) (hi : ins[c]? = some i) (hop : i.op = .callsub l) :
    ∃ B, blockOfIns (createBB ins nexts).1 c = .ok B ∧ ((createBB ins nexts).1[B]!).getLast? = some c := by
  have hlen := CfgL.insNext_length ins nexts h
  have hf := CfgL.createBB_partition ins nexts hlen
  have hc : c < ins.length := (List.getElem?_eq_some_iff.mp hi).1
  obtain ⟨B, hB, hBlt, hBin⟩ := mem_block _ _ c hf hc
  refine ⟨B, hB, ?_⟩
  rcases last_or_adj _ c hBin with hlast | ⟨b, hab⟩
  · exact hlast
  · exfalso
    have hmem : (createBB ins nexts).1[B]! ∈ (createBB ins nexts).1 := by
      rw [getElem!_pos _ B hBlt]; exact List.getElem_mem _
    obtain ⟨hcl, _⟩ := createBB_shape ins nexts hlen _ hmem c b hab
    have : (ins[c]!).op = .callsub l := by
      rw [getElem!_pos ins c hc]
      have := (List.getElem?_eq_some_iff.mp hi).2
      rw [this]; exact hop
    rw [closes_callsub _ _ c (by show ((ins[c]!).op).isCallsub = true; rw [this]; rfl)] at hcl
    cases hcl

/-- THE RETURN EDGE: under the call-stack invariant, a `retsub` step lands — unless it returns past the end of the program —
    in a block that is in the successor list of the block ending with the matching `callsub` (the tool's return point) -/
theorem return_edge (ins : List Ins) (nexts : List (List Nat)) (bs : List RawBlock) (h : insNext ins = .ok nexts)
    (hg : CfgWF.graphOf ins nexts = .ok bs) (calls : List Nat) (hc : CallsOk ins calls) (a : Nat)
    (ha : calls.getLast? = some a) :
    a = ins.length ∨
    ∃ c l i B B', a = c + 1 ∧ ins[c]? = some i ∧ i.op = .callsub l ∧
      blockOfIns (createBB ins nexts).1 c = .ok B ∧ ((createBB ins nexts).1[B]!).getLast? = some c ∧
      blockOfIns (createBB ins nexts).1 a = .ok B' ∧ B' ∈ (bs[B]!).next := by
  obtain ⟨c, l, hac, i, hi, hop⟩ := hc a (List.mem_of_getLast? ha)
  have hclt : c < ins.length := (List.getElem?_eq_some_iff.mp hi).1
  by_cases hend : a = ins.length
  · exact Or.inl hend
  · right
    have hlt : c + 1 < ins.length := by omega
    obtain ⟨jumps, _, hn⟩ := StepEdge.insNext_get ins nexts h c i hi
    have hmem : a ∈ nexts[c]! := by
      rw [hn, hac]
      simp [hop, Op.noFallthrough, hlt]
    obtain ⟨B, hB, hlast⟩ := callsub_ends_block ins nexts h c i l hi hop
    rcases block_walk ins nexts bs h hg c i hi a hmem with ⟨blk, hblk, hadj, _⟩ | ⟨B1, B', hB1, hB', _, hin⟩
    · exfalso
      have hlen := CfgL.insNext_length ins nexts h
      obtain ⟨hcl, _⟩ := createBB_shape ins nexts hlen blk hblk c a hadj
      have : (ins[c]!).op = .callsub l := by
        rw [getElem!_pos ins c hclt]
        have := (List.getElem?_eq_some_iff.mp hi).2
        rw [this]; exact hop
      rw [closes_callsub _ _ c (by show ((ins[c]!).op).isCallsub = true; rw [this]; rfl)] at hcl
      cases hcl
    · rw [hB] at hB1
      cases hB1
      exact ⟨c, l, i, B, B', hac, hi, hop, hB, hlast, hB', hin⟩

end Tealer.BlockWalk
