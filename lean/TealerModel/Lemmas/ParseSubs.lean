/-
  parse_teal, subroutine discovery: the block lists of `__main__` and of every subroutine in the result of the model's
  `parseTeal` are exactly the closure of the entry under the successor edges of the (well-formed) graph of passes 3-4.
-/
import TealerModel.Lemmas.CfgWF
import TealerModel.Lemmas.StepEdge
namespace Tealer.ParseSubs
open Tealer.Reach

export Tealer.StepEdge (mapM_except_mem_rev)

theorem createBB_nonempty (ins : List Ins) (nexts : List (List Nat)) : 0 < (createBB ins nexts).1.length := by
  unfold createBB; simp

export Tealer.CfgWF (graphOf)

theorem parse_blocks_closure (ins : List Ins) (t : Teal) (h : parseTeal ins = .ok t) :
    ∃ nexts bs, insNext ins = .ok nexts ∧ graphOf ins nexts = .ok bs ∧ WF bs ∧
      ((∀ x, x ∈ t.main.blocks ↔ Reach bs 0 x) ∧ t.main.blocks.Nodup ∧ t.main.entry = 0) ∧
      (∀ s ∈ t.subs, (∀ x, x ∈ s.blocks ↔ Reach bs s.entry x) ∧ s.blocks.Nodup ∧ s.entry < bs.length) := by
  unfold parseTeal at h
  simp only [bind, Except.bind, pure, Except.pure] at h
  split at h
  · cases h
  · split at h
    · cases h
    · rename_i nexts hn
      split at h
      · cases h
      · rename_i bs hbs
        have hwf := CfgWF.passes_wf ins nexts bs hbs
        have h0 : 0 < bs.length := by rw [hwf.2]; exact createBB_nonempty ins nexts
        split at h
        · cases h
        · rename_i v hv
          split at h
          · cases h
          · rename_i v1 hv1
            split at h
            · cases h
            · split at h
              · cases h
              · simp only [Except.ok.injEq] at h
                subst h
                refine ⟨nexts, bs, hn, hbs, hwf.1, ?_, ?_⟩
                · have := identifyBlocks_spec bs 0 hwf.1 h0
                  exact ⟨this.1, this.2, rfl⟩
                · intro s hs
                  simp only [] at hs
                  obtain ⟨x, hx, hfx⟩ := mapM_except_mem_rev _ _ _ hv1 s hs
                  split at hfx
                  · cases hfx
                  · simp only [Except.ok.injEq] at hfx
                    subst hfx
                    obtain ⟨c, hc, hfc⟩ := mapM_except_mem_rev _ _ _ hv x hx
                    split at hfc
                    · cases hfc
                    · split at hfc
                      · cases hfc
                      · rename_i li hli eb heb
                        simp only [Except.ok.injEq] at hfc
                        subst hfc
                        have hlt : eb < bs.length := by rw [hwf.2]; exact CfgWF.blockOfIns_lt _ _ _ heb
                        have := identifyBlocks_spec bs eb hwf.1 hlt
                        exact ⟨this.1, this.2, hlt⟩

end Tealer.ParseSubs

namespace Tealer.ParseSubs
open Tealer.Reach

/-- positions of the `callsub name` instructions -/
def callPositions (ins : List Ins) (name : String) : List Nat :=
  (ins.zipIdx).filterMap fun (i, k) => if i.op == .callsub name then some k else none

theorem mem_callPositions (ins : List Ins) (name : String) (k : Nat) :
    k ∈ callPositions ins name ↔ ∃ i, ins[k]? = some i ∧ i.op = .callsub name := by
  unfold callPositions
  simp only [List.mem_filterMap]
  constructor
  · rintro ⟨⟨i, k'⟩, hm, h⟩
    simp only [] at h
    split at h
    · rename_i hop
      simp only [Option.some.injEq] at h
      subst h
      have := List.mem_zipIdx hm
      refine ⟨i, ?_, by simpa using hop⟩
      have h1 : k' < ins.length := by omega
      rw [List.getElem?_eq_getElem h1]
      simp only [Nat.zero_add, Nat.sub_zero] at this
      rw [this.2.2]
    · cases h
  · rintro ⟨i, hi, hop⟩
    obtain ⟨hk, hik⟩ := List.getElem?_eq_some_iff.mp hi
    refine ⟨(i, k), ?_, by simp [hop]⟩
    rw [List.mem_zipIdx_iff_getElem?]
    simpa using hi

theorem find_callsubTable (ins : List Ins) (name : String) :
    (((callsubTable ins).find? (·.1 == name)).map (·.2)).getD [] =
      (if name ∈ callsubLabels ins then callPositions ins name else []) := by
  unfold callsubTable
  generalize callsubLabels ins = ls
  induction ls with
  | nil => simp
  | cons l ls ih =>
    simp only [List.map_cons, List.find?_cons]
    by_cases hl : l = name
    · subst hl; simp [callPositions]
    · have : (l == name) = false := by simpa using hl
      simp only [this]
      rw [ih]
      have hne : ¬ name = l := fun e => hl e.symm
      simp [hne]

/-- the caller table of a subroutine lists exactly the retained (reachable) blocks that contain one of its call sites, and
    its return points are the single successors of those blocks -/
theorem parse_callers (ins : List Ins) (t : Teal) (h : parseTeal ins = .ok t) :
    ∃ nexts bs, insNext ins = .ok nexts ∧ graphOf ins nexts = .ok bs ∧
      ∀ s ∈ t.subs,
        (∀ b, b ∈ s.callers ↔ b ∈ t.live ∧ ∃ k ∈ callPositions ins s.name, blockOfIns (createBB ins nexts).1 k = .ok b) ∧
        s.retPoints = s.callers.filterMap (fun c => if (bs[c]!).next.length == 1 then (bs[c]!).next.head? else none) ∧
        s.exits = s.blocks.filter (fun b => (bs[b]!).next.length == 0 || exitOp ins (bs[b]!) == some .retsub) ∧
        s.name ∈ callsubLabels ins := by
  unfold parseTeal at h
  simp only [bind, Except.bind, pure, Except.pure] at h
  split at h
  · cases h
  · split at h
    · cases h
    · rename_i nexts hn
      split at h
      · cases h
      · rename_i bs hbs
        have hwf := CfgWF.passes_wf ins nexts bs hbs
        split at h
        · cases h
        · rename_i v hv
          split at h
          · cases h
          · rename_i v1 hv1
            split at h
            · cases h
            · split at h
              · cases h
              · simp only [Except.ok.injEq] at h
                subst h
                refine ⟨nexts, bs, hn, hbs, ?_⟩
                intro s hs
                simp only [] at hs
                obtain ⟨x, hx, hfx⟩ := mapM_except_mem_rev _ _ _ hv1 s hs
                split at hfx
                · cases hfx
                · rename_i cblocks hcb
                  simp only [Except.ok.injEq] at hfx
                  subst hfx
                  obtain ⟨c, hc, hfc⟩ := mapM_except_mem_rev _ _ _ hv x hx
                  have hname : x.1 ∈ callsubLabels ins := by
                    split at hfc
                    · cases hfc
                    · split at hfc
                      · cases hfc
                      · simp only [Except.ok.injEq] at hfc
                        subst hfc
                        simp only [callsubTable, List.mem_map] at hc
                        obtain ⟨l, hl, rfl⟩ := hc
                        exact hl
                  refine ⟨?_, rfl, rfl, hname⟩
                  intro b
                  simp only [List.mem_filter, List.contains_eq_mem, decide_eq_true_eq]
                  rw [find_callsubTable, if_pos hname] at hcb
                  constructor
                  · rintro ⟨hb, hr⟩
                    obtain ⟨k, hk, hfk⟩ := mapM_except_mem_rev _ _ _ hcb b hb
                    refine ⟨⟨?_, hr⟩, k, hk, hfk⟩
                    rw [List.mem_range, hwf.2]
                    exact CfgWF.blockOfIns_lt _ _ _ hfk
                  · rintro ⟨⟨_, hr⟩, k, hk, hfk⟩
                    obtain ⟨y, hy, hfy⟩ := StepEdge.mapM_except_mem _ _ _ hcb k hk
                    rw [hfk] at hfy
                    cases hfy
                    exact ⟨hy, hr⟩

end Tealer.ParseSubs

namespace Tealer.ParseSubs
open Tealer.Reach

/-- every label targeted by a `callsub` has its subroutine in the result, and the subroutine's entry block is the block of
    the instruction the label resolves to -/
theorem parse_sub_of_label (ins : List Ins) (t : Teal) (h : parseTeal ins = .ok t) (l : String)
    (hl : l ∈ callsubLabels ins) :
    ∃ nexts s li, insNext ins = .ok nexts ∧ s ∈ t.subs ∧ s.name = l ∧ lookupLabel (labelTable ins) l = .ok li ∧
      blockOfIns (createBB ins nexts).1 li = .ok s.entry := by
  unfold parseTeal at h
  simp only [bind, Except.bind, pure, Except.pure] at h
  split at h
  · cases h
  · split at h
    · cases h
    · rename_i nexts hn
      split at h
      · cases h
      · rename_i bs hbs
        split at h
        · cases h
        · rename_i v hv
          split at h
          · cases h
          · rename_i v1 hv1
            split at h
            · cases h
            · split at h
              · cases h
              · simp only [Except.ok.injEq] at h
                subst h
                simp only []
                have hmemT : (l, callPositions ins l) ∈ callsubTable ins := by
                  unfold callsubTable callPositions
                  exact List.mem_map.mpr ⟨l, hl, rfl⟩
                obtain ⟨x, hx, hfx⟩ := StepEdge.mapM_except_mem _ _ _ hv _ hmemT
                split at hfx
                · cases hfx
                · rename_i li hli
                  split at hfx
                  · cases hfx
                  · rename_i eb heb
                    simp only [Except.ok.injEq] at hfx
                    subst hfx
                    obtain ⟨s, hs, hfs⟩ := StepEdge.mapM_except_mem _ _ _ hv1 _ hx
                    split at hfs
                    · cases hfs
                    · simp only [Except.ok.injEq] at hfs
                      subst hfs
                      exact ⟨nexts, _, li, hn, hs, rfl, hli, heb⟩

end Tealer.ParseSubs
