import TealerModel.Lemmas.OperandValues
namespace Tealer.Padding
open OperandValues

/-- positions at or after `k` move by `n` -/
def shiftRef (k n : Nat) : Ref → Ref
  | none => none
  | some (q, o) => some (if q < k then q else q + n, o)

theorem popN_map (f : Ref → Ref) (hf : f none = none) (st : List Ref) (c : Nat) :
    popN (st.map f) c = (((popN st c).1).map f, ((popN st c).2).map f) := by
  unfold popN
  simp only [List.length_map]
  split
  · simp [List.map_drop, List.map_take]
  · simp [hf]

/-- the symbolic stack after `j` instructions depends only on the first `j` instructions -/
theorem symRun_prefix (a b : List Ins) : ∀ j, (∀ i, i < j → a[i]! = b[i]!) → symRun a j = symRun b j
  | 0, _ => rfl
  | j + 1, h => by
    simp only [symRun]
    rw [symRun_prefix a b j (fun i hi => h i (by omega)), h j (by omega)]

theorem getElem!_append_left' (pre x : List Ins) (i : Nat) (h : i < pre.length) : (pre ++ x)[i]! = pre[i]! := by
  simp [List.getElem!_eq_getElem?_getD, List.getElem?_append_left h]

theorem getElem!_append_right' (pre x : List Ins) (i : Nat) : (pre ++ x)[pre.length + i]! = x[i]! := by
  simp [List.getElem!_eq_getElem?_getD, List.getElem?_append_right (Nat.le_add_right _ _)]

/-- one step commutes with the renumbering -/
theorem astStep_shift (k n : Nat) (st : List Ref) (p : Nat) (hp : k ≤ p) (op : Op) :
    astStep (st.map (shiftRef k n)) (p + n) op =
      (((astStep st p op).1).map (shiftRef k n), ((astStep st p op).2).map (shiftRef k n)) := by
  unfold astStep
  rw [popN_map (shiftRef k n) rfl]
  simp only [List.map_append, List.map_map]
  congr 2
  apply List.map_congr_left
  intro j _
  have : ¬ p < k := by omega
  simp [shiftRef, this]

/-- STACK-NEUTRAL PADDING LEAVES THE RECONSTRUCTED OPERANDS UNCHANGED (up to the renumbering it induces): insert `int c; pop`
    between two instructions of a block; then every instruction before the padding has the same operand references, and
    every instruction after it has the operand references it had, with positions at or after the insertion point moved by 2 -/
theorem padding_operands (pre post : List Ins) (c : IntVal) (l1 l2 : Nat) (t1 t2 : String) :
    let pad : List Ins := [⟨l1, .int c, t1⟩, ⟨l2, .other "pop" 1 0, t2⟩]
    (∀ j, j < pre.length → argsAt (pre ++ pad ++ post) j = argsAt (pre ++ post) j) ∧
    (∀ j, j < post.length →
      argsAt (pre ++ pad ++ post) (pre.length + 2 + j) = (argsAt (pre ++ post) (pre.length + j)).map (shiftRef pre.length 2)) := by
  intro pad
  have hpre : ∀ i, i < pre.length → (pre ++ pad ++ post)[i]! = (pre ++ post)[i]! := by
    intro i hi
    rw [List.append_assoc, getElem!_append_left' _ _ _ hi, getElem!_append_left' _ _ _ hi]
  constructor
  · intro j hj
    unfold argsAt
    rw [symRun_prefix _ _ j (fun i hi => hpre i (by omega)), hpre j hj]
  · -- the stack right after the padding is the stack before it, and no reference on it is at or after the insertion point
    have hbase : symRun (pre ++ pad ++ post) (pre.length + 2) = (symRun (pre ++ post) pre.length).map (shiftRef pre.length 2) := by
      have h0 : symRun (pre ++ pad ++ post) pre.length = symRun (pre ++ post) pre.length :=
        symRun_prefix _ _ _ (fun i hi => hpre i hi)
      have e1 : (pre ++ pad ++ post)[pre.length]! = ⟨l1, .int c, t1⟩ := by
        rw [List.append_assoc]; have := getElem!_append_right' pre (pad ++ post) 0; simpa [pad] using this
      have e2 : (pre ++ pad ++ post)[pre.length + 1]! = ⟨l2, .other "pop" 1 0, t2⟩ := by
        rw [List.append_assoc]; have := getElem!_append_right' pre (pad ++ post) 1; simpa [pad] using this
      have hs : symRun (pre ++ pad ++ post) (pre.length + 2) = symRun (pre ++ pad ++ post) pre.length := by
        simp only [symRun, e1, e2]
        simp [astStep, popN, Op.pops, Op.pushes]
      rw [hs, h0]
      symm
      rw [List.map_congr_left (g := id)]
      · simp
      · intro r hr
        rcases r with _ | ⟨q, o⟩
        · rfl
        · have := symRun_tags (pre ++ post) pre.length _ hr (q, o) rfl
          simp [shiftRef, this]
    have hpost : ∀ j, (pre ++ pad ++ post)[pre.length + 2 + j]! = (pre ++ post)[pre.length + j]! := by
      intro j
      have a1 := getElem!_append_right' (pre ++ pad) post j
      have a2 := getElem!_append_right' pre post j
      simp only [List.length_append, pad, List.length_cons, List.length_nil] at a1
      rw [a1, a2]
    have hrun : ∀ j, symRun (pre ++ pad ++ post) (pre.length + 2 + j) = (symRun (pre ++ post) (pre.length + j)).map (shiftRef pre.length 2) := by
      intro j
      induction j with
      | zero => simpa using hbase
      | succ j ih =>
        rw [show pre.length + 2 + (j + 1) = (pre.length + 2 + j) + 1 by omega, show pre.length + (j + 1) = (pre.length + j) + 1 by omega]
        simp only [symRun]
        rw [ih, hpost j, show pre.length + 2 + j = (pre.length + j) + 2 by omega,
          astStep_shift pre.length 2 _ (pre.length + j) (by omega)]
    intro j _
    unfold argsAt
    rw [hrun j, hpost j, show pre.length + 2 + j = (pre.length + j) + 2 by omega,
      astStep_shift pre.length 2 _ (pre.length + j) (by omega)]

/-- the reconstruction looks at an instruction only through its pop and push counts -/
theorem symRun_effects (a b : List Ins) (h : ∀ i : Nat, (a[i]!).op.pops = (b[i]!).op.pops ∧ (a[i]!).op.pushes = (b[i]!).op.pushes) :
    ∀ j, symRun a j = symRun b j
  | 0 => rfl
  | j + 1 => by
    simp only [symRun, astStep]
    rw [symRun_effects a b h j, (h j).1, (h j).2]

theorem argsAt_effects (a b : List Ins) (h : ∀ i : Nat, (a[i]!).op.pops = (b[i]!).op.pops ∧ (a[i]!).op.pushes = (b[i]!).op.pushes) (j : Nat) :
    argsAt a j = argsAt b j := by
  simp only [argsAt, astStep]
  rw [symRun_effects a b h j, (h j).1]

end Tealer.Padding
