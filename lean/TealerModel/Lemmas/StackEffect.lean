/-
  The declared stack effects (tealer's stack_pop_size / stack_push_size, model: Op.pops / Op.pushes) are the effects the
  concrete AVM semantics has: a successful step of a dedicated opcode of the fragment removes exactly `pops` values from
  the top of the stack, leaves everything below untouched and pushes exactly `pushes` values.
-/
import TealerModel.Avm
namespace Tealer.StackEffect
open Tealer.Avm

theorem pop1_spec (st : List Val) (v : Val) (r : List Val) (h : pop1 st = some (v, r)) : st = r ++ [v] := by
  unfold pop1 at h
  split at h
  · rename_i w hw
    simp only [Option.some.injEq, Prod.mk.injEq] at h
    obtain ⟨rfl, rfl⟩ := h
    have hne : st ≠ [] := by intro e; subst e; simp at hw
    have h1 := List.dropLast_concat_getLast hne
    have h2 : st.getLast hne = w := by
      have := List.getLast?_eq_some_getLast hne
      rw [hw] at this
      exact (Option.some.inj this).symm
    rw [h2] at h1
    exact h1.symm
  · cases h

theorem popInt_spec (st : List Val) (n : Nat) (r : List Val) (h : popInt st = some (n, r)) : st = r ++ [.int n] := by
  unfold popInt at h
  split at h
  · rename_i m r' hp
    simp only [Option.some.injEq, Prod.mk.injEq] at h
    obtain ⟨rfl, rfl⟩ := h
    exact pop1_spec st _ _ hp
  · cases h

/-- the shape of a stack effect: `pops` values removed from the top, the rest kept, `pushes` values added -/
def Effect (st st' : List Val) (pops pushes : Nat) : Prop :=
  pops ≤ st.length ∧ ∃ pushed : List Val, pushed.length = pushes ∧ st' = st.take (st.length - pops) ++ pushed

theorem effect_of_append (r top pushed : List Val) : Effect (r ++ top) (r ++ pushed) top.length pushed.length := by
  refine ⟨by simp, pushed, rfl, ?_⟩
  simp

theorem eff_none (st : List Val) : Effect st st 0 0 := ⟨by simp, [], rfl, by simp⟩
theorem eff_push1 (st : List Val) (v : Val) : Effect st (st ++ [v]) 0 1 := ⟨by simp, [v], rfl, by simp⟩
theorem eff_pop1 (r : List Val) (v : Val) : Effect (r ++ [v]) r 1 0 := ⟨by simp, [], rfl, by simp⟩
theorem eff_pop1_push1 (r : List Val) (v w : Val) : Effect (r ++ [v]) (r ++ [w]) 1 1 := ⟨by simp, [w], rfl, by simp⟩
theorem eff_pop2_push1 (r : List Val) (x y w : Val) : Effect (r ++ [x] ++ [y]) (r ++ [w]) 2 1 :=
  ⟨by simp, [w], rfl, by simp⟩

/-- every dedicated opcode of the fragment has, in the concrete semantics, exactly its declared stack effect -/
theorem step_effect (prog : List Ins) (e : Env) (s s' : State) (i : Ins) (hi : prog[s.pc]? = some i)
    (hno : ∀ name po pu, i.op ≠ .other name po pu) (hs : step prog e s = .next s') :
    Effect s.stack s'.stack i.op.pops i.op.pushes := by
  unfold step at hs
  simp only [hi] at hs
  -- no pop, no push, stack untouched
  have hkeep : ∀ (s'' : State), s''.stack = s.stack → Effect s.stack s''.stack 0 0 := by
    intro s'' h; rw [h]; exact eff_none _
  cases hop : i.op <;> simp only [hop] at hs <;> simp only [Op.pops, Op.pushes]
  case other name po pu => exact absurd hop (hno name po pu)
  case pragma v => simp only [Outcome.next.injEq] at hs; subst hs; exact eff_none _
  case label l => simp only [Outcome.next.injEq] at hs; subst hs; exact eff_none _
  case bytecblock => simp only [Outcome.next.injEq] at hs; subst hs; exact eff_none _
  case intcblock cs => simp only [Outcome.next.injEq] at hs; subst hs; exact eff_none _
  case b l =>
    split at hs
    · simp only [Outcome.next.injEq] at hs; subst hs; exact eff_none _
    · cases hs
  case callsub l =>
    split at hs
    · simp only [Outcome.next.injEq] at hs; subst hs; exact eff_none _
    · cases hs
  case retsub =>
    split at hs
    · simp only [Outcome.next.injEq] at hs; subst hs; exact eff_none _
    · cases hs
  case err => cases hs
  case customErr => cases hs
  case gtxnImm p => cases hs
  case gtxnStk p => cases hs
  case ret =>
    split at hs
    · split at hs <;> cases hs
    · cases hs
  case bz l =>
    split at hs
    · rename_i n r hp
      have e1 := popInt_spec _ _ _ hp
      split at hs
      · split at hs
        · simp only [Outcome.next.injEq] at hs; subst hs; rw [e1]; exact eff_pop1 r _
        · cases hs
      · simp only [Outcome.next.injEq] at hs; subst hs; rw [e1]; exact eff_pop1 r _
    · cases hs
  case bnz l =>
    split at hs
    · rename_i n r hp
      have e1 := popInt_spec _ _ _ hp
      split at hs
      · split at hs
        · simp only [Outcome.next.injEq] at hs; subst hs; rw [e1]; exact eff_pop1 r _
        · cases hs
      · simp only [Outcome.next.injEq] at hs; subst hs; rw [e1]; exact eff_pop1 r _
    · cases hs
  case switch ls =>
    split at hs
    · rename_i n r hp
      have e1 := popInt_spec _ _ _ hp
      split at hs
      · split at hs
        · simp only [Outcome.next.injEq] at hs; subst hs; rw [e1]; exact eff_pop1 r _
        · cases hs
      · simp only [Outcome.next.injEq] at hs; subst hs; rw [e1]; exact eff_pop1 r _
    · cases hs
  case assert =>
    split at hs
    · rename_i n r hp
      have e1 := popInt_spec _ _ _ hp
      split at hs
      · simp only [Outcome.next.injEq] at hs; subst hs; rw [e1]; exact eff_pop1 r _
      · cases hs
    · cases hs
  case match_ ls =>
    split at hs
    · cases hs
    · rename_i hlen
      split at hs
      · cases hs
      · have hk : ls.length + 1 ≤ s.stack.length := by omega
        have hshape : ∀ st', (st' = s.stack.take (s.stack.length - 1 - ls.length)) →
            Effect s.stack st' (ls.length + 1) 0 := by
          intro st' he
          refine ⟨hk, [], rfl, ?_⟩
          subst he
          simp only [List.append_nil]
          congr 1
          omega
        split at hs
        · split at hs
          · simp only [Outcome.next.injEq] at hs; subst hs; exact hshape _ rfl
          · cases hs
        · simp only [Outcome.next.injEq] at hs; subst hs; exact hshape _ rfl
  case int v =>
    split at hs
    · simp only [Outcome.next.injEq] at hs; subst hs; exact eff_push1 _ _
    · cases hs
  case pushint v =>
    split at hs
    · simp only [Outcome.next.injEq] at hs; subst hs; exact eff_push1 _ _
    · cases hs
  case intc k =>
    split at hs
    · simp only [Outcome.next.injEq] at hs; subst hs; exact eff_push1 _ _
    · cases hs
  case addr a => simp only [Outcome.next.injEq] at hs; subst hs; exact eff_push1 _ _
  case txn f =>
    split at hs
    · simp only [Outcome.next.injEq] at hs; subst hs; exact eff_push1 _ _
    · cases hs
  case gtxn k f =>
    split at hs
    · simp only [Outcome.next.injEq] at hs; subst hs; exact eff_push1 _ _
    · cases hs
  case global f => simp only [Outcome.next.injEq] at hs; subst hs; exact eff_push1 _ _
  case gtxns f =>
    split at hs
    · rename_i n r hp
      have e1 := popInt_spec _ _ _ hp
      split at hs
      · simp only [Outcome.next.injEq] at hs; subst hs; rw [e1]; exact eff_pop1_push1 r _ _
      · cases hs
    · cases hs
  case not =>
    split at hs
    · rename_i n r hp
      have e1 := popInt_spec _ _ _ hp
      simp only [Outcome.next.injEq] at hs; subst hs; rw [e1]; exact eff_pop1_push1 r _ _
    · cases hs
  case cmp c =>
    split at hs
    · rename_i y r1 hp1
      have e1 := pop1_spec _ _ _ hp1
      split at hs
      · rename_i x r hp2
        have e2 := pop1_spec _ _ _ hp2
        rw [e2] at e1
        split at hs
        · simp only [Outcome.next.injEq] at hs; subst hs; rw [e1]; exact eff_pop2_push1 r _ _ _
        · split at hs
          · simp only [Outcome.next.injEq] at hs; subst hs; rw [e1]; exact eff_pop2_push1 r _ _ _
          · simp only [Outcome.next.injEq] at hs; subst hs; rw [e1]; exact eff_pop2_push1 r _ _ _
          · cases hs
        · cases hs
      · cases hs
    · cases hs
  all_goals
    split at hs
    · rename_i y r1 hp1
      have e1 := popInt_spec _ _ _ hp1
      split at hs
      · rename_i x r hp2
        have e2 := popInt_spec _ _ _ hp2
        rw [e2] at e1
        first
          | (simp only [Outcome.next.injEq] at hs; subst hs; rw [e1]; exact eff_pop2_push1 r _ _ _)
          | (split at hs
             · simp only [Outcome.next.injEq] at hs; subst hs; rw [e1]; exact eff_pop2_push1 r _ _ _
             · cases hs)
      · cases hs
    · cases hs

end Tealer.StackEffect
