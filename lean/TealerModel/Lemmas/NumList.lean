import TealerModel.NumList
namespace Tealer.NumList

/-- a run: consecutive numbers -/
def Contig : List Nat → Prop
  | [] => True
  | [_] => True
  | x :: y :: r => y = x + 1 ∧ Contig (y :: r)

theorem contig_eq_range' : ∀ (r : List Nat) (x : Nat), Contig (x :: r) → x :: r = List.range' x (r.length + 1)
  | [], x, _ => by simp [List.range']
  | y :: r, x, h => by
    obtain ⟨hy, hc⟩ := h
    subst hy
    have := contig_eq_range' r (x + 1) hc
    simp only [List.length_cons, List.range'_succ] at this ⊢
    rw [← this]

theorem groupRuns_spec : ∀ (l : List Nat), (groupRuns l).flatten = l ∧ (∀ r ∈ groupRuns l, r ≠ [] ∧ Contig r)
  | [] => by simp [groupRuns]
  | x :: xs => by
    obtain ⟨hf, hc⟩ := groupRuns_spec xs
    unfold groupRuns
    split
    · rename_i y ys rest heq
      rw [heq] at hf hc
      split
      · rename_i hy
        constructor
        · simp at hf ⊢; exact hf
        · intro r hr
          rcases List.mem_cons.1 hr with rfl | hr
          · exact ⟨by simp, hy, (hc _ (by simp)).2⟩
          · exact hc r (List.mem_cons_of_mem _ hr)
      · constructor
        · simp at hf ⊢; exact hf
        · intro r hr
          rcases List.mem_cons.1 hr with rfl | hr
          · exact ⟨by simp, trivial⟩
          · exact hc r hr
    · rename_i hne
      -- groupRuns xs is [] or starts with an empty run; the second is excluded by the invariant
      have hxs : xs = [] := by
        cases hg : groupRuns xs with
        | nil => rw [hg] at hf; simpa using hf.symm
        | cons r rest =>
          cases r with
          | nil => exact absurd rfl (hc [] (by rw [hg]; simp)).1
          | cons y ys => exact absurd hg (hne y ys rest)
      subst hxs
      simp [Contig]

theorem runToks_denote (r : List Nat) (hne : r ≠ []) (hc : Contig r) : denote (runToks r) = r := by
  unfold runToks
  split
  · obtain ⟨x, r', rfl⟩ : ∃ x r', r = x :: r' := by cases r with | nil => exact absurd rfl hne | cons x r' => exact ⟨x, r', rfl⟩
    have h := contig_eq_range' r' x hc
    have hlast : (x :: r').getLastD 0 = x + r'.length := by
      rw [h]; simp [List.getLastD_eq_getLast?, List.getLast?_range']
    simp only [denote, List.flatMap_cons, List.flatMap_nil, List.append_nil, Tok.expand, List.headD_cons, hlast]
    rw [show x + r'.length - x + 1 = r'.length + 1 by omega]
    exact h.symm
  · simp [denote, List.flatMap_map, Tok.expand]

theorem runs_denote : ∀ (L : List (List Nat)), (∀ r ∈ L, r ≠ [] ∧ Contig r) → denote (L.flatMap runToks) = L.flatten
  | [], _ => rfl
  | r :: L, h => by
    have h1 := runToks_denote r (h r (by simp)).1 (h r (by simp)).2
    have h2 := runs_denote L (fun r' hr' => h r' (List.mem_cons_of_mem _ hr'))
    unfold denote at h1 h2 ⊢
    simp only [List.flatMap_cons, List.flatMap_append, List.flatten_cons, h1, h2]

/-- THE NOTATION DENOTES THE SET: reading the tokens back gives exactly the (sorted) list that was printed -/
theorem denote_toks (l : List Nat) : denote (toks l) = l := by
  obtain ⟨hf, hc⟩ := groupRuns_spec l
  unfold toks
  rw [runs_denote _ hc, hf]

end Tealer.NumList
