/-
  Block-level soundness of the edges of the fourth pass: after it, every successor (fall-through or jump) of the LAST
  instruction of a block leads to a block that is in the successor list of that block.
-/
import TealerModel.Lemmas.CfgWF
namespace Tealer.BlockEdge
open Tealer.Reach

theorem addEdge_ins (bs : List RawBlock) (a b x : Nat) : ((addEdge bs a b)[x]!).ins = (bs[x]!).ins := by
  unfold addEdge
  by_cases hx : x < bs.length
  · simp [hx]
    by_cases h1 : x = a <;> by_cases h2 : x = b
    · subst h1; subst h2; simp
    · subst h1; have : ¬ x = b := h2; simp [this]
    · subst h2; have : ¬ x = a := h1; simp [this]
    · simp [h1, h2]
  · simp [hx]

theorem addEdge_next_sub (bs : List RawBlock) (a b x : Nat) (hx : x < bs.length) :
    ∀ y ∈ (bs[x]!).next, y ∈ ((addEdge bs a b)[x]!).next := by
  intro y hy
  rw [CfgWF.addEdge_next_eq bs a b x hx]
  split
  · exact List.mem_append_left _ hy
  · exact hy

/-- what one run of the inner loop (all successors of the exit instruction of block `id`) guarantees -/
theorem inner_post (blocks : List (List Nat)) (id : Nat) (ts : List Nat) (bs bs' : List RawBlock)
    (hid : id < bs.length)
    (hr : ts.foldlM (init := bs) (fun bs t => do
        let nb ← blockOfIns blocks t
        if (bs[id]!).next.contains nb then pure bs
        else if (bs[nb]!).prev.contains id then (Except.error "AssertionError" : Except Err (List RawBlock))
        else pure (addEdge bs id nb)) = .ok bs') :
    bs'.length = bs.length ∧ (∀ x : Nat, (bs'[x]!).ins = (bs[x]!).ins) ∧
    (∀ x, x < bs.length → ∀ y ∈ (bs[x]!).next, y ∈ (bs'[x]!).next) ∧
    (∀ t ∈ ts, ∀ nb, blockOfIns blocks t = .ok nb → nb ∈ (bs'[id]!).next) := by
  induction ts generalizing bs with
  | nil =>
    simp only [List.foldlM_nil, pure, Except.pure, Except.ok.injEq] at hr
    subst hr
    exact ⟨rfl, fun _ => rfl, fun _ _ _ h => h, fun _ h => by cases h⟩
  | cons t ts ih =>
    simp only [List.foldlM_cons, bind, Except.bind] at hr
    split at hr
    · cases hr
    · rename_i bs1 h1
      split at h1
      · cases h1
      · rename_i nb hnb
        have hstep : bs1.length = bs.length ∧ (∀ x : Nat, (bs1[x]!).ins = (bs[x]!).ins) ∧
            (∀ x, x < bs.length → ∀ y ∈ (bs[x]!).next, y ∈ (bs1[x]!).next) ∧ nb ∈ (bs1[id]!).next := by
          split at h1
          · rename_i hc
            simp only [pure, Except.pure, Except.ok.injEq] at h1
            subst h1
            exact ⟨rfl, fun _ => rfl, fun _ _ _ h => h, by simpa using hc⟩
          · split at h1
            · cases h1
            · simp only [pure, Except.pure, Except.ok.injEq] at h1
              subst h1
              refine ⟨CfgWF.addEdge_length _ _ _, fun x => addEdge_ins bs id nb x, fun x hx => addEdge_next_sub bs id nb x hx, ?_⟩
              rw [CfgWF.addEdge_next_eq bs id nb id hid]
              simp
        obtain ⟨hl1, hi1, hm1, hnb1⟩ := hstep
        obtain ⟨hl, hi, hm, hts⟩ := ih bs1 (by rw [hl1]; exact hid) hr
        refine ⟨by rw [hl, hl1], fun x => by rw [hi x, hi1 x], ?_, ?_⟩
        · intro x hx y hy
          exact hm x (by rw [hl1]; exact hx) y (hm1 x hx y hy)
        · intro t' ht' nb' hnb'
          rcases List.mem_cons.mp ht' with rfl | h
          · rw [hnb] at hnb'
            cases hnb'
            exact hm id (by rw [hl1]; exact hid) nb hnb1
          · exact hts t' h nb' hnb'

/-- the fourth pass: for every block, every successor of its exit instruction leads into its successor list -/
theorem fourthPass_post (blocks : List (List Nat)) (nexts : List (List Nat)) (bs bs' : List RawBlock)
    (hr : fourthPass blocks nexts bs = .ok bs') :
    bs'.length = bs.length ∧ (∀ x : Nat, (bs'[x]!).ins = (bs[x]!).ins) ∧
    (∀ x, x < bs.length → ∀ y ∈ (bs[x]!).next, y ∈ (bs'[x]!).next) ∧
    (∀ id, id < bs.length → ∀ ex, (bs[id]!).ins.getLast? = some ex → ∀ t ∈ nexts[ex]!, ∀ nb,
      blockOfIns blocks t = .ok nb → nb ∈ (bs'[id]!).next) := by
  unfold fourthPass at hr
  have hgen : ∀ (ids : List Nat) (bs0 bs1 : List RawBlock), (∀ id ∈ ids, id < bs0.length) →
      ids.foldlM (init := bs0) (fun bs id => do
        let blk := bs[id]!
        match blk.ins.getLast? with
        | none => (Except.error "IndexError" : Except Err (List RawBlock))
        | some ex =>
          (nexts[ex]!).foldlM (init := bs) fun bs t => do
            let nb ← blockOfIns blocks t
            if (bs[id]!).next.contains nb then pure bs
            else if (bs[nb]!).prev.contains id then .error "AssertionError"
            else pure (addEdge bs id nb)) = .ok bs1 →
      bs1.length = bs0.length ∧ (∀ x : Nat, (bs1[x]!).ins = (bs0[x]!).ins) ∧
      (∀ x, x < bs0.length → ∀ y ∈ (bs0[x]!).next, y ∈ (bs1[x]!).next) ∧
      (∀ id ∈ ids, ∀ ex, (bs0[id]!).ins.getLast? = some ex → ∀ t ∈ nexts[ex]!, ∀ nb,
        blockOfIns blocks t = .ok nb → nb ∈ (bs1[id]!).next) := by
    intro ids
    induction ids with
    | nil =>
      intro bs0 bs1 _ h
      simp only [List.foldlM_nil, pure, Except.pure, Except.ok.injEq] at h
      subst h
      exact ⟨rfl, fun _ => rfl, fun _ _ _ h => h, fun _ h => by cases h⟩
    | cons id ids ih =>
      intro bs0 bs1 hids h
      simp only [List.foldlM_cons, bind, Except.bind] at h
      split at h
      · cases h
      · rename_i bsm hm
        split at hm
        · cases hm
        · rename_i ex hex
          have hid : id < bs0.length := hids id (by simp)
          obtain ⟨l1, i1, m1, p1⟩ := inner_post blocks id _ bs0 bsm hid hm
          obtain ⟨l2, i2, m2, p2⟩ := ih bsm bs1 (by intro x hx; rw [l1]; exact hids x (by simp [hx])) h
          refine ⟨by rw [l2, l1], fun x => by rw [i2 x, i1 x], ?_, ?_⟩
          · intro x hx y hy
            exact m2 x (by rw [l1]; exact hx) y (m1 x hx y hy)
          · intro id' hid' ex' hex' t ht nb hnb
            rcases List.mem_cons.mp hid' with rfl | h'
            · rw [hex] at hex'
              cases hex'
              exact m2 id' (by rw [l1]; exact hid) nb (p1 t ht nb hnb)
            · exact p2 id' h' ex' (by rw [i1 id']; exact hex') t ht nb hnb
  obtain ⟨h1, h2, h3, h4⟩ := hgen (List.range bs.length) bs bs' (fun id hid => List.mem_range.mp hid) hr
  exact ⟨h1, h2, h3, fun id hid => h4 id (List.mem_range.mpr hid)⟩

end Tealer.BlockEdge
