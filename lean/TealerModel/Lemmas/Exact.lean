/-
  Exactness of the forward pass (MFP ⊆ MOP for a distributive framework): in what the forward worklist computes, a value
  is in a block's set only if some path from the entry justifies it — every block constraint and every edge constraint
  along the path admits the value (and at a return point also the call site does).  With `Flow.forward_sound` (every
  concrete accepting trace is admitted) this pins the computed sets from both sides.
-/
import TealerModel.Lemmas.Worklist
set_option linter.unusedSectionVars false
namespace Tealer.Exact
open Tealer.Worklist

variable {D V : Type} [DecidableEq D]

/-- a membership reading of the domain for which union and intersection are exact and the null value is empty -/
structure ExactLaws (A : Analysis D) (mem : D → V → Prop) : Prop where
  union : ∀ a b v, mem (A.dom.union a b) v ↔ mem a v ∨ mem b v
  inter : ∀ a b v, mem (A.dom.inter a b) v ↔ mem a v ∧ mem b v
  null : ∀ v, ¬ mem A.dom.null v

/-- `v` is justified at block `b`: a chain of predecessors back to the entry along which every block constraint and every
    edge constraint admits `v`; a return point additionally needs its call site justified -/
inductive Justified (A : Analysis D) (mem : D → V → Prop) (g : Graph) (univ : D) (bc : Nat → D) (pc : Nat → Nat → D) (v : V) :
    Nat → Prop
  | entry (b : Nat) : b = g.entry → mem univ v → mem (bc b) v →
      (∀ c, g.callsubOf b = some c → Justified A mem g univ bc pc v c) → Justified A mem g univ bc pc v b
  | step (b p : Nat) : p ∈ g.prevG b → Justified A mem g univ bc pc v p → mem (pc b p) v → mem (bc b) v →
      (∀ c, g.callsubOf b = some c → Justified A mem g univ bc pc v c) → Justified A mem g univ bc pc v b

theorem mem_foldl_union {A : Analysis D} {mem : D → V → Prop} (L : ExactLaws A mem) (f : Nat → D) (ps : List Nat) (init : D) (v : V) :
    mem (ps.foldl (fun acc p => A.dom.union acc (f p)) init) v ↔ mem init v ∨ ∃ p ∈ ps, mem (f p) v := by
  induction ps generalizing init with
  | nil => simp
  | cons p ps ih =>
    simp only [List.foldl_cons]
    rw [ih, L.union]
    constructor
    · rintro ((h | h) | ⟨q, hq, h⟩)
      · exact Or.inl h
      · exact Or.inr ⟨p, by simp, h⟩
      · exact Or.inr ⟨q, by simp [hq], h⟩
    · rintro (h | ⟨q, hq, h⟩)
      · exact Or.inl (Or.inl h)
      · rcases List.mem_cons.mp hq with rfl | hq'
        · exact Or.inl (Or.inr h)
        · exact Or.inr ⟨q, hq', h⟩

/-- one application of the forward transfer function only produces justified values from justified values -/
theorem fwdF_justified {A : Analysis D} {mem : D → V → Prop} (L : ExactLaws A mem) (g : Graph) (univ : D) (bc : Nat → D)
    (pc : Nat → Nat → D) (cur : List (Nat × D))
    (hcur : ∀ k v, mem (getMap cur k A.dom.null) v → Justified A mem g univ bc pc v k)
    (b : Nat) (v : V) (h : mem (fwdF A g univ bc pc cur b) v) : Justified A mem g univ bc pc v b := by
  unfold fwdF at h
  simp only [] at h
  rw [L.inter] at h
  obtain ⟨h1, hbc⟩ := h
  have hcall : ∀ c, g.callsubOf b = some c → Justified A mem g univ bc pc v c := by
    intro c hc
    simp only [hc] at h1
    rw [L.inter] at h1
    exact hcur c v h1.2
  have hr0 : mem ((g.prevG b).foldl (fun acc p => A.dom.union acc (A.dom.inter (getMap cur p A.dom.null) (pc b p)))
      (if (b == g.entry) = true then univ else A.dom.null)) v := by
    cases hc : g.callsubOf b with
    | none => simpa [hc] using h1
    | some c =>
      simp only [hc] at h1
      rw [L.inter] at h1
      exact h1.1
  rw [mem_foldl_union L] at hr0
  rcases hr0 with h0 | ⟨p, hp, hpm⟩
  · split at h0
    · rename_i he
      exact Justified.entry b (by simpa using he) h0 hbc hcall
    · exact absurd h0 (L.null v)
  · rw [L.inter] at hpm
    exact Justified.step b p hp (hcur p v hpm.1) hpm.2 hbc hcall

/-- the loop keeps the invariant "every value present is justified" -/
theorem worklistRun_justified {A : Analysis D} {mem : D → V → Prop} (L : ExactLaws A mem) (g : Graph) (univ : D)
    (bc : Nat → D) (pc : Nat → Nat → D) (deps : Nat → List Nat) :
    ∀ (fuel : Nat) (cur : List (Nat × D)) (wl : List Nat),
      (∀ k v, mem (getMap cur k A.dom.null) v → Justified A mem g univ bc pc v k) →
      ∀ r, worklistRun (fwdF A g univ bc pc) deps A.dom.null fuel cur wl = some r →
        ∀ k v, mem (getMap r k A.dom.null) v → Justified A mem g univ bc pc v k := by
  intro fuel
  induction fuel with
  | zero => intro cur wl _ r hr; simp [worklistRun] at hr
  | succ n ih =>
    intro cur wl hcur r hr
    cases wl with
    | nil =>
      simp only [worklistRun, Option.some.injEq] at hr
      subst hr; exact hcur
    | cons b rest =>
      simp only [worklistRun] at hr
      split at hr
      · exact ih cur rest hcur r hr
      · refine ih _ _ ?_ r hr
        intro k v hk
        rw [getMap_updMap] at hk
        by_cases hkb : k = b
        · subst hkb
          simp only [if_true] at hk
          exact fwdF_justified L g univ bc pc cur hcur k v hk
        · simp only [hkb, if_false] at hk
          exact hcur k v hk

/-- EXACTNESS OF THE FORWARD PASS: whatever the forward solver returns contains only justified values -/
theorem solveFwd_justified {A : Analysis D} {mem : D → V → Prop} (L : ExactLaws A mem) (g : Graph) (univ : D)
    (bc : Nat → D) (pc : Nat → Nat → D) (r : List (Nat × D)) (h : solveFwd A g univ bc pc = some r) :
    ∀ k v, mem (getMap r k A.dom.null) v → Justified A mem g univ bc pc v k := by
  unfold solveFwd at h
  refine worklistRun_justified L g univ bc pc (fwdDeps g) _ _ _ ?_ r h
  intro k v hk
  exfalso
  have : getMap (g.keys.map fun k => (k, A.dom.null)) k A.dom.null = A.dom.null := by
    by_cases hkk : k ∈ g.keys
    · exact getMap_map_keys g.keys (fun _ => A.dom.null) k A.dom.null hkk
    · unfold getMap
      have : (g.keys.map fun k => (k, A.dom.null)).find? (fun x => x.1 == k) = none := by
        rw [List.find?_eq_none]
        intro x hx
        obtain ⟨k', hk', rfl⟩ := List.mem_map.mp hx
        simp only [beq_iff_eq]
        intro e; subst e; exact hkk hk'
      rw [this]
  rw [this] at hk
  exact L.null v hk

/-- backward counterpart: `v` is justified at `b` by a chain of successors down to a leaf, every block on it admitting `v`
    in its forward value; a call site whose callee can return additionally needs its return point justified -/
inductive BJustified (A : Analysis D) (mem : D → V → Prop) (g : Graph) (ctx1 : Nat → D) (v : V) : Nat → Prop
  | leaf (b : Nat) : g.isLeaf b = true → mem (ctx1 b) v → BJustified A mem g ctx1 v b
  | step (b n : Nat) : g.isLeaf b = false → n ∈ g.nextG b → BJustified A mem g ctx1 v n → mem (ctx1 b) v →
      (∀ r, g.retPointOf b = some r → g.calleeHasRetsub b = true → BJustified A mem g ctx1 v r) →
      BJustified A mem g ctx1 v b

theorem mem_foldl_union' {A : Analysis D} {mem : D → V → Prop} (L : ExactLaws A mem) (f : Nat → D) (ns : List Nat) (v : V) :
    mem (ns.foldl (fun acc n => A.dom.union acc (f n)) A.dom.null) v ↔ ∃ n ∈ ns, mem (f n) v := by
  rw [mem_foldl_union L]
  constructor
  · rintro (h | h)
    · exact absurd h (L.null v)
    · exact h
  · exact Or.inr

theorem bwdF_justified {A : Analysis D} {mem : D → V → Prop} (L : ExactLaws A mem) (g : Graph) (ctx1 : Nat → D)
    (cur : List (Nat × D)) (hcur : ∀ k v, mem (getMap cur k A.dom.null) v → BJustified A mem g ctx1 v k)
    (b : Nat) (v : V) (h : mem (bwdF A g ctx1 cur b) v) : BJustified A mem g ctx1 v b := by
  unfold bwdF at h
  simp only [] at h
  split at h
  · exact hcur b v h
  · rename_i hl
    have hl' : g.isLeaf b = false := by simpa using hl
    rw [L.inter] at h
    obtain ⟨h1, hb⟩ := h
    have hret : ∀ r, g.retPointOf b = some r → g.calleeHasRetsub b = true → BJustified A mem g ctx1 v r := by
      intro r hr hc
      simp only [hr, hc, if_true] at h1
      rw [L.inter] at h1
      exact hcur r v h1.2
    have hl0 : mem ((g.nextG b).foldl (fun acc n => A.dom.union acc (getMap cur n A.dom.null)) A.dom.null) v := by
      cases hr : g.retPointOf b with
      | none => simpa [hr] using h1
      | some r =>
        simp only [hr] at h1
        split at h1
        · rw [L.inter] at h1; exact h1.1
        · exact h1
    rw [mem_foldl_union' L] at hl0
    obtain ⟨n, hn, hnm⟩ := hl0
    exact BJustified.step b n hl' hn (hcur n v hnm) hb hret

theorem worklistRun_bjustified {A : Analysis D} {mem : D → V → Prop} (L : ExactLaws A mem) (g : Graph) (ctx1 : Nat → D)
    (deps : Nat → List Nat) :
    ∀ (fuel : Nat) (cur : List (Nat × D)) (wl : List Nat),
      (∀ k v, mem (getMap cur k A.dom.null) v → BJustified A mem g ctx1 v k) →
      ∀ r, worklistRun (bwdF A g ctx1) deps A.dom.null fuel cur wl = some r →
        ∀ k v, mem (getMap r k A.dom.null) v → BJustified A mem g ctx1 v k := by
  intro fuel
  induction fuel with
  | zero => intro cur wl _ r hr; simp [worklistRun] at hr
  | succ n ih =>
    intro cur wl hcur r hr
    cases wl with
    | nil =>
      simp only [worklistRun, Option.some.injEq] at hr
      subst hr; exact hcur
    | cons b rest =>
      simp only [worklistRun] at hr
      split at hr
      · exact ih cur rest hcur r hr
      · refine ih _ _ ?_ r hr
        intro k v hk
        rw [getMap_updMap] at hk
        by_cases hkb : k = b
        · subst hkb
          simp only [if_true] at hk
          exact bwdF_justified L g ctx1 cur hcur k v hk
        · simp only [hkb, if_false] at hk
          exact hcur k v hk

/-- EXACTNESS OF THE BACKWARD PASS: whatever the backward solver returns contains only values justified down to a leaf -/
theorem solveBwd_justified {A : Analysis D} {mem : D → V → Prop} (L : ExactLaws A mem) (g : Graph) (ctx1 : Nat → D)
    (r : List (Nat × D)) (h : solveBwd A g ctx1 = some r) :
    ∀ k v, mem (getMap r k A.dom.null) v → BJustified A mem g ctx1 v k := by
  unfold solveBwd at h
  refine worklistRun_bjustified L g ctx1 (bwdDeps g) _ _ _ ?_ r h
  intro k v hk
  by_cases hkk : k ∈ g.keys
  · rw [getMap_map_keys g.keys (fun k => if g.isLeaf k then ctx1 k else A.dom.null) k A.dom.null hkk] at hk
    by_cases hl : g.isLeaf k = true
    · simp only [hl, if_true] at hk
      exact BJustified.leaf k hl hk
    · simp only [hl] at hk
      exact absurd hk (L.null v)
  · exfalso
    have : getMap (g.keys.map fun k => (k, if g.isLeaf k then ctx1 k else A.dom.null)) k A.dom.null = A.dom.null := by
      unfold getMap
      have : (g.keys.map fun k => (k, if g.isLeaf k then ctx1 k else A.dom.null)).find? (fun x => x.1 == k) = none := by
        rw [List.find?_eq_none]
        intro x hx
        obtain ⟨k', hk', rfl⟩ := List.mem_map.mp hx
        simp only [beq_iff_eq]
        intro e; subst e; exact hkk hk'
      rw [this]
    rw [this] at hk
    exact L.null v hk

/-- both passes: a value in the final set of a block is justified backward down to a leaf through blocks whose forward sets
    contain it, and in each of those forward sets it is justified forward from the entry -/
theorem solve_justified {A : Analysis D} {mem : D → V → Prop} (L : ExactLaws A mem) (g : Graph) (univ : D)
    (bc : Nat → D) (pc : Nat → Nat → D) (r : List (Nat × D)) (h : solve A g univ bc pc = .ok r) :
    ∃ rout, solveFwd A g univ bc pc = some rout ∧
      (∀ k v, mem (getMap rout k A.dom.null) v → Justified A mem g univ bc pc v k) ∧
      (∀ k v, mem (getMap r k A.dom.null) v → BJustified A mem g (fun k => getMap rout k A.dom.null) v k) := by
  unfold solve at h
  simp only [bind, Except.bind, pure, Except.pure, throw, throwThe, MonadExceptOf.throw] at h
  cases h1 : solveFwd A g univ bc pc with
  | none => simp [h1] at h
  | some rout =>
    simp only [h1] at h
    cases h2 : solveBwd A g (fun k => getMap rout k A.dom.null) with
    | none => simp [h2] at h
    | some r' =>
      simp only [h2, Except.ok.injEq] at h
      subst h
      exact ⟨rout, rfl, solveFwd_justified L g univ bc pc rout h1, solveBwd_justified L g _ r' h2⟩

end Tealer.Exact
