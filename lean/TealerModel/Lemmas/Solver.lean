/-
  The forward solver of the model (`solveFwd` = forward_analyis for one key) returns a SOLUTION of the reach-out
  equations on every block of the function, under decidable well-formedness conditions of the global graph that the
  driver could check on each program (`fwdWF`).  Combined with `Flow.forward_sound` this gives: the values the solver
  returns admit the concrete value at every block of an accepting trace.
-/
import TealerModel.Lemmas.Flow
set_option linter.unusedSectionVars false
namespace Tealer.Solver

variable {D : Type} [DecidableEq D]

/-- what the new reach-out of `b` reads -/
def fwdInputs (g : Graph) (b : Nat) : List Nat :=
  g.prevG b ++ (match g.callsubOf b with | some c => [c] | none => [])

/-- decidable conditions: predecessor lists are mirrored by successor lists, and a return point's call site has it as
    return point; every block is initially queued -/
def fwdWF (g : Graph) : Bool :=
  g.keys.all (fun b => (g.prevG b).all fun p => (g.nextG p).contains b) &&
  g.keys.all (fun b => match g.callsubOf b with | some c => g.retPointOf c == some b | none => true) &&
  g.keys.all (fun b => (fwdWorklist g).contains b)

theorem foldl_congr {α β : Type} (f g : β → α → β) (l : List α) (init : β) (h : ∀ acc x, x ∈ l → f acc x = g acc x) :
    l.foldl f init = l.foldl g init := by
  induction l generalizing init with
  | nil => rfl
  | cons x xs ih =>
    simp only [List.foldl_cons]
    rw [h init x (by simp)]
    exact ih _ (fun acc y hy => h acc y (List.mem_cons_of_mem _ hy))

theorem fwdF_local (A : Analysis D) (g : Graph) (univ : D) (bc : Nat → D) (pc : Nat → Nat → D)
    (cur cur' : List (Nat × D)) (b : Nat)
    (h : ∀ i ∈ fwdInputs g b, getMap cur i A.dom.null = getMap cur' i A.dom.null) :
    fwdF A g univ bc pc cur b = fwdF A g univ bc pc cur' b := by
  unfold fwdF
  have hfold : (g.prevG b).foldl (fun acc p => A.dom.union acc (A.dom.inter (getMap cur p A.dom.null) (pc b p)))
        (if (b == g.entry) = true then univ else A.dom.null) =
      (g.prevG b).foldl (fun acc p => A.dom.union acc (A.dom.inter (getMap cur' p A.dom.null) (pc b p)))
        (if (b == g.entry) = true then univ else A.dom.null) := by
    apply foldl_congr
    intro acc x hx
    rw [h x (by simp [fwdInputs, hx])]
  simp only [hfold]
  cases hc : g.callsubOf b with
  | none => rfl
  | some c =>
    have : getMap cur c A.dom.null = getMap cur' c A.dom.null := h c (by simp [fwdInputs, hc])
    simp only [this]

/-- the forward solver returns a solution on every block of the function -/
theorem solveFwd_solution (A : Analysis D) (g : Graph) (univ : D) (bc : Nat → D) (pc : Nat → Nat → D)
    (hwf : fwdWF g = true) (r : List (Nat × D)) (h : solveFwd A g univ bc pc = some r) :
    ∀ b ∈ g.keys, getMap r b A.dom.null = fwdF A g univ bc pc r b := by
  simp only [fwdWF, Bool.and_eq_true, List.all_eq_true] at hwf
  obtain ⟨⟨hmirror, hret⟩, hall⟩ := hwf
  unfold solveFwd at h
  refine Worklist.worklistRun_solutionP (fun b => b ∈ g.keys) (fwdF A g univ bc pc) (fwdDeps g) (fwdInputs g) A.dom.null
    (fwdF_local A g univ bc pc) ?_ _ _ _ ?_ r h
  · intro b i hb hi
    simp only [fwdInputs, List.mem_append] at hi
    simp only [fwdDeps, List.mem_append]
    rcases hi with hi | hi
    · left
      have := hmirror b hb i hi
      simpa using this
    · right
      have hr := hret b hb
      cases hc : g.callsubOf b with
      | none => simp [hc] at hi
      | some c =>
        simp only [hc, List.mem_singleton] at hi
        subst hi
        simp only [hc] at hr
        have : g.retPointOf i = some b := by simpa using hr
        simp [this]
  · intro b hb hnot
    exact absurd (by simpa using hall b hb) hnot

/-- what the new live-out of `b` reads -/
def bwdInputs (g : Graph) (b : Nat) : List Nat :=
  (if g.isLeaf b then [b] else []) ++ g.nextG b ++ (match g.retPointOf b with | some r => [r] | none => [])

/-- decidable conditions for the backward pass: successor lists are mirrored by predecessor lists, a call site's return
    point has it as call site, and every non-leaf block is initially queued -/
def bwdWF (g : Graph) : Bool :=
  g.keys.all (fun b => (g.nextG b).all fun n => (g.prevG n).contains b) &&
  g.keys.all (fun b => match g.retPointOf b with | some r => g.callsubOf r == some b | none => true) &&
  g.keys.all (fun b => g.isLeaf b || (bwdWorklist g).contains b)

theorem bwdF_local (A : Analysis D) (g : Graph) (bc : Nat → D) (cur cur' : List (Nat × D)) (b : Nat)
    (h : ∀ i ∈ bwdInputs g b, getMap cur i A.dom.null = getMap cur' i A.dom.null) :
    bwdF A g bc cur b = bwdF A g bc cur' b := by
  unfold bwdF
  by_cases hl : g.isLeaf b = true
  · simp only [hl, if_true]
    exact h b (by simp [bwdInputs, hl])
  · simp only [hl]
    have hfold : (g.nextG b).foldl (fun acc n => A.dom.union acc (getMap cur n A.dom.null)) A.dom.null =
        (g.nextG b).foldl (fun acc n => A.dom.union acc (getMap cur' n A.dom.null)) A.dom.null := by
      apply foldl_congr
      intro acc x hx
      rw [h x (by simp [bwdInputs, hx])]
    simp only [hfold]
    cases hc : g.retPointOf b with
    | none => rfl
    | some r =>
      have : getMap cur r A.dom.null = getMap cur' r A.dom.null := h r (by simp [bwdInputs, hc])
      simp [this]

/-- the backward solver returns a solution on every block of the function (leaves keep their forward value) -/
theorem solveBwd_solution (A : Analysis D) (g : Graph) (ctx1 : Nat → D)
    (hwf : bwdWF g = true) (r : List (Nat × D)) (h : solveBwd A g ctx1 = some r) :
    ∀ b ∈ g.keys, getMap r b A.dom.null = bwdF A g ctx1 r b := by
  simp only [bwdWF, Bool.and_eq_true, List.all_eq_true] at hwf
  obtain ⟨⟨hmirror, hret⟩, hall⟩ := hwf
  intro b hb
  by_cases hl : g.isLeaf b = true
  · unfold bwdF; simp [hl]
  · unfold solveBwd at h
    refine Worklist.worklistRun_solutionP (fun b => b ∈ g.keys ∧ ¬ g.isLeaf b = true) (bwdF A g ctx1) (bwdDeps g) (bwdInputs g)
      A.dom.null (bwdF_local A g ctx1) ?_ _ _ _ ?_ r h b ⟨hb, hl⟩
    · intro b i hb hi
      obtain ⟨hbk, hbl⟩ := hb
      have hbl' : g.isLeaf b = false := by simpa using hbl
      simp only [bwdInputs, hbl', List.mem_append] at hi
      simp only [bwdDeps, List.mem_append]
      rcases hi with (hi | hi) | hi
      · simp at hi
      · left
        have := hmirror b hbk i hi
        simpa using this
      · right
        have hr := hret b hbk
        cases hc : g.retPointOf b with
        | none => simp [hc] at hi
        | some r' =>
          simp only [hc, List.mem_singleton] at hi
          subst hi
          simp only [hc] at hr
          have : g.callsubOf i = some b := by simpa using hr
          simp [this]
    · intro b hb hnot
      obtain ⟨hbk, hbl⟩ := hb
      have := hall b hbk
      simp only [Bool.or_eq_true] at this
      rcases this with h' | h'
      · exact absurd h' hbl
      · exact absurd (by simpa using h') hnot

/-- in what the backward solver returns, a leaf block has its forward value -/
theorem solveBwd_leaf (A : Analysis D) (g : Graph) (ctx1 : Nat → D) (r : List (Nat × D))
    (h : solveBwd A g ctx1 = some r) (b : Nat) (hb : b ∈ g.keys) (hl : g.isLeaf b = true) :
    getMap r b A.dom.null = ctx1 b := by
  unfold solveBwd at h
  refine Worklist.worklistRun_keeps (bwdF A g ctx1) (bwdDeps g) A.dom.null b (ctx1 b) ?_ _ _ _ ?_ r h
  · intro cur; unfold bwdF; simp [hl]
  · rw [Worklist.getMap_map_keys g.keys (fun k => if g.isLeaf k then ctx1 k else A.dom.null) b A.dom.null hb]
    simp [hl]

end Tealer.Solver
