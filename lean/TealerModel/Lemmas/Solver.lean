/-
  The forward solver of the model (`solveFwd` = forward_analyis for one key) returns a SOLUTION of the reach-out
  equations on every block of the function, under decidable well-formedness conditions of the global graph that the
  driver could check on each program (`fwdWF`).  Combined with `Flow.forward_sound` this gives: the values the solver
  returns admit the concrete value at every block of an accepting trace.
-/
import TealerModel.Lemmas.Flow
set_option linter.unusedSectionVars false
namespace Tealer.Solver

variable {D : Type} [DecidableEq D]

/-- what the new reach-out of `b` reads -/
def fwdInputs (g : Graph) (b : Nat) : List Nat :=
  g.prevG b ++ (match g.callsubOf b with | some c => [c] | none => [])

/-- decidable conditions: predecessor lists are mirrored by successor lists, and a return point's call site has it as
    return point; every block is initially queued -/
def fwdWF (g : Graph) : Bool :=
  g.keys.all (fun b => (g.prevG b).all fun p => (g.nextG p).contains b) &&
  g.keys.all (fun b => match g.callsubOf b with | some c => g.retPointOf c == some b | none => true) &&
  g.keys.all (fun b => (fwdWorklist g).contains b)

theorem foldl_congr {α β : Type} (f g : β → α → β) (l : List α) (init : β) (h : ∀ acc x, x ∈ l → f acc x = g acc x) :
    l.foldl f init = l.foldl g init := by
  induction l generalizing init with
  | nil => rfl
  | cons x xs ih =>
    simp only [List.foldl_cons]
    rw [h init x (by simp)]
    exact ih _ (fun acc y hy => h acc y (List.mem_cons_of_mem _ hy))

theorem fwdF_local (A : Analysis D) (g : Graph) (univ : D) (bc : Nat → D) (pc : Nat → Nat → D)
    (cur cur' : List (Nat × D)) (b : Nat)
    (h : ∀ i ∈ fwdInputs g b, getMap cur i A.dom.null = getMap cur' i A.dom.null) :
    fwdF A g univ bc pc cur b = fwdF A g univ bc pc cur' b := by
  unfold fwdF
  have hfold : (g.prevG b).foldl (fun acc p => A.dom.union acc (A.dom.inter (getMap cur p A.dom.null) (pc b p)))
        (if (b == g.entry) = true then univ else A.dom.null) =
      (g.prevG b).foldl (fun acc p => A.dom.union acc (A.dom.inter (getMap cur' p A.dom.null) (pc b p)))
        (if (b == g.entry) = true then univ else A.dom.null) := by
    apply foldl_congr
    intro acc x hx
    rw [h x (by simp [fwdInputs, hx])]
  simp only [hfold]
  cases hc : g.callsubOf b with
  | none => rfl
  | some c =>
    have : getMap cur c A.dom.null = getMap cur' c A.dom.null := h c (by simp [fwdInputs, hc])
    simp only [this]

/-- the forward solver returns a solution on every block of the function -/
theorem solveFwd_solution (A : Analysis D) (g : Graph) (univ : D) (bc : Nat → D) (pc : Nat → Nat → D)
    (hwf : fwdWF g = true) (r : List (Nat × D)) (h : solveFwd A g univ bc pc = some r) :
    ∀ b ∈ g.keys, getMap r b A.dom.null = fwdF A g univ bc pc r b := by
  simp only [fwdWF, Bool.and_eq_true, List.all_eq_true] at hwf
  obtain ⟨⟨hmirror, hret⟩, hall⟩ := hwf
  unfold solveFwd at h
  refine Worklist.worklistRun_solutionP (fun b => b ∈ g.keys) (fwdF A g univ bc pc) (fwdDeps g) (fwdInputs g) A.dom.null
    (fwdF_local A g univ bc pc) ?_ _ _ _ ?_ r h
  · intro b i hb hi
    simp only [fwdInputs, List.mem_append] at hi
    simp only [fwdDeps, List.mem_append]
    rcases hi with hi | hi
    · left
      have := hmirror b hb i hi
      simpa using this
    · right
      have hr := hret b hb
      cases hc : g.callsubOf b with
      | none => simp [hc] at hi
      | some c =>
        simp only [hc, List.mem_singleton] at hi
        subst hi
        simp only [hc] at hr
        have : g.retPointOf i = some b := by simpa using hr
        simp [this]
  · intro b hb hnot
    exact absurd (by simpa using hall b hb) hnot

end Tealer.Solver
