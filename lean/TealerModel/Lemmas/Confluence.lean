/-
  Order independence of the worklist loop (model: `worklistRun`): when the transfer function is monotone for an order in
  which the initial values are below every solution, the loop can only reach the LEAST solution — so two runs that start
  from different initial worklist orders (any order a set iteration may give) and both stop agree at every block.
-/
import TealerModel.Lemmas.Worklist
set_option linter.unusedSectionVars false
namespace Tealer.Confluence
open Tealer.Worklist

variable {V : Type} [DecidableEq V]

/-- pointwise order on value maps -/
def LeMap (le : V → V → Prop) (dflt : V) (a b : List (Nat × V)) : Prop := ∀ k, le (getMap a k dflt) (getMap b k dflt)

/-- the loop never rises above a solution it started below -/
theorem worklistRun_below (le : V → V → Prop) (P : Nat → Prop) (F : List (Nat × V) → Nat → V) (deps : Nat → List Nat) (dflt : V)
    (s : List (Nat × V)) (hs : ∀ b, P b → getMap s b dflt = F s b)
    (hmono : ∀ cur b, P b → LeMap le dflt cur s → le (F cur b) (F s b))
    (hdeps : ∀ b, P b → ∀ d ∈ deps b, P d) :
    ∀ (fuel : Nat) (cur : List (Nat × V)) (wl : List Nat), (∀ b ∈ wl, P b) → LeMap le dflt cur s →
      ∀ r, worklistRun F deps dflt fuel cur wl = some r → LeMap le dflt r s := by
  intro fuel
  induction fuel with
  | zero => intro cur wl _ _ r hr; simp [worklistRun] at hr
  | succ n ih =>
    intro cur wl hwl hle r hr
    cases wl with
    | nil =>
      simp only [worklistRun, Option.some.injEq] at hr
      subst hr; exact hle
    | cons b rest =>
      simp only [worklistRun] at hr
      have hPb : P b := hwl b (by simp)
      split at hr
      · exact ih cur rest (fun x hx => hwl x (by simp [hx])) hle r hr
      · refine ih _ _ ?_ ?_ r hr
        · intro x hx
          rw [mem_requeue] at hx
          rcases hx with hx | hx
          · exact hwl x (by simp [hx])
          · exact hdeps b hPb x hx
        · intro k
          rw [getMap_updMap]
          by_cases hk : k = b
          · subst hk
            simp only [if_true]
            rw [hs k hPb]
            exact hmono cur k hPb hle
          · simp only [hk, if_false]; exact hle k

/-- blocks outside the worklist's closure keep their initial value -/
theorem worklistRun_outside (P : Nat → Prop) (F : List (Nat × V) → Nat → V) (deps : Nat → List Nat) (dflt : V)
    (hdeps : ∀ b, P b → ∀ d ∈ deps b, P d) :
    ∀ (fuel : Nat) (cur : List (Nat × V)) (wl : List Nat) r, (∀ b ∈ wl, P b) → worklistRun F deps dflt fuel cur wl = some r →
      ∀ k, ¬ P k → getMap r k dflt = getMap cur k dflt := by
  intro fuel
  induction fuel with
  | zero => intro cur wl r _ hr; simp [worklistRun] at hr
  | succ n ih =>
    intro cur wl r hwl hr k hk
    cases wl with
    | nil =>
      simp only [worklistRun, Option.some.injEq] at hr
      subst hr; rfl
    | cons b rest =>
      simp only [worklistRun] at hr
      have hPb : P b := hwl b (by simp)
      split at hr
      · exact ih cur rest r (fun x hx => hwl x (by simp [hx])) hr k hk
      · rw [ih _ _ r ?_ hr k hk, getMap_updMap]
        · have : k ≠ b := fun e => hk (e ▸ hPb)
          simp [this]
        · intro x hx
          rw [mem_requeue] at hx
          rcases hx with hx | hx
          · exact hwl x (by simp [hx])
          · exact hdeps b hPb x hx

/-- ORDER INDEPENDENCE: two runs of the loop over the same equations, from the same initial values but with different
    initial worklists (both containing every block of `P` that does not already satisfy its equation), that both stop,
    agree at every block up to the order's equivalence (for sets: have the same members) -/
theorem worklistRun_confluent (le : V → V → Prop) (P : Nat → Prop) (F : List (Nat × V) → Nat → V)
    (deps inputs : Nat → List Nat) (dflt : V)
    (hloc : ∀ cur cur' b, (∀ i ∈ inputs b, getMap cur i dflt = getMap cur' i dflt) → F cur b = F cur' b)
    (hcover : ∀ b i, P b → i ∈ inputs b → b ∈ deps i)
    (hdeps : ∀ b, P b → ∀ d ∈ deps b, P d)
    (hmono : ∀ cur s b, P b → LeMap le dflt cur s → le (F cur b) (F s b))
    (init : List (Nat × V)) (hinit : ∀ s, (∀ b, P b → getMap s b dflt = F s b) → (∀ k, ¬ P k → getMap s k dflt = getMap init k dflt) →
      LeMap le dflt init s)
    (wl1 wl2 : List Nat) (h1 : ∀ b ∈ wl1, P b) (h2 : ∀ b ∈ wl2, P b)
    (hi1 : InvP P F dflt init wl1) (hi2 : InvP P F dflt init wl2)
    (f1 f2 : Nat) (r1 r2 : List (Nat × V))
    (hr1 : worklistRun F deps dflt f1 init wl1 = some r1) (hr2 : worklistRun F deps dflt f2 init wl2 = some r2) :
    LeMap le dflt r1 r2 ∧ LeMap le dflt r2 r1 := by
  have s1 := worklistRun_solutionP P F deps inputs dflt hloc hcover f1 init wl1 hi1 r1 hr1
  have s2 := worklistRun_solutionP P F deps inputs dflt hloc hcover f2 init wl2 hi2 r2 hr2
  have o1 := worklistRun_outside P F deps dflt hdeps f1 init wl1 r1 h1 hr1
  have o2 := worklistRun_outside P F deps dflt hdeps f2 init wl2 r2 h2 hr2
  constructor
  · exact worklistRun_below le P F deps dflt r2 s2 (fun cur b hb hle => hmono cur r2 b hb hle) hdeps f1 init wl1 h1
      (hinit r2 s2 o2) r1 hr1
  · exact worklistRun_below le P F deps dflt r1 s1 (fun cur b hb hle => hmono cur r1 b hb hle) hdeps f2 init wl2 h2
      (hinit r1 s1 o1) r2 hr2

/-- what order independence needs from a domain -/
structure MonoLaws {D : Type} [DecidableEq D] (A : Analysis D) (le : D → D → Prop) : Prop where
  refl : ∀ a, le a a
  union_mono : ∀ a a' b b', le a a' → le b b' → le (A.dom.union a b) (A.dom.union a' b')
  inter_mono : ∀ a a' b b', le a a' → le b b' → le (A.dom.inter a b) (A.dom.inter a' b')
  null_le : ∀ a, le A.dom.null a

theorem fwdF_mono {D : Type} [DecidableEq D] (A : Analysis D) (le : D → D → Prop) (M : MonoLaws A le) (g : Graph)
    (univ : D) (bc : Nat → D) (pc : Nat → Nat → D) (cur s : List (Nat × D)) (b : Nat)
    (h : LeMap le A.dom.null cur s) : le (fwdF A g univ bc pc cur b) (fwdF A g univ bc pc s b) := by
  unfold fwdF
  simp only []
  have hfold : ∀ (ps : List Nat) (i1 i2 : D), le i1 i2 →
      le (ps.foldl (fun acc p => A.dom.union acc (A.dom.inter (getMap cur p A.dom.null) (pc b p))) i1)
         (ps.foldl (fun acc p => A.dom.union acc (A.dom.inter (getMap s p A.dom.null) (pc b p))) i2) := by
    intro ps
    induction ps with
    | nil => intro i1 i2 h12; exact h12
    | cons p ps ih =>
      intro i1 i2 h12
      simp only [List.foldl_cons]
      exact ih _ _ (M.union_mono _ _ _ _ h12 (M.inter_mono _ _ _ _ (h p) (M.refl _)))
  apply M.inter_mono _ _ _ _ _ (M.refl _)
  cases hc : g.callsubOf b with
  | none => exact hfold _ _ _ (M.refl _)
  | some c => exact M.inter_mono _ _ _ _ (hfold _ _ _ (M.refl _)) (h c)

/-- ORDER INDEPENDENCE OF THE FORWARD PASS: on a graph whose predecessor lists are mirrored by successor lists, whose
    return points know their call sites and whose successors are blocks of the function, two runs of the forward
    worklist from ANY two initial worklists that contain every block, if both stop, give equivalent values at every block -/
theorem solveFwd_confluent {D : Type} [DecidableEq D] (A : Analysis D) (le : D → D → Prop) (M : MonoLaws A le) (g : Graph)
    (univ : D) (bc : Nat → D) (pc : Nat → Nat → D)
    (hmirror : ∀ b ∈ g.keys, ∀ p ∈ g.prevG b, b ∈ g.nextG p)
    (hret : ∀ b ∈ g.keys, ∀ c, g.callsubOf b = some c → g.retPointOf c = some b)
    (hclosed : ∀ b ∈ g.keys, ∀ d ∈ fwdDeps g b, d ∈ g.keys)
    (wl1 wl2 : List Nat) (h1 : ∀ b ∈ wl1, b ∈ g.keys) (h2 : ∀ b ∈ wl2, b ∈ g.keys)
    (c1 : ∀ b ∈ g.keys, b ∈ wl1) (c2 : ∀ b ∈ g.keys, b ∈ wl2)
    (f1 f2 : Nat) (r1 r2 : List (Nat × D))
    (hr1 : worklistRun (fwdF A g univ bc pc) (fwdDeps g) A.dom.null f1 (g.keys.map fun k => (k, A.dom.null)) wl1 = some r1)
    (hr2 : worklistRun (fwdF A g univ bc pc) (fwdDeps g) A.dom.null f2 (g.keys.map fun k => (k, A.dom.null)) wl2 = some r2) :
    ∀ k, le (getMap r1 k A.dom.null) (getMap r2 k A.dom.null) ∧ le (getMap r2 k A.dom.null) (getMap r1 k A.dom.null) := by
  have hinit0 : ∀ k, getMap (g.keys.map fun k => (k, A.dom.null)) k A.dom.null = A.dom.null := by
    intro k
    by_cases hk : k ∈ g.keys
    · exact getMap_map_keys g.keys (fun _ => A.dom.null) k A.dom.null hk
    · unfold getMap
      have : (g.keys.map fun k => (k, A.dom.null)).find? (fun x => x.1 == k) = none := by
        rw [List.find?_eq_none]
        intro x hx
        obtain ⟨k', hk', rfl⟩ := List.mem_map.mp hx
        simp only [beq_iff_eq]
        intro e; subst e; exact hk hk'
      rw [this]
  have := worklistRun_confluent le (fun b => b ∈ g.keys) (fwdF A g univ bc pc) (fwdDeps g)
    (fun b => g.prevG b ++ (match g.callsubOf b with | some c => [c] | none => [])) A.dom.null
    (by
      intro cur cur' b h
      unfold fwdF
      have hfold : (g.prevG b).foldl (fun acc p => A.dom.union acc (A.dom.inter (getMap cur p A.dom.null) (pc b p)))
            (if (b == g.entry) = true then univ else A.dom.null) =
          (g.prevG b).foldl (fun acc p => A.dom.union acc (A.dom.inter (getMap cur' p A.dom.null) (pc b p)))
            (if (b == g.entry) = true then univ else A.dom.null) := by
        have : ∀ (ps : List Nat) (i : D), (∀ p ∈ ps, getMap cur p A.dom.null = getMap cur' p A.dom.null) →
            ps.foldl (fun acc p => A.dom.union acc (A.dom.inter (getMap cur p A.dom.null) (pc b p))) i =
            ps.foldl (fun acc p => A.dom.union acc (A.dom.inter (getMap cur' p A.dom.null) (pc b p))) i := by
          intro ps
          induction ps with
          | nil => intro i _; rfl
          | cons p ps ih => intro i hp; simp only [List.foldl_cons]; rw [hp p (by simp)]; exact ih _ (fun q hq => hp q (by simp [hq]))
        exact this _ _ (fun p hp => h p (by simp [hp]))
      simp only [hfold]
      cases hc : g.callsubOf b with
      | none => rfl
      | some c =>
        have : getMap cur c A.dom.null = getMap cur' c A.dom.null := h c (by simp [hc])
        simp only [this])
    (by
      intro b i hb hi
      simp only [List.mem_append] at hi
      simp only [fwdDeps, List.mem_append]
      rcases hi with hi | hi
      · exact Or.inl (hmirror b hb i hi)
      · right
        cases hc : g.callsubOf b with
        | none => simp [hc] at hi
        | some c =>
          simp only [hc, List.mem_singleton] at hi
          subst hi
          simp [hret b hb i hc])
    hclosed
    (fun cur s b _ hle => fwdF_mono A le M g univ bc pc cur s b hle)
    (g.keys.map fun k => (k, A.dom.null))
    (by intro s _ _ k; rw [hinit0 k]; exact M.null_le _)
    wl1 wl2 h1 h2
    (by intro b hb hn; exact absurd (c1 b hb) hn)
    (by intro b hb hn; exact absurd (c2 b hb) hn)
    f1 f2 r1 r2 hr1 hr2
  intro k
  exact ⟨this.1 k, this.2 k⟩

theorem bwdF_mono {D : Type} [DecidableEq D] (A : Analysis D) (le : D → D → Prop) (M : MonoLaws A le) (g : Graph)
    (bc : Nat → D) (cur s : List (Nat × D)) (b : Nat)
    (h : LeMap le A.dom.null cur s) : le (bwdF A g bc cur b) (bwdF A g bc s b) := by
  unfold bwdF
  simp only []
  split
  · exact h b
  · have hfold : ∀ (ns : List Nat) (i1 i2 : D), le i1 i2 →
        le (ns.foldl (fun acc n => A.dom.union acc (getMap cur n A.dom.null)) i1)
           (ns.foldl (fun acc n => A.dom.union acc (getMap s n A.dom.null)) i2) := by
      intro ns
      induction ns with
      | nil => intro i1 i2 h12; exact h12
      | cons n ns ih =>
        intro i1 i2 h12
        simp only [List.foldl_cons]
        exact ih _ _ (M.union_mono _ _ _ _ h12 (h n))
    apply M.inter_mono _ _ _ _ _ (M.refl _)
    cases hc : g.retPointOf b with
    | none => exact hfold _ _ _ (M.refl _)
    | some r =>
      simp only []
      split
      · exact M.inter_mono _ _ _ _ (hfold _ _ _ (M.refl _)) (h r)
      · exact hfold _ _ _ (M.refl _)

/-- ORDER INDEPENDENCE OF THE BACKWARD PASS: non-leaf blocks are solved by the worklist, leaves keep the forward values;
    two runs from any two initial worklists that contain every non-leaf block (and only such blocks) agree at every block -/
theorem solveBwd_confluent {D : Type} [DecidableEq D] (A : Analysis D) (le : D → D → Prop) (M : MonoLaws A le) (g : Graph)
    (ctx1 : Nat → D)
    (hmirror : ∀ b ∈ g.keys, g.isLeaf b = false → ∀ n ∈ g.nextG b, b ∈ g.prevG n)
    (hret : ∀ b ∈ g.keys, g.isLeaf b = false → ∀ r, g.retPointOf b = some r → g.callsubOf r = some b)
    (hclosed : ∀ b ∈ g.keys, g.isLeaf b = false → ∀ d ∈ bwdDeps g b, d ∈ g.keys ∧ g.isLeaf d = false)
    (wl1 wl2 : List Nat) (h1 : ∀ b ∈ wl1, b ∈ g.keys ∧ g.isLeaf b = false) (h2 : ∀ b ∈ wl2, b ∈ g.keys ∧ g.isLeaf b = false)
    (c1 : ∀ b ∈ g.keys, g.isLeaf b = false → b ∈ wl1) (c2 : ∀ b ∈ g.keys, g.isLeaf b = false → b ∈ wl2)
    (f1 f2 : Nat) (r1 r2 : List (Nat × D))
    (hr1 : worklistRun (bwdF A g ctx1) (bwdDeps g) A.dom.null f1
      (g.keys.map fun k => (k, if g.isLeaf k then ctx1 k else A.dom.null)) wl1 = some r1)
    (hr2 : worklistRun (bwdF A g ctx1) (bwdDeps g) A.dom.null f2
      (g.keys.map fun k => (k, if g.isLeaf k then ctx1 k else A.dom.null)) wl2 = some r2) :
    ∀ k, le (getMap r1 k A.dom.null) (getMap r2 k A.dom.null) ∧ le (getMap r2 k A.dom.null) (getMap r1 k A.dom.null) := by
  have hinitP : ∀ k, k ∈ g.keys → g.isLeaf k = false →
      getMap (g.keys.map fun k => (k, if g.isLeaf k then ctx1 k else A.dom.null)) k A.dom.null = A.dom.null := by
    intro k hk hl
    rw [getMap_map_keys g.keys (fun k => if g.isLeaf k then ctx1 k else A.dom.null) k A.dom.null hk]
    simp [hl]
  have := worklistRun_confluent le (fun b => b ∈ g.keys ∧ g.isLeaf b = false) (bwdF A g ctx1) (bwdDeps g)
    (fun b => (if g.isLeaf b then [b] else []) ++ g.nextG b ++ (match g.retPointOf b with | some r => [r] | none => []))
    A.dom.null
    (by
      intro cur cur' b h
      unfold bwdF
      by_cases hl : g.isLeaf b = true
      · simp only [hl, if_true]
        exact h b (by simp [hl])
      · simp only [hl]
        have hfold : (g.nextG b).foldl (fun acc n => A.dom.union acc (getMap cur n A.dom.null)) A.dom.null =
            (g.nextG b).foldl (fun acc n => A.dom.union acc (getMap cur' n A.dom.null)) A.dom.null := by
          have : ∀ (ns : List Nat) (i : D), (∀ n ∈ ns, getMap cur n A.dom.null = getMap cur' n A.dom.null) →
              ns.foldl (fun acc n => A.dom.union acc (getMap cur n A.dom.null)) i =
              ns.foldl (fun acc n => A.dom.union acc (getMap cur' n A.dom.null)) i := by
            intro ns
            induction ns with
            | nil => intro i _; rfl
            | cons n ns ih => intro i hn; simp only [List.foldl_cons]; rw [hn n (by simp)]; exact ih _ (fun q hq => hn q (by simp [hq]))
          exact this _ _ (fun n hn => h n (by simp [hn]))
        simp only [hfold]
        cases hc : g.retPointOf b with
        | none => rfl
        | some r =>
          have : getMap cur r A.dom.null = getMap cur' r A.dom.null := h r (by simp [hc])
          simp [this])
    (by
      intro b i hb hi
      obtain ⟨hbk, hbl⟩ := hb
      simp only [hbl, List.mem_append] at hi
      simp only [bwdDeps, List.mem_append]
      rcases hi with (hi | hi) | hi
      · simp at hi
      · exact Or.inl (hmirror b hbk hbl i hi)
      · right
        cases hc : g.retPointOf b with
        | none => simp [hc] at hi
        | some r =>
          simp only [hc, List.mem_singleton] at hi
          subst hi
          simp [hret b hbk hbl i hc])
    (fun b hb d hd => hclosed b hb.1 hb.2 d hd)
    (fun cur s b _ hle => bwdF_mono A le M g ctx1 cur s b hle)
    (g.keys.map fun k => (k, if g.isLeaf k then ctx1 k else A.dom.null))
    (by
      intro s _ hout k
      by_cases hP : k ∈ g.keys ∧ g.isLeaf k = false
      · rw [hinitP k hP.1 hP.2]; exact M.null_le _
      · rw [hout k hP]; exact M.refl _)
    wl1 wl2 h1 h2
    (by intro b hb hn; exact absurd (c1 b hb.1 hb.2) hn)
    (by intro b hb hn; exact absurd (c2 b hb.1 hb.2) hn)
    f1 f2 r1 r2 hr1 hr2
  intro k
  exact ⟨this.1 k, this.2 k⟩

end Tealer.Confluence
