/-
  Instruction-level soundness of the control-flow edges: every step of the concrete AVM semantics (Avm.step, spec side)
  moves the program counter along a successor recorded by first_pass / second_pass (insNext, model side), or is a call,
  a return, or the fall off the end of the program.
-/
import TealerModel.Cfg
import TealerModel.Avm
import TealerModel.Lemmas.Cfg
namespace Tealer.StepEdge
open Tealer.Avm

theorem mapM_except_mem {α β : Type} (f : α → Except Err β) (l : List α) (r : List β)
    (h : l.mapM f = .ok r) (x : α) (hx : x ∈ l) : ∃ y ∈ r, f x = .ok y := by
  induction l generalizing r with
  | nil => cases hx
  | cons a as ih =>
    simp only [List.mapM_cons, bind, Except.bind] at h
    split at h
    · cases h
    · rename_i y hy
      split at h
      · cases h
      · rename_i ys hys
        simp only [pure, Except.pure, Except.ok.injEq] at h
        subst h
        rcases List.mem_cons.mp hx with rfl | hx'
        · exact ⟨y, by simp, hy⟩
        · obtain ⟨y', hy', hf⟩ := ih ys hys hx'
          exact ⟨y', by simp [hy'], hf⟩

theorem mapM_except_mem_rev {α β : Type} (f : α → Except Err β) (l : List α) (r : List β)
    (h : l.mapM f = .ok r) (y : β) (hy : y ∈ r) : ∃ x ∈ l, f x = .ok y := by
  induction l generalizing r with
  | nil => simp [List.mapM_nil, pure, Except.pure] at h; subst h; cases hy
  | cons a as ih =>
    simp only [List.mapM_cons, bind, Except.bind] at h
    split at h
    · cases h
    · rename_i y0 hy0
      split at h
      · cases h
      · rename_i ys hys
        simp only [pure, Except.pure, Except.ok.injEq] at h
        subst h
        rcases List.mem_cons.mp hy with rfl | hy'
        · exact ⟨a, by simp, hy0⟩
        · obtain ⟨x, hx, hf⟩ := ih ys hys hy'
          exact ⟨x, by simp [hx], hf⟩

theorem mapM_except_get {α β : Type} (f : α → Except Err β) (l : List α) (r : List β)
    (h : l.mapM f = .ok r) (k : Nat) (hk : k < l.length) :
    ∃ hk' : k < r.length, f l[k] = .ok r[k] := by
  induction l generalizing r k with
  | nil => cases hk
  | cons a as ih =>
    simp only [List.mapM_cons, bind, Except.bind] at h
    split at h
    · cases h
    · rename_i y hy
      split at h
      · cases h
      · rename_i ys hys
        simp only [pure, Except.pure, Except.ok.injEq] at h
        subst h
        cases k with
        | zero => exact ⟨by simp, by simpa using hy⟩
        | succ k =>
          obtain ⟨hk', hf⟩ := ih ys hys k (by simpa using hk)
          exact ⟨by simpa using hk', by simpa using hf⟩

/-- the successor list of instruction `k`: the default successor (if any), then the resolved jump labels -/
theorem insNext_get (ins : List Ins) (nexts : List (List Nat)) (h : insNext ins = .ok nexts)
    (k : Nat) (i : Ins) (hi : ins[k]? = some i) :
    ∃ jumps, i.op.jumpLabels.mapM (lookupLabel (labelTable ins)) = .ok jumps ∧
      nexts[k]! = (if !i.op.noFallthrough && k + 1 < ins.length then [k + 1] else []) ++ jumps := by
  have hk : k < ins.length := by
    rcases List.getElem?_eq_some_iff.mp hi with ⟨hk, _⟩; exact hk
  have hik : ins[k] = i := by
    rcases List.getElem?_eq_some_iff.mp hi with ⟨_, h'⟩; exact h'
  unfold insNext at h
  simp only [] at h
  obtain ⟨hk', hf⟩ := mapM_except_get _ _ _ h k (by simpa using hk)
  simp only [List.getElem_zipIdx, Nat.zero_add, bind, Except.bind, hik] at hf
  split at hf
  · cases hf
  · rename_i jumps hj
    simp only [pure, Except.pure, Except.ok.injEq] at hf
    refine ⟨jumps, hj, ?_⟩
    rw [getElem!_pos nexts k hk']
    exact hf.symm

/-- the spec's label resolution (last definition wins) and the model's label table agree -/
theorem labelPos_lookup (prog : List Ins) (l : String) (p : Nat) :
    labelPos prog l = some p ↔ lookupLabel (labelTable prog) l = .ok p := by
  unfold labelPos lookupLabel labelTable
  rw [← List.filterMap_reverse]
  generalize prog.zipIdx.reverse = xs
  induction xs with
  | nil => simp
  | cons x xs ih =>
    obtain ⟨i, k⟩ := x
    by_cases hop : i.op = .label l
    · simp [List.filterMap_cons, hop, List.find?_cons]
    · have h2 : (i.op == Op.label l) = false := by simpa using hop
      rw [List.find?_cons]
      simp only [h2]
      rw [ih, List.filterMap_cons]
      dsimp only
      cases hio : i.op with
      | label l' =>
        have : (l' == l) = false := by
          simp only [beq_eq_false_iff_ne, ne_eq]
          intro e; subst e; exact hop hio
        simp only [List.find?_cons, this]
      | _ => simp only []

/-- the stack / scratch opcodes never jump -/
theorem stepOther_pc (e : Env) (s s' : State) (name : String) (h : stepOther e s name = .next s') : s'.pc = s.pc + 1 := by
  unfold stepOther at h
  simp only [] at h
  repeat' split at h
  all_goals first
    | (cases h; done)
    | (simp only [Outcome.next.injEq] at h; subst h; rfl)

end Tealer.StepEdge
