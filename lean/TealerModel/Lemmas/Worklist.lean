/-
  The `while worklist:` loop of forward_analyis / backward_analysis (model: `worklistRun`):
  when it stops, every block satisfies its equation.
-/
import TealerModel.Generic
set_option linter.unusedSectionVars false
namespace Tealer.Worklist

variable {V : Type} [DecidableEq V]

omit [DecidableEq V] in
theorem getMap_cons (x : Nat × V) (xs : List (Nat × V)) (k : Nat) (dflt : V) :
    getMap (x :: xs) k dflt = if x.1 = k then x.2 else getMap xs k dflt := by
  obtain ⟨xk, xv⟩ := x
  by_cases h : xk = k
  · subst h; simp [getMap]
  · have : (xk == k) = false := by simpa using h
    simp [getMap, this, h]

omit [DecidableEq V] in
theorem getMap_nil (k : Nat) (dflt : V) : getMap ([] : List (Nat × V)) k dflt = dflt := by
  simp [getMap]

theorem getMap_replace (m : List (Nat × V)) (k k' : Nat) (v dflt : V) :
    getMap (m.map fun (k'', v') => if k'' == k then (k'', v) else (k'', v')) k' dflt =
      if k' = k then (if m.any (·.1 == k) then v else dflt) else getMap m k' dflt := by
  induction m with
  | nil => simp [getMap_nil]
  | cons x xs ih =>
    obtain ⟨xk, xv⟩ := x
    simp only [List.map_cons, List.any_cons]
    by_cases hx : xk = k
    · subst hx
      simp only [beq_self_eq_true, if_true, Bool.true_or]
      rw [getMap_cons, getMap_cons]
      by_cases hk : xk = k'
      · subst hk; simp
      · have hk' : ¬ k' = xk := fun e => hk e.symm
        simp only [hk, if_false, hk']
        rw [ih]; simp [hk']
    · have hxb : (xk == k) = false := by simpa using hx
      simp only [hxb, Bool.false_eq_true, if_false, Bool.false_or]
      rw [getMap_cons, getMap_cons]
      by_cases hk : xk = k'
      · subst hk; simp [hx]
      · simp only [hk, if_false]; exact ih

theorem getMap_append_absent (m : List (Nat × V)) (k k' : Nat) (v dflt : V)
    (habs : m.any (·.1 == k) = false) :
    getMap (m ++ [(k, v)]) k' dflt = if k' = k then v else getMap m k' dflt := by
  induction m with
  | nil =>
    simp only [List.nil_append]; rw [getMap_cons, getMap_nil]
    by_cases h : k = k'
    · subst h; simp
    · have : ¬ k' = k := fun e => h e.symm
      simp [h, this]
  | cons x xs ih =>
    obtain ⟨xk, xv⟩ := x
    simp only [List.any_cons, Bool.or_eq_false_iff] at habs
    have hxk : ¬ xk = k := by simpa using habs.1
    simp only [List.cons_append]
    rw [getMap_cons, getMap_cons, ih habs.2]
    by_cases hk : xk = k'
    · subst hk; simp [hxk]
    · simp [hk]

theorem getMap_updMap (m : List (Nat × V)) (k k' : Nat) (v dflt : V) :
    getMap (updMap m k v) k' dflt = if k' = k then v else getMap m k' dflt := by
  unfold updMap
  split
  · rename_i hany
    rw [getMap_replace]; simp [hany]
  · rename_i hany
    exact getMap_append_absent m k k' v dflt (Bool.eq_false_iff.mpr hany)

/-- re-queueing keeps the rest of the worklist and adds every dependent -/
theorem mem_requeue (rest ds : List Nat) (x : Nat) :
    x ∈ ds.foldl (fun wl d => if wl.contains d then wl else wl ++ [d]) rest ↔ x ∈ rest ∨ x ∈ ds := by
  induction ds generalizing rest with
  | nil => simp
  | cons d ds ih =>
    simp only [List.foldl_cons]
    rw [ih]
    by_cases hc : rest.contains d
    · simp only [hc, if_true]
      have : d ∈ rest := by simpa using hc
      constructor
      · rintro (h | h); exact Or.inl h; exact Or.inr (List.mem_cons_of_mem _ h)
      · rintro (h | h)
        · exact Or.inl h
        · cases h with
          | head => exact Or.inl this
          | tail _ hm => exact Or.inr hm
    · simp only [hc]
      simp only [Bool.false_eq_true, if_false, List.mem_append, List.mem_singleton]
      constructor
      · rintro ((h | h) | h)
        · exact Or.inl h
        · subst h; exact Or.inr (List.mem_cons_self)
        · exact Or.inr (List.mem_cons_of_mem _ h)
      · rintro (h | h)
        · exact Or.inl (Or.inl h)
        · cases h with
          | head => exact Or.inl (Or.inr rfl)
          | tail _ hm => exact Or.inr hm

/-- invariant of the loop: every block (of interest, `P`) that is not queued satisfies its equation -/
def InvP (P : Nat → Prop) (F : List (Nat × V) → Nat → V) (dflt : V) (cur : List (Nat × V)) (wl : List Nat) : Prop :=
  ∀ b, P b → b ∉ wl → getMap cur b dflt = F cur b

/-- when the worklist loop stops, its result solves the equations of the blocks in `P` — provided the new value of a block
    depends only on the blocks in `inputs b`, and changing a block re-queues every block of `P` that reads it. -/
theorem worklistRun_solutionP (P : Nat → Prop) (F : List (Nat × V) → Nat → V) (deps inputs : Nat → List Nat) (dflt : V)
    (hloc : ∀ cur cur' b, (∀ i ∈ inputs b, getMap cur i dflt = getMap cur' i dflt) → F cur b = F cur' b)
    (hdeps : ∀ b i, P b → i ∈ inputs b → b ∈ deps i) :
    ∀ (fuel : Nat) (cur : List (Nat × V)) (wl : List Nat), InvP P F dflt cur wl →
      ∀ r, worklistRun F deps dflt fuel cur wl = some r → ∀ b, P b → getMap r b dflt = F r b := by
  intro fuel
  induction fuel with
  | zero => intro cur wl _ r hr; simp [worklistRun] at hr
  | succ n ih =>
    intro cur wl hinv r hr
    cases wl with
    | nil =>
      simp only [worklistRun, Option.some.injEq] at hr
      subst hr; intro b hb; exact hinv b hb (by simp)
    | cons b rest =>
      simp only [worklistRun] at hr
      split at hr
      · rename_i heq
        refine ih cur rest ?_ r hr
        intro x hpx hx
        by_cases hxb : x = b
        · subst hxb; exact heq.symm
        · exact hinv x hpx (by simp [hxb, hx])
      · rename_i hne
        refine ih _ _ ?_ r hr
        intro x hpx hx
        rw [mem_requeue] at hx
        have hx1 : x ∉ rest := fun h => hx (Or.inl h)
        have hx2 : x ∉ deps b := fun h => hx (Or.inr h)
        have hnb : b ∉ inputs x := fun hm => hx2 (hdeps x b hpx hm)
        have hlocx : F (updMap cur b (F cur b)) x = F cur x := by
          apply hloc
          intro i hi
          have : i ≠ b := fun e => hnb (e ▸ hi)
          rw [getMap_updMap]; simp [this]
        rw [getMap_updMap, hlocx]
        by_cases hxb : x = b
        · simp [hxb]
        · simp only [hxb, if_false]
          exact hinv x hpx (by simp [hxb, hx1])

/-- invariant of the loop: every block that is not queued satisfies its equation -/
def Inv (F : List (Nat × V) → Nat → V) (dflt : V) (cur : List (Nat × V)) (wl : List Nat) : Prop :=
  ∀ b, b ∉ wl → getMap cur b dflt = F cur b

/-- when the worklist loop stops, its result solves the equations — provided the new value of a block depends
    only on the blocks in `inputs b`, and changing a block re-queues every block that reads it. -/
theorem worklistRun_solution (F : List (Nat × V) → Nat → V) (deps inputs : Nat → List Nat) (dflt : V)
    (hloc : ∀ cur cur' b, (∀ i ∈ inputs b, getMap cur i dflt = getMap cur' i dflt) → F cur b = F cur' b)
    (hdeps : ∀ b i, i ∈ inputs b → b ∈ deps i) :
    ∀ (fuel : Nat) (cur : List (Nat × V)) (wl : List Nat), Inv F dflt cur wl →
      ∀ r, worklistRun F deps dflt fuel cur wl = some r → ∀ b, getMap r b dflt = F r b := by
  intro fuel
  induction fuel with
  | zero => intro cur wl _ r hr; simp [worklistRun] at hr
  | succ n ih =>
    intro cur wl hinv r hr
    cases wl with
    | nil =>
      simp only [worklistRun, Option.some.injEq] at hr
      subst hr; intro b; exact hinv b (by simp)
    | cons b rest =>
      simp only [worklistRun] at hr
      split at hr
      · -- value unchanged
        rename_i heq
        refine ih cur rest ?_ r hr
        intro x hx
        by_cases hxb : x = b
        · subst hxb; exact heq.symm
        · exact hinv x (by simp [hxb, hx])
      · rename_i hne
        refine ih _ _ ?_ r hr
        intro x hx
        rw [mem_requeue] at hx
        have hx1 : x ∉ rest := fun h => hx (Or.inl h)
        have hx2 : x ∉ deps b := fun h => hx (Or.inr h)
        have hnb : b ∉ inputs x := fun hm => hx2 (hdeps x b hm)
        have hlocx : F (updMap cur b (F cur b)) x = F cur x := by
          apply hloc
          intro i hi
          have : i ≠ b := fun e => hnb (e ▸ hi)
          rw [getMap_updMap]; simp [this]
        rw [getMap_updMap, hlocx]
        by_cases hxb : x = b
        · simp [hxb]
        · simp only [hxb, if_false]
          exact hinv x (by simp [hxb, hx1])


/-- a block whose equation returns its current value keeps the value it had when the loop started -/
theorem worklistRun_keeps (F : List (Nat × V) → Nat → V) (deps : Nat → List Nat) (dflt : V) (x : Nat) (c : V)
    (hx : ∀ cur, F cur x = getMap cur x dflt) :
    ∀ (fuel : Nat) (cur : List (Nat × V)) (wl : List Nat), getMap cur x dflt = c →
      ∀ r, worklistRun F deps dflt fuel cur wl = some r → getMap r x dflt = c := by
  intro fuel
  induction fuel with
  | zero => intro cur wl _ r hr; simp [worklistRun] at hr
  | succ n ih =>
    intro cur wl hc r hr
    cases wl with
    | nil =>
      simp only [worklistRun, Option.some.injEq] at hr
      subst hr; exact hc
    | cons b rest =>
      simp only [worklistRun] at hr
      split at hr
      · exact ih cur rest hc r hr
      · rename_i hne
        refine ih _ _ ?_ r hr
        rw [getMap_updMap]
        by_cases hxb : x = b
        · subst hxb; exact absurd (hx cur) hne
        · simp [hxb, hc]

omit [DecidableEq V] in
theorem getMap_map_keys (keys : List Nat) (f : Nat → V) (k : Nat) (dflt : V) (hk : k ∈ keys) :
    getMap (keys.map fun k => (k, f k)) k dflt = f k := by
  induction keys with
  | nil => cases hk
  | cons a as ih =>
    simp only [List.map_cons]
    rw [getMap_cons]
    by_cases h : a = k
    · subst h; simp
    · simp only [h, if_false]
      rcases List.mem_cons.mp hk with rfl | h'
      · exact absurd rfl h
      · exact ih h'

end Tealer.Worklist
