/-
  Lemmas about the model of create_bb (third pass): the blocks partition the instruction positions in order.
-/
import TealerModel.Cfg
namespace Tealer.CfgL

/-- all instruction positions placed so far, in order -/
def BBState.placed (s : BBState) : List Nat := s.done.flatten ++ s.cur

theorem close_placed (s : BBState) (e : Bool) : BBState.placed (s.close e) = BBState.placed s := by
  simp [BBState.placed, BBState.close]

theorem step_placed (n : Nat) (s : BBState) (i : Ins) (k : Nat) (nx : List Nat) :
    BBState.placed (createBBStep n s (i, k, nx)) = BBState.placed s ++ [k] := by
  unfold createBBStep
  simp only []
  have h1 : ∀ s : BBState, BBState.placed { s with cur := s.cur ++ [k] } = BBState.placed s ++ [k] := by
    intro s; simp [BBState.placed]
  split <;> (try split) <;> (try split) <;> (try split) <;> simp [close_placed, h1]

theorem fold_placed (n : Nat) (xs : List (Ins × Nat × List Nat)) (s : BBState) :
    BBState.placed (xs.foldl (createBBStep n) s) = BBState.placed s ++ xs.map (·.2.1) := by
  induction xs generalizing s with
  | nil => simp
  | cons x xs ih =>
    obtain ⟨i, k, nx⟩ := x
    simp only [List.foldl_cons, List.map_cons]
    rw [ih, step_placed]; simp

/-- third pass: the created blocks, concatenated in creation order, are exactly the instruction positions
    0 .. n-1 in source order (no instruction lost, duplicated or reordered) -/
theorem createBB_partition (ins : List Ins) (nexts : List (List Nat)) (h : nexts.length = ins.length) :
    (createBB ins nexts).1.flatten = List.range ins.length := by
  unfold createBB
  simp only []
  have := fold_placed ins.length ((ins.zipIdx).zipWith (fun (x : Ins × Nat) nx => (x.1, x.2, nx)) nexts) {}
  simp only [BBState.placed, List.flatten_nil, List.nil_append] at this
  have hflat : ∀ (d : List (List Nat)) (c : List Nat), (d ++ [c]).flatten = d.flatten ++ c := by
    intro d c; simp
  rw [hflat]
  have hz : ((ins.zipIdx).zipWith (fun (x : Ins × Nat) nx => (x.1, x.2, nx)) nexts).map (·.2.1) = List.range ins.length := by
    apply List.ext_getElem
    · simp [h]
    · intro k h1 h2
      simp [List.getElem_zipWith, List.getElem_zipIdx]
  simpa [hz] using this

end Tealer.CfgL

namespace Tealer.CfgL

theorem mapM_except_length {α β : Type} (f : α → Except Err β) (l : List α) (r : List β)
    (h : l.mapM f = .ok r) : r.length = l.length := by
  induction l generalizing r with
  | nil => simp [List.mapM_nil, pure, Except.pure] at h; subst h; rfl
  | cons x xs ih =>
    simp only [List.mapM_cons, bind, Except.bind] at h
    split at h
    · cases h
    · rename_i y hy
      split at h
      · cases h
      · rename_i ys hys
        simp only [pure, Except.pure, Except.ok.injEq] at h
        subst h
        simp [ih ys hys]

/-- first + second pass: one successor list per instruction -/
theorem insNext_length (ins : List Ins) (nexts : List (List Nat)) (h : insNext ins = .ok nexts) :
    nexts.length = ins.length := by
  unfold insNext at h
  simp only [] at h
  have := mapM_except_length _ _ _ h
  simpa using this

/-- adding an edge appends the successor at the END of the source's list and the predecessor at the end of
    the target's list: edge order = creation order (fall-through edges are created before jump edges) -/
theorem addEdge_next (bs : List RawBlock) (a b : Nat) (ha : a < bs.length) :
    ((addEdge bs a b)[a]!).next = (bs[a]!).next ++ [b] := by
  unfold addEdge
  simp [ha]
  by_cases hab : a = b
  · subst hab; simp
  · simp [hab]

theorem addEdge_prev (bs : List RawBlock) (a b : Nat) (hb : b < bs.length) :
    ((addEdge bs a b)[b]!).prev = (bs[b]!).prev ++ [a] := by
  unfold addEdge
  simp [hb]
  by_cases hab : b = a
  · subst hab; simp
  · simp [hab]

end Tealer.CfgL
