/-
  The path search of detectors/utils.py (model: `searchPaths`): every returned path extends the current path by a
  matched walk of the global graph that ends in a leaf and contains no validated block and no block twice
  within one subroutine activation.
-/
import TealerModel.Detect
namespace Tealer.Dfs

theorem collect_mem (f : Nat → Option (List (List Nat))) (nx : List Nat) (ps : List (List Nat))
    (h : collect f nx = some ps) : ∀ π ∈ ps, ∃ nb ∈ nx, ∃ r, f nb = some r ∧ π ∈ r := by
  induction nx generalizing ps with
  | nil => simp [collect] at h; subst h; intro π hπ; cases hπ
  | cons nb rest ih =>
    simp only [collect] at h
    split at h
    · rename_i r rs hr hrs
      simp only [Option.some.injEq] at h; subst h
      intro π hπ
      rcases List.mem_append.mp hπ with h1 | h1
      · exact ⟨nb, by simp, r, hr, h1⟩
      · obtain ⟨nb', hnb', r', hr', hπ'⟩ := ih rs hrs π h1
        exact ⟨nb', by simp [hnb'], r', hr', hπ'⟩
    · cases h

/-- `Walk g cs exe b rest`: from `b` with call stack `cs` and per-activation executed lists `exe`, `rest` follows
    matched steps of the global graph to a leaf (a callsub block steps to its callee's entry and pushes a frame; a
    retsub block steps to the return point of the call site on top of the stack and pops it; any other block
    steps to one of its successors); no block on it is validated; no block is entered that the current
    activation already executed; no subroutine is entered that is already on the call stack -/
inductive Walk (g : DGraph) : List Frame → List (List Nat) → Nat → List Nat → Prop
  | leaf (cs exe b) : ¬ b ∈ exe.getLast?.getD [] → g.validated b = false → g.isLeaf b = true → Walk g cs exe b []
  | call (cs exe b s e rest) : ¬ b ∈ exe.getLast?.getD [] → g.validated b = false → g.isLeaf b = false →
      g.isCallsub b = true → g.calledSub b = some s → g.subEntry s = some e → ¬ s ∈ cs.map Prod.snd →
      Walk g (cs ++ [(some b, s)]) (exe.dropLast ++ [exe.getLast?.getD [] ++ [b]] ++ [[]]) e rest →
      Walk g cs exe b (e :: rest)
  | ret (cs exe b cb s rp rest) : ¬ b ∈ exe.getLast?.getD [] → g.validated b = false → g.isLeaf b = false →
      g.isCallsub b = false → g.isRetsub b = true → cs.getLast? = some (some cb, s) → g.retPoint cb = some rp →
      Walk g cs.dropLast (exe.dropLast ++ [exe.getLast?.getD [] ++ [b]]).dropLast rp rest →
      Walk g cs exe b (rp :: rest)
  | plain (cs exe b b' rest) : ¬ b ∈ exe.getLast?.getD [] → g.validated b = false → g.isLeaf b = false →
      g.isCallsub b = false → g.isRetsub b = false → b' ∈ g.next b →
      Walk g cs (exe.dropLast ++ [exe.getLast?.getD [] ++ [b]]) b' rest → Walk g cs exe b (b' :: rest)

/-- every reported path is the current path extended by such a walk -/
theorem searchPaths_valid (g : DGraph) : ∀ fuel bb path cs exe ps, searchPaths g fuel bb path cs exe = some ps →
    ∀ π ∈ ps, ∃ rest, π = path ++ bb :: rest ∧ Walk g cs exe bb rest := by
  intro fuel
  induction fuel with
  | zero => intro bb path cs exe ps h; simp [searchPaths] at h
  | succ n ih =>
    intro bb path cs exe ps h π hπ
    unfold searchPaths at h
    split at h
    · simp at h; subst h; cases hπ
    rename_i hloop
    have hloop : ¬ bb ∈ exe.getLast?.getD [] := by simpa using hloop
    split at h
    · simp at h; subst h; cases hπ
    rename_i hval
    have hval : g.validated bb = false := by simpa using hval
    split at h
    · rename_i hleaf
      simp at h; subst h
      simp at hπ; subst hπ
      exact ⟨[], by simp, .leaf _ _ _ hloop hval hleaf⟩
    rename_i hleaf
    have hleaf : g.isLeaf bb = false := by simpa using hleaf
    simp only [] at h
    split at h
    · rename_i hcall
      split at h
      · cases h
      · rename_i s hs
        split at h
        · simp at h; subst h; cases hπ
        · rename_i hrec
          have hrec : ¬ s ∈ cs.map Prod.snd := by simpa using hrec
          split at h
          · cases h
          · rename_i e he
            obtain ⟨rest, rfl, hw⟩ := ih _ _ _ _ _ h π hπ
            exact ⟨e :: rest, by simp, .call _ _ _ s e _ hloop hval hleaf hcall hs he hrec hw⟩
    · rename_i hcall
      have hcall : g.isCallsub bb = false := by simpa using hcall
      split at h
      · rename_i hret
        split at h
        · rename_i cb s hcs
          split at h
          · rename_i rp hrp
            obtain ⟨rest, rfl, hw⟩ := ih _ _ _ _ _ h π hπ
            exact ⟨rp :: rest, by simp, .ret _ _ _ cb s rp _ hloop hval hleaf hcall hret hcs hrp hw⟩
          · simp at h; subst h; cases hπ
        · cases h
      · rename_i hret
        have hret : g.isRetsub bb = false := by simpa using hret
        obtain ⟨nb, hnb, r, hr, hπr⟩ := collect_mem _ _ _ h π hπ
        obtain ⟨rest, rfl, hw⟩ := ih _ _ _ _ _ hr π hπr
        exact ⟨nb :: rest, by simp, .plain _ _ _ nb _ hloop hval hleaf hcall hret hnb hw⟩

/-- consequences read off a walk: no block of a reported path is validated -/
theorem walk_unvalidated (g : DGraph) : ∀ cs exe b rest, Walk g cs exe b rest → ∀ x ∈ b :: rest, g.validated x = false := by
  intro cs exe b rest h
  induction h with
  | leaf cs exe b _ hv _ => intro x hx; simp at hx; subst hx; exact hv
  | call cs exe b s e rest _ hv _ _ _ _ _ _ ih =>
    intro x hx; cases hx with
    | head => exact hv
    | tail _ hm => exact ih x hm
  | ret cs exe b cb s rp rest _ hv _ _ _ _ _ _ ih =>
    intro x hx; cases hx with
    | head => exact hv
    | tail _ hm => exact ih x hm
  | plain cs exe b b' rest _ hv _ _ _ _ _ ih =>
    intro x hx; cases hx with
    | head => exact hv
    | tail _ hm => exact ih x hm

/-- … and it ends in a leaf of the global graph -/
theorem walk_ends_in_leaf (g : DGraph) : ∀ cs exe b rest, Walk g cs exe b rest →
    g.isLeaf ((b :: rest).getLast (by simp)) = true := by
  intro cs exe b rest h
  induction h with
  | leaf cs exe b _ _ hl => simpa using hl
  | call cs exe b s e rest _ _ _ _ _ _ _ _ ih => simpa [List.getLast_cons] using ih
  | ret cs exe b cb s rp rest _ _ _ _ _ _ _ _ ih => simpa [List.getLast_cons] using ih
  | plain cs exe b b' rest _ _ _ _ _ _ _ ih => simpa [List.getLast_cons] using ih

end Tealer.Dfs

namespace Tealer.Dfs

theorem collect_some_all (f : Nat → Option (List (List Nat))) (nx : List Nat) (ps : List (List Nat))
    (h : collect f nx = some ps) : ∀ nb ∈ nx, ∃ r, f nb = some r ∧ ∀ π ∈ r, π ∈ ps := by
  induction nx generalizing ps with
  | nil => intro nb hnb; cases hnb
  | cons x rest ih =>
    simp only [collect] at h
    split at h
    · rename_i r rs hr hrs
      simp only [Option.some.injEq] at h; subst h
      intro nb hnb
      cases hnb with
      | head => exact ⟨r, hr, fun π hπ => List.mem_append_left _ hπ⟩
      | tail _ hm =>
        obtain ⟨r', hr', hall⟩ := ih rs hrs nb hm
        exact ⟨r', hr', fun π hπ => List.mem_append_right _ (hall π hπ)⟩
    · cases h

/-- completeness of the search: every matched walk to a leaf that avoids validated blocks and respects the loop /
    recursion cuts is reported (when the search does not raise and has enough depth budget) -/
theorem searchPaths_complete (g : DGraph) : ∀ cs exe bb rest, Walk g cs exe bb rest →
    ∀ fuel path ps, rest.length < fuel → searchPaths g fuel bb path cs exe = some ps →
      (path ++ bb :: rest) ∈ ps := by
  intro cs exe bb rest hw
  induction hw with
  | leaf cs exe b hloop hval hleaf =>
    intro fuel path ps hf h
    cases fuel with
    | zero => omega
    | succ n =>
      unfold searchPaths at h
      have hl : (exe.getLast?.getD []).contains b = false := by simpa using hloop
      simp only [hl, hval, hleaf, Bool.false_eq_true, if_false, if_true, Option.some.injEq] at h
      subst h; simp
  | call cs exe b s e rest hloop hval hleaf hcall hs he hrec hw ih =>
    intro fuel path ps hf h
    cases fuel with
    | zero => omega
    | succ n =>
      unfold searchPaths at h
      have hl : (exe.getLast?.getD []).contains b = false := by simpa using hloop
      have hr : (cs.map Prod.snd).contains s = false := by simpa using hrec
      simp only [hl, hval, hleaf, hcall, hs, he, hr, Bool.false_eq_true, if_false, if_true] at h
      have := ih n (path ++ [b]) ps (by simp at hf; omega) h
      simpa using this
  | ret cs exe b cb s rp rest hloop hval hleaf hcall hret hcs hrp hw ih =>
    intro fuel path ps hf h
    cases fuel with
    | zero => omega
    | succ n =>
      unfold searchPaths at h
      have hl : (exe.getLast?.getD []).contains b = false := by simpa using hloop
      simp only [hl, hval, hleaf, hcall, hret, hcs, hrp, Bool.false_eq_true, if_false, if_true] at h
      have := ih n (path ++ [b]) ps (by simp at hf; omega) h
      simpa using this
  | plain cs exe b b' rest hloop hval hleaf hcall hret hnb hw ih =>
    intro fuel path ps hf h
    cases fuel with
    | zero => omega
    | succ n =>
      unfold searchPaths at h
      have hl : (exe.getLast?.getD []).contains b = false := by simpa using hloop
      simp only [hl, hval, hleaf, hcall, hret, Bool.false_eq_true, if_false] at h
      obtain ⟨r, hr, hall⟩ := collect_some_all _ _ _ h b' hnb
      have := ih n (path ++ [b]) r (by simp at hf; omega) hr
      exact hall _ (by simpa using this)

end Tealer.Dfs

namespace Tealer.Dfs

/-- concatenating duplicate-free results whose members are told apart by the successor they start with -/
theorem collect_nodup (f : Nat → Option (List (List Nat))) (k : Nat) (nx : List Nat) (ps : List (List Nat))
    (h : collect f nx = some ps) (hnx : nx.Nodup)
    (hf : ∀ nb ∈ nx, ∀ r, f nb = some r → r.Nodup ∧ ∀ π ∈ r, π[k]? = some nb) : ps.Nodup := by
  induction nx generalizing ps with
  | nil => simp [collect] at h; subst h; exact List.nodup_nil
  | cons nb rest ih =>
    simp only [collect] at h
    split at h
    · rename_i r rs hr hrs
      simp only [Option.some.injEq] at h; subst h
      have hnd := List.nodup_cons.mp hnx
      have h1 := hf nb (by simp) r hr
      have h2 := ih rs hrs hnd.2 (fun nb' hnb' r' hr' => hf nb' (List.mem_cons_of_mem _ hnb') r' hr')
      rw [List.nodup_append]
      refine ⟨h1.1, h2, ?_⟩
      intro a ha b hb hab
      subst hab
      obtain ⟨nb', hnb', r', hr', hπ'⟩ := collect_mem f rest rs hrs a hb
      have e1 := h1.2 a ha
      have e2 := (hf nb' (List.mem_cons_of_mem _ hnb') r' hr').2 a hπ'
      rw [e1] at e2
      have : nb = nb' := Option.some.inj e2
      subst this
      exact hnd.1 hnb'
    · cases h

/-- NO PATH IS REPORTED TWICE: when the successor lists of the graph have no duplicates (the fourth pass never adds an
    edge twice), the list of paths the search returns has no duplicates -/
theorem searchPaths_nodup (g : DGraph) (hg : ∀ b, (g.next b).Nodup) :
    ∀ fuel bb path cs exe ps, searchPaths g fuel bb path cs exe = some ps → ps.Nodup := by
  intro fuel
  induction fuel with
  | zero => intro bb path cs exe ps h; simp [searchPaths] at h
  | succ n ih =>
    intro bb path cs exe ps h
    have hv := searchPaths_valid g (n + 1) bb path cs exe ps h
    unfold searchPaths at h
    split at h
    · simp at h; subst h; exact List.nodup_nil
    split at h
    · simp at h; subst h; exact List.nodup_nil
    split at h
    · simp at h; subst h; simp
    split at h
    · split at h
      · cases h
      · split at h
        · simp at h; subst h; exact List.nodup_nil
        · split at h
          · cases h
          · exact ih _ _ _ _ _ h
    · split at h
      · split at h
        · split at h
          · exact ih _ _ _ _ _ h
          · simp at h; subst h; exact List.nodup_nil
        · cases h
      · apply collect_nodup _ (path.length + 1) (g.next bb) ps h (hg bb)
        intro nb hnb r hr
        refine ⟨ih _ _ _ _ _ hr, ?_⟩
        intro π hπ
        obtain ⟨rest, hπe, _⟩ := searchPaths_valid g n nb (path ++ [bb]) _ _ r hr π hπ
        subst hπe
        simp [List.getElem?_append_right]

end Tealer.Dfs
