/-
  The operands reconstructed by construct_stack_ast (model: `astStep`) denote the values the AVM really passes: along a
  block, a symbolic cell tagged (p, j) always sits on top of the concrete value that instruction p pushed as its j-th output.
-/
import TealerModel.Ast
import TealerModel.Avm
import TealerModel.Lemmas.StackEffect
import Mathlib.Data.List.Forall2
namespace Tealer.OperandValues
open Tealer.Avm List

/-- a symbolic cell agrees with a concrete value: a tagged cell holds the value recorded for its tag -/
def Agree (valOf : Nat × Nat → Val) (c : Ref) (v : Val) : Prop := ∀ q, c = some q → v = valOf q

/-- the concrete stack is some pre-block values followed by values that agree, cell by cell, with the symbolic stack -/
def VSim (valOf : Nat × Nat → Val) (sym : List Ref) (stack : List Val) : Prop :=
  ∃ below vs, stack = below ++ vs ∧ Forall₂ (Agree valOf) sym vs

/-- the values after instruction `p` pushed `pushed` -/
def extend (valOf : Nat × Nat → Val) (p : Nat) (pushed : List Val) : Nat × Nat → Val :=
  fun q => if q.1 = p then pushed[q.2]?.getD (valOf q) else valOf q

theorem agree_extend (valOf : Nat × Nat → Val) (p : Nat) (pushed : List Val) (c : Ref) (v : Val)
    (hfresh : ∀ q, c = some q → q.1 ≠ p) (h : Agree valOf c v) : Agree (extend valOf p pushed) c v := by
  intro q hq
  unfold extend
  simp only [hfresh q hq, if_false]
  exact h q hq

theorem forall₂_newtags (valOf : Nat × Nat → Val) (p : Nat) (pushed : List Val) :
    Forall₂ (Agree (extend valOf p pushed)) ((List.range pushed.length).map fun j => some (p, j)) pushed := by
  rw [forall₂_iff_zip]
  refine ⟨by simp, ?_⟩
  intro c v hcv
  obtain ⟨k, hk, hget⟩ := List.getElem_of_mem hcv
  simp only [List.length_zip, List.length_map, List.length_range, Nat.min_self] at hk
  simp only [List.getElem_zip, List.getElem_map, List.getElem_range, Prod.mk.injEq] at hget
  obtain ⟨rfl, rfl⟩ := hget
  intro q hq
  simp only [Option.some.injEq] at hq
  subst hq
  unfold extend
  simp [hk]

theorem drop_add {α : Type} (below vs : List α) (k : Nat) : (below ++ vs).drop (below.length + k) = vs.drop k := by
  induction below with
  | nil => simp
  | cons b bs ih => simpa [Nat.succ_add] using ih

theorem take_add {α : Type} (below vs : List α) (k : Nat) : (below ++ vs).take (below.length + k) = below ++ vs.take k := by
  induction below with
  | nil => simp
  | cons b bs ih => simpa [Nat.succ_add] using ih

theorem drop_le {α : Type} (below vs : List α) (k : Nat) (hk : k ≤ below.length) :
    (below ++ vs).drop k = below.drop k ++ vs := by
  induction below generalizing k with
  | nil => simp at hk; subst hk; simp
  | cons b bs ih =>
    cases k with
    | zero => simp
    | succ k => simpa using ih k (by simpa using hk)

theorem take_le {α : Type} (below vs : List α) (k : Nat) (hk : k ≤ below.length) :
    (below ++ vs).take k = below.take k := by
  induction below generalizing k with
  | nil => simp at hk; subst hk; simp
  | cons b bs ih =>
    cases k with
    | zero => simp
    | succ k => simpa using ih k (by simpa using hk)

/-- ONE STEP.  If the symbolic stack agrees with the concrete one, and the concrete step removes `pops` values from the top,
    keeps the rest and pushes `pushed` (what `C11_semantics_effect` shows of every dedicated opcode), then
    (1) the operand list `astStep` reconstructs for the instruction agrees, position by position, with the values the
        instruction really popped — a reference (q, j) is the value instruction q pushed as output j; an Unknown is a value
        from before the block;
    (2) the new symbolic stack agrees with the new concrete stack, the instruction's own outputs now recorded. -/
theorem vsim_step (valOf : Nat × Nat → Val) (sym : List Ref) (stack stack' : List Val) (p : Nat) (op : Op)
    (pushed : List Val) (h : VSim valOf sym stack) (hfresh : ∀ c ∈ sym, ∀ q, c = some q → q.1 ≠ p)
    (hpops : op.pops ≤ stack.length) (hpush : pushed.length = op.pushes)
    (hstack : stack' = stack.take (stack.length - op.pops) ++ pushed) :
    Forall₂ (Agree valOf) (astStep sym p op).1 (stack.drop (stack.length - op.pops)) ∧
    VSim (extend valOf p pushed) (astStep sym p op).2 stack' := by
  obtain ⟨below, vs, rfl, hf⟩ := h
  have hlen := hf.length_eq
  unfold astStep popN
  by_cases hk : op.pops ≤ sym.length
  · simp only [hk, if_true]
    have e1 : (below ++ vs).length - op.pops = below.length + (vs.length - op.pops) := by
      simp only [List.length_append]; omega
    constructor
    · rw [e1, drop_add, ← hlen]
      exact forall₂_drop _ hf
    · refine ⟨below, vs.take (vs.length - op.pops) ++ pushed, ?_, ?_⟩
      · rw [hstack, e1, take_add, List.append_assoc]
      · have h1 : Forall₂ (Agree (extend valOf p pushed)) (sym.take (sym.length - op.pops)) (vs.take (vs.length - op.pops)) := by
          rw [← hlen]
          have := forall₂_take (sym.length - op.pops) hf
          rw [forall₂_iff_zip] at this ⊢
          refine ⟨this.1, ?_⟩
          intro c v hcv
          have hc : c ∈ sym := List.mem_of_mem_take (List.of_mem_zip hcv).1
          exact agree_extend valOf p pushed c v (hfresh c hc) (this.2 hcv)
        have h2 := forall₂_newtags valOf p pushed
        rw [hpush] at h2
        -- the symbolic side: kept cells followed by the new tags; the concrete side: kept values followed by the pushed ones
        have : Forall₂ (Agree (extend valOf p pushed))
            (sym.take (sym.length - op.pops) ++ (List.range op.pushes).map fun j => some (p, j))
            (vs.take (vs.length - op.pops) ++ pushed) := rel_append h1 h2
        exact this
  · simp only [hk, if_false]
    have hk' : sym.length < op.pops := by omega
    have hk0 : (below ++ vs).length - op.pops ≤ below.length := by
      simp only [List.length_append] at hpops ⊢; omega
    constructor
    · rw [drop_le below vs _ hk0]
      refine rel_append ?_ hf
      rw [forall₂_iff_zip]
      refine ⟨?_, ?_⟩
      · simp only [List.length_replicate, List.length_drop, List.length_append] at hpops ⊢; omega
      · intro c v hcv
        have hc := (List.of_mem_zip hcv).1
        have : c = none := (List.mem_replicate.mp hc).2
        subst this
        intro q hq; cases hq
    · refine ⟨below.take ((below ++ vs).length - op.pops), pushed, ?_, ?_⟩
      · rw [hstack, take_le below vs _ hk0]
      · have h2 := forall₂_newtags valOf p pushed
        rw [hpush] at h2
        simpa using h2

end Tealer.OperandValues

namespace Tealer.OperandValues
open Tealer.Avm List

/-- the symbolic stack after the first `j` instructions of a block -/
def symRun (ins : List Ins) : Nat → List Ref
  | 0 => []
  | j + 1 => (astStep (symRun ins j) j (ins[j]!).op).2

/-- the operand list reconstructed for instruction `j` of the block -/
def argsAt (ins : List Ins) (j : Nat) : List Ref := (astStep (symRun ins j) j (ins[j]!).op).1

theorem constructAst_fold (ins : List Ins) :
    ∀ (suf pre : List Ins), ins = pre ++ suf →
      (suf.zipIdx pre.length).foldl (fun (x : List Ref × List (List Ref)) (y : Ins × Nat) =>
          ((astStep x.1 y.2 y.1.op).2, x.2 ++ [(astStep x.1 y.2 y.1.op).1]))
        (symRun ins pre.length, (List.range pre.length).map (argsAt ins)) =
      (symRun ins ins.length, (List.range ins.length).map (argsAt ins)) := by
  intro suf
  induction suf with
  | nil => intro pre h; subst h; simp
  | cons a suf ih =>
    intro pre h
    have hget : ins[pre.length]! = a := by subst h; simp
    simp only [List.zipIdx_cons, List.foldl_cons]
    have := ih (pre ++ [a]) (by subst h; simp)
    simp only [List.length_append, List.length_cons, List.length_nil, Nat.zero_add] at this
    rw [← this]
    congr 1
    simp only [symRun, argsAt, hget, List.range_succ, List.map_append, List.map_cons, List.map_nil]

/-- `constructAst` lists, for every instruction of the block, the operand list of the step-by-step reconstruction -/
theorem constructAst_args (ins : List Ins) : (constructAst ins).args = (List.range ins.length).map (argsAt ins) := by
  have hfold := constructAst_fold ins ins [] rfl
  simp only [List.length_nil, List.range_zero, List.map_nil, symRun] at hfold
  have e : ∀ (l : List (Ins × Nat)) (x0 : List Ref × List (List Ref)),
      l.foldl (fun (x : List Ref × List (List Ref)) (y : Ins × Nat) =>
        match x with
        | (st, acc) =>
          match y with
          | (i, p) =>
            match astStep st p i.op with
            | (a, st') => (st', acc ++ [a])) x0 =
      l.foldl (fun (x : List Ref × List (List Ref)) (y : Ins × Nat) =>
          ((astStep x.1 y.2 y.1.op).2, x.2 ++ [(astStep x.1 y.2 y.1.op).1])) x0 := by
    intro l
    induction l with
    | nil => intro x0; rfl
    | cons y l ih =>
      intro x0
      obtain ⟨st, acc⟩ := x0
      obtain ⟨i, p⟩ := y
      simp only [List.foldl_cons]
  unfold constructAst
  simp only []
  rw [e, hfold]

theorem astStep_cells (sym : List Ref) (p : Nat) (op : Op) :
    (∀ c ∈ (astStep sym p op).1, c = none ∨ c ∈ sym) ∧
    (∀ c ∈ (astStep sym p op).2, c ∈ sym ∨ ∃ j, c = some (p, j)) := by
  unfold astStep popN
  by_cases hk : op.pops ≤ sym.length
  · simp only [hk, if_true]
    constructor
    · intro c hc; exact Or.inr (List.mem_of_mem_drop hc)
    · intro c hc
      rcases List.mem_append.mp hc with h | h
      · exact Or.inl (List.mem_of_mem_take h)
      · obtain ⟨j, _, rfl⟩ := List.mem_map.mp h
        exact Or.inr ⟨j, rfl⟩
  · simp only [hk, if_false]
    constructor
    · intro c hc
      rcases List.mem_append.mp hc with h | h
      · exact Or.inl (List.mem_replicate.mp h).2
      · exact Or.inr h
    · intro c hc
      simp only [List.nil_append] at hc
      obtain ⟨j, _, rfl⟩ := List.mem_map.mp hc
      exact Or.inr ⟨j, rfl⟩

/-- the tags on the symbolic stack after `j` instructions name earlier instructions only -/
theorem symRun_tags (ins : List Ins) : ∀ j, ∀ c ∈ symRun ins j, ∀ q, c = some q → q.1 < j := by
  intro j
  induction j with
  | zero => intro c hc; cases hc
  | succ j ih =>
    intro c hc q hq
    simp only [symRun] at hc
    rcases (astStep_cells (symRun ins j) j (ins[j]!).op).2 c hc with h | ⟨k, hk⟩
    · have := ih c h q hq; omega
    · rw [hk] at hq; cases hq; simp

theorem argsAt_tags (ins : List Ins) (j : Nat) : ∀ c ∈ argsAt ins j, ∀ q, c = some q → q.1 < j := by
  intro c hc q hq
  rcases (astStep_cells (symRun ins j) j (ins[j]!).op).1 c hc with h | h
  · rw [h] at hq; cases hq
  · exact symRun_tags ins j c h q hq

theorem forall₂_agree_congr (v1 v2 : Nat × Nat → Val) (l : List Ref) (vs : List Val)
    (h : Forall₂ (Agree v1) l vs) (heq : ∀ c ∈ l, ∀ q, c = some q → v2 q = v1 q) : Forall₂ (Agree v2) l vs := by
  rw [forall₂_iff_zip] at h ⊢
  refine ⟨h.1, ?_⟩
  intro c v hcv q hq
  rw [heq c (List.of_mem_zip hcv).1 q hq]
  exact h.2 hcv q hq

/-- a straight run through the first `k` instructions of a block that starts at program position `pc0` -/
structure BlockRun (prog : List Ins) (e : Env) (blockIns : List Ins) (pc0 k : Nat) (st : Nat → State) : Prop where
  len : k ≤ blockIns.length
  code : ∀ j, j < k → prog[pc0 + j]? = some (blockIns[j]!)
  pcs : ∀ j, j ≤ k → (st j).pc = pc0 + j
  steps : ∀ j, j < k → step prog e (st j) = .next (st (j + 1))
  dedicated : ∀ j, j < k → ∀ n a b, (blockIns[j]!).op ≠ .other n a b

/-- ALONG A WHOLE BLOCK.  For a straight run of the concrete machine through the first `k` (dedicated-opcode) instructions
    of a block there is ONE assignment of values to tags — tag (q, j) ↦ the value instruction q of the block pushed as its
    output j — under which, for every instruction of the run, the operand list `constructAst` computes for it agrees
    position by position with the values that instruction really popped; Unknown operands are values that were on the stack
    before the block. -/
theorem block_operands (prog : List Ins) (e : Env) (blockIns : List Ins) (pc0 : Nat) (st : Nat → State) :
    ∀ k, BlockRun prog e blockIns pc0 k st →
      ∃ valOf : Nat × Nat → Val,
        VSim valOf (symRun blockIns k) (st k).stack ∧
        (∀ j, j < k → Forall₂ (Agree valOf) (argsAt blockIns j)
          ((st j).stack.drop ((st j).stack.length - (blockIns[j]!).op.pops))) ∧
        (∀ j, j < k → ∀ i, i < (blockIns[j]!).op.pushes →
          (st (j + 1)).stack[(st j).stack.length - (blockIns[j]!).op.pops + i]? = some (valOf (j, i))) := by
  intro k
  induction k with
  | zero =>
    intro _
    exact ⟨fun _ => .int 0, ⟨(st 0).stack, [], by simp, Forall₂.nil⟩, fun j hj => absurd hj (by omega),
      fun j hj => absurd hj (by omega)⟩
  | succ k ih =>
    intro hrun
    have hprev : BlockRun prog e blockIns pc0 k st :=
      ⟨by have := hrun.len; omega, fun j hj => hrun.code j (by omega), fun j hj => hrun.pcs j (by omega),
       fun j hj => hrun.steps j (by omega), fun j hj => hrun.dedicated j (by omega)⟩
    obtain ⟨valOf, hsim, hargs, hout⟩ := ih hprev
    have hi : prog[(st k).pc]? = some (blockIns[k]!) := by
      rw [hrun.pcs k (by omega)]; exact hrun.code k (by omega)
    obtain ⟨hpops, pushed, hlen, hstack⟩ :=
      StackEffect.step_effect prog e (st k) (st (k + 1)) (blockIns[k]!) hi (hrun.dedicated k (by omega)) (hrun.steps k (by omega))
    have hfresh : ∀ c ∈ symRun blockIns k, ∀ q, c = some q → q.1 ≠ k := by
      intro c hc q hq
      have := symRun_tags blockIns k c hc q hq
      omega
    obtain ⟨h1, h2⟩ := vsim_step valOf (symRun blockIns k) (st k).stack (st (k + 1)).stack k (blockIns[k]!).op pushed
      hsim hfresh hpops hlen hstack
    refine ⟨extend valOf k pushed, ?_, ?_, ?_⟩
    · simpa [symRun] using h2
    rotate_left
    · intro j hj i hi'
      by_cases hjk : j = k
      · subst hjk
        rw [hstack]
        have hl : (List.take ((st j).stack.length - (blockIns[j]!).op.pops) (st j).stack).length =
            (st j).stack.length - (blockIns[j]!).op.pops := by
          rw [List.length_take]; omega
        rw [List.getElem?_append_right (by omega), hl]
        simp only [Nat.add_sub_cancel_left]
        unfold extend
        simp only [if_true]
        have hi2 : i < pushed.length := by omega
        simp [List.getElem?_eq_getElem hi2]
      · have := hout j (by omega) i hi'
        rw [this]
        unfold extend
        simp [hjk]
    · intro j hj
      have hkeep : ∀ c ∈ argsAt blockIns j, ∀ q, c = some q → extend valOf k pushed q = valOf q := by
        intro c hc q hq
        have := argsAt_tags blockIns j c hc q hq
        unfold extend
        have hne : ¬ q.1 = k := by omega
        simp [hne]
      by_cases hjk : j = k
      · subst hjk
        exact forall₂_agree_congr valOf _ _ _ h1 hkeep
      · exact forall₂_agree_congr valOf _ _ _ (hargs j (by omega)) hkeep

end Tealer.OperandValues
