/-
  The operands reconstructed by construct_stack_ast (model: `astStep`) denote the values the AVM really passes: along a
  block, a symbolic cell tagged (p, j) always sits on top of the concrete value that instruction p pushed as its j-th output.
-/
import TealerModel.Ast
import TealerModel.Avm
import Mathlib.Data.List.Forall2
namespace Tealer.OperandValues
open Tealer.Avm List

/-- a symbolic cell agrees with a concrete value: a tagged cell holds the value recorded for its tag -/
def Agree (valOf : Nat × Nat → Val) (c : Ref) (v : Val) : Prop := ∀ q, c = some q → v = valOf q

/-- the concrete stack is some pre-block values followed by values that agree, cell by cell, with the symbolic stack -/
def VSim (valOf : Nat × Nat → Val) (sym : List Ref) (stack : List Val) : Prop :=
  ∃ below vs, stack = below ++ vs ∧ Forall₂ (Agree valOf) sym vs

/-- the values after instruction `p` pushed `pushed` -/
def extend (valOf : Nat × Nat → Val) (p : Nat) (pushed : List Val) : Nat × Nat → Val :=
  fun q => if q.1 = p then pushed[q.2]?.getD (valOf q) else valOf q

theorem agree_extend (valOf : Nat × Nat → Val) (p : Nat) (pushed : List Val) (c : Ref) (v : Val)
    (hfresh : ∀ q, c = some q → q.1 ≠ p) (h : Agree valOf c v) : Agree (extend valOf p pushed) c v := by
  intro q hq
  unfold extend
  simp only [hfresh q hq, if_false]
  exact h q hq

theorem forall₂_newtags (valOf : Nat × Nat → Val) (p : Nat) (pushed : List Val) :
    Forall₂ (Agree (extend valOf p pushed)) ((List.range pushed.length).map fun j => some (p, j)) pushed := by
  rw [forall₂_iff_zip]
  refine ⟨by simp, ?_⟩
  intro c v hcv
  obtain ⟨k, hk, hget⟩ := List.getElem_of_mem hcv
  simp only [List.length_zip, List.length_map, List.length_range, Nat.min_self] at hk
  simp only [List.getElem_zip, List.getElem_map, List.getElem_range, Prod.mk.injEq] at hget
  obtain ⟨rfl, rfl⟩ := hget
  intro q hq
  simp only [Option.some.injEq] at hq
  subst hq
  unfold extend
  simp [hk]

theorem drop_add {α : Type} (below vs : List α) (k : Nat) : (below ++ vs).drop (below.length + k) = vs.drop k := by
  induction below with
  | nil => simp
  | cons b bs ih => simpa [Nat.succ_add] using ih

theorem take_add {α : Type} (below vs : List α) (k : Nat) : (below ++ vs).take (below.length + k) = below ++ vs.take k := by
  induction below with
  | nil => simp
  | cons b bs ih => simpa [Nat.succ_add] using ih

theorem drop_le {α : Type} (below vs : List α) (k : Nat) (hk : k ≤ below.length) :
    (below ++ vs).drop k = below.drop k ++ vs := by
  induction below generalizing k with
  | nil => simp at hk; subst hk; simp
  | cons b bs ih =>
    cases k with
    | zero => simp
    | succ k => simpa using ih k (by simpa using hk)

theorem take_le {α : Type} (below vs : List α) (k : Nat) (hk : k ≤ below.length) :
    (below ++ vs).take k = below.take k := by
  induction below generalizing k with
  | nil => simp at hk; subst hk; simp
  | cons b bs ih =>
    cases k with
    | zero => simp
    | succ k => simpa using ih k (by simpa using hk)

/-- ONE STEP.  If the symbolic stack agrees with the concrete one, and the concrete step removes `pops` values from the top,
    keeps the rest and pushes `pushed` (what `C11_semantics_effect` shows of every dedicated opcode), then
    (1) the operand list `astStep` reconstructs for the instruction agrees, position by position, with the values the
        instruction really popped — a reference (q, j) is the value instruction q pushed as output j; an Unknown is a value
        from before the block;
    (2) the new symbolic stack agrees with the new concrete stack, the instruction's own outputs now recorded. -/
theorem vsim_step (valOf : Nat × Nat → Val) (sym : List Ref) (stack stack' : List Val) (p : Nat) (op : Op)
    (pushed : List Val) (h : VSim valOf sym stack) (hfresh : ∀ c ∈ sym, ∀ q, c = some q → q.1 ≠ p)
    (hpops : op.pops ≤ stack.length) (hpush : pushed.length = op.pushes)
    (hstack : stack' = stack.take (stack.length - op.pops) ++ pushed) :
    Forall₂ (Agree valOf) (astStep sym p op).1 (stack.drop (stack.length - op.pops)) ∧
    VSim (extend valOf p pushed) (astStep sym p op).2 stack' := by
  obtain ⟨below, vs, rfl, hf⟩ := h
  have hlen := hf.length_eq
  unfold astStep popN
  by_cases hk : op.pops ≤ sym.length
  · simp only [hk, if_true]
    have e1 : (below ++ vs).length - op.pops = below.length + (vs.length - op.pops) := by
      simp only [List.length_append]; omega
    constructor
    · rw [e1, drop_add, ← hlen]
      exact forall₂_drop _ hf
    · refine ⟨below, vs.take (vs.length - op.pops) ++ pushed, ?_, ?_⟩
      · rw [hstack, e1, take_add, List.append_assoc]
      · have h1 : Forall₂ (Agree (extend valOf p pushed)) (sym.take (sym.length - op.pops)) (vs.take (vs.length - op.pops)) := by
          rw [← hlen]
          have := forall₂_take (sym.length - op.pops) hf
          rw [forall₂_iff_zip] at this ⊢
          refine ⟨this.1, ?_⟩
          intro c v hcv
          have hc : c ∈ sym := List.mem_of_mem_take (List.of_mem_zip hcv).1
          exact agree_extend valOf p pushed c v (hfresh c hc) (this.2 hcv)
        have h2 := forall₂_newtags valOf p pushed
        rw [hpush] at h2
        -- the symbolic side: kept cells followed by the new tags; the concrete side: kept values followed by the pushed ones
        have : Forall₂ (Agree (extend valOf p pushed))
            (sym.take (sym.length - op.pops) ++ (List.range op.pushes).map fun j => some (p, j))
            (vs.take (vs.length - op.pops) ++ pushed) := rel_append h1 h2
        exact this
  · simp only [hk, if_false]
    have hk' : sym.length < op.pops := by omega
    have hk0 : (below ++ vs).length - op.pops ≤ below.length := by
      simp only [List.length_append] at hpops ⊢; omega
    constructor
    · rw [drop_le below vs _ hk0]
      refine rel_append ?_ hf
      rw [forall₂_iff_zip]
      refine ⟨?_, ?_⟩
      · simp only [List.length_replicate, List.length_drop, List.length_append] at hpops ⊢; omega
      · intro c v hcv
        have hc := (List.of_mem_zip hcv).1
        have : c = none := (List.mem_replicate.mp hc).2
        subst this
        intro q hq; cases hq
    · refine ⟨below.take ((below ++ vs).length - op.pops), pushed, ?_, ?_⟩
      · rw [hstack, take_le below vs _ hk0]
      · have h2 := forall₂_newtags valOf p pushed
        rw [hpush] at h2
        simpa using h2

end Tealer.OperandValues
