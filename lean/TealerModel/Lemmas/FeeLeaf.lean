/-
  The leaf of the fee analysis against the CONCRETE semantics: in a straight run of a block, a comparison instruction whose
  reconstructed operands are `txn Fee` and an integer literal pushes exactly the truth of `fee op c` for the fee of the
  transaction being approved — so the actual leaf truth that `C01_asserted_of_run` speaks of is the abstract comparison the
  operator table (`Fee.assertedMax_sound`) is proved about.
-/
import TealerModel.Lemmas.EvalRun
import TealerModel.Lemmas.Fee
namespace Tealer.FeeLeaf
open Tealer.Avm Tealer.OperandValues Tealer.EvalRun List

theorem step_txn (prog : List Ins) (e : Env) (s s' : State) (i : Ins) (f : String) (hi : prog[s.pc]? = some i)
    (hop : i.op = .txn f) (hs : step prog e s = .next s') :
    ∃ v, e.field e.self f = some v ∧ s'.stack = s.stack ++ [v] := by
  unfold step at hs
  simp only [hi, hop] at hs
  split at hs
  · rename_i v hv
    simp only [Outcome.next.injEq] at hs
    subst hs
    exact ⟨v, hv, rfl⟩
  · cases hs

theorem step_int (prog : List Ins) (e : Env) (s s' : State) (i : Ins) (n : Nat) (hi : prog[s.pc]? = some i)
    (hop : i.op = .int (.lit n)) (hs : step prog e s = .next s') : s'.stack = s.stack ++ [.int n] ∧ n ≤ MAXU64 := by
  unfold step at hs
  simp only [hi, hop] at hs
  split at hs
  · rename_i m hm
    simp only [Outcome.next.injEq] at hs
    subst hs
    simp only [intValOf] at hm
    split at hm
    · rename_i hle
      simp only [Option.some.injEq] at hm; subst hm; exact ⟨rfl, hle⟩
    · cases hm
  · cases hs

theorem step_cmp (prog : List Ins) (e : Env) (s s' : State) (i : Ins) (c : Cmp) (hi : prog[s.pc]? = some i)
    (hop : i.op = .cmp c) (hs : step prog e s = .next s') :
    ∃ r x y, s.stack = r ++ [x, y] ∧ ∀ a b, x = .int a → y = .int b → s'.stack = r ++ [b2n (c.eval a b)] := by
  unfold step at hs
  simp only [hi, hop] at hs
  split at hs
  · rename_i y r1 hp1
    split at hs
    · rename_i x r hp2
      have e1 := StackEffect.pop1_spec _ _ _ hp1
      have e2 := StackEffect.pop1_spec _ _ _ hp2
      refine ⟨r, x, y, by rw [e1, e2]; simp, ?_⟩
      intro a b hx hy
      subst hx; subst hy
      simp only [Outcome.next.injEq] at hs
      subst hs
      rfl
    · cases hs
  · cases hs

/-- THE FEE LEAF, CONCRETELY.  In a straight run, let instruction `p` be a comparison whose reconstructed operands are the
    outputs of `p1 = txn Fee` and `p2 = int n`.  Then the approved transaction has an integer fee, and the value the AVM
    pushes at `p` is non-zero exactly when `fee op n` holds; hence (operator table, `Fee.assertedMax_sound`) the fee lies in
    the true side of the table when that value is non-zero and in the false side when it is zero. -/
theorem fee_leaf (prog : List Ins) (e : Env) (blockIns : List Ins) (pc0 : Nat) (st : Nat → State) (k : Nat)
    (hrun : BlockRun prog e blockIns pc0 k st) (valOf : Nat × Nat → Val)
    (hout : ∀ j, j < k → ∀ i, i < (blockIns[j]!).op.pushes →
      (st (j + 1)).stack[(st j).stack.length - (blockIns[j]!).op.pops + i]? = some (valOf (j, i)))
    (hargs : ∀ j, j < k → Forall₂ (Agree valOf) (argsAt blockIns j)
      ((st j).stack.drop ((st j).stack.length - (blockIns[j]!).op.pops)))
    (p p1 p2 : Nat) (c : Cmp) (n : Nat) (hp : p < k) (hp1 : p1 < k) (hp2 : p2 < k)
    (hopp : (blockIns[p]!).op = .cmp c) (hop1 : (blockIns[p1]!).op = .txn "Fee") (hop2 : (blockIns[p2]!).op = .int (.lit n))
    (hargsp : argsAt blockIns p = [some (p1, 0), some (p2, 0)]) :
    ∃ fee, e.field e.self "Fee" = some (.int fee) ∧ truthy (valOf (p, 0)) = c.eval fee n ∧
      (fee ≤ MAX_UINT64 →
        (truthy (valOf (p, 0)) = true → Fee.gamma (feeAssertedMax c { value := n }).1 fee) ∧
        (truthy (valOf (p, 0)) = false → Fee.gamma (feeAssertedMax c { value := n }).2 fee)) := by
  have code : ∀ j, j < k → prog[(st j).pc]? = some (blockIns[j]!) := by
    intro j hj; rw [hrun.pcs j (by omega)]; exact hrun.code j hj
  -- the producers
  obtain ⟨v, hv, hs1⟩ := step_txn prog e (st p1) (st (p1 + 1)) _ "Fee" (code p1 hp1) hop1 (hrun.steps p1 hp1)
  have hv1 := hout p1 hp1 0 (by rw [hop1]; simp [Op.pushes])
  rw [hop1, hs1] at hv1
  simp [Op.pops] at hv1
  obtain ⟨hs2, _⟩ := step_int prog e (st p2) (st (p2 + 1)) _ n (code p2 hp2) hop2 (hrun.steps p2 hp2)
  have hv2 := hout p2 hp2 0 (by rw [hop2]; simp [Op.pushes])
  rw [hop2, hs2] at hv2
  simp [Op.pops] at hv2
  -- the comparison
  obtain ⟨r, x, y, hst, hres⟩ := step_cmp prog e (st p) (st (p + 1)) _ c (code p hp) hopp (hrun.steps p hp)
  have hag := hargs p hp
  rw [hargsp, hopp, hst] at hag
  simp [Op.pops] at hag
  obtain ⟨hx, hy⟩ := hag
  have hx' : x = valOf (p1, 0) := hx (p1, 0) rfl
  have hy' : y = valOf (p2, 0) := hy (p2, 0) rfl
  rw [← hv1] at hx'
  rw [← hv2] at hy'
  -- the fee is an integer: a comparison of bytes with an integer is rejected
  have hint : ∃ fee, v = .int fee := by
    cases v with
    | int fee => exact ⟨fee, rfl⟩
    | bytes b =>
      exfalso
      have hstep := hrun.steps p hp
      unfold step at hstep
      simp only [code p hp, hopp] at hstep
      rw [hst, hx', hy'] at hstep
      simp [pop1] at hstep
  obtain ⟨fee, hfee⟩ := hint
  subst hfee
  have hpush := hres fee n hx' hy'
  have hvp := hout p hp 0 (by rw [hopp]; simp [Op.pushes])
  rw [hopp, hst, hpush] at hvp
  simp [Op.pops] at hvp
  refine ⟨fee, hv, ?_, ?_⟩
  · rw [← hvp, truthy_b2n]
  · intro hle
    have := Fee.assertedMax_sound c n fee hle
    rw [← hvp, truthy_b2n]
    exact this

/-- the tool's leaf matcher on the direct check `txn Fee; int n; op` (field first, literal second, own transaction): it
    returns the operator table's entry for `op` and `n` -/
theorem feeSingle_direct (ic : Option (List Nat)) (a : Ast) (p p1 p2 o1 o2 : Nat) (c : Cmp) (n : Nat)
    (hp : a.opOf p = .cmp c) (hargs : a.argsOf p = [some (p1, o1), some (p2, o2)])
    (h1 : a.opOf p1 = .txn "Fee") (h2 : a.opOf p2 = .int (.lit n)) :
    feeSingle ic a ⟨"Fee", .self⟩ p = feeAssertedMax c { value := n } := by
  unfold feeSingle
  simp only [hp, hargs]
  have hm : valueMatchesKey ic a ⟨"Fee", .self⟩ (some (p1, o1)) = true := by
    unfold valueMatchesKey getIndexAndField
    simp [h1]
  have hlit : intLit ic (a.opOf p2) = some n := by
    rw [h2]; simp [intLit, intPush]
  simp [hm, hlit]

/-- THE LEAF PREMISE HOLDS ON DIRECT FEE CHECKS.  In a straight run, at a comparison `p` whose stack-AST operands are a
    `txn Fee` and an `int n`, the tool's leaf matcher for the key Fee is sound for the ACTUAL truth of the leaf: the approved
    transaction's fee is admitted by the true set when the AVM pushed a non-zero value at `p`, by the false set otherwise -/
theorem fee_leaf_premise (prog : List Ins) (e : Env) (blockIns : List Ins) (pc0 : Nat) (st : Nat → State) (k : Nat)
    (hrun : BlockRun prog e blockIns pc0 k st) (valOf : Nat × Nat → Val)
    (hout : ∀ j, j < k → ∀ i, i < (blockIns[j]!).op.pushes →
      (st (j + 1)).stack[(st j).stack.length - (blockIns[j]!).op.pops + i]? = some (valOf (j, i)))
    (hargs : ∀ j, j < k → Forall₂ (Agree valOf) (argsAt blockIns j)
      ((st j).stack.drop ((st j).stack.length - (blockIns[j]!).op.pops)))
    (ic : Option (List Nat)) (p p1 p2 : Nat) (c : Cmp) (n : Nat) (hp : p < k) (hp1 : p1 < k) (hp2 : p2 < k)
    (hopp : (blockIns[p]!).op = .cmp c) (hop1 : (blockIns[p1]!).op = .txn "Fee") (hop2 : (blockIns[p2]!).op = .int (.lit n))
    (hargsp : argsAt blockIns p = [some (p1, 0), some (p2, 0)]) :
    ∃ fee, e.field e.self "Fee" = some (.int fee) ∧
      (fee ≤ MAX_UINT64 →
        (truthy (valOf (p, 0)) = true → Fee.gamma (feeSingle ic (constructAst blockIns) ⟨"Fee", .self⟩ p).1 fee) ∧
        (truthy (valOf (p, 0)) = false → Fee.gamma (feeSingle ic (constructAst blockIns) ⟨"Fee", .self⟩ p).2 fee)) := by
  have hl := hrun.len
  obtain ⟨fee, hfee, _, hside⟩ := fee_leaf prog e blockIns pc0 st k hrun valOf hout hargs p p1 p2 c n hp hp1 hp2 hopp hop1 hop2 hargsp
  refine ⟨fee, hfee, ?_⟩
  intro hle
  have hsingle := feeSingle_direct ic (constructAst blockIns) p p1 p2 0 0 c n
    (by rw [opOf_constructAst blockIns p (by omega)]; exact hopp)
    (by rw [argsOf_constructAst blockIns p (by omega)]; exact hargsp)
    (by rw [opOf_constructAst blockIns p1 (by omega)]; exact hop1)
    (by rw [opOf_constructAst blockIns p2 (by omega)]; exact hop2)
  rw [hsingle]
  exact hside hle

end Tealer.FeeLeaf
