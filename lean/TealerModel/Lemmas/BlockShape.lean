/-
  Shape of the blocks built by create_bb (third pass): two instructions are adjacent inside a block only if the first
  one does not end a block (one successor, not `b`, not `callsub`) and the second is not a label.
-/
import TealerModel.Lemmas.Cfg
namespace Tealer.BlockShape
open Tealer.CfgL

/-- `a` is immediately followed by `b` inside the list -/
def Adj (l : List Nat) (a b : Nat) : Prop := ∃ pre post, l = pre ++ a :: b :: post

theorem adj_append_single (l : List Nat) (k a b : Nat) (h : Adj (l ++ [k]) a b) :
    Adj l a b ∨ (l.getLast? = some a ∧ b = k) := by
  obtain ⟨pre, post, he⟩ := h
  rcases List.eq_nil_or_concat post with rfl | ⟨post', z, rfl⟩
  · right
    have : l ++ [k] = (pre ++ [a]) ++ [b] := by simpa using he
    have h1 := List.append_inj' this rfl
    refine ⟨by rw [h1.1]; simp, by simpa using h1.2.symm⟩
  · left
    have : l ++ [k] = (pre ++ a :: b :: post') ++ [z] := by simpa using he
    have h1 := List.append_inj' this rfl
    exact ⟨pre, post', h1.1⟩

theorem not_adj_nil (a b : Nat) : ¬ Adj [] a b := by
  rintro ⟨pre, post, h⟩
  cases pre <;> simp at h

/-- the decision of create_bb that instruction `k` ends its block -/
def closes (opAt : Nat → Op) (nxAt : Nat → List Nat) (k : Nat) : Bool :=
  decide ((nxAt k).length > 1) || (opAt k).isCallsub || (nxAt k).length == 0 || (opAt k).isB

structure Jpa (opAt : Nat → Op) (nxAt : Nat → List Nat) (s : BBState) (m : Nat) : Prop where
  placed : BBState.placed s = List.range m
  adj : ∀ blk ∈ s.done ++ [s.cur], ∀ a b, Adj blk a b → closes opAt nxAt a = false ∧ (opAt b).isLabel = false

/-- invariant of the loop of create_bb after `m` instructions -/
structure J (opAt : Nat → Op) (nxAt : Nat → List Nat) (n : Nat) (s : BBState) (m : Nat) : Prop where
  pa : Jpa opAt nxAt s m
  last : ∀ a, s.cur.getLast? = some a → closes opAt nxAt a = false ∨ a + 1 = n

theorem Jpa_close (opAt nxAt s m w) (h : Jpa opAt nxAt s m) : Jpa opAt nxAt (s.close w) m := by
  refine ⟨by rw [close_placed]; exact h.placed, ?_⟩
  intro blk hb a b hab
  simp only [BBState.close, List.mem_append, List.mem_singleton] at hb
  rcases hb with hb | hb
  · exact h.adj blk (by simpa using hb) a b hab
  · subst hb; exact absurd hab (not_adj_nil a b)

theorem J_of_closed (opAt nxAt n s m w) (h : Jpa opAt nxAt s m) : J opAt nxAt n (s.close w) m :=
  ⟨Jpa_close _ _ _ _ _ h, by intro a ha; simp [BBState.close] at ha⟩

theorem step_J (opAt : Nat → Op) (nxAt : Nat → List Nat) (n : Nat) (s : BBState) (i : Ins) (k : Nat) (nx : List Nat)
    (hop : opAt k = i.op) (hnx : nxAt k = nx) (hk : k < n) (h : J opAt nxAt n s k) :
    J opAt nxAt n (createBBStep n s (i, k, nx)) (k + 1) := by
  unfold createBBStep
  simp only []
  -- after the label step
  have h0 : J opAt nxAt n (if (i.op.isLabel && !s.cur.isEmpty) = true then s.close true else s) k ∧
      ((if (i.op.isLabel && !s.cur.isEmpty) = true then s.close true else s).cur ≠ [] → i.op.isLabel = false) := by
    split
    · exact ⟨J_of_closed _ _ _ _ _ _ h.pa, by intro hne; simp [BBState.close] at hne⟩
    · rename_i hc
      refine ⟨h, ?_⟩
      intro hne
      have : s.cur.isEmpty = false := by
        cases hcur : s.cur with
        | nil => exact absurd hcur hne
        | cons _ _ => rfl
      simpa [this] using hc
  generalize (if (i.op.isLabel && !s.cur.isEmpty) = true then s.close true else s) = s0 at h0
  obtain ⟨hJ0, hlab⟩ := h0
  -- the last element of a non-empty current block is k - 1
  have hlastk : ∀ a, s0.cur.getLast? = some a → a + 1 = k := by
    intro a ha
    have hp := hJ0.pa.placed
    unfold BBState.placed at hp
    have hne : s0.cur ≠ [] := by intro e; rw [e] at ha; simp at ha
    have h1 : (s0.done.flatten ++ s0.cur).getLast? = some a := by
      rw [List.getLast?_append, ha]; rfl
    rw [hp] at h1
    cases k with
    | zero => simp at h1
    | succ k' => rw [List.range_succ] at h1; simp at h1; omega
  -- after appending k
  have h1 : Jpa opAt nxAt { s0 with cur := s0.cur ++ [k] } (k + 1) := by
    refine ⟨?_, ?_⟩
    · have hp := hJ0.pa.placed
      unfold BBState.placed at hp ⊢
      simp only []
      rw [← List.append_assoc, hp, List.range_succ]
    · intro blk hb a b hab
      simp only [List.mem_append, List.mem_singleton] at hb
      rcases hb with hb | hb
      · exact hJ0.pa.adj blk (by simp [hb]) a b hab
      · subst hb
        rcases adj_append_single s0.cur k a b hab with h' | ⟨hl, hbk⟩
        · exact hJ0.pa.adj s0.cur (by simp) a b h'
        · subst hbk
          have hne : s0.cur ≠ [] := by intro e; rw [e] at hl; simp at hl
          have hak := hlastk a hl
          refine ⟨?_, by rw [hop]; exact hlab hne⟩
          rcases hJ0.last a hl with hc | hc
          · exact hc
          · omega
  have hlast1 : ∀ a, ({ s0 with cur := s0.cur ++ [k] } : BBState).cur.getLast? = some a → a = k := by
    intro a ha
    simp only [List.getLast?_append, List.getLast?_singleton, Option.some_or] at ha
    simpa using ha.symm
  generalize ({ s0 with cur := s0.cur ++ [k] } : BBState) = s1 at h1 hlast1
  -- the closing decisions
  split
  · split
    · rename_i hlast
      exact ⟨h1, fun a ha => Or.inr (by have := hlast1 a ha; subst this; simpa using hlast)⟩
    · split
      · exact J_of_closed _ _ _ _ _ _ (Jpa_close _ _ _ _ _ h1)
      · exact J_of_closed _ _ _ _ _ _ h1
  · rename_i hA
    split
    · split
      · rename_i hlast
        exact ⟨h1, fun a ha => Or.inr (by have := hlast1 a ha; subst this; simpa using hlast)⟩
      · exact J_of_closed _ _ _ _ _ _ h1
    · rename_i hB
      refine ⟨h1, fun a ha => Or.inl ?_⟩
      have := hlast1 a ha
      subst this
      unfold closes
      rw [hop, hnx]
      simp only [Bool.or_eq_true, decide_eq_true_eq, not_or, Bool.not_eq_true] at hA hB
      simp [hA.1, hA.2, hB.1, hB.2]

theorem fold_J (opAt : Nat → Op) (nxAt : Nat → List Nat) (n : Nat) :
    ∀ (xs : List (Ins × Nat × List Nat)) (s : BBState) (m : Nat),
      (∀ j (hj : j < xs.length), (xs[j]).2.1 = m + j ∧ opAt (m + j) = (xs[j]).1.op ∧ nxAt (m + j) = (xs[j]).2.2) →
      m + xs.length ≤ n → J opAt nxAt n s m → J opAt nxAt n (xs.foldl (createBBStep n) s) (m + xs.length) := by
  intro xs
  induction xs with
  | nil => intro s m _ _ h; simpa using h
  | cons x xs ih =>
    intro s m hx hlen h
    obtain ⟨i, k, nx⟩ := x
    have h0 := hx 0 (by simp)
    simp only [List.getElem_cons_zero, Nat.add_zero] at h0
    obtain ⟨hk, hop, hnx⟩ := h0
    have hk' : k = m := hk
    subst hk'
    simp only [List.foldl_cons, List.length_cons]
    have hstep := step_J opAt nxAt n s i k nx hop hnx (by simp only [List.length_cons] at hlen; omega) h
    have := ih (createBBStep n s (i, k, nx)) (k + 1) (by
      intro j hj
      have := hx (j + 1) (by simp; omega)
      simp only [List.getElem_cons_succ] at this
      have e : k + (j + 1) = k + 1 + j := by omega
      rw [e] at this
      exact this) (by simp only [List.length_cons] at hlen; omega) hstep
    have e : k + (xs.length + 1) = k + 1 + xs.length := by omega
    rw [e]; exact this

/-- THE BLOCKS OF THE THIRD PASS: inside a block, an instruction is followed by another one only if it does not end a
    block (exactly one successor, not `b`, not `callsub`) and the follower is not a label -/
theorem createBB_shape (ins : List Ins) (nexts : List (List Nat)) (hlen : nexts.length = ins.length) :
    ∀ blk ∈ (createBB ins nexts).1, ∀ a b, Adj blk a b →
      closes (fun k => (ins[k]!).op) (fun k => nexts[k]!) a = false ∧ ((ins[b]!).op).isLabel = false := by
  have hJ := fold_J (fun k => (ins[k]!).op) (fun k => nexts[k]!) ins.length
    ((ins.zipIdx).zipWith (fun (x : Ins × Nat) nx => (x.1, x.2, nx)) nexts) {} 0
    (by
      intro j hj
      simp only [List.length_zipWith, List.length_zipIdx, hlen, Nat.min_self] at hj
      simp [List.getElem_zipWith, List.getElem_zipIdx, hj, hlen])
    (by simp [hlen])
    ⟨⟨by simp [BBState.placed], by
        intro blk hb a b hab
        simp at hb
        subst hb
        exact absurd hab (not_adj_nil a b)⟩, by intro a ha; simp at ha⟩
  intro blk hb a b hab
  unfold createBB at hb
  simp only [] at hb
  exact hJ.pa.adj blk hb a b hab

end Tealer.BlockShape
