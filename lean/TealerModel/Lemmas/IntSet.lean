/-
  Lemmas about the set-valued domains (model of int_fields.py and the set algebra of txn_types.py).
-/
import TealerModel.Detect
namespace Tealer.IntSet

/-- concretisation of a set value -/
def gamma (s : NatSet) (v : Nat) : Prop := v ∈ s

theorem union_exact (a b : NatSet) (v : Nat) : gamma (OSet.union a b) v ↔ gamma a v ∨ gamma b v :=
  OSet.mem_union v a b

theorem inter_exact (a b : NatSet) (v : Nat) : gamma (OSet.inter a b) v ↔ gamma a v ∧ gamma b v :=
  OSet.mem_inter v a b

theorem null_empty (v : Nat) : ¬ gamma ([] : NatSet) v := by simp [gamma]

theorem mem_sizesU (v : Nat) : v ∈ sizesU ↔ 1 ≤ v ∧ v ≤ 16 := by
  simp [sizesU, MAX_GROUP_SIZE]
  constructor
  · rintro ⟨a, ha, rfl⟩; omega
  · rintro ⟨h1, h2⟩; exact ⟨v - 1, by omega, by omega⟩

theorem mem_indicesU (v : Nat) : v ∈ indicesU ↔ v < 16 := by
  simp [indicesU, MAX_GROUP_SIZE]

/-- `_get_asserted_int_values` (field as FIRST operand): the listed values are exactly those of the
    universe that satisfy the comparison, for every constant `n` and every universe `U` -/
theorem assertedIntValues_spec (c : Cmp) (n : Nat) (U : NatSet) (v : Nat) (hv : v ∈ U) :
    v ∈ assertedIntValues c n U ↔ c.eval v n = true := by
  cases c <;> simp [assertedIntValues, Cmp.eval, hv]

/-- leaf soundness and exactness of the true / false sets returned for `field op n` -/
theorem asserted_true_iff (c : Cmp) (n : Nat) (U : NatSet) (v : Nat) (hv : v ∈ U) :
    v ∈ OSet.ofList (assertedIntValues c n U) ↔ c.eval v n = true := by
  rw [OSet.mem_ofList]; exact assertedIntValues_spec c n U v hv

theorem asserted_false_iff (c : Cmp) (n : Nat) (U : NatSet) (v : Nat) (hv : v ∈ U) :
    v ∈ OSet.diff U (OSet.ofList (assertedIntValues c n U)) ↔ c.eval v n = false := by
  rw [OSet.mem_diff, asserted_true_iff c n U v hv]
  simp [hv]

/-- values outside the universe are never in the false set, and are in the true set only for `==` -/
theorem asserted_subset (c : Cmp) (n : Nat) (U : NatSet) (v : Nat) (hc : c ≠ .eq)
    (h : v ∈ assertedIntValues c n U) : v ∈ U := by
  cases c <;> simp [assertedIntValues] at h <;> first | exact absurd rfl hc | exact h.1

/-- GroupIndices._store_results: an index is never listed without a larger size -/
theorem storeIndices_coupling (sizes indices : NatSet) (i : Nat) (h : i ∈ storeIndices sizes indices) :
    ∃ s ∈ sizes, i < s := by
  simp only [storeIndices, List.mem_filter, decide_eq_true_eq] at h
  obtain ⟨_, hlt⟩ := h
  -- the fold computes a maximum that is attained (or is 0)
  have key : ∀ (l : List Nat) (init : Nat), i < l.foldl max init → i < init ∨ ∃ s ∈ l, i < s := by
    intro l
    induction l with
    | nil => intro init h; exact Or.inl h
    | cons x xs ih =>
      intro init h
      simp only [List.foldl_cons] at h
      rcases ih _ h with h1 | ⟨s, hs, hlt⟩
      · by_cases hx : i < x
        · exact Or.inr ⟨x, by simp, hx⟩
        · left; omega
      · exact Or.inr ⟨s, by simp [hs], hlt⟩
  rcases key sizes 0 hlt with h0 | h1
  · omega
  · exact h1

theorem storeIndices_subset (sizes indices : NatSet) (i : Nat) (h : i ∈ storeIndices sizes indices) :
    i ∈ indices := by
  simp only [storeIndices, List.mem_filter] at h; exact h.1

/-- soundness of the cut: an actual (size, index) pair with index < size survives it -/
theorem storeIndices_sound (sizes indices : NatSet) (size idx : Nat) (hs : size ∈ sizes) (hi : idx ∈ indices)
    (hlt : idx < size) : idx ∈ storeIndices sizes indices := by
  simp only [storeIndices, List.mem_filter, decide_eq_true_eq]
  refine ⟨hi, ?_⟩
  have key : ∀ (l : List Nat) (init : Nat), size ∈ l → size ≤ l.foldl max init := by
    intro l
    induction l with
    | nil => intro init h; cases h
    | cons x xs ih =>
      intro init h
      simp only [List.foldl_cons]
      cases h with
      | head =>
        have mono : ∀ (l : List Nat) (a : Nat), a ≤ l.foldl max a := by
          intro l; induction l with
          | nil => intro a; exact Nat.le_refl _
          | cons y ys ihy => intro a; simp only [List.foldl_cons]; exact Nat.le_trans (Nat.le_max_left a y) (ihy _)
        exact Nat.le_trans (Nat.le_max_right init size) (mono xs _)
      | tail _ hm => exact ih _ hm
  have := key sizes 0 hs
  omega

end Tealer.IntSet
