/-
  Lemmas about the address domain (model of addr_fields.py): set algebra with the ANY / NO markers.
-/
import TealerModel.Dom
namespace Tealer.Addr

/-- `v` is the token of a non-zero address (a literal, or CREATOR_ADDRESS); markers are not addresses -/
def IsAddr (v : String) : Prop := v ≠ ANY_ADDRESS ∧ v ≠ NO_ADDRESS

/-- concretisation for non-zero addresses: the NO marker admits nothing, the ANY marker everything
    (the zero address is admitted by every value: `field == ZeroAddress` is represented by the null set) -/
def gamma (s : AddrSet) (v : String) : Prop :=
  ¬ NO_ADDRESS ∈ s ∧ (ANY_ADDRESS ∈ s ∨ v ∈ s)

instance (s : AddrSet) (v : String) : Decidable (gamma s v) := by unfold gamma; exact inferInstance

theorem univ_top (v : String) : gamma addrUniv v := by
  simp [gamma, addrUniv, ANY_ADDRESS, NO_ADDRESS]

theorem null_bot (v : String) : ¬ gamma addrNull v := by
  simp [gamma, addrNull]

theorem union_sound (a b : AddrSet) (v : String) :
    gamma a v ∨ gamma b v → gamma (addrUnion a b) v := by
  unfold addrUnion gamma
  intro h
  by_cases h1 : a.contains ANY_ADDRESS || b.contains ANY_ADDRESS
  · simp only [h1, if_true]; simp [addrUniv, ANY_ADDRESS, NO_ADDRESS]
  · simp only [h1]
    simp only [Bool.or_eq_true, List.contains_iff_mem, not_or] at h1
    by_cases h2 : a.contains NO_ADDRESS && b.contains NO_ADDRESS
    · simp only [Bool.and_eq_true, List.contains_iff_mem] at h2
      rcases h with h | h
      · exact absurd h2.1 h.1
      · exact absurd h2.2 h.1
    · simp only [h2]
      by_cases h3 : a.contains NO_ADDRESS
      · simp only [h3, if_true]
        simp only [List.contains_iff_mem] at h3
        rcases h with h | h
        · exact absurd h3 h.1
        · simpa using h
      · simp only [h3]
        simp only [List.contains_iff_mem] at h3
        by_cases h4 : b.contains NO_ADDRESS
        · simp only [h4, if_true]
          simp only [List.contains_iff_mem] at h4
          rcases h with h | h
          · simpa using h
          · exact absurd h4 h.1
        · simp only [h4]
          simp only [List.contains_iff_mem] at h4
          simp only [Bool.false_eq_true, if_false, OSet.mem_union]
          refine ⟨fun hm => hm.elim h3 h4, ?_⟩
          rcases h with h | h
          · rcases h.2 with hh | hh
            · exact absurd hh h1.1
            · exact Or.inr (Or.inl hh)
          · rcases h.2 with hh | hh
            · exact absurd hh h1.2
            · exact Or.inr (Or.inr hh)

theorem inter_sound (a b : AddrSet) (v : String) :
    gamma a v → gamma b v → gamma (addrInter a b) v := by
  unfold addrInter gamma
  intro ha hb
  have hna : a.contains NO_ADDRESS = false := by simpa using ha.1
  have hnb : b.contains NO_ADDRESS = false := by simpa using hb.1
  simp only [hna, hnb, Bool.or_false, Bool.false_eq_true, if_false]
  by_cases h2 : a.contains ANY_ADDRESS && b.contains ANY_ADDRESS
  · simp only [h2, if_true]; simp [addrUniv, ANY_ADDRESS, NO_ADDRESS]
  · simp only [h2]
    by_cases h3 : a.contains ANY_ADDRESS
    · simp only [h3, if_true]; simpa using hb
    · simp only [h3]
      by_cases h4 : b.contains ANY_ADDRESS
      · simp only [h4, if_true]; simpa using ha
      · simp only [h4]
        simp only [List.contains_iff_mem] at h3 h4
        simp only [Bool.false_eq_true, if_false, OSet.mem_inter]
        refine ⟨fun hm => ha.1 hm.1, Or.inr ⟨?_, ?_⟩⟩
        · exact ha.2.resolve_left h3
        · exact hb.2.resolve_left h4

/-- value denoted by the comparand instruction: `none` = the zero address -/
def comparand (op : Op) : Option (Option String) :=
  match op with
  | .global "ZeroAddress" => some none
  | .addr a => some (if a == ZERO_ADDRESS then none else some a)
  | .global "CreatorAddress" => some (some CREATOR_ADDRESS)
  | _ => none

/-- `_get_asserted_address`: when the comparand is a literal / ZeroAddress / CreatorAddress, the returned set
    admits exactly the non-zero address equal to it -/
theorem assertedAddress_sound (op : Op) (text : String) (y : Option String) (v : String)
    (hv : IsAddr v) (hden : comparand op = some y) (hy : y = some v) :
    gamma (assertedAddress op text) v := by
  subst hy
  unfold comparand at hden
  split at hden
  · simp at hden
  · rename_i a
    simp only [Option.some.injEq] at hden
    split at hden
    · simp at hden
    · rename_i hne
      simp only [Option.some.injEq] at hden
      subst hden
      simp only [assertedAddress, hne]
      simp [gamma, hv.1.symm, hv.2.symm]
  · simp only [Option.some.injEq] at hden
    subst hden
    simp [assertedAddress, gamma, CREATOR_ADDRESS, ANY_ADDRESS, NO_ADDRESS]
  · simp at hden

/-- the detector predicate `not any_addr` is true exactly when some address is excluded:
    a set without the ANY marker admits only the addresses it lists -/
theorem notAny_excludes (s : AddrSet) (v : String) (h : s.contains ANY_ADDRESS = false) (hv : ¬ v ∈ s) :
    ¬ gamma s v := by
  intro hg
  simp only [List.contains_eq_mem, decide_eq_false_iff_not] at h
  rcases hg.2 with h1 | h1
  · exact h h1
  · exact hv h1

end Tealer.Addr
