/-
  The block graph built by the third and fourth pass is well-formed: every successor recorded for a block is the index of
  a created block (so the hypothesis `Reach.WF` of `identifyBlocks_spec` holds for the graphs parse_teal builds).
-/
import TealerModel.Lemmas.Reach
import TealerModel.Lemmas.Cfg
namespace Tealer.CfgWF
open Tealer.Reach

theorem addEdge_length (bs : List RawBlock) (a b : Nat) : (addEdge bs a b).length = bs.length := by
  simp [addEdge]

theorem addEdge_next_eq (bs : List RawBlock) (a b x : Nat) (hx : x < bs.length) :
    ((addEdge bs a b)[x]!).next = if x = a then (bs[x]!).next ++ [b] else (bs[x]!).next := by
  unfold addEdge
  simp [hx]
  by_cases h1 : x = a <;> by_cases h2 : x = b
  · subst h1; subst h2; simp
  · subst h1; have : ¬ x = b := h2; simp [this]
  · subst h2; have : ¬ x = a := h1; simp [this]
  · simp [h1, h2]

theorem addEdge_next_mem (bs : List RawBlock) (a b x : Nat) (hx : x < bs.length) (y : Nat)
    (hy : y ∈ ((addEdge bs a b)[x]!).next) : y ∈ (bs[x]!).next ∨ y = b := by
  rw [addEdge_next_eq bs a b x hx] at hy
  split at hy
  · rcases List.mem_append.mp hy with h | h
    · exact Or.inl h
    · exact Or.inr (by simpa using h)
  · exact Or.inl hy

theorem addEdge_wf (bs : List RawBlock) (a b : Nat) (h : WF bs) (hb : b < bs.length) : WF (addEdge bs a b) := by
  intro x hx y hy
  rw [addEdge_length] at hx ⊢
  rcases addEdge_next_mem bs a b x hx y hy with h' | h'
  · exact h x hx y h'
  · subst h'; exact hb

/-- invariant of create_bb: a default edge leads from a closed block to the next block index, which exists -/
def EdgesOk (s : BBState) : Prop := ∀ e ∈ s.edges, e.2 ≤ s.done.length

theorem close_ok (s : BBState) (w : Bool) (h : EdgesOk s) : EdgesOk (s.close w) := by
  intro e he
  unfold BBState.close at he ⊢
  simp only [List.length_append, List.length_cons, List.length_nil] at *
  split at he
  · rcases List.mem_append.mp he with h' | h'
    · have := h e h'; omega
    · simp at h'; subst h'; simp
  · have := h e he; omega

theorem cur_ok (s : BBState) (c : List Nat) (h : EdgesOk s) : EdgesOk { s with cur := c } := h

theorem step_ok (n : Nat) (s : BBState) (x : Ins × Nat × List Nat) (h : EdgesOk s) : EdgesOk (createBBStep n s x) := by
  obtain ⟨i, k, nx⟩ := x
  unfold createBBStep
  simp only []
  have h0 : EdgesOk (if (i.op.isLabel && !s.cur.isEmpty) = true then s.close true else s) := by
    split
    · exact close_ok s true h
    · exact h
  generalize (if (i.op.isLabel && !s.cur.isEmpty) = true then s.close true else s) = s0 at h0
  have h1 : EdgesOk { s0 with cur := s0.cur ++ [k] } := cur_ok s0 _ h0
  generalize ({ s0 with cur := s0.cur ++ [k] } : BBState) = s1 at h1
  repeat' split
  all_goals first
    | exact h1
    | exact close_ok _ _ h1
    | exact close_ok _ _ (close_ok _ _ h1)

theorem fold_ok (n : Nat) (xs : List (Ins × Nat × List Nat)) (s : BBState) (h : EdgesOk s) :
    EdgesOk (xs.foldl (createBBStep n) s) := by
  induction xs generalizing s with
  | nil => exact h
  | cons x xs ih => exact ih _ (step_ok n s x h)

/-- every default edge of the third pass ends at a created block -/
theorem createBB_edges (ins : List Ins) (nexts : List (List Nat)) :
    ∀ e ∈ (createBB ins nexts).2, e.2 < (createBB ins nexts).1.length := by
  intro e he
  unfold createBB at he ⊢
  simp only [] at he ⊢
  have := fold_ok ins.length ((ins.zipIdx).zipWith (fun (x : Ins × Nat) nx => (x.1, x.2, nx)) nexts) {} (by intro e he; cases he) e he
  simp only [List.length_append, List.length_cons, List.length_nil]
  omega

theorem fold_addEdge_wf (es : List (Nat × Nat)) (bs : List RawBlock) (h : WF bs) (he : ∀ e ∈ es, e.2 < bs.length) :
    WF (es.foldl (fun bs (e : Nat × Nat) => addEdge bs e.1 e.2) bs) ∧
      (es.foldl (fun bs (e : Nat × Nat) => addEdge bs e.1 e.2) bs).length = bs.length := by
  induction es generalizing bs with
  | nil => exact ⟨h, rfl⟩
  | cons e es ih =>
    simp only [List.foldl_cons]
    have h1 := addEdge_wf bs e.1 e.2 h (he e (by simp))
    have := ih (addEdge bs e.1 e.2) h1 (by intro e' he'; rw [addEdge_length]; exact he e' (by simp [he']))
    exact ⟨this.1, by rw [this.2, addEdge_length]⟩

theorem blockOfIns_lt (blocks : List (List Nat)) (k nb : Nat) (h : blockOfIns blocks k = .ok nb) : nb < blocks.length := by
  unfold blockOfIns at h
  split at h
  · rename_i b id hf
    simp only [Except.ok.injEq] at h
    subst h
    have := List.mem_of_find?_eq_some hf
    have := List.mem_zipIdx this
    omega
  · cases h

/-- the inner loop of the fourth pass keeps the graph well-formed -/
theorem inner_wf (blocks : List (List Nat)) (id : Nat) (ts : List Nat) (bs bs' : List RawBlock)
    (hlen : bs.length = blocks.length) (h : WF bs)
    (hr : ts.foldlM (init := bs) (fun bs t => do
        let nb ← blockOfIns blocks t
        if (bs[id]!).next.contains nb then pure bs
        else if (bs[nb]!).prev.contains id then (Except.error "AssertionError" : Except Err (List RawBlock))
        else pure (addEdge bs id nb)) = .ok bs') :
    WF bs' ∧ bs'.length = blocks.length := by
  induction ts generalizing bs with
  | nil =>
    simp only [List.foldlM_nil, pure, Except.pure, Except.ok.injEq] at hr
    subst hr; exact ⟨h, hlen⟩
  | cons t ts ih =>
    simp only [List.foldlM_cons, bind, Except.bind] at hr
    split at hr
    · cases hr
    · rename_i bs1 h1
      split at h1
      · cases h1
      · rename_i nb hnb
        have hlt := blockOfIns_lt blocks t nb hnb
        split at h1
        · simp only [pure, Except.pure, Except.ok.injEq] at h1
          subst h1
          exact ih bs hlen h hr
        · split at h1
          · cases h1
          · simp only [pure, Except.pure, Except.ok.injEq] at h1
            subst h1
            exact ih _ (by rw [addEdge_length]; exact hlen) (addEdge_wf bs id nb h (by omega)) hr

/-- the fourth pass keeps the graph well-formed -/
theorem fourthPass_wf (blocks : List (List Nat)) (nexts : List (List Nat)) (bs bs' : List RawBlock)
    (hlen : bs.length = blocks.length) (h : WF bs) (hr : fourthPass blocks nexts bs = .ok bs') :
    WF bs' ∧ bs'.length = blocks.length := by
  unfold fourthPass at hr
  generalize List.range bs.length = ids at hr
  induction ids generalizing bs with
  | nil =>
    simp only [List.foldlM_nil, pure, Except.pure, Except.ok.injEq] at hr
    subst hr; exact ⟨h, hlen⟩
  | cons id ids ih =>
    simp only [List.foldlM_cons, bind, Except.bind] at hr
    split at hr
    · cases hr
    · rename_i bs1 h1
      split at h1
      · cases h1
      · rename_i ex hex
        have := inner_wf blocks id _ bs bs1 hlen h h1
        exact ih bs1 this.2 this.1 hr

/-- the graph the subroutine discovery of `parseTeal` runs on: blocks and default edges of the third pass, jump edges of
    the fourth -/
def graphOf (ins : List Ins) (nexts : List (List Nat)) : Except Err (List RawBlock) :=
  fourthPass (createBB ins nexts).1 nexts
    ((createBB ins nexts).2.foldl (fun bs (e : Nat × Nat) => addEdge bs e.1 e.2)
      ((createBB ins nexts).1.map fun b => ({ ins := b } : RawBlock)))

/-- THE GRAPH parse_teal BUILDS IS WELL-FORMED: after the third pass (blocks and default edges) and the fourth pass (jump
    edges), every successor of every block is the index of a created block -/
theorem passes_wf (ins : List Ins) (nexts : List (List Nat)) (bs : List RawBlock)
    (hr : fourthPass (createBB ins nexts).1 nexts
      ((createBB ins nexts).2.foldl (fun bs (e : Nat × Nat) => addEdge bs e.1 e.2)
        ((createBB ins nexts).1.map fun b => ({ ins := b } : RawBlock))) = .ok bs) :
    WF bs ∧ bs.length = (createBB ins nexts).1.length := by
  have h0 : WF ((createBB ins nexts).1.map fun b => ({ ins := b } : RawBlock)) := by
    intro a ha b hb
    simp only [List.length_map] at ha
    simp [getElem!_pos, ha] at hb
  have h1 := fold_addEdge_wf (createBB ins nexts).2 _ h0 (by
    intro e he; simp only [List.length_map]; exact createBB_edges ins nexts e he)
  exact fourthPass_wf _ nexts _ bs (by rw [h1.2]; simp) h1.1 hr

end Tealer.CfgWF
