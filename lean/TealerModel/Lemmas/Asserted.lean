/-
  Soundness of `_get_asserted` (model: `getAsserted`, with `_flatten_ast` / `compute_equations` = `flattenAst`):
  for any domain whose union / intersection over-approximate and any sound leaf matcher, if the condition evaluates to
  non-zero the governed value lies in γ(true set), if it evaluates to zero it lies in γ(false set).
  Concrete truth is relational: every unknown operand (a value from before the block) may be true or false.
-/
import TealerModel.Lemmas.Flow
set_option linter.unusedSectionVars false
namespace Tealer.Asserted

variable {D V : Type} [DecidableEq D]

/-- concrete truth value of the stack value `r` of a block, given the truth of the leaf conditions -/
inductive Eval (a : Ast) (lv : Nat → Bool) : Ref → Bool → Prop
  | unknown (b) : Eval a lv none b
  | leaf (p o) : a.opOf p ≠ .and → a.opOf p ≠ .or → a.opOf p ≠ .not → Eval a lv (some (p, o)) (lv p)
  | not (p o q o' b) : a.opOf p = .not → a.argsOf p = [some (q, o')] → Eval a lv (some (q, o')) b →
      Eval a lv (some (p, o)) (!b)
  | notUnknown (p o b) : a.opOf p = .not → a.argsOf p = [none] → Eval a lv (some (p, o)) b
  | and (p o l r bl br) : a.opOf p = .and → a.argsOf p = [l, r] → Eval a lv l bl → Eval a lv r br →
      Eval a lv (some (p, o)) (bl && br)
  | or (p o l r bl br) : a.opOf p = .or → a.argsOf p = [l, r] → Eval a lv l bl → Eval a lv r br →
      Eval a lv (some (p, o)) (bl || br)

variable {a : Ast} {lv : Nat → Bool}

theorem flatten_and_true : ∀ (n : Nat) (r : Ref) (b : Bool), Eval a lv r b → b = true →
    ∀ e ∈ flattenAst a .and n r, Eval a lv e true := by
  intro n
  induction n with
  | zero => intro r b h hb e he; subst hb; simp [flattenAst] at he; exact he ▸ h
  | succ n ih =>
    intro r b h hb e he
    cases r with
    | none => subst hb; simp [flattenAst] at he; exact he ▸ h
    | some po =>
      obtain ⟨p, o⟩ := po
      unfold flattenAst at he
      split at he
      · rename_i hop
        have hop' : a.opOf p = .and := by simpa using hop
        cases h with
        | leaf _ _ h1 _ _ => exact absurd hop' h1
        | not _ _ q o' b' h1 _ _ => rw [hop'] at h1; cases h1
        | notUnknown _ _ _ h1 _ => rw [hop'] at h1; cases h1
        | or _ _ l r bl br h1 _ _ _ => rw [hop'] at h1; cases h1
        | and _ _ l r bl br _ hargs hl hr =>
          have hb2 : bl = true ∧ br = true := by simpa using hb
          simp only [hargs, List.mem_append] at he
          rcases he with he | he
          · exact ih l bl hl hb2.1 e he
          · exact ih r br hr hb2.2 e he
      · subst hb; simp at he; exact he ▸ h

theorem flatten_and_false : ∀ (n : Nat) (r : Ref) (b : Bool), Eval a lv r b → b = false →
    ∃ e ∈ flattenAst a .and n r, Eval a lv e false := by
  intro n
  induction n with
  | zero => intro r b h hb; subst hb; exact ⟨r, by simp [flattenAst], h⟩
  | succ n ih =>
    intro r b h hb
    cases r with
    | none => subst hb; exact ⟨none, by simp [flattenAst], h⟩
    | some po =>
      obtain ⟨p, o⟩ := po
      unfold flattenAst
      split
      · rename_i hop
        have hop' : a.opOf p = .and := by simpa using hop
        cases h with
        | leaf _ _ h1 _ _ => exact absurd hop' h1
        | not _ _ q o' b' h1 _ _ => rw [hop'] at h1; cases h1
        | notUnknown _ _ _ h1 _ => rw [hop'] at h1; cases h1
        | or _ _ l r bl br h1 _ _ _ => rw [hop'] at h1; cases h1
        | and _ _ l r bl br _ hargs hl hr =>
          have hb2 : bl = false ∨ br = false := by cases bl <;> cases br <;> simp_all
          simp only [hargs]
          rcases hb2 with hbl | hbr
          · obtain ⟨e, he, hev⟩ := ih l bl hl hbl; exact ⟨e, by simp [he], hev⟩
          · obtain ⟨e, he, hev⟩ := ih r br hr hbr; exact ⟨e, by simp [he], hev⟩
      · subst hb; exact ⟨_, by simp, h⟩

theorem flatten_or_false : ∀ (n : Nat) (r : Ref) (b : Bool), Eval a lv r b → b = false →
    ∀ e ∈ flattenAst a .or n r, Eval a lv e false := by
  intro n
  induction n with
  | zero => intro r b h hb e he; subst hb; simp [flattenAst] at he; exact he ▸ h
  | succ n ih =>
    intro r b h hb e he
    cases r with
    | none => subst hb; simp [flattenAst] at he; exact he ▸ h
    | some po =>
      obtain ⟨p, o⟩ := po
      unfold flattenAst at he
      split at he
      · rename_i hop
        have hop' : a.opOf p = .or := by simpa using hop
        cases h with
        | leaf _ _ _ h1 _ => exact absurd hop' h1
        | not _ _ q o' b' h1 _ _ => rw [hop'] at h1; cases h1
        | notUnknown _ _ _ h1 _ => rw [hop'] at h1; cases h1
        | and _ _ l r bl br h1 _ _ _ => rw [hop'] at h1; cases h1
        | or _ _ l r bl br _ hargs hl hr =>
          have hb2 : bl = false ∧ br = false := by cases bl <;> cases br <;> simp_all
          simp only [hargs, List.mem_append] at he
          rcases he with he | he
          · exact ih l bl hl hb2.1 e he
          · exact ih r br hr hb2.2 e he
      · subst hb; simp at he; exact he ▸ h

theorem flatten_or_true : ∀ (n : Nat) (r : Ref) (b : Bool), Eval a lv r b → b = true →
    ∃ e ∈ flattenAst a .or n r, Eval a lv e true := by
  intro n
  induction n with
  | zero => intro r b h hb; subst hb; exact ⟨r, by simp [flattenAst], h⟩
  | succ n ih =>
    intro r b h hb
    cases r with
    | none => subst hb; exact ⟨none, by simp [flattenAst], h⟩
    | some po =>
      obtain ⟨p, o⟩ := po
      unfold flattenAst
      split
      · rename_i hop
        have hop' : a.opOf p = .or := by simpa using hop
        cases h with
        | leaf _ _ _ h1 _ => exact absurd hop' h1
        | not _ _ q o' b' h1 _ _ => rw [hop'] at h1; cases h1
        | notUnknown _ _ _ h1 _ => rw [hop'] at h1; cases h1
        | and _ _ l r bl br h1 _ _ _ => rw [hop'] at h1; cases h1
        | or _ _ l r bl br _ hargs hl hr =>
          have hb2 : bl = true ∨ br = true := by cases bl <;> cases br <;> simp_all
          simp only [hargs]
          rcases hb2 with hbl | hbr
          · obtain ⟨e, he, hev⟩ := ih l bl hl hbl; exact ⟨e, by simp [he], hev⟩
          · obtain ⟨e, he, hev⟩ := ih r br hr hbr; exact ⟨e, by simp [he], hev⟩
      · subst hb; exact ⟨_, by simp, h⟩

variable {A : Analysis D} {γ : D → V → Prop}

theorem foldl_inter_sound (L : Flow.GammaLaws A γ) (xs : List Nat) (g : Nat → D) (init : D) (v : V)
    (hi : γ init v) (h : ∀ e ∈ xs, γ (g e) v) :
    γ (xs.foldl (fun acc e => A.dom.inter acc (g e)) init) v := by
  induction xs generalizing init with
  | nil => simpa
  | cons x xs ih =>
    exact ih _ (L.inter_sound _ _ _ hi (h x (by simp))) (fun e he => h e (by simp [he]))

theorem foldl_union_sound (L : Flow.GammaLaws A γ) (xs : List Nat) (g : Nat → D) (init : D) (v : V)
    (h : γ init v ∨ ∃ e ∈ xs, γ (g e) v) :
    γ (xs.foldl (fun acc e => A.dom.union acc (g e)) init) v := by
  induction xs generalizing init with
  | nil => simpa using h
  | cons x xs ih =>
    apply ih
    rcases h with h | ⟨e, he, hg⟩
    · exact Or.inl (L.union_sound _ _ _ (Or.inl h))
    · cases he with
      | head => exact Or.inl (L.union_sound _ _ _ (Or.inr hg))
      | tail _ hm => exact Or.inr ⟨e, hm, hg⟩

/-- `_get_asserted` is sound whenever the leaf matcher is -/
theorem getAsserted_sound (L : Flow.GammaLaws A γ) (ic : Option (List Nat)) (key : Key) (v : V)
    (huniv : γ (A.univ key.base) v)
    (hs : ∀ p, (lv p = true → γ (A.single ic a key p).1 v) ∧ (lv p = false → γ (A.single ic a key p).2 v)) :
    ∀ (n p o : Nat) (b : Bool), Eval a lv (some (p, o)) b →
      (b = true → γ (getAsserted A ic a key n p).1 v) ∧ (b = false → γ (getAsserted A ic a key n p).2 v) := by
  intro n
  induction n with
  | zero => intro p o b _; simp [getAsserted, huniv]
  | succ n ih =>
    intro p o b h
    cases h with
    | leaf _ _ h1 h2 h3 =>
      have : getAsserted A ic a key (n + 1) p = A.single ic a key p := by
        unfold getAsserted
        split <;> simp_all
      rw [this]; exact hs p
    | not _ _ q o' b' hop hargs hq =>
      have := ih q o' b' hq
      simp only [getAsserted, hop, hargs]
      constructor
      · intro hb; exact this.2 (by simpa using hb)
      · intro hb; exact this.1 (by simpa using hb)
    | notUnknown _ _ _ hop hargs =>
      simp [getAsserted, hop, hargs, huniv]
    | and _ _ l r bl br hop hargs hl hr =>
      have hE : Eval a lv (some (p, 0)) (bl && br) := .and p 0 l r bl br hop hargs hl hr
      simp only [getAsserted, hop]
      constructor
      · intro hb
        apply foldl_inter_sound L _ _ _ _ huniv
        intro q hq
        obtain ⟨rr, hrr, hq'⟩ := List.mem_filterMap.mp hq
        cases rr with
        | none => simp at hq'
        | some qo =>
          obtain ⟨q', o'⟩ := qo
          simp only [Option.map_some, Option.some.injEq] at hq'
          subst hq'
          exact (ih q' o' true (flatten_and_true (n + 1) _ _ hE hb _ hrr)).1 rfl
      · intro hb
        split
        · exact huniv
        · rename_i hunk
          obtain ⟨e, hmem, hev⟩ := flatten_and_false (n + 1) _ _ hE hb
          cases e with
          | none =>
            exact absurd (List.any_eq_true.mpr ⟨none, hmem, rfl⟩) (by simpa using hunk)
          | some qo =>
            obtain ⟨q', o'⟩ := qo
            apply foldl_union_sound L
            right
            exact ⟨q', List.mem_filterMap.mpr ⟨some (q', o'), hmem, rfl⟩, (ih q' o' false hev).2 rfl⟩
    | or _ _ l r bl br hop hargs hl hr =>
      have hE : Eval a lv (some (p, 0)) (bl || br) := .or p 0 l r bl br hop hargs hl hr
      simp only [getAsserted, hop]
      constructor
      · intro hb
        split
        · exact huniv
        · rename_i hunk
          obtain ⟨e, hmem, hev⟩ := flatten_or_true (n + 1) _ _ hE hb
          cases e with
          | none =>
            exact absurd (List.any_eq_true.mpr ⟨none, hmem, rfl⟩) (by simpa using hunk)
          | some qo =>
            obtain ⟨q', o'⟩ := qo
            apply foldl_union_sound L
            right
            exact ⟨q', List.mem_filterMap.mpr ⟨some (q', o'), hmem, rfl⟩, (ih q' o' true hev).1 rfl⟩
      · intro hb
        apply foldl_inter_sound L _ _ _ _ huniv
        intro q hq
        obtain ⟨rr, hrr, hq'⟩ := List.mem_filterMap.mp hq
        cases rr with
        | none => simp at hq'
        | some qo =>
          obtain ⟨q', o'⟩ := qo
          simp only [Option.map_some, Option.some.injEq] at hq'
          subst hq'
          exact (ih q' o' false (flatten_or_false (n + 1) _ _ hE hb _ hrr)).2 rfl

end Tealer.Asserted
