/-
  Group-configuration verdict: model of `fill_group_relative_indexes` (tealer/execution_context/transactions.py) and of the
  verdict loop of `detect_missing_tx_field_validations_group_complete` (tealer/detectors/utils.py).
  The three contract-level questions the loop asks (contract_checks_its_field, contract_checks_txn_at_absolute_index,
  contract_checks_using_relative_index) are parameters here; their own model is `validatedInBlock` over leaf contexts
  (Detect.lean).  No imports beyond the model: the driver links this file.
-/
import TealerModel.Detect
namespace Tealer.Group

/-- configured offsets of one transaction: (offset, other transaction) -/
abbrev Offsets := List (Int × Nat)

/-- fill_group_relative_indexes: table[other] = list of (transaction, offset) with transaction.relative_indexes[offset] = other -/
def fillRelative (txns : List (Nat × Offsets)) (other : Nat) : List (Nat × Int) :=
  txns.flatMap fun (t, offs) => offs.filterMap fun (k, o) => if o == other then some (t, k) else none

/-- DetectorType of the callers of the loop: every detector that calls it is STATELESS or STATEFULL (for any other type
    the loop would report the group with no transaction listed; no caller has one, and the harness does not generate one) -/
inductive DetType | stateless | stateful
  deriving DecidableEq, Repr

/-- one configured transaction of a group -/
structure GTxn where
  id : Nat
  hasLogicSig : Bool          -- txn.has_logic_sig (the configuration may declare a logic-sig without giving its contract)
  lsContract : Bool           -- txn.logic_sig is not None
  hasApp : Bool               -- txn.application is not None
  typeOk : Bool               -- vulnerable_transaction_types is None or txn.type in it
  absIndex : Option Nat
  offsets : Offsets

/-- answers of the three contract-level questions; the Bool selects the application (true) or the logic-sig (false) -/
structure Answers where
  own : Nat → Bool → Bool            -- contract_checks_its_field(contract of txn)
  atAbs : Nat → Bool → Nat → Bool    -- contract_checks_txn_at_absolute_index(contract of other, index)
  atRel : Nat → Bool → Int → Bool    -- contract_checks_using_relative_index(contract of other, offset)

def eligible (det : DetType) (t : GTxn) : Bool :=
  !(det == .stateless && !t.hasLogicSig) && !(det == .stateful && !t.hasApp) && t.typeOk

/-- some contract of `o` answers yes -/
def anyContract (o : GTxn) (q : Bool → Bool) : Bool :=
  (o.lsContract && q false) || (o.hasApp && q true)

def clearedOwn (a : Answers) (t : GTxn) : Bool := anyContract t (a.own t.id)

def clearedAbs (a : Answers) (txns : List GTxn) (t : GTxn) : Bool :=
  match t.absIndex with
  | none => false
  | some i => txns.any fun o => anyContract o (fun app => a.atAbs o.id app i)

def clearedRel (a : Answers) (txns : List GTxn) (t : GTxn) : Bool :=
  (fillRelative (txns.map fun o => (o.id, o.offsets)) t.id).any fun (oid, k) =>
    match txns.find? (·.id == oid) with
    | some o => anyContract o (fun app => a.atRel o.id app k)
    | none => false

def cleared (a : Answers) (txns : List GTxn) (t : GTxn) : Bool :=
  clearedOwn a t || clearedAbs a txns t || clearedRel a txns t

/-- the transactions the loop reports for one group -/
def groupVerdict (det : DetType) (a : Answers) (txns : List GTxn) : List Nat :=
  (txns.filter fun t => eligible det t && !cleared a txns t).map (·.id)

/-- what the verdict loop looks at for one eligible transaction (flattened view used by the older statement) -/
structure Checks where
  ownLogicSig : Option Bool          -- contract_checks_its_field(logic_sig), when there is one
  ownApplication : Option Bool
  absoluteIndex : Option Nat
  othersAbsolute : List Bool         -- contract_checks_txn_at_absolute_index for the other members' contracts
  othersRelative : List Bool         -- contract_checks_using_relative_index along the configured offsets

/-- detect_missing_tx_field_validations_group_complete for one eligible transaction: vulnerable unless cleared -/
def vulnerable (c : Checks) : Bool :=
  !(c.ownLogicSig == some true) && !(c.ownApplication == some true) &&
  !(c.absoluteIndex.isSome && c.othersAbsolute.any id) && !(c.othersRelative.any id)

/-- leaf criterion: a contract "checks the field" iff every leaf block of the function is validated -/
def contractChecks (leaves : List BlockCtx) (chk : Ctx → Bool) (absoluteIndex : Option Nat) : Bool :=
  leaves.all fun c => validatedInBlock chk c absoluteIndex

end Tealer.Group
