/-
  MODEL of tealer/teal/parse_functions.py (copy_main_cfg, construct_function), tealer/teal/functions.py
  and the global-graph helpers of tealer/utils/analyses.py.
-/
import TealerModel.Cfg
namespace Tealer

/-- node keys inside a function: copies of main blocks keep their idx, shared subroutine blocks are
    offset, error blocks are numbered from `errOff` -/
def subOff : Nat := 1048576
def errOff : Nat := 1073741824

structure FBlock where
  key : Nat
  idx : Nat
  ins : List Ins
  next : List Nat
  prev : List Nat
  sub : String
  exitNexts : Nat := 0
deriving Repr, Inhabited, DecidableEq

structure FSub where
  name : String
  entry : Nat
  blocks : List Nat
  retsubs : List Nat         -- Subroutine.retsub_blocks
  callers : List Nat         -- Function.caller_blocks(sub)
  retPoints : List Nat       -- Function.return_point_blocks(sub)
deriving Repr, Inhabited, DecidableEq

structure Function where
  blocks : List FBlock       -- Function.blocks (main copy first, then used subroutines)
  entry : Nat
  main : FSub
  subs : List FSub
  intcs : Option (List Nat)
  tealSubs : List (String × Nat) := []   -- every subroutine of the contract: name, key of its entry block
deriving Repr, Inhabited

def Function.block? (f : Function) (k : Nat) : Option FBlock := f.blocks.find? (·.key == k)

def Function.blockE (f : Function) (k : Nat) : Except Err FBlock :=
  match f.block? k with
  | some b => .ok b
  | none => .error "KeyError"

def FBlock.exitOp (b : FBlock) : Option Op := b.ins.getLast?.map (·.op)
def FBlock.isCallsub (b : FBlock) : Bool := match b.exitOp with | some (.callsub _) => true | _ => false
def FBlock.isRetsub (b : FBlock) : Bool := b.exitOp == some .retsub
def FBlock.calledSub (b : FBlock) : Option String := match b.exitOp with | some (.callsub l) => some l | _ => none

/-- leaf_block_global -/
def FBlock.isLeaf (b : FBlock) : Bool := b.next.length == 0 && !b.isRetsub && !b.isCallsub

/-- BasicBlock.sub_return_point of a callsub block -/
def FBlock.retPoint (b : FBlock) : Option Nat := b.next.head?

def Function.sub? (f : Function) (name : String) : Option FSub :=
  if name == f.main.name then some f.main else f.subs.find? (·.name == name)

/-- BasicBlock.callsub_block: the first predecessor that ends in callsub -/
def Function.callsubBlockOf (f : Function) (b : FBlock) : Option Nat :=
  b.prev.find? fun p => match f.block? p with | some pb => pb.isCallsub | none => false

def Function.isRetPoint (f : Function) (b : FBlock) : Bool := (f.callsubBlockOf b).isSome

/-- next_blocks_global -/
def Function.nextGlobal (f : Function) (b : FBlock) : Except Err (List Nat) :=
  if b.isRetsub then
    -- function.return_point_blocks(block.subroutine): KeyError when the retsub sits in the main code
    match f.subs.find? (·.name == b.sub) with
    | some s => .ok s.retPoints
    | none => .error "KeyError"
  else if b.isCallsub then
    match b.calledSub.bind fun n => f.subs.find? (·.name == n) with
    | some s => .ok [s.entry]
    | none => .error "KeyError"
  else .ok b.next

/-- prev_blocks_global -/
def Function.prevGlobal (f : Function) (b : FBlock) : Except Err (List Nat) :=
  -- `block == block.subroutine.entry`; a block owned by the contract's own `__main__` (shared between the
  -- main code and a subroutine) is compared with the original entry block, which is never in the function
  let entrySub : Option FSub := match f.sub? b.sub with
    | some s => if s.entry == b.key then some s else none
    | none => none
  -- entry block of a subroutine the function does not use: `function.caller_blocks(sub)` raises KeyError
  let foreignEntry : Bool := (f.sub? b.sub).isNone && f.tealSubs.any fun (n, e) => n == b.sub && e == b.key
  if foreignEntry then .error "KeyError" else
  match entrySub with
  | some s => if s.name != f.main.name then .ok s.callers else .ok []
  | none =>
    match f.callsubBlockOf b with
    | some c =>
      match (f.block? c).bind (·.calledSub) |>.bind fun n => f.subs.find? (·.name == n) with
      | some cs => .ok cs.retsubs
      | none => .error "KeyError"
    | none => .ok b.prev

/-- copy_main_cfg: re-run passes 1-4 on the instructions of the main blocks and transfer idx -/
def copyMainCfg (t : Teal) : Except Err (List FBlock) := do
  let origIdx := (t.main.blocks.mergeSort (· ≤ ·))
  let ins := origIdx.flatMap fun i => (t.allBlocks[i]!).ins
  if ins.isEmpty then .error "IndexError"
  let nexts ← insNext ins
  let (blocks, dflt) := createBB ins nexts
  let bs0 : List RawBlock := blocks.map fun b => { ins := b }
  let bs1 := dflt.foldl (fun bs (a, b) => addEdge bs a b) bs0
  let bs ← fourthPass blocks nexts bs1
  -- zip(copies, originals): copies beyond the originals keep idx 0
  let idxOf (c : Nat) : Nat := origIdx[c]?.getD 0
  pure ((bs.zipIdx).map fun (b, c) =>
    { key := idxOf c, idx := idxOf c, ins := b.ins.filterMap (ins[·]?),
      next := b.next.map idxOf, prev := b.prev.map idxOf, sub := mainName,
      exitNexts := match b.ins.getLast? with | some ex => (nexts[ex]!).length | none => 0 })

def identifyF (bs : List FBlock) (entry : Nat) : List Nat :=
  let nextOf (k : Nat) : List Nat := match bs.find? (·.key == k) with | some b => b.next | none => []
  let rec go (fuel : Nat) (stack out : List Nat) : List Nat :=
    match fuel with
    | 0 => out
    | fuel + 1 =>
      match stack.getLast? with
      | none => out
      | some bb =>
        let stack := stack.dropLast
        let out := out ++ [bb]
        let stack := (nextOf bb).foldl (fun st nb =>
          if !out.contains nb && !st.contains nb then st ++ [nb] else st) stack
        go fuel stack out
  go (bs.length + 1) [entry] []

def updBlock (bs : List FBlock) (k : Nat) (f : FBlock → FBlock) : List FBlock :=
  bs.map fun b => if b.key == k then f b else b

/-- replace element at position j of a list -/
def setAt (l : List α) (j : Nat) (x : α) : List α := l.set j x

/-- construct_function(teal, dispatch_path) -/
def constructFunction (t : Teal) (path : List Nat) : Except Err Function := do
  let copies ← copyMainCfg t
  let entry0 ← match copies.head? with | some b => pure b.key | none => .error "IndexError"
  -- resolve the dispatch path
  let (pathBlocks, _) ← path.foldlM (init := (([] : List Nat), [entry0])) fun (acc, valid) bid => do
    match valid.find? fun k => (copies.find? (·.key == k)).map (·.idx) == some bid with
    | some k =>
      if acc.contains k then .error "TealerException"
      else
        let nx := match copies.find? (·.key == k) with | some b => b.next | none => []
        pure (acc ++ [k], nx)
    | none => .error "TealerException"
  -- off-path successors become error blocks
  let steps := pathBlocks.zip (pathBlocks.drop 1)
  let (blocks, _) ← steps.foldlM (init := (copies, 0)) fun (bs, cnt) (bi, valid) => do
    let b ← match bs.find? (·.key == bi) with | some b => pure b | none => .error "KeyError"
    ((b.next.zipIdx)).foldlM (init := (bs, cnt)) fun (bs, cnt) (bn, j) => do
      if bn == valid then pure (bs, cnt) else
      let nb ← match bs.find? (·.key == bn) with | some b => pure b | none => .error "KeyError"
      let ek := errOff + cnt
      let exLine := match b.ins.getLast? with | some i => i.line | none => 0
      let enLine := match nb.ins.head? with | some i => i.line | none => 0
      let eb : FBlock := { key := ek, idx := (nb.idx <<< 16) + nb.idx,
                           ins := [{ line := (enLine <<< 16) + exLine, op := .customErr }],
                           next := [], prev := [bi], sub := "" }
      let np ← removeFirst nb.prev bi
      let bs := updBlock bs bi fun b => { b with next := setAt b.next j ek }
      let bs := updBlock bs bn fun b => { b with prev := np }
      pure (bs ++ [eb], cnt + 1)
  let entry ← match pathBlocks.head? with | some k => pure k | none => .error "IndexError"
  let mainKeys := identifyF blocks entry
  let fmainName := mainName ++ "." ++ "_".intercalate (path.map fun i => "B" ++ toString i)
  -- shared subroutine blocks, keyed with the offset
  let subBlock (s : Sub) (i : Nat) : FBlock :=
    let b := t.allBlocks[i]!
    { key := i + subOff, idx := i, ins := b.ins, next := b.next.map (· + subOff),
      prev := b.prev.map (· + subOff), sub := b.sub.getD s.name, exitNexts := b.exitNexts }
  let calledBy (keys : List Nat) (bs : List FBlock) : List String :=
    (keys.filterMap fun k => (bs.find? (·.key == k)).bind (·.calledSub)).eraseDups
  -- used-subroutine closure (worklist)
  let rec closure (fuel : Nat) (work : List (List String)) (used : List String) : List String :=
    match fuel, work with
    | 0, _ => used
    | _, [] => used
    | fuel + 1, calls :: rest =>
      let fresh := calls.filter fun n => !used.contains n
      let used := used ++ fresh.eraseDups
      let more := fresh.eraseDups.map fun n =>
        match t.subs.find? (·.name == n) with
        | some s => calledBy (s.blocks.map (· + subOff)) (s.blocks.map (subBlock s))
        | none => []
      closure fuel (rest ++ more) used
  let usedNames := closure (t.subs.length + 2) [calledBy mainKeys blocks] []
  let usedSubs ← usedNames.mapM fun n =>
    match t.subs.find? (·.name == n) with | some s => pure s | none => .error "AttributeError"
  let mainBlocksF := mainKeys.filterMap fun k => blocks.find? (·.key == k)
  -- predecessors that are not part of the function are dropped (repaired in /repo, known_findings F15 "fixed")
  let mainBlocksF := mainBlocksF.map fun b => { b with sub := fmainName, prev := b.prev.filter mainKeys.contains }
  let allBlocks := mainBlocksF ++ usedSubs.flatMap fun s => s.blocks.map (subBlock s)
  let callersOf (name : String) : List Nat :=
    (allBlocks.filter fun b => b.calledSub == some name).map (·.key)
  let retPts (cs : List Nat) : List Nat :=
    cs.filterMap fun c => match allBlocks.find? (·.key == c) with
      | some b => if b.next.length == 1 then b.next.head? else none
      | none => none
  let fsubs := usedSubs.map fun s =>
    let callers := callersOf s.name
    { name := s.name, entry := s.entry + subOff, blocks := s.blocks.map (· + subOff),
      retsubs := (s.exits.filter fun b => (t.allBlocks[b]!).ins.getLast?.map (·.op) == some .retsub).map (· + subOff),
      callers, retPoints := retPts callers : FSub }
  let fmain : FSub := { name := fmainName, entry, blocks := mainKeys,
                        retsubs := (mainBlocksF.filter (·.isRetsub)).map (·.key), callers := [], retPoints := [] }
  pure { blocks := allBlocks, entry, main := fmain, subs := fsubs, intcs := t.intcs,
         tealSubs := t.subs.map fun s => (s.name, s.entry + subOff) }

end Tealer
