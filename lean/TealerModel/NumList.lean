/-
  MODEL of tealer/printers/transaction_context.py `PrinterTransactionContext._repr_num_list`: the short notation in which the
  transaction-context printer annotates a block with its group indices / group sizes (`0 2 5..9`).  Import-free (used by the driver).
-/
namespace Tealer.NumList

/-- the `sequences` list of lists: maximal runs of consecutive numbers, in order -/
def groupRuns : List Nat → List (List Nat)
  | [] => []
  | x :: xs =>
    match groupRuns xs with
    | (y :: ys) :: rest => if y = x + 1 then (x :: y :: ys) :: rest else [x] :: (y :: ys) :: rest
    | _ => [[x]]

inductive Tok
  | single (n : Nat)
  | range (a b : Nat)          -- printed `a..b`
deriving DecidableEq, Repr

/-- a run of four or more is abbreviated -/
def runToks (r : List Nat) : List Tok :=
  if r.length ≥ 4 then [.range (r.headD 0) (r.getLastD 0)] else r.map .single

def toks (l : List Nat) : List Tok := (groupRuns l).flatMap runToks

def Tok.render : Tok → String
  | .single n => toString n
  | .range a b => toString a ++ ".." ++ toString b

/-- `_repr_num_list(values)` for values already sorted (the Python sorts first) -/
def repr (l : List Nat) : String := " ".intercalate ((toks l).map Tok.render)

/-- what a reader understands by the notation -/
def Tok.expand : Tok → List Nat
  | .single n => [n]
  | .range a b => List.range' a (b - a + 1)

def denote (ts : List Tok) : List Nat := ts.flatMap Tok.expand

end Tealer.NumList
