/-
  MODEL of the four transaction-field analyses' value domains and leaf matchers:
  int_fields.py (GroupIndices), txn_types.py (TxnType), addr_fields.py (AddrFields), fee_field.py (FeeField).
  The lattice operations and operator tables that are also *regenerated from the Python source* live in
  TealerModel/Generated/*.lean; `Props/Tie.lean` proves the two agree.
-/
import TealerModel.Ast
import TealerModel.OSet
namespace Tealer

/-- interface of a value domain as used by generic.py -/
structure Domain (D : Type) where
  null : D
  union : D → D → D
  inter : D → D → D

/-- an analysis = a domain + its keys + its `_get_asserted_single` -/
structure Analysis (D : Type) [DecidableEq D] where
  name : String
  dom : Domain D
  univ : String → D            -- `_universal_set(key)`, by base key
  baseKeys : List String
  keysWithGtxn : List String
  single : Option (List Nat) → Ast → Key → Nat → D × D
  raises : Option (List Nat) → Ast → Key → Nat → Bool := fun _ _ _ _ => false

def MAX_GROUP_SIZE : Nat := 16
def MAX_UINT64 : Nat := 18446744073709551615
def MAX_TRANSACTION_COST : Nat := 272000

/-! ### GroupSize / GroupIndex : sets of naturals -/

abbrev NatSet := List Nat

def sizesU : NatSet := (List.range MAX_GROUP_SIZE).map (· + 1)
def indicesU : NatSet := List.range MAX_GROUP_SIZE

def intUniv (base : String) : NatSet := if base == "GroupSize" then sizesU else indicesU

/-- int_fields._get_asserted_int_values -/
def assertedIntValues (c : Cmp) (n : Nat) (U : NatSet) : NatSet :=
  match c with
  | .eq => [n]
  | .neq => U.filter (· != n)
  | .lt => U.filter (· < n)
  | .le => U.filter (· ≤ n)
  | .gt => U.filter (· > n)
  | .ge => U.filter (· ≥ n)

/-- `_get_asserted_groupsizes` / `_get_asserted_groupindices` -/
def intSingle (intcs : Option (List Nat)) (a : Ast) (key : Key) (p : Nat) : NatSet × NatSet :=
  let U := intUniv key.base
  let isField (op : Op) : Bool :=
    if key.base == "GroupSize" then op == .global "GroupSize" else op == .txn "GroupIndex"
  match a.opOf p, a.argsOf p with
  | .cmp c, [some (p1, _), some (p2, _)] =>
    let op1 := a.opOf p1
    let op2 := a.opOf p2
    -- compared_value: from the other operand when it pushes an int; must be an `int`, not a name
    let cv : Option (Nat × Bool) :=          -- (constant, field is the second operand)
      if isField op1 then (intLit intcs op2).map (·, false)
      else if isField op2 then (intLit intcs op1).map (·, true)
      else none
    match cv with
    | none => (U, U)
    | some (n, swapped) =>
      -- NOT mirrored when the field is the second operand (known finding F02; pinned by tests/transaction_context)
      let _ := swapped
      let t := OSet.ofList (assertedIntValues c n U)
      (t, OSet.diff U t)
  | _, _ => (U, U)

def natSetDomain : Domain NatSet :=
  { null := [], union := OSet.union, inter := OSet.inter }

/-! ### Transaction types -/

namespace TT
def Pay : Nat := 0x10
def KeyReg : Nat := 0x20
def Acfg : Nat := 0x30
def Axfer : Nat := 0x40
def Afrz : Nat := 0x50
def ApplNoOp : Nat := 0x60
def ApplOptIn : Nat := 0x61
def ApplCloseOut : Nat := 0x62
def ApplClearState : Nat := 0x63
def ApplUpdateApplication : Nat := 0x64
def ApplDeleteApplication : Nat := 0x65
def ApplCreation : Nat := 0x66
def Appl : Nat := 0x67
end TT

def ALL_TRANSACTION_TYPES : NatSet :=
  OSet.ofList [TT.Pay, TT.KeyReg, TT.Acfg, TT.Axfer, TT.Appl, TT.ApplNoOp, TT.ApplOptIn, TT.ApplCloseOut,
    TT.ApplClearState, TT.ApplUpdateApplication, TT.ApplDeleteApplication, TT.ApplCreation]
def APPLICATION_TRANSACTION_TYPES : NatSet :=
  OSet.ofList [TT.ApplNoOp, TT.ApplOptIn, TT.ApplCloseOut, TT.ApplClearState, TT.ApplUpdateApplication,
    TT.ApplDeleteApplication, TT.ApplCreation]
def TYPEENUM_TRANSACTION_TYPES : NatSet :=
  OSet.ofList [TT.Pay, TT.KeyReg, TT.Acfg, TT.Axfer, TT.Afrz, TT.Appl]

/-- teal_enums.oncompletion_to_tealer_type; `none` = Python raises KeyError -/
def oncompletionToType : IntVal → Option Nat
  | .lit 0 | .named "NoOp" => some TT.ApplNoOp
  | .lit 1 | .named "OptIn" => some TT.ApplOptIn
  | .lit 2 | .named "CloseOut" => some TT.ApplCloseOut
  | .lit 3 | .named "ClearState" => some TT.ApplClearState
  | .lit 4 | .named "UpdateApplication" => some TT.ApplUpdateApplication
  | .lit 5 | .named "DeleteApplication" => some TT.ApplDeleteApplication
  | _ => none

/-- teal_enums.transaction_type_to_tealer_type -/
def typeToType : IntVal → Option Nat
  | .lit 1 | .named "pay" => some TT.Pay
  | .lit 2 | .named "keyreg" => some TT.KeyReg
  | .lit 3 | .named "acfg" => some TT.Acfg
  | .lit 4 | .named "axfer" => some TT.Axfer
  | .lit 5 | .named "afrz" => some TT.Afrz
  | .lit 6 | .named "appl" => some TT.Appl
  | _ => none

/-- result of the leaf matcher, or the Python exception it raises -/
inductive SingleRes (D : Type)
  | ok (t f : D)
  | raise (e : String)

/-- txn_types._get_asserted_transaction_types.  `KeyError` (comparison of TypeEnum / OnCompletion with an
    integer or name outside the tables) is modelled by `none`. -/
def txnTypeSingleE (intcs : Option (List Nat)) (a : Ast) (key : Key) (p : Nat) : Option (NatSet × NatSet) :=
  let U := ALL_TRANSACTION_TYPES
  let creation := [TT.ApplCreation]
  let notCreation := OSet.diff APPLICATION_TRANSACTION_TYPES creation
  let m (r : Ref) (fld : String) : Bool := valueMatchesKey intcs a key r (some fld)
  if m (some (p, 0)) "ApplicationID" then some (notCreation, creation) else
  match a.opOf p, a.argsOf p with
  | .not, [arg] =>
    match arg with
    | none => some (U, U)
    | some _ => if m arg "ApplicationID" then some (creation, notCreation) else some (U, U)
  | .cmp c, [arg1, arg2] =>
    if c != .eq && c != .neq then some (U, U) else
    match arg1, arg2 with
    | some (p1, _), some (p2, _) =>
      let i2 := intPush intcs (a.opOf p1)
      let i3 := intPush intcs (a.opOf p2)
      if i2.isSome == i3.isSome then some (U, U) else
      let v2 : Option IntVal := i2.join
      let v3 : Option IntVal := i3.join
      -- ApplicationID == 0
      let r0 : Option (NatSet × NatSet) :=
        if m arg1 "ApplicationID" && v3.isSome then
          (if v3 == some (.lit 0) then some (creation, notCreation) else none)
        else if m arg2 "ApplicationID" && v2.isSome then
          (if v2 == some (.lit 0) then some (creation, notCreation) else none)
        else none
      -- TypeEnum == t
      let r1 : Option (Option (NatSet × NatSet)) :=      -- outer none = KeyError
        if m arg1 "TypeEnum" && v3.isSome then
          (match v3.bind typeToType with
           | some t => some (some ([t], OSet.diff TYPEENUM_TRANSACTION_TYPES [t]))
           | none => none)
        else if m arg2 "TypeEnum" && v2.isSome then
          (match v2.bind typeToType with
           | some t => some (some ([t], OSet.diff TYPEENUM_TRANSACTION_TYPES [t]))
           | none => none)
        else some r0
      match r1 with
      | none => none
      | some r1 =>
      let r2 : Option (Option (NatSet × NatSet)) :=
        if m arg1 "OnCompletion" && v3.isSome then
          (match v3.bind oncompletionToType with
           | some t => some (some ([t], OSet.diff APPLICATION_TRANSACTION_TYPES [t]))
           | none => none)
        else if m arg2 "OnCompletion" && v2.isSome then
          (match v2.bind oncompletionToType with
           | some t => some (some ([t], OSet.diff APPLICATION_TRANSACTION_TYPES [t]))
           | none => none)
        else some r1
      match r2 with
      | none => none
      | some none => some (U, U)
      | some (some (t, f)) => if c == .eq then some (t, f) else some (f, t)
    | _, _ => some (U, U)
  | _, _ => some (U, U)

def txnTypeSingle (intcs : Option (List Nat)) (a : Ast) (key : Key) (p : Nat) : NatSet × NatSet :=
  (txnTypeSingleE intcs a key p).getD (ALL_TRANSACTION_TYPES, ALL_TRANSACTION_TYPES)

/-! ### Address fields -/

abbrev AddrSet := List String

def ANY_ADDRESS : String := "ANY_ADDRESS"
def NO_ADDRESS : String := "NO_ADDRESS"
def SOME_ADDRESS : String := "SOME_ADDRESS"
def CREATOR_ADDRESS : String := "CREATOR_ADDRESS"
def ZERO_ADDRESS : String := "AAAAAAAAAAAAAAAAAAAAAAAAAAAAAAAAAAAAAAAAAAAAEVAL4QAJS7JHB4"

def addrUniv : AddrSet := [ANY_ADDRESS]
def addrNull : AddrSet := [NO_ADDRESS]

/-- addr_fields.AddrFields._union -/
def addrUnion (a b : AddrSet) : AddrSet :=
  if a.contains ANY_ADDRESS || b.contains ANY_ADDRESS then addrUniv
  else if a.contains NO_ADDRESS && b.contains NO_ADDRESS then addrNull
  else if a.contains NO_ADDRESS then b
  else if b.contains NO_ADDRESS then a
  else OSet.union a b

/-- addr_fields.AddrFields._intersection -/
def addrInter (a b : AddrSet) : AddrSet :=
  if a.contains NO_ADDRESS || b.contains NO_ADDRESS then addrNull
  else if a.contains ANY_ADDRESS && b.contains ANY_ADDRESS then addrUniv
  else if a.contains ANY_ADDRESS then b
  else if b.contains ANY_ADDRESS then a
  else OSet.inter a b

def addrDomain : Domain AddrSet :=
  { null := addrNull, union := addrUnion, inter := addrInter }

/-- addr_fields._get_asserted_address -/
def assertedAddress (op : Op) (text : String) : AddrSet :=
  match op with
  | .global "ZeroAddress" => addrNull
  | .addr a => if a == ZERO_ADDRESS then addrNull else [a]
  | .global "CreatorAddress" => [CREATOR_ADDRESS]
  | _ => [SOME_ADDRESS ++ "_" ++ text]

/-- addr_fields._get_asserted_txn_gtxn -/
def addrSingle (intcs : Option (List Nat)) (a : Ast) (key : Key) (p : Nat) : AddrSet × AddrSet :=
  let U := addrUniv
  match a.opOf p, a.argsOf p with
  | .cmp c, [arg1, arg2] =>
    if c != .eq && c != .neq then (U, U) else
    let m (r : Ref) : Bool := valueMatchesKey intcs a key r
    let asserted : Option AddrSet :=
      match arg1, arg2 with
      | none, none => none
      | none, some _ => if m arg2 then some [SOME_ADDRESS] else none
      | some _, none => if m arg1 then some [SOME_ADDRESS] else none
      | some (p1, _), some (p2, _) =>
        if m arg1 then some (assertedAddress (a.opOf p2) (a.textOf p2))
        else if m arg2 then some (assertedAddress (a.opOf p1) (a.textOf p1))
        else none
    match asserted with
    | none => (U, U)
    | some s => if c == .eq then (s, U) else (U, s)
  | _, _ => (U, U)

/-! ### Fee -/

structure FeeValue where
  isUnknown : Bool := false
  value : Nat := MAX_UINT64
deriving DecidableEq, Repr, Inhabited

def feeUniv : FeeValue := {}
def feeNull : FeeValue := { value := 0 }

/-- fee_field.FeeField._union -/
def feeUnion (a b : FeeValue) : FeeValue :=
  if a.isUnknown && b.isUnknown then a
  else if a.isUnknown then (if b.value > MAX_TRANSACTION_COST then b else a)
  else if b.isUnknown then (if a.value > MAX_TRANSACTION_COST then a else b)
  else if a.value > b.value then a else b

/-- fee_field.FeeField._intersection -/
def feeInter (a b : FeeValue) : FeeValue :=
  if a.isUnknown && b.isUnknown then a
  else if a.isUnknown then (if b.value > MAX_TRANSACTION_COST then a else b)
  else if b.isUnknown then (if a.value > MAX_TRANSACTION_COST then b else a)
  else if a.value < b.value then a else b

def feeDomain : Domain FeeValue :=
  { null := feeNull, union := feeUnion, inter := feeInter }

/-- fee_field.FeeField._get_asserted_max_value -/
def feeAssertedMax (c : Cmp) (cv : FeeValue) : FeeValue × FeeValue :=
  match c with
  | .eq => (cv, feeUniv)
  | .neq => (feeUniv, cv)
  | .lt => if cv.isUnknown then (cv, feeUniv) else ({ value := cv.value - 1 }, feeUniv)
  | .le => (cv, feeUniv)
  | .gt => (feeUniv, cv)
  | .ge => if cv.isUnknown then (feeUniv, cv) else (feeUniv, { value := cv.value - 1 })

/-- fee_field.FeeField._get_asserted_fee -/
def feeSingle (intcs : Option (List Nat)) (a : Ast) (key : Key) (p : Nat) : FeeValue × FeeValue :=
  let U := feeUniv
  let unk : FeeValue := { isUnknown := true }
  match a.opOf p, a.argsOf p with
  | .cmp c, [arg1, arg2] =>
    let m (r : Ref) : Bool := valueMatchesKey intcs a key r
    let cvOf (q : Nat) : FeeValue :=
      match intLit intcs (a.opOf q) with
      | some n => { value := n }
      | none => unk
    let cv : Option (FeeValue × Bool) :=     -- (compared value, field is the second operand)
      match arg1, arg2 with
      | none, none => none
      | none, some _ => if m arg2 then some (unk, true) else none
      | some _, none => if m arg1 then some (unk, false) else none
      | some (p1, _), some (p2, _) =>
        if m arg1 then some (cvOf p2, false)
        else if m arg2 then some (cvOf p1, true)
        else none
    match cv with
    | none => (U, U)
    | some (v, swapped) => feeAssertedMax (if swapped then c.mirror else c) v
  | _, _ => (U, U)

/-! ### the four analyses -/

def groupIndicesAnalysis : Analysis NatSet :=
  { name := "GroupIndices", dom := natSetDomain, univ := intUniv, baseKeys := ["GroupSize", "GroupIndex"],
    keysWithGtxn := [], single := intSingle }
def txnTypeAnalysis : Analysis NatSet :=
  { name := "TxnType", dom := natSetDomain, univ := fun _ => ALL_TRANSACTION_TYPES,
    baseKeys := ["TransactionType"], keysWithGtxn := ["TransactionType"], single := txnTypeSingle,
    raises := fun ic a k p => (txnTypeSingleE ic a k p).isNone }
def addrAnalysis : Analysis AddrSet :=
  { name := "AddrFields", dom := addrDomain, univ := fun _ => addrUniv,
    baseKeys := ["RekeyTo", "CloseRemainderTo", "AssetCloseTo", "Sender"],
    keysWithGtxn := ["RekeyTo", "CloseRemainderTo", "AssetCloseTo", "Sender"], single := addrSingle }
def feeAnalysis : Analysis FeeValue :=
  { name := "FeeField", dom := feeDomain, univ := fun _ => feeUniv, baseKeys := ["Fee"],
    keysWithGtxn := ["Fee"], single := feeSingle }

end Tealer
