/-
  MODEL of the `_store_results` methods, tealer/teal/context/block_transaction_context.py,
  tealer/detectors/utils.py (validated_in_block, search_paths) and the nine detectors' predicates.
-/
import TealerModel.Generic
namespace Tealer

structure AddrFV where
  any : Bool := true
  no : Bool := false
  addrs : List String := []
deriving DecidableEq, Repr, Inhabited

/-- the fields of a BlockTransactionContext that detectors read -/
structure Ctx where
  isGtxn : Bool := false
  sizes : NatSet := sizesU
  indices : NatSet := indicesU
  types : NatSet := ALL_TRANSACTION_TYPES
  rekeyto : AddrFV := {}
  closeto : AddrFV := {}
  assetcloseto : AddrFV := {}
  sender : AddrFV := {}
  maxFee : Nat := MAX_UINT64
  maxFeeUnknown : Bool := false
deriving DecidableEq, Repr, Inhabited

def tailCtx : Ctx := { isGtxn := true, sizes := [], indices := [] }

structure BlockCtx where
  self : Ctx := {}
  atIndex : List Ctx := List.replicate MAX_GROUP_SIZE tailCtx
  abs : List Ctx := List.replicate MAX_GROUP_SIZE tailCtx
  rel : List (Int × Ctx) := relOffsets.map fun k => (k, tailCtx)
deriving Repr, Inhabited

def BlockCtx.gtxn (c : BlockCtx) (i : Nat) : Ctx := c.atIndex[i]?.getD tailCtx
def BlockCtx.absolute (c : BlockCtx) (i : Nat) : Ctx := c.abs[i]?.getD tailCtx
def BlockCtx.relative (c : BlockCtx) (k : Int) : Ctx :=
  match c.rel.find? (·.1 == k) with | some (_, x) => x | none => tailCtx

/-- AddrFields._set_addr_values -/
def setAddr (s : AddrSet) : AddrFV :=
  { any := s.contains ANY_ADDRESS, no := s.contains NO_ADDRESS,
    addrs := s.filter fun x => x != ANY_ADDRESS && x != NO_ADDRESS }

/-- value of key `k` at block `b` in a solved analysis -/
def AnalysisResult.value {D : Type} (r : AnalysisResult D) (dflt : D) (key : Key) (b : Nat) : D :=
  match r.vals.find? (·.1 == key) with
  | none => dflt
  | some (_, m) => getMap m b dflt

/-- GroupIndices._store_results: indices are cut by the largest possible size -/
def storeIndices (sizes indices : NatSet) : NatSet :=
  let m := sizes.foldl max 0
  indices.filter (· < m)

structure Contexts where
  ctx : List (Nat × BlockCtx)

def Contexts.get (c : Contexts) (b : Nat) : BlockCtx := getMap c.ctx b {}

/-- run the four analyses in tealer's order (GroupIndices first) and store their results -/
def analyse (f : Function) : Except Err Contexts := do
  let gi ← runAnalysis groupIndicesAnalysis f (fun _ => [])
  let giv (key : String) (b : Nat) : NatSet := gi.value [] ⟨key, .self⟩ b
  let sizes (b : Nat) := giv "GroupSize" b
  let indices (b : Nat) := storeIndices (sizes b) (giv "GroupIndex" b)
  -- remaining analyses in `dir(all_constraints)` order: AddrFields, FeeField, TxnType
  let ad ← runAnalysis addrAnalysis f indices
  let fe ← runAnalysis feeAnalysis f indices
  let tt ← runAnalysis txnTypeAnalysis f indices
  let mk (kind : KeyKind) (b : Nat) (isSelf : Bool) : Ctx :=
    let a (base : String) : AddrFV := setAddr (ad.value addrNull ⟨base, kind⟩ b)
    let fee : FeeValue := fe.value feeNull ⟨"Fee", kind⟩ b
    { isGtxn := !isSelf,
      sizes := if isSelf then sizes b else [],
      indices := if isSelf then indices b else [],
      types := tt.value [] ⟨"TransactionType", kind⟩ b,
      rekeyto := a "RekeyTo", closeto := a "CloseRemainderTo", assetcloseto := a "AssetCloseTo",
      sender := a "Sender",
      maxFee := if fee.isUnknown then MAX_UINT64 else fee.value,
      maxFeeUnknown := fee.isUnknown }
  pure { ctx := f.blocks.map fun blk =>
    let b := blk.key
    (b, { self := mk .self b true,
          atIndex := (List.range MAX_GROUP_SIZE).map fun i => mk (.atIndex i) b false,
          abs := (List.range MAX_GROUP_SIZE).map fun i => mk (.abs i) b false,
          rel := relOffsets.map fun k => (k, mk (.rel k) b false) }) }

/-! ### detectors -/

inductive Detector
  | rekeyTo | canCloseAccount | canCloseAsset | feeCheck | isUpdatable | isDeletable
  | anyoneCanUpdate | anyoneCanDelete | groupSize
deriving DecidableEq, Repr, Inhabited

def Detector.name : Detector → String
  | .rekeyTo => "rekey-to" | .canCloseAccount => "can-close-account" | .canCloseAsset => "can-close-asset"
  | .feeCheck => "missing-fee-check" | .isUpdatable => "is-updatable" | .isDeletable => "is-deletable"
  | .anyoneCanUpdate => "unprotected-updatable" | .anyoneCanDelete => "unprotected-deletable"
  | .groupSize => "group-size-check"

def allDetectors : List Detector :=
  [.rekeyTo, .canCloseAccount, .canCloseAsset, .feeCheck, .isUpdatable, .isDeletable,
   .anyoneCanUpdate, .anyoneCanDelete, .groupSize]

/-- the detectors' `checks_field` predicates (True = the dangerous value is excluded) -/
def checksField (d : Detector) (c : Ctx) : Bool :=
  match d with
  | .rekeyTo => !c.rekeyto.any
  | .canCloseAccount => !(c.closeto.any && c.types.contains TT.Pay)
  | .canCloseAsset => !(c.assetcloseto.any && c.types.contains TT.Axfer)
  | .feeCheck => c.maxFeeUnknown || c.maxFee ≤ MAX_TRANSACTION_COST
  | .isUpdatable => !c.types.contains TT.ApplUpdateApplication
  | .isDeletable => !c.types.contains TT.ApplDeleteApplication
  | .anyoneCanUpdate => !(c.types.contains TT.ApplUpdateApplication && c.sender.any)
  | .anyoneCanDelete => !(c.types.contains TT.ApplDeleteApplication && c.sender.any)
  | .groupSize => if c.isGtxn then false else !c.sizes.contains MAX_GROUP_SIZE

/-- detectors/utils.py validated_in_block -/
def validatedInBlock (chk : Ctx → Bool) (c : BlockCtx) (absoluteIndex : Option Nat := none) : Bool :=
  if chk c.self then true else
  match absoluteIndex with
  | some i => chk (c.gtxn i)
  | none => c.self.indices.all fun i => chk (c.gtxn i)

/-- groupsize.py _accessed_using_absolute_index -/
def accessedUsingAbsoluteIndex (intcs : Option (List Nat)) (b : FBlock) : Bool :=
  let a := constructAst b.ins
  (b.ins.zipIdx).any fun (i, p) =>
    match i.op with
    | .gtxn _ _ | .gtxnImm _ => true
    | .gtxns _ | .gtxnStk _ =>
      match (a.argsOf p).head? with
      | some (some (q, _)) => (intPush intcs (a.opOf q)).isSome
      | _ => false
    | _ => false

structure DGraph where
  next : Nat → List Nat
  isLeaf : Nat → Bool
  isCallsub : Nat → Bool
  isRetsub : Nat → Bool
  calledSub : Nat → Option String
  subEntry : String → Option Nat
  retPoint : Nat → Option Nat
  validated : Nat → Bool

abbrev Frame := Option Nat × String

/-- results of the recursive calls on the successors, concatenated in order; `none` if any call raises -/
def collect (f : Nat → Option (List (List Nat))) : List Nat → Option (List (List Nat))
  | [] => some []
  | nb :: rest =>
    match f nb, collect f rest with
    | some r, some rs => some (r ++ rs)
    | _, _ => none

/-- detectors/utils.py search_paths; `none` = the Python raises (assert / KeyError).
    `fuel` bounds the recursion depth. -/
def searchPaths (g : DGraph) : Nat → Nat → List Nat → List Frame → List (List Nat) → Option (List (List Nat))
  | 0, _, _, _, _ => none
  | fuel + 1, bb, path, cs, exe =>
    if (exe.getLast?.getD []).contains bb then some [] else
    if g.validated bb then some [] else
    if g.isLeaf bb then some [path ++ [bb]] else
    let exe1 := exe.dropLast ++ [exe.getLast?.getD [] ++ [bb]]
    if g.isCallsub bb then
      match g.calledSub bb with
      | none => none
      | some s =>
        if (cs.map Prod.snd).contains s then some []
        else
          match g.subEntry s with
          | none => none
          | some e => searchPaths g fuel e (path ++ [bb]) (cs ++ [(some bb, s)]) (exe1 ++ [[]])
    else if g.isRetsub bb then
      match cs.getLast? with
      | some (some cb, _) =>
        match g.retPoint cb with
        | some rp => searchPaths g fuel rp (path ++ [bb]) cs.dropLast exe1.dropLast
        | none => some []
      | _ => none
    else collect (fun nb => searchPaths g fuel nb (path ++ [bb]) cs exe1) (g.next bb)

def mkDGraph (f : Function) (validated : Nat → Bool) : DGraph :=
  let blk (k : Nat) : FBlock := (f.block? k).getD default
  { next := fun k => (blk k).next
    isLeaf := fun k => (blk k).isLeaf
    isCallsub := fun k => (blk k).isCallsub
    isRetsub := fun k => (blk k).isRetsub
    calledSub := fun k => (blk k).calledSub
    subEntry := fun n => (f.subs.find? (·.name == n)).map (·.entry)
    retPoint := fun k => (blk k).retPoint
    validated }

/-- detect_missing_tx_field_validations for one detector; result = paths as lists of block idx -/
def detect (f : Function) (ctxs : Contexts) (d : Detector) (fuel : Nat) : Except Err (List (List Nat)) :=
  let g := mkDGraph f fun k => validatedInBlock (checksField d) (ctxs.get k)
  match searchPaths g fuel f.entry [] [(none, f.main.name)] [[]] with
  | none => .error "AssertionError"
  | some ps =>
    let idxOf (k : Nat) : Nat := ((f.block? k).map (·.idx)).getD k
    let ps := if d == .groupSize then
        ps.filter fun p => p.any fun k => accessedUsingAbsoluteIndex f.intcs ((f.block? k).getD default)
      else ps
    .ok (ps.map (·.map idxOf))

end Tealer
