/-
  C04 — The CFG is well-formed and over-approximates real control flow.
  Proved on the model of parse_teal's passes (Cfg.lean); the walk property of concrete executions is checked
  on every run by executing the Lean AVM semantics and walking the tool's graph (harness/engine.py).
-/
import TealerModel.Lemmas.Cfg
namespace Tealer.C04

/-- blocks partition the instructions in source order: concatenating the created blocks in creation order
    gives exactly the instruction positions 0 .. n-1 -/
theorem C04_partition (ins : List Ins) (nexts : List (List Nat)) (h : insNext ins = .ok nexts) :
    (createBB ins nexts).1.flatten = List.range ins.length :=
  CfgL.createBB_partition ins nexts (CfgL.insNext_length ins nexts h)

/-- edge order: a new edge goes to the END of the successor list of its source and of the predecessor list
    of its target; fall-through edges (third pass) are therefore listed before jump edges (fourth pass) -/
theorem C04_edge_order (bs : List RawBlock) (a b : Nat) (ha : a < bs.length) (hb : b < bs.length) :
    ((addEdge bs a b)[a]!).next = (bs[a]!).next ++ [b] ∧ ((addEdge bs a b)[b]!).prev = (bs[b]!).prev ++ [a] :=
  ⟨CfgL.addEdge_next bs a b ha, CfgL.addEdge_prev bs a b hb⟩

/-- pruning removes EVERY edge of an unreachable block (repaired in /repo: the loop used to remove from the list it was
    iterating and skipped every other successor, known_findings F09 "fixed").  Regression witness: a dead block with
    two live successors -/
def staleWitness : List Ins :=
  [⟨1, .b "main", ""⟩, ⟨2, .label "dead", ""⟩, ⟨3, .int (.lit 1), ""⟩, ⟨4, .bnz "x", ""⟩,
   ⟨5, .label "main", ""⟩, ⟨6, .int (.lit 1), ""⟩, ⟨7, .label "x", ""⟩, ⟨8, .ret, ""⟩]

theorem C04_prune_witness :
    ∀ t, parseTeal staleWitness = .ok t → ∀ b ∈ t.allBlocks, t.live.contains b.idx → ∀ p ∈ b.prev, t.live.contains p := by
  intro t ht
  have : t = (match parseTeal staleWitness with | .ok t => t | .error _ => default) := by rw [ht]
  subst this
  decide

/-- pruning one unreachable block leaves it without successors -/
theorem C04_prune_all (bs : List RawBlock) (bi : Nat) (bs' : List RawBlock) (h : pruneOne bs bi = .ok bs')
    (hbi : bi < bs.length) : (bs'[bi]!).next = [] := by
  unfold pruneOne at h
  simp only [bind, Except.bind] at h
  split at h
  · cases h
  · rename_i bs1 h1
    simp only [pure, Except.pure, Except.ok.injEq] at h
    subst h
    have hlen : bs1.length = bs.length := by
      -- the fold only rewrites `prev` fields
      have key : ∀ (vis : List Nat) (b0 b1 : List RawBlock),
          vis.foldlM (fun (bs : List RawBlock) (bn : Nat) => do
            let p ← removeFirst (bs[bn]!).prev bi
            pure ((bs.zipIdx).map fun (blk, id) => if id == bn then { blk with prev := p } else blk)) b0 = Except.ok b1 →
          b1.length = b0.length := by
        intro vis
        induction vis with
        | nil => intro b0 b1 h; simp [List.foldlM, pure, Except.pure] at h; subst h; rfl
        | cons v vs ih =>
          intro b0 b1 h
          simp only [List.foldlM, bind, Except.bind] at h
          split at h
          · cases h
          · rename_i b2 h2
            split at h2
            · cases h2
            · rename_i p hp
              simp only [pure, Except.pure, Except.ok.injEq] at h2
              subst h2
              have := ih _ _ h
              simpa using this
      exact key _ _ _ h1
    simp [hlen, hbi]

example : (createBB staleWitness ((insNext staleWitness).toOption.getD [])).1.flatten = List.range 8 := by decide

end Tealer.C04
