/-
  C04 — The CFG is well-formed and over-approximates real control flow.
  Proved on the model of parse_teal's passes (Cfg.lean); the walk property of concrete executions is checked
  on every run by executing the Lean AVM semantics and walking the tool's graph (harness/engine.py).
-/
import TealerModel.Lemmas.Cfg
namespace Tealer.C04

/-- blocks partition the instructions in source order: concatenating the created blocks in creation order
    gives exactly the instruction positions 0 .. n-1 -/
theorem C04_partition (ins : List Ins) (nexts : List (List Nat)) (h : insNext ins = .ok nexts) :
    (createBB ins nexts).1.flatten = List.range ins.length :=
  CfgL.createBB_partition ins nexts (CfgL.insNext_length ins nexts h)

/-- edge order: a new edge goes to the END of the successor list of its source and of the predecessor list
    of its target; fall-through edges (third pass) are therefore listed before jump edges (fourth pass) -/
theorem C04_edge_order (bs : List RawBlock) (a b : Nat) (ha : a < bs.length) (hb : b < bs.length) :
    ((addEdge bs a b)[a]!).next = (bs[a]!).next ++ [b] ∧ ((addEdge bs a b)[b]!).prev = (bs[b]!).prev ++ [a] :=
  ⟨CfgL.addEdge_next bs a b ha, CfgL.addEdge_prev bs a b hb⟩

/-- Python's "remove from the list being iterated" visits only every other element: the pruning loop therefore
    leaves a dead block's second successor with a stale predecessor (known finding F09) -/
theorem C04_prune_skips : (skipIter [10, 20]).1 = [10] ∧ (skipIter [10, 20]).2 = [20] := by decide

/-- concrete instance of F09: `b main; dead: int 1; bnz x; main: int 1; x: return` — after pruning, block
    x still lists the removed dead block as a predecessor -/
def staleWitness : List Ins :=
  [⟨1, .b "main", ""⟩, ⟨2, .label "dead", ""⟩, ⟨3, .int (.lit 1), ""⟩, ⟨4, .bnz "x", ""⟩,
   ⟨5, .label "main", ""⟩, ⟨6, .int (.lit 1), ""⟩, ⟨7, .label "x", ""⟩, ⟨8, .ret, ""⟩]

def C04_mirror_full : Prop :=
  ∀ t, parseTeal staleWitness = .ok t → ∀ b ∈ t.allBlocks, t.live.contains b.idx → ∀ p ∈ b.prev, t.live.contains p

theorem C04_mirror_full_false : ¬ C04_mirror_full := by
  intro h
  have := h _ rfl
  revert this; decide

example : (createBB staleWitness ((insNext staleWitness).toOption.getD [])).1.flatten = List.range 8 := by decide

end Tealer.C04
