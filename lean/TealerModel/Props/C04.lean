/-
  C04 — The CFG is well-formed and over-approximates real control flow.
  Proved on the model of parse_teal's passes (Cfg.lean); the walk property of concrete executions is checked
  on every run by executing the Lean AVM semantics and walking the tool's graph (harness/engine.py).
-/
import TealerModel.Lemmas.Cfg
import TealerModel.Lemmas.StepEdge
import TealerModel.Lemmas.Mirror
import TealerModel.Lemmas.BlockWalk
import TealerModel.Lemmas.ParseSubs
namespace Tealer.C04

/-- blocks partition the instructions in source order: concatenating the created blocks in creation order
    gives exactly the instruction positions 0 .. n-1 -/
theorem C04_partition (ins : List Ins) (nexts : List (List Nat)) (h : insNext ins = .ok nexts) :
    (createBB ins nexts).1.flatten = List.range ins.length :=
  CfgL.createBB_partition ins nexts (CfgL.insNext_length ins nexts h)

/-- edge order: a new edge goes to the END of the successor list of its source and of the predecessor list
    of its target; fall-through edges (third pass) are therefore listed before jump edges (fourth pass) -/
theorem C04_edge_order (bs : List RawBlock) (a b : Nat) (ha : a < bs.length) (hb : b < bs.length) :
    ((addEdge bs a b)[a]!).next = (bs[a]!).next ++ [b] ∧ ((addEdge bs a b)[b]!).prev = (bs[b]!).prev ++ [a] :=
  ⟨CfgL.addEdge_next bs a b ha, CfgL.addEdge_prev bs a b hb⟩

/-- pruning removes EVERY edge of an unreachable block (repaired in /repo: the loop used to remove from the list it was
    iterating and skipped every other successor, known_findings F09 "fixed").  Regression witness: a dead block with
    two live successors -/
def staleWitness : List Ins :=
  [⟨1, .b "main", ""⟩, ⟨2, .label "dead", ""⟩, ⟨3, .int (.lit 1), ""⟩, ⟨4, .bnz "x", ""⟩,
   ⟨5, .label "main", ""⟩, ⟨6, .int (.lit 1), ""⟩, ⟨7, .label "x", ""⟩, ⟨8, .ret, ""⟩]

theorem C04_prune_witness :
    ∀ t, parseTeal staleWitness = .ok t → ∀ b ∈ t.allBlocks, t.live.contains b.idx → ∀ p ∈ b.prev, t.live.contains p := by
  intro t ht
  have : t = (match parseTeal staleWitness with | .ok t => t | .error _ => default) := by rw [ht]
  subst this
  decide

/-- SUCCESSOR AND PREDECESSOR LISTS MIRROR EACH OTHER AND NEVER NAME A BLOCK OUTSIDE THE GRAPH — for every program the
    model's `parseTeal` accepts, on the final block list (after the pruning of unreachable blocks):
    * `b` occurs in `next a` exactly as often as `a` occurs in `prev b`;
    * every successor is a block of the list;
    * a block that is not retained has no successor and is named in no predecessor list (the repaired pruning loop, F09);
    * a retained block has the successor list of the graph of passes 3-4 — the graph of `C05_blocks_are_closure`. -/
theorem C04_mirror_wellformed (ins : List Ins) (t : Teal) (h : parseTeal ins = .ok t) :
    ∃ nexts bs, insNext ins = .ok nexts ∧ CfgWF.graphOf ins nexts = .ok bs ∧ t.allBlocks.length = bs.length ∧
      (∀ a b, a < t.allBlocks.length → b < t.allBlocks.length →
        (t.allBlocks[a]!).next.count b = (t.allBlocks[b]!).prev.count a) ∧
      (∀ d, d < t.allBlocks.length → d ∉ t.live →
        (t.allBlocks[d]!).next = [] ∧ ∀ b, b < t.allBlocks.length → d ∉ (t.allBlocks[b]!).prev) ∧
      (∀ x, x ∈ t.live → x < t.allBlocks.length ∧ (t.allBlocks[x]!).next = (bs[x]!).next) ∧
      (∀ a, a < t.allBlocks.length → ∀ b ∈ (t.allBlocks[a]!).next, b < t.allBlocks.length) :=
  Mirror.parse_mirror ins t h

/-- pruning one unreachable block leaves it without successors -/
theorem C04_prune_all (bs : List RawBlock) (bi : Nat) (bs' : List RawBlock) (h : pruneOne bs bi = .ok bs')
    (hbi : bi < bs.length) : (bs'[bi]!).next = [] := by
  unfold pruneOne at h
  simp only [bind, Except.bind] at h
  split at h
  · cases h
  · rename_i bs1 h1
    simp only [pure, Except.pure, Except.ok.injEq] at h
    subst h
    have hlen : bs1.length = bs.length := by
      -- the fold only rewrites `prev` fields
      have key : ∀ (vis : List Nat) (b0 b1 : List RawBlock),
          vis.foldlM (fun (bs : List RawBlock) (bn : Nat) => do
            let p ← removeFirst (bs[bn]!).prev bi
            pure ((bs.zipIdx).map fun (blk, id) => if id == bn then { blk with prev := p } else blk)) b0 = Except.ok b1 →
          b1.length = b0.length := by
        intro vis
        induction vis with
        | nil => intro b0 b1 h; simp [List.foldlM, pure, Except.pure] at h; subst h; rfl
        | cons v vs ih =>
          intro b0 b1 h
          simp only [List.foldlM, bind, Except.bind] at h
          split at h
          · cases h
          · rename_i b2 h2
            split at h2
            · cases h2
            · rename_i p hp
              simp only [pure, Except.pure, Except.ok.injEq] at h2
              subst h2
              have := ih _ _ h
              simpa using this
      exact key _ _ _ h1
    simp [hlen, hbi]

/-- THE CFG OVER-APPROXIMATES REAL CONTROL FLOW, instruction level.  Whatever the environment and the machine state, one
    step of the concrete AVM semantics (spec side, Avm.step) from instruction `s.pc` lands
    * on a successor recorded for that instruction by first_pass / second_pass (model side, insNext), or
    * past the last instruction (the program ends there), or
    * for `callsub l`, on the label `l` with the return address pushed — the edge the tool represents by
      `called_subroutine`, or
    * for `retsub`, on the return address popped from the call stack — the edge the tool represents by the return point of
      the matching callsub. -/
theorem C04_step_along_edge (prog : List Ins) (nexts : List (List Nat)) (h : insNext prog = .ok nexts)
    (e : Avm.Env) (s s' : Avm.State) (i : Ins) (hi : prog[s.pc]? = some i)
    (hs : Avm.step prog e s = .next s') :
    s'.pc ∈ nexts[s.pc]!
    ∨ (s'.pc = prog.length ∧ s.pc + 1 = prog.length ∧ i.op.noFallthrough = false)
    ∨ (∃ l, i.op = .callsub l ∧ Avm.labelPos prog l = some s'.pc ∧ s'.calls = s.calls ++ [s.pc + 1])
    ∨ (i.op = .retsub ∧ s.calls.getLast? = some s'.pc ∧ s'.calls = s.calls.dropLast) := by
  obtain ⟨jumps, hj, hn⟩ := StepEdge.insNext_get prog nexts h s.pc i hi
  have hlt : s.pc < prog.length := (List.getElem?_eq_some_iff.mp hi).1
  -- an advancing step
  have hadv : i.op.noFallthrough = false → s'.pc = s.pc + 1 →
      s'.pc ∈ nexts[s.pc]! ∨ (s'.pc = prog.length ∧ s.pc + 1 = prog.length ∧ i.op.noFallthrough = false) := by
    intro hnf hpc
    by_cases hl : s.pc + 1 < prog.length
    · left; rw [hn, hpc]; simp [hnf, hl]
    · right
      have : s.pc + 1 = prog.length := by omega
      exact ⟨by omega, this, hnf⟩
  -- a jump to a label of the instruction
  have hjump : ∀ l p, l ∈ i.op.jumpLabels → Avm.labelPos prog l = some p → p ∈ nexts[s.pc]! := by
    intro l p hl hp
    obtain ⟨y, hy, hf⟩ := StepEdge.mapM_except_mem _ _ _ hj l hl
    have := (StepEdge.labelPos_lookup prog l p).mp hp
    rw [this] at hf
    cases hf
    rw [hn]; simp [hy]
  have hadv' : i.op.noFallthrough = false → s'.pc = s.pc + 1 →
      s'.pc ∈ nexts[s.pc]!
      ∨ (s'.pc = prog.length ∧ s.pc + 1 = prog.length ∧ i.op.noFallthrough = false)
      ∨ (∃ l, i.op = .callsub l ∧ Avm.labelPos prog l = some s'.pc ∧ s'.calls = s.calls ++ [s.pc + 1])
      ∨ (i.op = .retsub ∧ s.calls.getLast? = some s'.pc ∧ s'.calls = s.calls.dropLast) := by
    intro a b
    rcases hadv a b with h | h
    · exact Or.inl h
    · exact Or.inr (Or.inl h)
  unfold Avm.step at hs
  simp only [hi] at hs
  cases hop : i.op <;> simp only [hop] at hs <;> rw [← hop]
  case b l =>
    split at hs
    · simp only [Avm.Outcome.next.injEq] at hs; subst hs
      exact Or.inl (hjump l _ (by simp [hop, Op.jumpLabels]) ‹_›)
    · cases hs
  case bz l =>
    repeat' split at hs
    all_goals first
      | (cases hs; done)
      | (simp only [Avm.Outcome.next.injEq] at hs; subst hs
         first
           | exact Or.inl (hjump l _ (by simp [hop, Op.jumpLabels]) ‹_›)
           | exact hadv' (by simp [hop, Op.noFallthrough]) rfl)
  case bnz l =>
    repeat' split at hs
    all_goals first
      | (cases hs; done)
      | (simp only [Avm.Outcome.next.injEq] at hs; subst hs
         first
           | exact Or.inl (hjump l _ (by simp [hop, Op.jumpLabels]) ‹_›)
           | exact hadv' (by simp [hop, Op.noFallthrough]) rfl)
  case switch ls =>
    repeat' split at hs
    all_goals first
      | (cases hs; done)
      | (simp only [Avm.Outcome.next.injEq] at hs; subst hs
         first
           | exact Or.inl (hjump _ _ (by simp only [hop, Op.jumpLabels]; exact List.mem_of_getElem? ‹_›) ‹_›)
           | exact hadv' (by simp [hop, Op.noFallthrough]) rfl)
  case match_ ls =>
    repeat' split at hs
    all_goals first
      | (cases hs; done)
      | (simp only [Avm.Outcome.next.injEq] at hs; subst hs
         first
           | exact Or.inl (hjump _ _ (by simp only [hop, Op.jumpLabels]; exact (List.of_mem_zip (List.mem_of_find?_eq_some ‹_›)).2) ‹_›)
           | exact hadv' (by simp [hop, Op.noFallthrough]) rfl)
  case callsub l =>
    split at hs
    · simp only [Avm.Outcome.next.injEq] at hs; subst hs
      exact Or.inr (Or.inr (Or.inl ⟨l, hop, ‹_›, rfl⟩))
    · cases hs
  case retsub =>
    split at hs
    · simp only [Avm.Outcome.next.injEq] at hs; subst hs
      exact Or.inr (Or.inr (Or.inr ⟨rfl, ‹_›, rfl⟩))
    · cases hs
  case other name po pu =>
    exact hadv' (by simp [hop, Op.noFallthrough]) (StepEdge.stepOther_pc e s s' name hs)
  all_goals
    repeat' split at hs
  all_goals first
    | (cases hs; done)
    | (simp only [Avm.Outcome.next.injEq] at hs; subst hs
       exact hadv' (by simp [hop, Op.noFallthrough]) rfl)

/-- the hypotheses of `C04_step_along_edge` are met by real steps: a taken `bnz` lands on the recorded jump successor -/
example :
    let prog : List Ins := [⟨1, .int (.lit 1), ""⟩, ⟨2, .bnz "x", ""⟩, ⟨3, .err, ""⟩, ⟨4, .label "x", ""⟩, ⟨5, .int (.lit 1), ""⟩]
    (match Avm.step prog { size := 1, self := 0, txns := [⟨[]⟩] } { pc := 1, stack := [.int 1] } with
      | .next s' => s'.pc == 3 | _ => false) = true ∧
    (insNext prog).toOption = some [[1], [2, 3], [], [4], []] := by decide

example : (createBB staleWitness ((insNext staleWitness).toOption.getD [])).1.flatten = List.range 8 := by decide

/-- THE BLOCK SEQUENCE OF ANY CONCRETE EXECUTION IS A WALK IN THE GRAPH — one step.  For the blocks of the third pass and
    the graph `bs` of passes 3-4 (whose successor lists the retained blocks keep, `C04_mirror_wellformed`): a step of the
    concrete AVM semantics from instruction `s.pc` either
    * stays inside the block (lands on the instruction that follows `s.pc` in its block), or
    * leaves the block at its LAST instruction and lands in a block that is in its successor list, or
    * runs past the last instruction, or is the call edge of `callsub` (callee label, return address pushed), or the
      return edge of `retsub` (return address popped). -/
theorem C04_block_walk (prog : List Ins) (nexts : List (List Nat)) (bs : List RawBlock) (h : insNext prog = .ok nexts)
    (hg : CfgWF.graphOf prog nexts = .ok bs)
    (e : Avm.Env) (s s' : Avm.State) (i : Ins) (hi : prog[s.pc]? = some i) (hs : Avm.step prog e s = .next s') :
    (∃ blk ∈ (createBB prog nexts).1, BlockShape.Adj blk s.pc s'.pc ∧ s'.pc = s.pc + 1)
    ∨ (∃ B B', blockOfIns (createBB prog nexts).1 s.pc = .ok B ∧ blockOfIns (createBB prog nexts).1 s'.pc = .ok B' ∧
        ((createBB prog nexts).1[B]!).getLast? = some s.pc ∧ B' ∈ (bs[B]!).next)
    ∨ (s'.pc = prog.length ∧ s.pc + 1 = prog.length ∧ i.op.noFallthrough = false)
    ∨ (∃ l, i.op = .callsub l ∧ Avm.labelPos prog l = some s'.pc ∧ s'.calls = s.calls ++ [s.pc + 1])
    ∨ (i.op = .retsub ∧ s.calls.getLast? = some s'.pc ∧ s'.calls = s.calls.dropLast) := by
  rcases C04_step_along_edge prog nexts h e s s' i hi hs with h1 | h1 | h1 | h1
  · rcases BlockWalk.block_walk prog nexts bs h hg s.pc i hi s'.pc h1 with h2 | h2
    · exact Or.inl h2
    · exact Or.inr (Or.inl h2)
  · exact Or.inr (Or.inr (Or.inl h1))
  · exact Or.inr (Or.inr (Or.inr (Or.inl h1)))
  · exact Or.inr (Or.inr (Or.inr (Or.inr h1)))

/-- A BLOCK IS ENTERED ONLY AT ITS FIRST INSTRUCTION: inside a block, an instruction has a predecessor in the block only
    if that predecessor has it as its one successor and does not end a block, and only if it is not a label — so jump
    targets (labels) are always the first instruction of their block -/
theorem C04_block_shape (prog : List Ins) (nexts : List (List Nat)) (h : insNext prog = .ok nexts) :
    ∀ blk ∈ (createBB prog nexts).1, ∀ a b, BlockShape.Adj blk a b →
      nexts[a]! = [a + 1] ∧ b = a + 1 ∧ ((prog[b]!).op).isLabel = false := by
  intro blk hb a b hab
  obtain ⟨h1, h2⟩ := BlockWalk.inner_successor prog nexts h blk hb a b hab
  exact ⟨h1, h2, (BlockShape.createBB_shape prog nexts (CfgL.insNext_length prog nexts h) blk hb a b hab).2⟩

/-- THE CALL EDGE: a `callsub l` step lands on the instruction the label resolves to, and the block of that instruction is
    the entry block of the subroutine `l` of the parse result — "the callee's entry block after callsub" -/
theorem C04_call_edge (prog : List Ins) (t : Teal) (hp : parseTeal prog = .ok t)
    (e : Avm.Env) (s s' : Avm.State) (i : Ins) (l : String) (hi : prog[s.pc]? = some i) (hop : i.op = .callsub l)
    (hs : Avm.step prog e s = .next s') :
    ∃ nexts sub, insNext prog = .ok nexts ∧ sub ∈ t.subs ∧ sub.name = l ∧
      blockOfIns (createBB prog nexts).1 s'.pc = .ok sub.entry ∧ s'.calls = s.calls ++ [s.pc + 1] := by
  have hl : l ∈ callsubLabels prog := by
    unfold callsubLabels
    rw [List.mem_eraseDups]
    exact List.mem_filterMap.mpr ⟨i, List.mem_of_getElem? hi, by simp [hop]⟩
  obtain ⟨nexts, sub, li, hn, hsub, hname, hli, hentry⟩ := ParseSubs.parse_sub_of_label prog t hp l hl
  unfold Avm.step at hs
  simp only [hi, hop] at hs
  split at hs
  · rename_i p hpos
    simp only [Avm.Outcome.next.injEq] at hs
    subst hs
    have := (StepEdge.labelPos_lookup prog l p).mp hpos
    rw [hli] at this
    cases this
    exact ⟨nexts, sub, hn, hsub, hname, hentry, rfl⟩
  · cases hs

/-- THE RETURN EDGE.  The call stack of any reachable state holds only positions that follow a `callsub` (the invariant
    holds for the empty stack and is preserved by every step); hence a `retsub` step lands — unless it returns past the end
    of the program — in a block that is in the successor list of the block whose last instruction is the matching
    `callsub`: "after retsub the block following the matching callsub". -/
theorem C04_calls_invariant (prog : List Ins) (e : Avm.Env) (s s' : Avm.State) (h : BlockWalk.CallsOk prog s.calls)
    (hs : Avm.step prog e s = .next s') : BlockWalk.CallsOk prog s'.calls :=
  BlockWalk.callsOk_step prog e s s' h hs

theorem C04_calls_invariant_init (prog : List Ins) : BlockWalk.CallsOk prog ({} : Avm.State).calls := by
  intro a ha; cases ha

theorem C04_return_edge (prog : List Ins) (nexts : List (List Nat)) (bs : List RawBlock) (h : insNext prog = .ok nexts)
    (hg : CfgWF.graphOf prog nexts = .ok bs)
    (e : Avm.Env) (s s' : Avm.State) (i : Ins) (hi : prog[s.pc]? = some i) (hop : i.op = .retsub)
    (hinv : BlockWalk.CallsOk prog s.calls) (hs : Avm.step prog e s = .next s') :
    s'.pc = prog.length ∨
    ∃ c l ic B B', s'.pc = c + 1 ∧ prog[c]? = some ic ∧ ic.op = .callsub l ∧
      blockOfIns (createBB prog nexts).1 c = .ok B ∧ ((createBB prog nexts).1[B]!).getLast? = some c ∧
      blockOfIns (createBB prog nexts).1 s'.pc = .ok B' ∧ B' ∈ (bs[B]!).next := by
  unfold Avm.step at hs
  simp only [hi, hop] at hs
  split at hs
  · rename_i p hp
    simp only [Avm.Outcome.next.injEq] at hs
    subst hs
    exact BlockWalk.return_edge prog nexts bs h hg s.calls hinv p hp
  · cases hs

/-- states reachable from the initial state by steps of the concrete semantics -/
inductive Reachable (prog : List Ins) (e : Avm.Env) : Avm.State → Prop
  | init : Reachable prog e {}
  | step (s s' : Avm.State) : Reachable prog e s → Avm.step prog e s = .next s' → Reachable prog e s'

theorem C04_reachable_calls_ok (prog : List Ins) (e : Avm.Env) (s : Avm.State) (h : Reachable prog e s) :
    BlockWalk.CallsOk prog s.calls := by
  induction h with
  | init => exact C04_calls_invariant_init prog
  | step s s' _ hs ih => exact C04_calls_invariant prog e s s' ih hs

/-- THE BLOCK SEQUENCE VISITED BY ANY CONCRETE EXECUTION IS A WALK IN THE CONTRACT'S GRAPH.  For every program the model's
    `parseTeal` accepts, with `bs` the graph of passes 3-4 over the blocks of the third pass (the retained blocks keep its
    successor lists, `C04_mirror_wellformed`): EVERY transition of EVERY execution (any environment, any reachable state)
    * stays inside its block, on the next instruction; or
    * leaves the block at its last instruction for a block of its successor list (fall-through and jump successors of
      b / bz / bnz / switch / match); or
    * runs past the last instruction (the program ends there); or
    * is a `callsub l` and lands in the entry block of subroutine `l`; or
    * is a `retsub` and lands past the end or in a successor of the block ending with the matching `callsub`. -/
theorem C04_execution_walk (prog : List Ins) (t : Teal) (hp : parseTeal prog = .ok t) :
    ∃ nexts bs, insNext prog = .ok nexts ∧ CfgWF.graphOf prog nexts = .ok bs ∧
      ∀ (e : Avm.Env) (s : Avm.State), Reachable prog e s → ∀ (s' : Avm.State) (i : Ins), prog[s.pc]? = some i →
        Avm.step prog e s = .next s' →
        (∃ blk ∈ (createBB prog nexts).1, BlockShape.Adj blk s.pc s'.pc ∧ s'.pc = s.pc + 1)
        ∨ (∃ B B', blockOfIns (createBB prog nexts).1 s.pc = .ok B ∧ blockOfIns (createBB prog nexts).1 s'.pc = .ok B' ∧
            ((createBB prog nexts).1[B]!).getLast? = some s.pc ∧ B' ∈ (bs[B]!).next)
        ∨ (s'.pc = prog.length ∧ s.pc + 1 = prog.length ∧ i.op.noFallthrough = false)
        ∨ (∃ l sub, i.op = .callsub l ∧ sub ∈ t.subs ∧ sub.name = l ∧
            blockOfIns (createBB prog nexts).1 s'.pc = .ok sub.entry ∧ s'.calls = s.calls ++ [s.pc + 1])
        ∨ (i.op = .retsub ∧ (s'.pc = prog.length ∨
            ∃ c l ic B B', s'.pc = c + 1 ∧ prog[c]? = some ic ∧ ic.op = .callsub l ∧
              blockOfIns (createBB prog nexts).1 c = .ok B ∧ ((createBB prog nexts).1[B]!).getLast? = some c ∧
              blockOfIns (createBB prog nexts).1 s'.pc = .ok B' ∧ B' ∈ (bs[B]!).next)) := by
  obtain ⟨nexts, bs, hn, hg, _⟩ := Mirror.parse_mirror prog t hp
  refine ⟨nexts, bs, hn, hg, ?_⟩
  intro e s hr s' i hi hs
  rcases C04_block_walk prog nexts bs hn hg e s s' i hi hs with h1 | h1 | h1 | ⟨l, hl, _, _⟩ | ⟨hret, _, _⟩
  · exact Or.inl h1
  · exact Or.inr (Or.inl h1)
  · exact Or.inr (Or.inr (Or.inl h1))
  · obtain ⟨nexts', sub, hn', hsub, hname, hentry, hcalls⟩ := C04_call_edge prog t hp e s s' i l hi hl hs
    rw [hn] at hn'
    cases hn'
    exact Or.inr (Or.inr (Or.inr (Or.inl ⟨l, sub, hl, hsub, hname, hentry, hcalls⟩)))
  · exact Or.inr (Or.inr (Or.inr (Or.inr ⟨hret,
      C04_return_edge prog nexts bs hn hg e s s' i hi hret (C04_reachable_calls_ok prog e s hr) hs⟩)))

/-- `Reachable` is inhabited beyond the initial state, and the sample program is accepted by `parseTeal` -/
example : Reachable [⟨1, .int (.lit 1), ""⟩, ⟨2, .ret, ""⟩] { size := 1, self := 0, txns := [⟨[]⟩] } { pc := 1, stack := [.int 1] } :=
  Reachable.step _ _ Reachable.init rfl

example : (parseTeal [⟨1, .int (.lit 1), ""⟩, ⟨2, .ret, ""⟩]).toOption.isSome = true := by decide

end Tealer.C04
