/-
  C03 — No report when every accepting path directly excludes the dangerous value.
  Detector layer: a path is reported only if it is a matched walk to a leaf none of whose blocks is validated; hence
  if every such walk passes a block whose context excludes the dangerous value, nothing is reported.
  Leaf / lattice layer: the set domains and the fee chain are EXACT (not only sound) on direct checks, so that
  "excluded on the literal reading" implies "excluded in the context".
-/
import TealerModel.Lemmas.Dfs
import TealerModel.Props.Common
namespace Tealer.C03

/-- if every matched walk from the entry to a leaf (respecting the loop / recursion cuts) contains a validated block,
    the detector reports no path -/
theorem C03_no_report (g : DGraph) (fuel entry : Nat) (main : String) (ps : List (List Nat))
    (h : searchPaths g fuel entry [] [(none, main)] [[]] = some ps)
    (hall : ∀ rest, Dfs.Walk g [(none, main)] [[]] entry rest → ∃ x ∈ entry :: rest, g.validated x = true) :
    ps = [] := by
  cases ps with
  | nil => rfl
  | cons π tl =>
    obtain ⟨rest, _, hw⟩ := Dfs.searchPaths_valid g fuel entry [] _ _ _ h π (by simp)
    obtain ⟨x, hx, hv⟩ := hall rest hw
    have := Dfs.walk_unvalidated g _ _ _ _ hw x hx
    rw [this] at hv; cases hv

/-- exactness of the set domains (GroupSize, GroupIndex, transaction kinds): union and intersection are the
    set-theoretic ones, the null set admits nothing -/
theorem C03_sets_exact (a b : NatSet) (v : Nat) :
    (v ∈ OSet.union a b ↔ v ∈ a ∨ v ∈ b) ∧ (v ∈ OSet.inter a b ↔ v ∈ a ∧ v ∈ b) ∧ ¬ v ∈ ([] : NatSet) :=
  ⟨OSet.mem_union v a b, OSet.mem_inter v a b, by simp⟩

/-- exactness of the fee chain on down-closed sets of fees -/
theorem C03_fee_exact (a b : FeeValue) (fee : Nat) :
    (Fee.gamma (feeUnion a b) fee ↔ Fee.gamma a fee ∨ Fee.gamma b fee) ∧
    (Fee.gamma (feeInter a b) fee ↔ Fee.gamma a fee ∧ Fee.gamma b fee) :=
  ⟨Fee.union_exact a b fee, Fee.inter_exact a b fee⟩

/-- a direct check `Fee <= c` with c at most the cost bound validates the block for missing-fee-check -/
theorem C03_fee_check_validates (c : Nat) (hc : c ≤ MAX_TRANSACTION_COST) :
    checksField .feeCheck { maxFee := (feeAssertedMax .le { value := c }).1.value } = true := by
  simp [checksField, feeAssertedMax, hc]

/-- `txn RekeyTo == global ZeroAddress` validates the block for rekey-to -/
theorem C03_rekey_check_validates : checksField .rekeyTo { rekeyto := setAddr (assertedAddress (.global "ZeroAddress") "") } = true := by
  decide

/-- `global GroupSize == n` (n < 16) validates the block for group-size-check -/
theorem C03_size_check_validates (n : Nat) (hn : n < 16) :
    checksField .groupSize { sizes := OSet.inter sizesU (OSet.ofList (assertedIntValues .eq n sizesU)) } = true := by
  have : ¬ (16 : Nat) ∈ OSet.inter sizesU (OSet.ofList (assertedIntValues .eq n sizesU)) := by
    rw [OSet.mem_inter, OSet.mem_ofList]
    simp [assertedIntValues]; omega
  simp [checksField, MAX_GROUP_SIZE, this]

example : checksField .feeCheck { maxFee := 1000 } = true := by decide

end Tealer.C03
