/-
  C03 — No report when every accepting path directly excludes the dangerous value.
  Detector layer: a path is reported only if it is a matched walk to a leaf none of whose blocks is validated; hence
  if every such walk passes a block whose context excludes the dangerous value, nothing is reported.
  Leaf / lattice layer: the set domains and the fee chain are EXACT (not only sound) on direct checks, so that
  "excluded on the literal reading" implies "excluded in the context".
-/
import TealerModel.Lemmas.Dfs
import TealerModel.Props.Common
import TealerModel.Lemmas.Exact
namespace Tealer.C03

/-- if every matched walk from the entry to a leaf (respecting the loop / recursion cuts) contains a validated block,
    the detector reports no path -/
theorem C03_no_report (g : DGraph) (fuel entry : Nat) (main : String) (ps : List (List Nat))
    (h : searchPaths g fuel entry [] [(none, main)] [[]] = some ps)
    (hall : ∀ rest, Dfs.Walk g [(none, main)] [[]] entry rest → ∃ x ∈ entry :: rest, g.validated x = true) :
    ps = [] := by
  cases ps with
  | nil => rfl
  | cons π tl =>
    obtain ⟨rest, _, hw⟩ := Dfs.searchPaths_valid g fuel entry [] _ _ _ h π (by simp)
    obtain ⟨x, hx, hv⟩ := hall rest hw
    have := Dfs.walk_unvalidated g _ _ _ _ hw x hx
    rw [this] at hv; cases hv

/-- exactness of the set domains (GroupSize, GroupIndex, transaction kinds): union and intersection are the
    set-theoretic ones, the null set admits nothing -/
theorem C03_sets_exact (a b : NatSet) (v : Nat) :
    (v ∈ OSet.union a b ↔ v ∈ a ∨ v ∈ b) ∧ (v ∈ OSet.inter a b ↔ v ∈ a ∧ v ∈ b) ∧ ¬ v ∈ ([] : NatSet) :=
  ⟨OSet.mem_union v a b, OSet.mem_inter v a b, by simp⟩

/-- exactness of the fee chain on down-closed sets of fees -/
theorem C03_fee_exact (a b : FeeValue) (fee : Nat) :
    (Fee.gamma (feeUnion a b) fee ↔ Fee.gamma a fee ∨ Fee.gamma b fee) ∧
    (Fee.gamma (feeInter a b) fee ↔ Fee.gamma a fee ∧ Fee.gamma b fee) :=
  ⟨Fee.union_exact a b fee, Fee.inter_exact a b fee⟩

/-- a direct check `Fee <= c` with c at most the cost bound validates the block for missing-fee-check -/
theorem C03_fee_check_validates (c : Nat) (hc : c ≤ MAX_TRANSACTION_COST) :
    checksField .feeCheck { maxFee := (feeAssertedMax .le { value := c }).1.value } = true := by
  simp [checksField, feeAssertedMax, hc]

/-- `txn RekeyTo == global ZeroAddress` validates the block for rekey-to -/
theorem C03_rekey_check_validates : checksField .rekeyTo { rekeyto := setAddr (assertedAddress (.global "ZeroAddress") "") } = true := by
  decide

/-- `global GroupSize == n` (n < 16) validates the block for group-size-check -/
theorem C03_size_check_validates (n : Nat) (hn : n < 16) :
    checksField .groupSize { sizes := OSet.inter sizesU (OSet.ofList (assertedIntValues .eq n sizesU)) } = true := by
  have : ¬ (16 : Nat) ∈ OSet.inter sizesU (OSet.ofList (assertedIntValues .eq n sizesU)) := by
    rw [OSet.mem_inter, OSet.mem_ofList]
    simp [assertedIntValues]; omega
  simp [checksField, MAX_GROUP_SIZE, this]

example : checksField .feeCheck { maxFee := 1000 } = true := by decide

/-- the integer and transaction-kind sets read by membership: union / intersection exact, null set empty -/
theorem natSet_exact (A : Analysis NatSet) (hd : A.dom = natSetDomain) : Exact.ExactLaws A (fun (s : NatSet) (v : Nat) => v ∈ s) := by
  refine ⟨?_, ?_, ?_⟩
  · intro a b v; rw [hd]; exact OSet.mem_union v a b
  · intro a b v; rw [hd]; exact OSet.mem_inter v a b
  · intro v; rw [hd]; simp [natSetDomain]

/-- EXACTNESS OF THE COMPUTED SETS (forward pass; group sizes / indices and transaction kinds): a value is in the set the
    solver returns for a block only if a chain of predecessors back to the entry justifies it — every block constraint and
    every edge constraint on the chain admits the value.  Contrapositive (the C03 reading): if every such chain is cut by
    a constraint that excludes the dangerous value, the value is absent from the block's set, so the block validates and
    no path through it is reported (`C03_no_report`). -/
theorem C03_forward_exact (A : Analysis NatSet) (hd : A.dom = natSetDomain) (g : Graph) (univ : NatSet)
    (bc : Nat → NatSet) (pc : Nat → Nat → NatSet) (r : List (Nat × NatSet)) (h : solveFwd A g univ bc pc = some r)
    (k v : Nat) (hv : v ∈ getMap r k A.dom.null) :
    Exact.Justified A (fun (s : NatSet) (v : Nat) => v ∈ s) g univ bc pc v k :=
  Exact.solveFwd_justified (natSet_exact A hd) g univ bc pc r h k v hv

theorem C03_excluded_without_justification (A : Analysis NatSet) (hd : A.dom = natSetDomain) (g : Graph) (univ : NatSet)
    (bc : Nat → NatSet) (pc : Nat → Nat → NatSet) (r : List (Nat × NatSet)) (h : solveFwd A g univ bc pc = some r)
    (k v : Nat) (hno : ¬ Exact.Justified A (fun (s : NatSet) (v : Nat) => v ∈ s) g univ bc pc v k) :
    v ∉ getMap r k A.dom.null :=
  fun hv => hno (C03_forward_exact A hd g univ bc pc r h k v hv)

/-- the generic statement, for any domain with an exact membership reading -/
theorem C03_forward_exact_generic {D V : Type} [DecidableEq D] {A : Analysis D} {mem : D → V → Prop}
    (L : Exact.ExactLaws A mem) (g : Graph) (univ : D) (bc : Nat → D) (pc : Nat → Nat → D) (r : List (Nat × D))
    (h : solveFwd A g univ bc pc = some r) (k : Nat) (v : V) (hv : mem (getMap r k A.dom.null) v) :
    Exact.Justified A mem g univ bc pc v k :=
  Exact.solveFwd_justified L g univ bc pc r h k v hv

/-- both passes, any domain with an exact membership reading: a value in the FINAL set of a block (what the detectors
    read) is justified backward down to a leaf through blocks whose forward sets contain it, and in each forward set it is
    justified forward from the entry — the computed context contains nothing but what some entry-to-leaf chain of the
    graph supports -/
theorem C03_contexts_exact {D V : Type} [DecidableEq D] {A : Analysis D} {mem : D → V → Prop}
    (L : Exact.ExactLaws A mem) (g : Graph) (univ : D) (bc : Nat → D) (pc : Nat → Nat → D) (r : List (Nat × D))
    (h : solve A g univ bc pc = .ok r) :
    ∃ rout, solveFwd A g univ bc pc = some rout ∧
      (∀ k v, mem (getMap rout k A.dom.null) v → Exact.Justified A mem g univ bc pc v k) ∧
      (∀ k v, mem (getMap r k A.dom.null) v → Exact.BJustified A mem g (fun k => getMap rout k A.dom.null) v k) :=
  Exact.solve_justified L g univ bc pc r h

end Tealer.C03
