/-
  C10 — Cross-transaction (gtxn) contexts are sound for other group members.
-/
import TealerModel.Props.Common
import TealerModel.Props.TieMatchers
import TealerModel.Props.TieWorklist
import TealerModel.Lemmas.IndexLeaf
namespace Tealer.C10

/-- attribution: a value is matched to an absolute-index key only if it is a group read whose index is classified
    as exactly that absolute index and whose field is the key's field -/
theorem C10_match_abs (ic : Option (List Nat)) (a : Ast) (base : String) (i : Nat) (r : Ref)
    (h : valueMatchesKey ic a ⟨base, .abs i⟩ r = true) :
    ∃ p o, r = some (p, o) ∧ getIndexAndField ic a p = some (.absolute i, base) := by
  unfold valueMatchesKey at h
  split at h
  · cases h
  · rename_i p o
    split at h
    · cases h
    · rename_i ix f hif
      refine ⟨p, o, rfl, ?_⟩
      simp only [Option.getD_none] at h
      split at h
      · cases h
      · split at h
        · cases h
        · rename_i hf
          have hf : f = base := by simpa using hf
          have hix : ix = .absolute i := by simpa using h
          rw [hif, hix, hf]

theorem C10_match_rel (ic : Option (List Nat)) (a : Ast) (base : String) (k : Int) (r : Ref)
    (h : valueMatchesKey ic a ⟨base, .rel k⟩ r = true) :
    ∃ p o, r = some (p, o) ∧ getIndexAndField ic a p = some (.relative k, base) := by
  unfold valueMatchesKey at h
  split at h
  · cases h
  · rename_i p o
    split at h
    · cases h
    · rename_i ix f hif
      refine ⟨p, o, rfl, ?_⟩
      simp only [Option.getD_none] at h
      split at h
      · cases h
      · split at h
        · cases h
        · rename_i hf
          have hf : f = base := by simpa using hf
          have hix : ix = .relative k := by simpa using h
          rw [hif, hix, hf]

theorem C10_match_self (ic : Option (List Nat)) (a : Ast) (base : String) (r : Ref)
    (h : valueMatchesKey ic a ⟨base, .self⟩ r = true) :
    ∃ p o, r = some (p, o) ∧ getIndexAndField ic a p = some (.self, base) := by
  unfold valueMatchesKey at h
  split at h
  · cases h
  · rename_i p o
    split at h
    · cases h
    · rename_i ix f hif
      refine ⟨p, o, rfl, ?_⟩
      simp only [Option.getD_none] at h
      split at h
      · cases h
      · split at h
        · cases h
        · rename_i hf
          have hf : f = base := by simpa using hf
          have hix : ix = .self := by simpa using h
          rw [hif, hix, hf]

/-- index classification: `gtxn i f` is absolute i; `txn f` is self -/
theorem C10_classify_gtxn (ic : Option (List Nat)) (a : Ast) (p i : Nat) (f : String) (h : a.opOf p = .gtxn i f) :
    getIndexAndField ic a p = some (.absolute i, f) := by simp [getIndexAndField, h]
theorem C10_classify_txn (ic : Option (List Nat)) (a : Ast) (p : Nat) (f : String) (h : a.opOf p = .txn f) :
    getIndexAndField ic a p = some (.self, f) := by simp [getIndexAndField, h]

/-- key naming: the derived keys are pairwise distinct, so information recorded for one group position or offset
    is never attributed to another -/
theorem C10_keys_nodup : (gtxKeys feeAnalysis).Nodup ∧ (gtxKeys txnTypeAnalysis).Nodup := by
  constructor <;> decide +kernel

/-- merge of own-field information into the at-index key (`_update_gtxn_constraints`) is sound: when the own
    index is `i` and `i` is listed among the possible indices, a value admitted by both survives -/
theorem C10_merge_sound_fee (v base : FeeValue) (fee : Nat) (hv : Fee.gamma v fee) (hb : Fee.gamma base fee) :
    Fee.gamma (feeInter v base) fee := Fee.inter_sound v base fee hv hb

theorem C10_merge_sound_addr (v base : AddrSet) (x : String) (hv : Addr.gamma v x) (hb : Addr.gamma base x) :
    Addr.gamma (addrInter v base) x := Addr.inter_sound v base x hv hb

example : (gtxKeys feeAnalysis).length = 62 := by decide +kernel

/-- WHICH TRANSACTION A READ REFERS TO IS DECIDED BY THE PYTHON'S OWN CODE.  group_helpers._get_index /
    get_index_and_field and key_helpers.is_value_matches_key, translated statement by statement from /repo's Python on this
    run, compute exactly the model's `getIndex` / `getIndexAndField` / `valueMatchesKey` on the stack value the Python
    holds: `txn f` is this transaction, `gtxn i f` / `int i; gtxns f` the absolute index i, `txn GroupIndex; int k; ±; gtxns f`
    (either operand order for `+`) the offset ±k, anything else unknown; and a value belongs to a key exactly when field,
    kind of index and index agree -/
theorem C10_tie_index_classification (intcs : Option (List Nat)) (ins : List Ins) (key : Key) (n p o : Nat) (r : Ref)
    (fld : Option String) :
    Generated.getIndex (TieM.envOf intcs) (treeOf (constructAst ins) (n + 1) (some (p, o))) =
        TieM.fromIdx (getIndex intcs (constructAst ins) p) ∧
      Generated.getIndexAndField (TieM.envOf intcs) (treeOf (constructAst ins) (n + 2) (some (p, o))) =
        TieM.fromIF (getIndexAndField intcs (constructAst ins) p) ∧
      Generated.isValueMatchesKey (TieM.envOf intcs) key (treeOf (constructAst ins) (n + 2) r) fld =
        valueMatchesKey intcs (constructAst ins) key r fld :=
  ⟨TieM.getIndex_tie intcs _ (TieM.arity_constructAst ins) n p o,
   TieM.getIndexAndField_tie intcs _ (TieM.arity_constructAst ins) n p o,
   TieM.isValueMatchesKey_tie intcs _ (TieM.arity_constructAst ins) key n r fld⟩

/-- `is_int_push_ins`, translated from /repo's Python on this run, is the model's `intPush` -/
theorem C10_tie_int_push (intcs : Option (List Nat)) (op : Op) :
    Generated.isIntPushIns (TieM.envOf intcs) op = TieM.ipOf intcs op :=
  TieM.isIntPush_tie intcs op

/-- the views of the translated functions read `isinstance(x, C)` as "x is of class C": right, because on this run no class of
    /repo's instruction / field modules is a subclass of another one the analyses test for (`itxn` is not a `Txn`, `gitxn` not a
    `Gtxn`; only the `intc` family shares `IntcInstruction`) -/
theorem C10_tie_class_hierarchy : Generated.classHierarchy = PyView.classHierarchySpec := Tie.class_hierarchy_tie

/-- `_update_gtxn_constraints`, translated from /repo's Python on this run (one entry of its double loop over keys and indices),
    is the model's `updateGtxn`: the context for "this transaction when it sits at index i" is the recorded one narrowed by the own
    context when `i` is a possible own index of the block (membership in the block's index set - not a range between its smallest and
    largest element), and EMPTY when `i` is impossible -/
theorem C10_tie_update_gtxn {D : Type} [DecidableEq D] (A : Analysis D) (gi : List Nat) (i : Nat) (v base : D) :
    Generated.updateGtxnConstraints A.dom gi i v base = updateGtxn A gi i v base :=
  TieW.update_gtxn_tie A gi i v base

/-- the clause "(and is empty when i is impossible)" of the property, on the model: an index outside the block's index set gets
    the null set whatever was recorded -/
theorem C10_impossible_index_empty {D : Type} [DecidableEq D] (A : Analysis D) (gi : List Nat) (i : Nat) (v base : D)
    (h : i ∉ gi) : updateGtxn A gi i v base = A.dom.null := by
  simp [updateGtxn, h]

/-- the tool's classification of the two stack-index forms (the function `C10_tie_index_classification` ties to the Python):
    `txn GroupIndex; int n; +` is the relative index n, `int i` the absolute index i -/
theorem C10_classify_add (ic : Option (List Nat)) (a : Ast) (pa p1 p2 o1 o2 n : Nat) (hop : a.opOf pa = .add)
    (hargs : a.argsOf pa = [some (p1, o1), some (p2, o2)]) (h1 : a.opOf p1 = .txn "GroupIndex") (h2 : a.opOf p2 = .int (.lit n)) :
    getIndex ic a pa = .relative (n : Int) := by
  simp [getIndex, hop, hargs, intPush, isGroupIndexRead, h1, h2, intLit]

theorem C10_classify_int (ic : Option (List Nat)) (a : Ast) (p n : Nat) (h : a.opOf p = .int (.lit n)) :
    getIndex ic a p = .absolute n := by
  simp [getIndex, h, intPush]

/-- READS THROUGH `txn GroupIndex; int n; +; gtxns f` ARE ATTRIBUTED TO THE RIGHT TRANSACTION - against the concrete semantics.
    In a straight run of a block of the concrete machine (values `valOf` = what the instructions really pushed, `C11_block_operands`),
    a `gtxns f` whose reconstructed index operand is a `+` of the outputs of `txn GroupIndex` and `int n` pushes field `f` of the
    group member at position (own index + n): the member the tool's classification `relative n` (`C10_classify_add`) stands for -/
theorem C10_index_concrete_rel (prog : List Ins) (e : Avm.Env) (blockIns : List Ins) (pc0 : Nat) (st : Nat → Avm.State) (k : Nat)
    (hrun : OperandValues.BlockRun prog e blockIns pc0 k st) (valOf : Nat × Nat → Avm.Val)
    (hout : ∀ j, j < k → ∀ i, i < (blockIns[j]!).op.pushes →
      (st (j + 1)).stack[(st j).stack.length - (blockIns[j]!).op.pops + i]? = some (valOf (j, i)))
    (hargs : ∀ j, j < k → List.Forall₂ (OperandValues.Agree valOf) (OperandValues.argsAt blockIns j)
      ((st j).stack.drop ((st j).stack.length - (blockIns[j]!).op.pops)))
    (p pa p1 p2 : Nat) (f : String) (n : Nat) (hp : p < k) (hpa : pa < k) (hp1 : p1 < k) (hp2 : p2 < k)
    (hopp : (blockIns[p]!).op = .gtxns f) (hopa : (blockIns[pa]!).op = .add)
    (hop1 : (blockIns[p1]!).op = .txn "GroupIndex") (hop2 : (blockIns[p2]!).op = .int (.lit n))
    (hargsp : OperandValues.argsAt blockIns p = [some (pa, 0)])
    (hargsa : OperandValues.argsAt blockIns pa = [some (p1, 0), some (p2, 0)]) :
    e.field (e.self + n) f = some (valOf (p, 0)) :=
  IndexLeaf.index_leaf_rel prog e blockIns pc0 st k hrun valOf hout hargs p pa p1 p2 f n hp hpa hp1 hp2 hopp hopa hop1 hop2 hargsp hargsa

/-- ... `txn GroupIndex; int n; -; gtxns f` reads the member at own index - n (and the run only gets there when n ≤ own index):
    the member the classification `relative (-n)` stands for -/
theorem C10_index_concrete_rel_sub (prog : List Ins) (e : Avm.Env) (blockIns : List Ins) (pc0 : Nat) (st : Nat → Avm.State) (k : Nat)
    (hrun : OperandValues.BlockRun prog e blockIns pc0 k st) (valOf : Nat × Nat → Avm.Val)
    (hout : ∀ j, j < k → ∀ i, i < (blockIns[j]!).op.pushes →
      (st (j + 1)).stack[(st j).stack.length - (blockIns[j]!).op.pops + i]? = some (valOf (j, i)))
    (hargs : ∀ j, j < k → List.Forall₂ (OperandValues.Agree valOf) (OperandValues.argsAt blockIns j)
      ((st j).stack.drop ((st j).stack.length - (blockIns[j]!).op.pops)))
    (p pa p1 p2 : Nat) (f : String) (n : Nat) (hp : p < k) (hpa : pa < k) (hp1 : p1 < k) (hp2 : p2 < k)
    (hopp : (blockIns[p]!).op = .gtxns f) (hopa : (blockIns[pa]!).op = .sub)
    (hop1 : (blockIns[p1]!).op = .txn "GroupIndex") (hop2 : (blockIns[p2]!).op = .int (.lit n))
    (hargsp : OperandValues.argsAt blockIns p = [some (pa, 0)])
    (hargsa : OperandValues.argsAt blockIns pa = [some (p1, 0), some (p2, 0)]) :
    n ≤ e.self ∧ e.field (e.self - n) f = some (valOf (p, 0)) :=
  IndexLeaf.index_leaf_rel_sub prog e blockIns pc0 st k hrun valOf hout hargs p pa p1 p2 f n hp hpa hp1 hp2 hopp hopa hop1 hop2 hargsp hargsa

theorem C10_classify_sub (ic : Option (List Nat)) (a : Ast) (pa p1 p2 o1 o2 n : Nat) (hop : a.opOf pa = .sub)
    (hargs : a.argsOf pa = [some (p1, o1), some (p2, o2)]) (h1 : a.opOf p1 = .txn "GroupIndex") (h2 : a.opOf p2 = .int (.lit n)) :
    getIndex ic a pa = .relative (-(n : Int)) := by
  simp [getIndex, hop, hargs, intPush, isGroupIndexRead, h1, h2, intLit]

/-- ... and `int i; gtxns f` reads member `i` (`C10_classify_int`: absolute index i) -/
theorem C10_index_concrete_abs (prog : List Ins) (e : Avm.Env) (blockIns : List Ins) (pc0 : Nat) (st : Nat → Avm.State) (k : Nat)
    (hrun : OperandValues.BlockRun prog e blockIns pc0 k st) (valOf : Nat × Nat → Avm.Val)
    (hout : ∀ j, j < k → ∀ i, i < (blockIns[j]!).op.pushes →
      (st (j + 1)).stack[(st j).stack.length - (blockIns[j]!).op.pops + i]? = some (valOf (j, i)))
    (hargs : ∀ j, j < k → List.Forall₂ (OperandValues.Agree valOf) (OperandValues.argsAt blockIns j)
      ((st j).stack.drop ((st j).stack.length - (blockIns[j]!).op.pops)))
    (p p2 : Nat) (f : String) (n : Nat) (hp : p < k) (hp2 : p2 < k)
    (hopp : (blockIns[p]!).op = .gtxns f) (hop2 : (blockIns[p2]!).op = .int (.lit n))
    (hargsp : OperandValues.argsAt blockIns p = [some (p2, 0)]) :
    e.field n f = some (valOf (p, 0)) :=
  IndexLeaf.index_leaf_abs prog e blockIns pc0 st k hrun valOf hout hargs p p2 f n hp hp2 hopp hop2 hargsp

end Tealer.C10
