/-
  Tie between the hand-written model of generic.py's transfer functions (Generic.lean: fwdF, bwdF, blockConstraint,
  pathConstraint) and the functions REGENERATED from /repo's Python on every run (Generated/Flow.lean: _calculate_reachin,
  _calculate_livein, _block_level_constraints, _path_level_constraints, for one analysis key).
-/
import TealerModel.Generated.Flow
import TealerModel.Props.TieMatchers
import TealerModel.Generic
set_option linter.unusedSimpArgs false
set_option linter.unusedTactic false
set_option linter.unreachableTactic false
namespace Tealer.TieF
open PyView TieM

variable {D : Type} [DecidableEq D]

/-- what generic.py reads of a block of the function-level graph, from the model's `Graph` -/
def graphBlock (g : Graph) (b : Nat) : PyView.PyBlock :=
  { isEntry := b == g.entry, instructions := [], exitInstr := default, exitInstrNextLen := 0, next := [],
    nextGlobal := g.nextG b, prevGlobal := g.prevG b,
    isSubReturnPoint := (g.callsubOf b).isSome, callsubBlock := (g.callsubOf b).getD 0,
    isCallsubBlock := (g.retPointOf b).isSome, subReturnPoint := g.retPointOf b,
    calleeRetsubBlocks := if g.calleeHasRetsub b then 1 else 0, isLeaf := g.isLeaf b }

theorem reachin_tie (A : Analysis D) (g : Graph) (univ : D) (bc : Nat → D) (pc : Nat → Nat → D) (cur : List (Nat × D))
    (b : Nat) (E : PyView.Env) (key : Key) :
    fwdF A g univ bc pc cur b =
      A.dom.inter (Generated.calculateReachin A.dom univ (pc b) E key (graphBlock g b) (fun k => getMap cur k A.dom.null)) (bc b) := by
  unfold fwdF Generated.calculateReachin
  simp [Id.run, graphBlock]
  obtain ⟨c, hc⟩ : ∃ c, g.callsubOf b = c := ⟨_, rfl⟩
  simp only [hc]
  by_cases he : b = g.entry <;> cases c <;> simp [he] <;> rfl

theorem livein_tie (A : Analysis D) (g : Graph) (univ : D) (bc : Nat → D) (cur : List (Nat × D)) (b : Nat) (E : PyView.Env) (key : Key) :
    bwdF A g bc cur b =
      if g.isLeaf b then getMap cur b A.dom.null
      else A.dom.inter (Generated.calculateLivein A.dom univ E key (graphBlock g b) (fun k => getMap cur k A.dom.null)) (bc b) := by
  unfold bwdF Generated.calculateLivein
  simp [Id.run, graphBlock]
  by_cases hl : g.isLeaf b = true
  · simp [hl]
  · simp [hl]
    obtain ⟨r, hr⟩ : ∃ r, g.retPointOf b = r := ⟨_, rfl⟩
    obtain ⟨h, hh⟩ : ∃ h, g.calleeHasRetsub b = h := ⟨_, rfl⟩
    simp only [hr, hh]
    cases r <;> cases h <;> simp <;> rfl

/-- `self._get_asserted(key, v)` on the stack value of the instruction at position `pos` -/
def gaOf (A : Analysis D) (intcs : Option (List Nat)) (a : Ast) (key : Key) (fuel : Nat) : PySV → D × D :=
  fun sv => match sv.pos? with
    | some q => getAsserted A intcs a key fuel q
    | none => (A.univ key.base, A.univ key.base)

/-- `block.instructions`, each with `get_stack_value_for_ins(ins)` -/
def insViews (a : Ast) (n : Nat) (ins : List Ins) : List PyView.PyIns :=
  ins.zipIdx.map fun (i, p) => { op := i.op, sv := treeOf a (n + 1) (some (p, 0)) }

def fblockView (b : FBlock) (n : Nat) : PyView.PyBlock :=
  { (default : PyView.PyBlock) with instructions := insViews (constructAst b.ins) n b.ins }

theorem tree_pos (a : Ast) (n p o : Nat) : (treeOf a n (some (p, o))).pos? = some p := by cases n <;> rfl

theorem forIn_yield {α β : Type} (l : List α) (init : β) (body : α → β → Id (ForInStep β)) (f : β → α → β)
    (h : ∀ a ∈ l, ∀ y, body a y = pure (ForInStep.yield (f y a))) : forIn l init body = pure (l.foldl f init) := by
  induction l generalizing init with
  | nil => rfl
  | cons x xs ih =>
    simp only [List.forIn_cons, List.foldl_cons]
    rw [h x (by simp) init]
    simp only [pure_bind]
    exact ih _ (fun a ha => h a (List.mem_cons_of_mem _ ha))

theorem foldl_congr' {α β : Type} (l : List α) (init : β) (f g : β → α → β) (h : ∀ a ∈ l, ∀ y, f y a = g y a) :
    l.foldl f init = l.foldl g init := by
  induction l generalizing init with
  | nil => rfl
  | cons x xs ih =>
    simp only [List.foldl_cons]
    rw [h x (by simp) init]
    exact ih _ (fun a ha => h a (List.mem_cons_of_mem _ ha))

theorem block_tie (A : Analysis D) (intcs : Option (List Nat)) (b : FBlock) (key : Key) (n : Nat) :
    blockConstraint A intcs b key =
      Generated.blockLevelConstraints (envOf intcs) A.dom (A.univ key.base)
        (gaOf A intcs (constructAst b.ins) key (b.ins.length + 1)) (envOf intcs) key (fblockView b n) := by
  unfold blockConstraint Generated.blockLevelConstraints
  simp only [Id.run, fblockView, insViews]
  simp only [List.forIn_cons, List.forIn_nil, pure_bind, bind_pure_comp]
  simp
  symm
  apply forIn_yield
  intro ip hip y
  obtain ⟨i, p⟩ := ip
  have hp : p < b.ins.length ∧ b.ins[p]? = some i := by
    have := List.mem_zipIdx hip
    simp at this
    obtain ⟨h1, h2⟩ := this
    exact ⟨h1, by rw [List.getElem?_eq_getElem h1, h2]⟩
  obtain ⟨hp1, hp2⟩ := hp
  have hop : (constructAst b.ins).opOf p = i.op := by
    rw [EvalRun.opOf_constructAst b.ins p hp1]
    simp [List.getElem!_eq_getElem?_getD, hp2]
  have har := arity_constructAst b.ins p
  rw [hop] at har
  simp only [tree_arg, tree_isUnknown, tree_instruction, isIntPush_tie]
  cases hio : i.op <;> simp [isClass, pyClass, condArg]
  all_goals (try rfl)
  case cmp c => cases c <;> simp <;> rfl
  case assert =>
    rw [hio] at har
    obtain ⟨r, hargs⟩ := len1 _ har
    simp only [hargs]
    rcases r with _ | ⟨q, o⟩
    · simp
    · simp [gaOf, tree_pos]
  case ret =>
    rw [hio] at har
    obtain ⟨r, hargs⟩ := len1 _ har
    simp only [hargs]
    rcases r with _ | ⟨q, o⟩
    · simp
    · simp only [List.getElem?_cons_zero, Option.getD_some, tree_instruction]
      obtain ⟨v, hv⟩ : ∃ v, intPush intcs ((constructAst b.ins).opOf q) = v := ⟨_, rfl⟩
      simp only [ipOf, hv]
      rcases v with _ | _ | iv
      · simp [gaOf, tree_pos]
      · simp [gaOf, tree_pos, isIntLit]
      · cases iv <;> simp [gaOf, tree_pos, isIntLit, litOf]
        split <;> rfl

/-- what `_path_level_constraints` reads of the predecessor block -/
def predView (pred : FBlock) (nextGlobal : List Nat) (n : Nat) : PyView.PyBlock :=
  { (default : PyView.PyBlock) with
    exitInstr := { op := pred.exitOp.getD .err, sv := treeOf (constructAst pred.ins) (n + 1) (some (pred.ins.length - 1, 0)) },
    exitInstrNextLen := pred.exitNexts, next := pred.next, nextGlobal := nextGlobal }

theorem id_pure_app {α β : Type} (f : α → β) (x : α) : (pure f : Id (α → β)) x = f x := rfl

theorem first_loop {V : Type} (L : List Nat) (u : V) (init : Nat → Option V) (succ : Nat) :
    (L.foldl (fun pc b => dictSet pc b u) init) succ = if succ ∈ L then some u else init succ := by
  induction L generalizing init with
  | nil => simp
  | cons x xs ih =>
    simp only [List.foldl_cons, ih, List.mem_cons]
    by_cases h1 : succ ∈ xs
    · simp [h1]
    · by_cases h2 : succ = x
      · subst h2; simp [h1, dictSet]
      · simp [h1, h2, dictSet]

theorem path_tie (A : Analysis D) (intcs : Option (List Nat)) (pred : FBlock) (key : Key) (n : Nat) (nextGlobal : List Nat)
    (succ : Nat) (hs : succ ∈ nextGlobal) (hne : pred.next ≠ []) :
    Generated.pathLevelConstraints (envOf intcs) A.dom (A.univ key.base)
        (gaOf A intcs (constructAst pred.ins) key (pred.ins.length + 1)) (envOf intcs) key (predView pred nextGlobal n) succ =
      some (pathConstraint A intcs pred succ key) := by
  unfold Generated.pathLevelConstraints pathConstraint
  simp only [Id.run, predView]
  simp
  have hfl := fun (init : Nat → Option D) => first_loop nextGlobal (A.univ key.base) init succ
  cases hex : pred.exitOp with
  | none =>
    simp [isClass, pyClass]
    exact (hfl _).trans (if_pos hs)
  | some op =>
    have hlast : pred.ins.length - 1 < pred.ins.length ∧ (constructAst pred.ins).opOf (pred.ins.length - 1) = op := by
      unfold FBlock.exitOp at hex
      rw [List.getLast?_eq_getElem?] at hex
      cases hl : pred.ins[pred.ins.length - 1]? with
      | none => simp [hl] at hex
      | some i =>
        have hlt : pred.ins.length - 1 < pred.ins.length := by
          by_contra hc
          have : pred.ins[pred.ins.length - 1]? = none := List.getElem?_eq_none (Nat.le_of_not_lt hc)
          rw [this] at hl; cases hl
        refine ⟨hlt, ?_⟩
        rw [EvalRun.opOf_constructAst pred.ins _ hlt]
        simp [hl] at hex
        simp [List.getElem!_eq_getElem?_getD, hl, hex]
    have har := arity_constructAst pred.ins (pred.ins.length - 1)
    rw [hlast.2] at har
    simp only [Option.getD_some]
    have hfl' : List.foldl (fun b a => dictSet b a (A.univ key.base)) (fun _ => none) nextGlobal succ = some (A.univ key.base) :=
      (hfl _).trans (if_pos hs)
    cases op
    case bz l =>
      obtain ⟨r, hargs⟩ := len1 _ har
      simp only [tree_arg, tree_isUnknown, hargs, condArg]
      rcases r with _ | ⟨q, o⟩
      · simp [isClass, pyClass]
        exact (hfl _).trans (if_pos hs)
      · simp [isClass, pyClass, gaOf, tree_pos]
        have hfl' : List.foldl (fun b a => dictSet b a (A.univ key.base)) (fun _ => none) nextGlobal succ = some (A.univ key.base) :=
          (hfl _).trans (if_pos hs)
        rcases hn : pred.next with _ | ⟨d, _ | ⟨j, tl⟩⟩
        · exact absurd hn hne
        · by_cases h1 : 1 < pred.exitNexts
          · simp [h1]; exact hfl'
          · simp [h1]
            by_cases hd : succ = d
            · subst hd; simp [dictSet, id_pure_app]
            · have : ¬ d = succ := fun e => hd e.symm
              simp [dictSet, hd, this, hfl', id_pure_app]
        · simp
          by_cases hd : succ = d
          · subst hd; simp [dictSet, id_pure_app]
          · have hd' : ¬ d = succ := fun e => hd e.symm
            by_cases hj : succ = j
            · subst hj; simp [dictSet, hd, hd', id_pure_app]
            · have hj' : ¬ j = succ := fun e => hj e.symm
              simp [dictSet, hd, hd', hj, hj', hfl', id_pure_app]

    case bnz l =>
      obtain ⟨r, hargs⟩ := len1 _ har
      simp only [tree_arg, tree_isUnknown, hargs, condArg]
      rcases r with _ | ⟨q, o⟩
      · simp [isClass, pyClass]
        exact (hfl _).trans (if_pos hs)
      · simp [isClass, pyClass, gaOf, tree_pos]
        have hfl' : List.foldl (fun b a => dictSet b a (A.univ key.base)) (fun _ => none) nextGlobal succ = some (A.univ key.base) :=
          (hfl _).trans (if_pos hs)
        rcases hn : pred.next with _ | ⟨d, _ | ⟨j, tl⟩⟩
        · exact absurd hn hne
        · by_cases h1 : 1 < pred.exitNexts
          · simp [h1]; exact hfl'
          · simp [h1]
            by_cases hd : succ = d
            · subst hd; simp [dictSet, id_pure_app]
            · have : ¬ d = succ := fun e => hd e.symm
              simp [dictSet, hd, this, hfl', id_pure_app]
        · simp
          by_cases hd : succ = d
          · subst hd; simp [dictSet, id_pure_app]
          · have hd' : ¬ d = succ := fun e => hd e.symm
            by_cases hj : succ = j
            · subst hj; simp [dictSet, hd, hd', id_pure_app]
            · have hj' : ¬ j = succ := fun e => hj e.symm
              simp [dictSet, hd, hd', hj, hj', hfl', id_pure_app]

    case cmp c => cases c <;> simp [isClass, pyClass, id_pure_app] <;> exact hfl'
    all_goals (simp [isClass, pyClass, id_pure_app]; exact hfl')

end Tealer.TieF
