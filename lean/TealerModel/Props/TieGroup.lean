/-
  Tie between the model of the group verdict loop (Group.groupVerdict, about which C13_group_verdict_iff / C13_cleared_spec are
  proved) and the loop of detectors/utils.py detect_missing_tx_field_validations_group_complete REGENERATED from /repo's Python on
  every run (Generated/GroupLoop.lean, the body for one group).
-/
import TealerModel.Generated.GroupLoop
set_option linter.unusedSimpArgs false
set_option linter.unusedVariables false
namespace Tealer.TieG
open Group

/-- `group_txn.group_relative_indexes[txn].items()`: the table `fill_group_relative_indexes` builds (model: `fillRelative`), with the
    other transaction looked up by its id -/
def relItemsOf (txns : List GTxn) (t : GTxn) : List (GTxn × Int) :=
  (fillRelative (txns.map fun o => (o.id, o.offsets)) t.id).filterMap fun (oid, k) => (txns.find? (·.id == oid)).map fun o => (o, k)

/-- a loop that sets `checked = True` and breaks at the first hit computes `any` -/
theorem any_loop {α : Type} (c1 c2 : α → Bool) (l : List α) :
    (forIn (m := Id) l false fun x s =>
        if c1 x = true then pure (ForInStep.done true)
        else if c2 x = true then pure (ForInStep.done true) else pure (ForInStep.yield s)) =
      pure (l.any fun x => c1 x || c2 x) := by
  induction l with
  | nil => rfl
  | cons x xs ih =>
    simp only [List.forIn_cons, List.any_cons]
    by_cases h1 : c1 x = true
    · simp [h1]
    · by_cases h2 : c2 x = true
      · simp [h1, h2]
      · simp only [h1, h2, Bool.false_eq_true, if_false, pure_bind]
        rw [ih]
        simp [h1, h2]

/-- a loop that skips (`continue`) or reports each transaction computes a filter -/
theorem filter_loop (keep : GTxn → Bool) (body : GTxn → Bool × List Nat → Id (ForInStep (Bool × List Nat)))
    (hbody : ∀ t s, body t s = pure (ForInStep.yield (if keep t = true then (true, s.2 ++ [t.id]) else (s.1, s.2)))) :
    ∀ (txns : List GTxn) (s : Bool × List Nat),
      forIn (m := Id) txns s body = pure (s.1 || txns.any keep, s.2 ++ (txns.filter keep).map (·.id)) := by
  intro txns
  induction txns with
  | nil => intro s; simp
  | cons t ts ih =>
    intro s
    simp only [List.forIn_cons, hbody, pure_bind, ih]
    by_cases hk : keep t = true
    · simp [hk]
    · simp [hk]

theorem rel_any (a : Answers) (txns : List GTxn) (t : GTxn) :
    ((relItemsOf txns t).any fun x => (x.1.lsContract && a.atRel x.1.id false x.2) || (x.1.hasApp && a.atRel x.1.id true x.2)) =
      clearedRel a txns t := by
  unfold relItemsOf clearedRel
  generalize fillRelative (txns.map fun o => (o.id, o.offsets)) t.id = L
  induction L with
  | nil => rfl
  | cons p ps ih =>
    obtain ⟨oid, k⟩ := p
    simp only [List.filterMap_cons, List.any_cons]
    cases hf : txns.find? (·.id == oid) with
    | none => simp [hf, ih]
    | some o => simp [hf, ih, anyContract]

/-- THE VERDICT LOOP IS THE PYTHON'S: for one group, the translated loop reports exactly `groupVerdict`, and the group is output
    exactly when that list is not empty -/
theorem group_tie (det : DetType) (a : Answers) (txns : List GTxn) :
    Generated.groupComplete det a (relItemsOf txns) txns = (!(groupVerdict det a txns).isEmpty, groupVerdict det a txns) := by
  unfold Generated.groupComplete
  simp only [Id.run, any_loop]
  rw [filter_loop (fun t => eligible det t && !cleared a txns t)]
  · simp only [pure_bind, Bool.false_or, List.nil_append, groupVerdict]
    congr 1
    cases h : (txns.filter fun t => eligible det t && !cleared a txns t) with
    | nil =>
      have : (txns.any fun t => eligible det t && !cleared a txns t) = false := by
        rw [List.any_eq_false]
        intro x hx
        have := List.filter_eq_nil_iff.1 h x hx
        simpa using this
      simp [this]
    | cons x xs =>
      have hx : x ∈ txns.filter fun t => eligible det t && !cleared a txns t := by rw [h]; simp
      have := List.mem_filter.1 hx
      have : (txns.any fun t => eligible det t && !cleared a txns t) = true := List.any_eq_true.2 ⟨x, this.1, this.2⟩
      simp [this]
  · intro t s
    simp only [rel_any, pure_bind]
    have habs : clearedAbs a txns t = (t.absIndex.isSome && txns.any fun o =>
        (o.lsContract && a.atAbs o.id false (t.absIndex.getD 0)) || (o.hasApp && a.atAbs o.id true (t.absIndex.getD 0))) := by
      unfold clearedAbs
      cases t.absIndex <;> simp [anyContract]
    simp only [cleared, clearedOwn, anyContract, habs, eligible]
    generalize (txns.any fun o => (o.lsContract && a.atAbs o.id false (t.absIndex.getD 0)) || (o.hasApp && a.atAbs o.id true (t.absIndex.getD 0))) = X
    generalize clearedRel a txns t = Y
    generalize a.own t.id false = o1
    generalize a.own t.id true = o2
    generalize t.absIndex.isSome = ab
    cases det <;> cases t.hasLogicSig <;> cases t.hasApp <;> cases t.typeOk <;> cases t.lsContract <;> cases o1 <;> cases o2 <;>
      cases ab <;> cases X <;> cases Y <;> rfl

end Tealer.TieG
