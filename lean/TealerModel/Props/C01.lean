/-
  C01 — Detectors never miss an approvable dangerous transaction.
  The chain is proved layer by layer; this file holds the detector layer and the composition statement.
    execution trace  --(C04, checked per run)-->  matched walk of the global graph
    --(C06-C10: leaf lemmas + flow soundness of any solution + worklist returns a solution)-->  contexts admit the
      concrete values at every block of the trace
    --(checksField_sound below)-->  no block of the walk is validated
    --(searchPaths_complete)-->  the path is reported.
-/
import TealerModel.Props.TieFlow
import TealerModel.Props.TieAsserted
import TealerModel.Props.TieWorklist
import TealerModel.Lemmas.Dfs
import TealerModel.Props.Common
import TealerModel.Lemmas.Asserted
import TealerModel.Props.Tie
import TealerModel.Lemmas.EvalRun
import TealerModel.Lemmas.BlockConstraint
namespace Tealer.C01

/-- a context that admits a fresh address in RekeyTo is not "validated" by rekey-to -/
theorem C01_checks_rekey (s : AddrSet) (c : Ctx) (hc : c.rekeyto = setAddr s) (v : String)
    (hg : Addr.gamma s v) (hfresh : ¬ v ∈ s) : checksField .rekeyTo c = false := by
  simp only [checksField, hc, setAddr]
  rcases hg.2 with h | h
  · simp [h]
  · exact absurd h hfresh

theorem C01_checks_closeAccount (s : AddrSet) (c : Ctx) (hc : c.closeto = setAddr s) (v : String)
    (hg : Addr.gamma s v) (hfresh : ¬ v ∈ s) (hpay : TT.Pay ∈ c.types) : checksField .canCloseAccount c = false := by
  simp only [checksField, hc, setAddr]
  rcases hg.2 with h | h
  · simp [h, hpay]
  · exact absurd h hfresh

theorem C01_checks_closeAsset (s : AddrSet) (c : Ctx) (hc : c.assetcloseto = setAddr s) (v : String)
    (hg : Addr.gamma s v) (hfresh : ¬ v ∈ s) (hax : TT.Axfer ∈ c.types) : checksField .canCloseAsset c = false := by
  simp only [checksField, hc, setAddr]
  rcases hg.2 with h | h
  · simp [h, hax]
  · exact absurd h hfresh

/-- a context that admits a fee above the group-cost bound is not validated by missing-fee-check -/
theorem C01_checks_fee (v : FeeValue) (c : Ctx)
    (hc : c.maxFee = (if v.isUnknown then MAX_UINT64 else v.value) ∧ c.maxFeeUnknown = v.isUnknown)
    (fee : Nat) (hg : Fee.gamma v fee) (hbig : fee > MAX_TRANSACTION_COST) : checksField .feeCheck c = false := by
  cases v with | mk u x =>
  cases u <;> simp_all [checksField, Fee.gamma] <;> omega

theorem C01_checks_update (c : Ctx) (h : TT.ApplUpdateApplication ∈ c.types) : checksField .isUpdatable c = false := by
  simp [checksField, h]
theorem C01_checks_delete (c : Ctx) (h : TT.ApplDeleteApplication ∈ c.types) : checksField .isDeletable c = false := by
  simp [checksField, h]
theorem C01_checks_anyUpdate (s : AddrSet) (c : Ctx) (hc : c.sender = setAddr s) (v : String) (hg : Addr.gamma s v)
    (hfresh : ¬ v ∈ s) (h : TT.ApplUpdateApplication ∈ c.types) : checksField .anyoneCanUpdate c = false := by
  simp only [checksField, hc, setAddr]
  rcases hg.2 with h' | h'
  · simp [h, h']
  · exact absurd h' hfresh
theorem C01_checks_anyDelete (s : AddrSet) (c : Ctx) (hc : c.sender = setAddr s) (v : String) (hg : Addr.gamma s v)
    (hfresh : ¬ v ∈ s) (h : TT.ApplDeleteApplication ∈ c.types) : checksField .anyoneCanDelete c = false := by
  simp only [checksField, hc, setAddr]
  rcases hg.2 with h' | h'
  · simp [h, h']
  · exact absurd h' hfresh
theorem C01_checks_groupSize (c : Ctx) (hs : MAX_GROUP_SIZE ∈ c.sizes) (hg : c.isGtxn = false) :
    checksField .groupSize c = false := by
  simp [checksField, hs, hg]

/-- validated_in_block: a block is NOT validated as soon as the own-field context fails the check and so does the
    at-index context of one possible own index -/
theorem C01_not_validated (chk : Ctx → Bool) (c : BlockCtx) (i : Nat) (hself : chk c.self = false)
    (hi : i ∈ c.self.indices) (hat : chk (c.gtxn i) = false) : validatedInBlock chk c = false := by
  simp only [validatedInBlock, hself, Bool.false_eq_true, if_false]
  simp only [List.all_eq_false]
  exact ⟨i, hi, by simp [hat]⟩

/-- detector layer, completeness: a matched walk from the entry to a leaf on which no block is validated (and
    which respects the loop / recursion cuts) is among the reported paths -/
theorem C01_search_complete (g : DGraph) (entry : Nat) (main : String) (rest : List Nat)
    (hw : Dfs.Walk g [(none, main)] [[]] entry rest) (fuel : Nat) (hf : rest.length < fuel) (ps : List (List Nat))
    (h : searchPaths g fuel entry [] [(none, main)] [[]] = some ps) : ps ≠ [] := by
  have := Dfs.searchPaths_complete g _ _ _ _ hw fuel [] ps hf h
  intro he; subst he; cases this

/-- condition layer: for each of the four analyses, `_get_asserted` (And / Or / Not combination with flattening and unknown
    operands) is sound whenever the leaf matcher is: a condition that evaluates to non-zero puts the governed value in
    γ(true set), one that evaluates to zero in γ(false set); an unknown operand may take either truth value -/
theorem C01_condition_sound_fee (ic : Option (List Nat)) (a : Ast) (lv : Nat → Bool) (key : Key) (fee : Nat)
    (hfee : fee ≤ MAX_UINT64)
    (hs : ∀ p, (lv p = true → Fee.gamma (feeAnalysis.single ic a key p).1 fee) ∧ (lv p = false → Fee.gamma (feeAnalysis.single ic a key p).2 fee))
    (n p o : Nat) (b : Bool) (h : Asserted.Eval a lv (some (p, o)) b) :
    (b = true → Fee.gamma (getAsserted feeAnalysis ic a key n p).1 fee) ∧
    (b = false → Fee.gamma (getAsserted feeAnalysis ic a key n p).2 fee) :=
  Asserted.getAsserted_sound feeLaws ic key fee (Fee.univ_top fee hfee) hs n p o b h

theorem C01_condition_sound_sets (ic : Option (List Nat)) (a : Ast) (lv : Nat → Bool) (key : Key) (v : Nat)
    (hv : v ∈ groupIndicesAnalysis.univ key.base)
    (hs : ∀ p, (lv p = true → v ∈ (groupIndicesAnalysis.single ic a key p).1) ∧ (lv p = false → v ∈ (groupIndicesAnalysis.single ic a key p).2))
    (n p o : Nat) (b : Bool) (h : Asserted.Eval a lv (some (p, o)) b) :
    (b = true → v ∈ (getAsserted groupIndicesAnalysis ic a key n p).1) ∧
    (b = false → v ∈ (getAsserted groupIndicesAnalysis ic a key n p).2) :=
  Asserted.getAsserted_sound groupIndicesLaws ic key v hv hs n p o b h

theorem C01_condition_sound_addr (ic : Option (List Nat)) (a : Ast) (lv : Nat → Bool) (key : Key) (x : String)
    (hs : ∀ p, (lv p = true → Addr.gamma (addrAnalysis.single ic a key p).1 x) ∧ (lv p = false → Addr.gamma (addrAnalysis.single ic a key p).2 x))
    (n p o : Nat) (b : Bool) (h : Asserted.Eval a lv (some (p, o)) b) :
    (b = true → Addr.gamma (getAsserted addrAnalysis ic a key n p).1 x) ∧
    (b = false → Addr.gamma (getAsserted addrAnalysis ic a key n p).2 x) :=
  Asserted.getAsserted_sound addrLaws ic key x (Addr.univ_top x) hs n p o b h

/-- flow layer for the fee analysis, composed with the solver: what `solveFwd` returns bounds every approvable fee along an
    accepting trace (the same statement holds for the other three analyses through `solver_forward_sound`) -/
theorem C01_solver_forward_sound_fee (g : Graph) (bc : Nat → FeeValue) (pc : Nat → Nat → FeeValue)
    (hwf : Solver.fwdWF g = true) (r : List (Nat × FeeValue)) (h : solveFwd feeAnalysis g feeUniv bc pc = some r)
    (fee : Nat) (tr : List Nat) (ht : Flow.FwdTrace g Fee.gamma feeUniv bc pc fee tr) (hkeys : ∀ b ∈ tr, b ∈ g.keys) :
    ∀ i, i < tr.length → Fee.gamma (getMap r tr[i]! feeNull) fee :=
  solver_forward_sound feeLaws g feeUniv bc pc hwf r h fee tr ht hkeys

/-- both passes, any of the four analyses: what `solve` (forward_analyis then backward_analysis) RETURNS for a key admits
    the concrete value at every block of an accepting block trace — a trace that starts at the entry, follows recorded
    edges, ends in its only leaf, returns from every call whose callee can return, and along which the block and edge
    constraints hold.  Premises on the graph are the decidable conditions `fwdWF` / `bwdWF`. -/
theorem C01_solver_sound {D V : Type} [DecidableEq D] {A : Analysis D} {γ : D → V → Prop} (L : Flow.GammaLaws A γ)
    (g : Graph) (univ : D) (bc : Nat → D) (pc : Nat → Nat → D)
    (hwf1 : Solver.fwdWF g = true) (hwf2 : Solver.bwdWF g = true)
    (r : List (Nat × D)) (h : solve A g univ bc pc = .ok r) (v : V) (tr : List Nat)
    (ht1 : Flow.FwdTrace g γ univ bc pc v tr) (hkeys : ∀ b ∈ tr, b ∈ g.keys)
    (hshape : tr ≠ [] ∧ g.isLeaf tr[tr.length - 1]! = true ∧ (∀ i, i + 1 < tr.length → g.isLeaf tr[i]! = false) ∧
      (∀ i, i + 1 < tr.length → tr[i+1]! ∈ g.nextG tr[i]!) ∧
      (∀ i, i < tr.length → ∀ r, g.retPointOf tr[i]! = some r → g.calleeHasRetsub tr[i]! = true →
        ∃ j, i < j ∧ j < tr.length ∧ tr[j]! = r)) :
    ∀ i, i < tr.length → γ (getMap r tr[i]! A.dom.null) v :=
  solver_sound L g univ bc pc hwf1 hwf2 r h v tr ht1 hkeys hshape

theorem C01_solver_sound_fee (g : Graph) (bc : Nat → FeeValue) (pc : Nat → Nat → FeeValue)
    (hwf1 : Solver.fwdWF g = true) (hwf2 : Solver.bwdWF g = true)
    (r : List (Nat × FeeValue)) (h : solve feeAnalysis g feeUniv bc pc = .ok r) (fee : Nat) (tr : List Nat)
    (ht1 : Flow.FwdTrace g Fee.gamma feeUniv bc pc fee tr) (hkeys : ∀ b ∈ tr, b ∈ g.keys)
    (hshape : tr ≠ [] ∧ g.isLeaf tr[tr.length - 1]! = true ∧ (∀ i, i + 1 < tr.length → g.isLeaf tr[i]! = false) ∧
      (∀ i, i + 1 < tr.length → tr[i+1]! ∈ g.nextG tr[i]!) ∧
      (∀ i, i < tr.length → ∀ r, g.retPointOf tr[i]! = some r → g.calleeHasRetsub tr[i]! = true →
        ∃ j, i < j ∧ j < tr.length ∧ tr[j]! = r)) :
    ∀ i, i < tr.length → Fee.gamma (getMap r tr[i]! feeNull) fee :=
  solver_sound feeLaws g feeUniv bc pc hwf1 hwf2 r h fee tr ht1 hkeys hshape

/-- the fields of the model's context that the translated predicates read -/
def toGCtx (c : Ctx) : Generated.GCtx :=
  { rekeytoAny := c.rekeyto.any, closetoAny := c.closeto.any, assetclosetoAny := c.assetcloseto.any, senderAny := c.sender.any,
    types := c.types, maxFee := c.maxFee, maxFeeUnknown := c.maxFeeUnknown }

/-- tie to today's source, detector predicates: the model's `checksField` of the eight field detectors is, for every
    context, the nested `checks_field` function of the detector class as translated from its Python AST on this run
    (enum numbers and MAX_TRANSACTION_COST read from /repo) -/
theorem C01_tie_predicates (c : Ctx) :
    checksField .rekeyTo c = Generated.checks_rekeyTo (toGCtx c) ∧
    checksField .canCloseAccount c = Generated.checks_canCloseAccount (toGCtx c) ∧
    checksField .canCloseAsset c = Generated.checks_canCloseAsset (toGCtx c) ∧
    checksField .feeCheck c = Generated.checks_feeCheck (toGCtx c) ∧
    checksField .isUpdatable c = Generated.checks_isUpdatable (toGCtx c) ∧
    checksField .isDeletable c = Generated.checks_isDeletable (toGCtx c) ∧
    checksField .anyoneCanUpdate c = Generated.checks_anyoneCanUpdate (toGCtx c) ∧
    checksField .anyoneCanDelete c = Generated.checks_anyoneCanDelete (toGCtx c) := by
  refine ⟨?_, ?_, ?_, ?_, ?_, ?_, ?_, ?_⟩ <;>
    simp [checksField, toGCtx, Generated.checks_rekeyTo, Generated.checks_canCloseAccount, Generated.checks_canCloseAsset,
      Generated.checks_feeCheck, Generated.checks_isUpdatable, Generated.checks_isDeletable, Generated.checks_anyoneCanUpdate,
      Generated.checks_anyoneCanDelete, TT.Pay, TT.Axfer, TT.ApplUpdateApplication, TT.ApplDeleteApplication,
      Generated.MAX_TRANSACTION_COST, MAX_TRANSACTION_COST]
  -- the fee predicate: the two sides differ only in the Decidable instance of `≤`
  congr 1

/-- tie to today's source, `validated_in_block`: the model's function is the one translated on this run from
    detectors/utils.py (own context first; then the context at the configured absolute index, or at every index the
    transaction may have) -/
theorem C01_tie_validated (chk : Ctx → Bool) (c : BlockCtx) (i : Option Nat) :
    validatedInBlock chk c i = Generated.validatedInBlock chk c.self c.gtxn c.self.indices i := by
  unfold validatedInBlock Generated.validatedInBlock
  cases i <;> simp

/-- FROM THE CONCRETE RUN TO THE ASSERTED SETS.  For any straight run of the concrete machine through the first `k`
    instructions (dedicated opcodes) of a block there is an assignment `valOf` of the values really pushed to the producer
    references of the block's stack AST such that, for every analysis whose domain over-approximates (`GammaLaws`) and whose
    leaf matcher is sound for the ACTUAL truth of the leaves ("the value the leaf instruction pushed is non-zero"), the sets
    `_get_asserted` computes for any single-output instruction `p` of the run admit the governed value `v`: the true set when
    the value the AVM pushed at `p` is non-zero, the false set when it is zero.  This composes the value-level simulation
    (`C11_block_operands`), the realisation of the condition tree (`EvalRun.eval_realized`) and `getAsserted_sound`; what
    remains per domain is the soundness of the leaf matcher itself (C06-C09). -/
theorem C01_asserted_of_run {D V : Type} [DecidableEq D] {A : Analysis D} {γ : D → V → Prop} (L : Flow.GammaLaws A γ)
    (prog : List Ins) (e : Avm.Env) (blockIns : List Ins) (pc0 k : Nat) (st : Nat → Avm.State)
    (hrun : OperandValues.BlockRun prog e blockIns pc0 k st) :
    ∃ valOf : Nat × Nat → Avm.Val,
      (∀ j, j < k → ∀ i, i < (blockIns[j]!).op.pushes →
        (st (j + 1)).stack[(st j).stack.length - (blockIns[j]!).op.pops + i]? = some (valOf (j, i))) ∧
      ∀ (ic : Option (List Nat)) (key : Key) (v : V), γ (A.univ key.base) v →
        (∀ p, (EvalRun.truthy (valOf (p, 0)) = true → γ (A.single ic (constructAst blockIns) key p).1 v) ∧
              (EvalRun.truthy (valOf (p, 0)) = false → γ (A.single ic (constructAst blockIns) key p).2 v)) →
        ∀ n p, p < k → (blockIns[p]!).op.pushes = 1 →
          (EvalRun.truthy (valOf (p, 0)) = true → γ (getAsserted A ic (constructAst blockIns) key n p).1 v) ∧
          (EvalRun.truthy (valOf (p, 0)) = false → γ (getAsserted A ic (constructAst blockIns) key n p).2 v) := by
  obtain ⟨valOf, hout, _, _, hev⟩ := EvalRun.eval_realized prog e blockIns pc0 st k hrun
  refine ⟨valOf, hout, ?_⟩
  intro ic key v huniv hs n p hp hpush
  exact Asserted.getAsserted_sound L ic key v huniv hs n p 0 _ (hev p hp hpush)

/-- THE BLOCK-LEVEL CONSTRAINT ADMITS WHAT A RUN THROUGH THE BLOCK APPROVES.  For a straight run of the concrete machine
    through all instructions of a block (one that ends in a branch, a call or falls through: every `assert` passed), the
    constraint `_block_level_constraints` computes for any key admits the governed value — for every domain that
    over-approximates and every leaf matcher sound for the actual leaf truths (`valOf` = the values really pushed). -/
theorem C01_block_constraint_of_run {D V : Type} [DecidableEq D] {A : Analysis D} {γ : D → V → Prop}
    (L : Flow.GammaLaws A γ) (prog : List Ins) (e : Avm.Env) (b : FBlock) (pc0 : Nat) (st : Nat → Avm.State)
    (hrun : OperandValues.BlockRun prog e b.ins pc0 b.ins.length st) :
    ∃ valOf : Nat × Nat → Avm.Val,
      (∀ j, j < b.ins.length → ∀ i, i < (b.ins[j]!).op.pushes →
        (st (j + 1)).stack[(st j).stack.length - (b.ins[j]!).op.pops + i]? = some (valOf (j, i))) ∧
      ∀ (ic : Option (List Nat)) (key : Key) (v : V), γ (A.univ key.base) v →
        (∀ p, (EvalRun.truthy (valOf (p, 0)) = true → γ (A.single ic (constructAst b.ins) key p).1 v) ∧
              (EvalRun.truthy (valOf (p, 0)) = false → γ (A.single ic (constructAst b.ins) key p).2 v)) →
        γ (blockConstraint A ic b key) v :=
  BlockConstraint.whole_block_sound L prog e b pc0 st hrun

/-- THE EDGE CONSTRAINT ADMITS THE VALUE ON THE EDGE THE RUN TAKES.  For a straight run through all instructions of a block:
    if `succ` is recorded as the fall-through successor only when the final `bz` / `bnz` fell through, and as the jump
    successor only when it jumped (what `C04_edge_order` / `C04_execution_walk` say of real traces), then the constraint
    `_path_level_constraints` stores on the edge to `succ` admits the governed value. -/
theorem C01_edge_constraint_of_run {D V : Type} [DecidableEq D] {A : Analysis D} {γ : D → V → Prop}
    (L : Flow.GammaLaws A γ) (prog : List Ins) (e : Avm.Env) (b : FBlock) (pc0 : Nat) (st : Nat → Avm.State)
    (hrun : OperandValues.BlockRun prog e b.ins pc0 b.ins.length st) (hne : b.ins ≠ []) :
    ∃ (valOf : Nat × Nat → Avm.Val),
      ∀ (ic : Option (List Nat)) (key : Key) (v : V) (succ : Nat), γ (A.univ key.base) v →
        (∀ p, (EvalRun.truthy (valOf (p, 0)) = true → γ (A.single ic (constructAst b.ins) key p).1 v) ∧
              (EvalRun.truthy (valOf (p, 0)) = false → γ (A.single ic (constructAst b.ins) key p).2 v)) →
        (∀ l r n, (b.ins[b.ins.length - 1]!).op = .bz l → (st (b.ins.length - 1)).stack = r ++ [.int n] →
          ((BlockConstraint.edgesOf b).1 = some succ → n ≠ 0) ∧
          ((BlockConstraint.edgesOf b).1 ≠ some succ → (BlockConstraint.edgesOf b).2 = some succ → n = 0)) →
        (∀ l r n, (b.ins[b.ins.length - 1]!).op = .bnz l → (st (b.ins.length - 1)).stack = r ++ [.int n] →
          ((BlockConstraint.edgesOf b).1 = some succ → n = 0) ∧
          ((BlockConstraint.edgesOf b).1 ≠ some succ → (BlockConstraint.edgesOf b).2 = some succ → n ≠ 0)) →
        γ (pathConstraint A ic b succ key) v :=
  BlockConstraint.pathConstraint_sound L prog e b pc0 st hrun hne

/-- THE BLOCK THAT APPROVES.  A straight run through all instructions of a block but the last, whose last instruction is a
    `return` on which the machine approves: the block-level constraint admits the governed value (the returned value not
    being the literal the tool reads as `return 0`).  With `C01_block_constraint_of_run` and `C01_edge_constraint_of_run`
    this covers every block and edge constraint along an approving execution, block by block. -/
theorem C01_accepting_block_of_run {D V : Type} [DecidableEq D] {A : Analysis D} {γ : D → V → Prop}
    (L : Flow.GammaLaws A γ) (prog : List Ins) (e : Avm.Env) (b : FBlock) (pc0 : Nat) (st : Nat → Avm.State)
    (hne : b.ins ≠ []) (hrun : OperandValues.BlockRun prog e b.ins pc0 (b.ins.length - 1) st)
    (hlast : (b.ins[b.ins.length - 1]!).op = .ret)
    (hcode : prog[pc0 + (b.ins.length - 1)]? = some (b.ins[b.ins.length - 1]!))
    (hacc : Avm.step prog e (st (b.ins.length - 1)) = .accept) :
    ∃ valOf : Nat × Nat → Avm.Val,
      ∀ (ic : Option (List Nat)) (key : Key) (v : V), γ (A.univ key.base) v →
        (∀ p, (EvalRun.truthy (valOf (p, 0)) = true → γ (A.single ic (constructAst b.ins) key p).1 v) ∧
              (EvalRun.truthy (valOf (p, 0)) = false → γ (A.single ic (constructAst b.ins) key p).2 v)) →
        (∀ q, condArg (constructAst b.ins) (b.ins.length - 1) = some q →
          intPush ic ((constructAst b.ins).opOf q) ≠ some (some (.lit 0))) →
        γ (blockConstraint A ic b key) v :=
  BlockConstraint.accepting_block_sound L prog e b pc0 st hne hrun hlast hcode hacc

/-- the premises of the run-based theorems are satisfiable: a concrete straight run (fee 500 through `txn Fee; int 1000; <;
    assert`) is a `BlockRun` of four steps -/
def sampleBlock : List Ins :=
  [⟨1, .txn "Fee", ""⟩, ⟨2, .int (.lit 1000), ""⟩, ⟨3, .cmp .lt, ""⟩, ⟨4, .assert, ""⟩, ⟨5, .int (.lit 1), ""⟩, ⟨6, .ret, ""⟩]
def sampleEnv : Avm.Env := { size := 1, self := 0, txns := [⟨[("Fee", .int 500)]⟩] }
def sampleStates : Nat → Avm.State
  | 0 => {}
  | j + 1 => match Avm.step sampleBlock sampleEnv (sampleStates j) with | .next s => s | _ => sampleStates j

example : OperandValues.BlockRun sampleBlock sampleEnv sampleBlock 0 4 sampleStates := by
  refine ⟨by decide, ?_, ?_, ?_, ?_⟩
  · intro j hj
    have : j = 0 ∨ j = 1 ∨ j = 2 ∨ j = 3 := by omega
    rcases this with rfl | rfl | rfl | rfl <;> rfl
  · intro j hj
    have : j = 0 ∨ j = 1 ∨ j = 2 ∨ j = 3 ∨ j = 4 := by omega
    rcases this with rfl | rfl | rfl | rfl | rfl <;> rfl
  · intro j hj
    have : j = 0 ∨ j = 1 ∨ j = 2 ∨ j = 3 := by omega
    rcases this with rfl | rfl | rfl | rfl <;> rfl
  · intro j hj n a b
    have : j = 0 ∨ j = 1 ∨ j = 2 ∨ j = 3 := by omega
    rcases this with rfl | rfl | rfl | rfl <;> simp [sampleBlock]

example : checksField .feeCheck { maxFee := 1000 } = true ∧ checksField .feeCheck {} = false := by decide

/-- THE BLOCK-LEVEL AND EDGE CONSTRAINTS ARE THE PYTHON'S.  `_block_level_constraints` (assert / return / err, the
    `int 0; return` case) and `_path_level_constraints` (which edge of a bz / bnz gets which side, the branch to the next
    instruction), translated statement by statement from /repo's Python on this run for one analysis key, compute exactly the
    model's `blockConstraint` and `pathConstraint`, for every analysis, key, block and successor -/
theorem C01_tie_constraints {D : Type} [DecidableEq D] (A : Analysis D) (intcs : Option (List Nat)) (b : FBlock) (key : Key) (n : Nat) :
    blockConstraint A intcs b key =
        Generated.blockLevelConstraints (TieM.envOf intcs) A.dom (A.univ key.base)
          (TieF.gaOf A intcs (constructAst b.ins) key (b.ins.length + 1)) (TieM.envOf intcs) key (TieF.fblockView b n) ∧
      ∀ (nextGlobal : List Nat) (succ : Nat), succ ∈ nextGlobal → b.next ≠ [] →
        Generated.pathLevelConstraints (TieM.envOf intcs) A.dom (A.univ key.base)
            (TieF.gaOf A intcs (constructAst b.ins) key (b.ins.length + 1)) (TieM.envOf intcs) key (TieF.predView b nextGlobal n) succ =
          some (pathConstraint A intcs b succ key) :=
  ⟨TieF.block_tie A intcs b key n, fun ng succ hs hne => TieF.path_tie A intcs b key n ng succ hs hne⟩

/-- THE TRANSFER FUNCTIONS ARE THE PYTHON'S.  `_calculate_reachin` (union over the global predecessors of reach-out ∩ edge
    constraint, intersected with the call site's reach-out at a return point) and `_calculate_livein` (union over the global
    successors, intersected with the return point's live-out at a call site whose callee returns), translated from /repo's
    Python on this run, are the equations `fwdF` / `bwdF` the solver theorems are about -/
theorem C01_tie_transfer_functions {D : Type} [DecidableEq D] (A : Analysis D) (g : Graph) (univ : D) (bc : Nat → D) (pc : Nat → Nat → D)
    (cur : List (Nat × D)) (b : Nat) (E : PyView.Env) (key : Key) :
    fwdF A g univ bc pc cur b =
        A.dom.inter (Generated.calculateReachin A.dom univ (pc b) E key (TieF.graphBlock g b) (fun k => getMap cur k A.dom.null)) (bc b) ∧
      bwdF A g bc cur b =
        (if g.isLeaf b then getMap cur b A.dom.null
         else A.dom.inter (Generated.calculateLivein A.dom univ E key (TieF.graphBlock g b) (fun k => getMap cur k A.dom.null)) (bc b)) :=
  ⟨TieF.reachin_tie A g univ bc pc cur b E key, TieF.livein_tie A g univ bc cur b E key⟩

/-- `_get_asserted` IS THE PYTHON'S.  The recursion of generic.py over condition trees (`&&` / `||` flattened by
    `compute_equations` / `_flatten_ast`, `!` swapping the two sides, an unknown operand widening one side to the universal set),
    translated statement by statement from /repo's Python on this run (Generated/Asserted.lean; the unbounded recursion bounded by
    fuel), returns - with fuel block length + 3 - exactly the model's `getAsserted`, on every stack value that the translated
    `_block_level_constraints` / `_path_level_constraints` pass to it (the parameter `gaOf` of `C01_tie_constraints`), for every
    analysis whose leaf matcher `single` is the model's (premise; discharged for the address and fee analyses by
    `TieA.single_addr` / `TieA.single_fee` from the translated leaf matchers) -/
theorem C01_tie_get_asserted {D : Type} [DecidableEq D] (A : Analysis D) (intcs : Option (List Nat)) (ins : List Ins) (key : Key)
    (E : PyView.Env) (single : Key → PySV → D × D)
    (hs : ∀ q o, single key (TieA.full (constructAst ins) (some (q, o))) = A.single intcs (constructAst ins) key q)
    (n q o : Nat) (hq : q < ins.length) (hn : ins.length ≤ n) :
    Generated.getAssertedPy A.dom (A.univ key.base) single E (ins.length + 3) key (treeOf (constructAst ins) n (some (q, o))) =
      some (TieF.gaOf A intcs (constructAst ins) key (ins.length + 1) (treeOf (constructAst ins) n (some (q, o)))) :=
  TieA.gaOf_is_python A intcs ins key E single hs n q o hq hn

/-- the same with the leaf matcher included, for the address analysis: nothing of `_get_asserted` is a parameter any more -/
theorem C01_tie_get_asserted_addr (intcs : Option (List Nat)) (ins : List Ins) (key : Key) (n q o : Nat) (hq : q < ins.length)
    (hn : ins.length ≤ n) :
    Generated.getAssertedPy addrAnalysis.dom (addrAnalysis.univ key.base)
        (fun k v => Generated.getAssertedTxnGtxn (TieM.envOf intcs) (TieM.envOf intcs) k v) (TieM.envOf intcs) (ins.length + 3) key
        (treeOf (constructAst ins) n (some (q, o))) =
      some (TieF.gaOf addrAnalysis intcs (constructAst ins) key (ins.length + 1) (treeOf (constructAst ins) n (some (q, o)))) :=
  TieA.getAsserted_tie_addr intcs ins key n q o hq hn

/-- non-vacuity: `txn RekeyTo; global ZeroAddress; ==; !; assert` - the translated Python evaluated by the kernel on the stack
    value of the `!` gives `some` of a pair whose two sides differ -/
example :
    let ins : List Ins := [⟨1, .txn "RekeyTo", "txn RekeyTo"⟩, ⟨2, .global "ZeroAddress", "global ZeroAddress"⟩, ⟨3, .cmp .eq, "=="⟩, ⟨4, .not, "!"⟩, ⟨5, .assert, "assert"⟩]
    (Generated.getAssertedPy addrAnalysis.dom (addrAnalysis.univ "RekeyTo")
        (fun k v => Generated.getAssertedTxnGtxn (TieM.envOf none) (TieM.envOf none) k v) (TieM.envOf none) (ins.length + 3) ⟨"RekeyTo", .self⟩
        (treeOf (constructAst ins) ins.length (some (3, 0)))).map (fun r => r.1 != r.2) = some true := by
  decide +kernel

/-- THE WORKLIST SOLVERS ARE THE PYTHON'S.  `forward_analyis` and `backward_analysis` (with `_merge_information_forward` /
    `_merge_information_backward`: initialisation of the per-key dictionary, the `while worklist:` loop, which blocks are re-queued
    when a block's value changes - global successors plus the return point of a call site, resp. global predecessors plus the call
    site of a return point -, the early exit of the backward merge at leaf blocks), translated statement by statement from /repo's
    Python on this run for one analysis key (Generated/Worklist.lean; `while` = recursion on fuel), compute - with the model's fuel
    and initial worklists - exactly `solveFwd` and `solveBwd`, the functions `C01_solver_sound`, `C03_contexts_exact` and
    `C14_forward_order_independent` are about.  (With several keys the Python re-queues a block when any key changed: another
    schedule of the same equations, immaterial by C14.) -/
theorem C01_tie_worklists {D : Type} [DecidableEq D] (A : Analysis D) (g : Graph) (univ : D) (bc ctx1 : Nat → D) (pc : Nat → Nat → D)
    (E : PyView.Env) (key : Key) :
    Generated.forwardAnalyis A.dom univ bc pc g.keys (TieF.graphBlock g) E key (solverFuel g) (fwdWorklist g) =
        (solveFwd A g univ bc pc).map (TieW.asFun A.dom.null) ∧
      Generated.backwardAnalysis A.dom univ ctx1 pc g.keys (TieF.graphBlock g) E key (solverFuel g) (bwdWorklist g) =
        (solveBwd A g ctx1).map (TieW.asFun A.dom.null) :=
  ⟨TieW.forward_tie A g univ bc pc E key, TieW.backward_tie A g univ ctx1 pc E key⟩

/-- non-vacuity: the translated `forward_analyis`, evaluated by the kernel on a two-block graph (entry 0 -> leaf 1, block 1
    constrained to {2, 3}, the edge to {1, 2}), returns `some` solution with reach-out {1, 2, 3} at the entry and {2} at the leaf -/
example :
    let g : Graph := { keys := [0, 1], entry := 0, nextG := fun k => if k = 0 then [1] else [], prevG := fun k => if k = 1 then [0] else [],
                       isLeaf := fun k => k == 1, retPointOf := fun _ => none, callsubOf := fun _ => none, calleeHasRetsub := fun _ => false,
                       postorders := [[1, 0]] }
    (Generated.forwardAnalyis natSetDomain [1, 2, 3] (fun k => if k = 1 then [2, 3] else [1, 2, 3]) (fun _ _ => [1, 2]) g.keys
        (TieF.graphBlock g) (TieM.envOf none) ⟨"GroupSize", .self⟩ (solverFuel g) (fwdWorklist g)).map (fun r => (r 0, r 1)) =
      some ([1, 2, 3], [2]) := by
  decide +kernel

/-- the views of the translated functions read `isinstance(x, C)` as "x is of class C": right, because on this run no class of
    /repo's instruction / field modules is a subclass of another one the analyses test for (`itxn` is not a `Txn`, `gitxn` not a
    `Gtxn`; only the `intc` family shares `IntcInstruction`) -/
theorem C01_tie_class_hierarchy : Generated.classHierarchy = PyView.classHierarchySpec := Tie.class_hierarchy_tie

end Tealer.C01
