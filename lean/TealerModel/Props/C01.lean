/-
  C01 — Detectors never miss an approvable dangerous transaction.
  The chain is proved layer by layer; this file holds the detector layer and the composition statement.
    execution trace  --(C04, checked per run)-->  matched walk of the global graph
    --(C06-C10: leaf lemmas + flow soundness of any solution + worklist returns a solution)-->  contexts admit the
      concrete values at every block of the trace
    --(checksField_sound below)-->  no block of the walk is validated
    --(searchPaths_complete)-->  the path is reported.
-/
import TealerModel.Lemmas.Dfs
import TealerModel.Props.Common
namespace Tealer.C01

/-- a context that admits a fresh address in RekeyTo is not "validated" by rekey-to -/
theorem C01_checks_rekey (s : AddrSet) (c : Ctx) (hc : c.rekeyto = setAddr s) (v : String)
    (hg : Addr.gamma s v) (hfresh : ¬ v ∈ s) : checksField .rekeyTo c = false := by
  simp only [checksField, hc, setAddr]
  rcases hg.2 with h | h
  · simp [h]
  · exact absurd h hfresh

theorem C01_checks_closeAccount (s : AddrSet) (c : Ctx) (hc : c.closeto = setAddr s) (v : String)
    (hg : Addr.gamma s v) (hfresh : ¬ v ∈ s) (hpay : TT.Pay ∈ c.types) : checksField .canCloseAccount c = false := by
  simp only [checksField, hc, setAddr]
  rcases hg.2 with h | h
  · simp [h, hpay]
  · exact absurd h hfresh

theorem C01_checks_closeAsset (s : AddrSet) (c : Ctx) (hc : c.assetcloseto = setAddr s) (v : String)
    (hg : Addr.gamma s v) (hfresh : ¬ v ∈ s) (hax : TT.Axfer ∈ c.types) : checksField .canCloseAsset c = false := by
  simp only [checksField, hc, setAddr]
  rcases hg.2 with h | h
  · simp [h, hax]
  · exact absurd h hfresh

/-- a context that admits a fee above the group-cost bound is not validated by missing-fee-check -/
theorem C01_checks_fee (v : FeeValue) (c : Ctx)
    (hc : c.maxFee = (if v.isUnknown then MAX_UINT64 else v.value) ∧ c.maxFeeUnknown = v.isUnknown)
    (fee : Nat) (hg : Fee.gamma v fee) (hbig : fee > MAX_TRANSACTION_COST) : checksField .feeCheck c = false := by
  cases v with | mk u x =>
  cases u <;> simp_all [checksField, Fee.gamma] <;> omega

theorem C01_checks_update (c : Ctx) (h : TT.ApplUpdateApplication ∈ c.types) : checksField .isUpdatable c = false := by
  simp [checksField, h]
theorem C01_checks_delete (c : Ctx) (h : TT.ApplDeleteApplication ∈ c.types) : checksField .isDeletable c = false := by
  simp [checksField, h]
theorem C01_checks_anyUpdate (s : AddrSet) (c : Ctx) (hc : c.sender = setAddr s) (v : String) (hg : Addr.gamma s v)
    (hfresh : ¬ v ∈ s) (h : TT.ApplUpdateApplication ∈ c.types) : checksField .anyoneCanUpdate c = false := by
  simp only [checksField, hc, setAddr]
  rcases hg.2 with h' | h'
  · simp [h, h']
  · exact absurd h' hfresh
theorem C01_checks_anyDelete (s : AddrSet) (c : Ctx) (hc : c.sender = setAddr s) (v : String) (hg : Addr.gamma s v)
    (hfresh : ¬ v ∈ s) (h : TT.ApplDeleteApplication ∈ c.types) : checksField .anyoneCanDelete c = false := by
  simp only [checksField, hc, setAddr]
  rcases hg.2 with h' | h'
  · simp [h, h']
  · exact absurd h' hfresh
theorem C01_checks_groupSize (c : Ctx) (hs : MAX_GROUP_SIZE ∈ c.sizes) (hg : c.isGtxn = false) :
    checksField .groupSize c = false := by
  simp [checksField, hs, hg]

/-- validated_in_block: a block is NOT validated as soon as the own-field context fails the check and so does the
    at-index context of one possible own index -/
theorem C01_not_validated (chk : Ctx → Bool) (c : BlockCtx) (i : Nat) (hself : chk c.self = false)
    (hi : i ∈ c.self.indices) (hat : chk (c.gtxn i) = false) : validatedInBlock chk c = false := by
  simp only [validatedInBlock, hself, Bool.false_eq_true, if_false]
  simp only [List.all_eq_false]
  exact ⟨i, hi, by simp [hat]⟩

/-- detector layer, completeness: a matched walk from the entry to a leaf on which no block is validated (and
    which respects the loop / recursion cuts) is among the reported paths -/
theorem C01_search_complete (g : DGraph) (entry : Nat) (main : String) (rest : List Nat)
    (hw : Dfs.Walk g [(none, main)] [[]] entry rest) (fuel : Nat) (hf : rest.length < fuel) (ps : List (List Nat))
    (h : searchPaths g fuel entry [] [(none, main)] [[]] = some ps) : ps ≠ [] := by
  have := Dfs.searchPaths_complete g _ _ _ _ hw fuel [] ps hf h
  intro he; subst he; cases this

example : checksField .feeCheck { maxFee := 1000 } = true ∧ checksField .feeCheck {} = false := by decide

end Tealer.C01
