/-
  C16 — Each source line parses to the instruction it denotes, and prints back.
  Table obligations over the REGENERATED parse table (what the real parse_line does on every opcode sample of the
  repository's parsing corpus, the control-flow opcodes and the immediate families).
-/
import TealerModel.Generated.ParseTable
import TealerModel.Generated.OpTable
import TealerModel.Spec.OpTable
namespace Tealer.C16

/-- rows that are not instructions (unknown opcodes kept verbatim as UNSUPPORTED, junk lines of the corpus), and the
    known deviation F19 (`method "sig"` prints without its quotes) -/
def exempt (line printed : String) : Bool :=
  printed.startsWith "UNSUPPORTED" || printed == "ParseError" || line.startsWith "method "

/-- the printed form of every parsed sample parses back to an identical instruction (class, printed form, stack effect) -/
theorem C16_roundtrip_table :
    Generated.parseTableChunks.all (fun ch => ch.all fun (line, printed, same, _) => exempt line printed || same) = true := by
  decide +kernel

/-- no opcode is taken for another that shares a prefix: every sample is parsed into the class the specification
    table names for it, with the specified printed form -/
theorem C16_class_table :
    ((Generated.opTableChunks.map fun ch => ch.map fun (l, cls, txt, _, _, _, _) => (l, cls, txt)) ==
    (Spec.opTableChunks.map fun ch => ch.map fun (l, cls, txt, _, _, _, _) => (l, cls, txt))) = true := by
  decide +kernel

/-- unknown opcodes are kept verbatim -/
theorem C16_unknown_verbatim :
    Generated.parseTableChunks.all (fun ch => ch.all fun (line, printed, _, _) =>
      !printed.startsWith "UNSUPPORTED" || printed == "UNSUPPORTED " ++ line) = true := by
  decide +kernel

end Tealer.C16
