/-
  Tie between the model of the path search (Detect.searchPaths, about which C02's validity and C01's completeness theorems are
  stated) and the function REGENERATED on every run from the Python AST of detectors/utils.py (Generated/Search.lean).
-/
import TealerModel.Generated.Search
import TealerModel.Detect
set_option linter.unusedSimpArgs false
namespace Tealer.TieS
open PyView

/-- what search_paths reads, from the model's graph of the detector -/
def graphOf (g : DGraph) : PyView.PyGraph :=
  { validated := g.validated, isLeaf := g.isLeaf, isCallsub := g.isCallsub, isRetsub := g.isRetsub,
    calledSub := fun b => (g.calledSub b).getD "", retPoint := g.retPoint,
    nextGlobal := fun b => if g.isCallsub b then (match (g.calledSub b).bind g.subEntry with | some e => [e] | none => []) else g.next b }

/-- every call site names a subroutine with an entry block, and no block is a call site and a `retsub` block at once
    (true of `mkDGraph`: both are read off the block's last instruction) -/
structure CallsOK (g : DGraph) : Prop where
  resolves : ∀ b, g.isCallsub b = true → ∃ s e, g.calledSub b = some s ∧ g.subEntry s = some e
  exclusive : ∀ b, g.isCallsub b = true → g.isRetsub b = false

theorem loop_tie (sat : List Nat → Bool) (f : Nat → Option (List (List Nat)))
    (rec : Nat → List (List Nat) → Option (List (List Nat)))
    (hrec : ∀ nb acc, rec nb acc = (f nb).map (fun ps => acc ++ ps.filter sat)) (l : List Nat) (acc : List (List Nat)) :
    (forIn l acc (fun nb r => do let r' ← rec nb r; pure (ForInStep.yield r')) : Option (List (List Nat))) =
      (collect f l).map (fun ps => acc ++ ps.filter sat) := by
  induction l generalizing acc with
  | nil => simp [collect]
  | cons x xs ih =>
    simp only [List.forIn_cons, collect]
    rw [hrec x acc]
    cases hx : f x with
    | none => simp
    | some r =>
      simp only [Option.map_some, Option.bind_eq_bind, Option.bind_some, pure, bind]
      have ih' := ih (acc ++ List.filter sat r)
      simp only [pure, bind] at ih'
      rw [ih']
      cases hc : collect f xs with
      | none => simp
      | some rs => simp [List.filter_append, List.append_assoc]

@[simp] theorem go_validated (g : DGraph) : (graphOf g).validated = g.validated := rfl
@[simp] theorem go_isLeaf (g : DGraph) : (graphOf g).isLeaf = g.isLeaf := rfl
@[simp] theorem go_isCallsub (g : DGraph) : (graphOf g).isCallsub = g.isCallsub := rfl
@[simp] theorem go_isRetsub (g : DGraph) : (graphOf g).isRetsub = g.isRetsub := rfl
@[simp] theorem go_retPoint (g : DGraph) : (graphOf g).retPoint = g.retPoint := rfl
theorem go_calledSub (g : DGraph) (b : Nat) : (graphOf g).calledSub b = (g.calledSub b).getD "" := rfl
theorem go_nextGlobal (g : DGraph) (b : Nat) : (graphOf g).nextGlobal b =
    if g.isCallsub b then (match (g.calledSub b).bind g.subEntry with | some e => [e] | none => []) else g.next b := rfl

theorem search_tie (g : DGraph) (hg : CallsOK g) (sat : List Nat → Bool) :
    ∀ fuel bb path acc cs exe,
      Generated.searchPaths (graphOf g) sat fuel bb path acc cs exe =
        (searchPaths g fuel bb path cs exe).map (fun ps => acc ++ ps.filter sat) := by
  intro fuel
  induction fuel with
  | zero => intro bb path acc cs exe; rfl
  | succ n ih =>
    intro bb path acc cs exe
    unfold Generated.searchPaths searchPaths
    simp only [go_validated, go_isLeaf, go_isCallsub, go_isRetsub, go_retPoint, go_calledSub, go_nextGlobal]
    by_cases hloop : bb ∈ exe.getLast?.getD []
    · simp [hloop]
    · have hloop' : (exe.getLast?.getD []).contains bb = false := by simpa using hloop
      simp only [hloop', Bool.false_eq_true, if_false]
      by_cases hval : g.validated bb = true
      · simp [hval]
      · simp only [hval, Bool.false_eq_true, if_false]
        by_cases hleaf : g.isLeaf bb = true
        · simp [hleaf]
          by_cases hs : sat (path ++ [bb]) = true <;> simp [hs]
        · simp only [hleaf, Bool.false_eq_true, if_false]
          by_cases hcall : g.isCallsub bb = true
          · obtain ⟨s, e, hs, he⟩ := hg.resolves bb hcall
            have hret := hg.exclusive bb hcall
            simp only [hcall, hs, he, hret, if_true, Option.getD_some, Option.bind_some, Bool.false_eq_true, if_false]
            have hfun : (fun frame : Option Nat × String => frame.2) = Prod.snd := rfl
            simp only [hfun]
            by_cases hrec : (cs.map Prod.snd).contains s = true
            · rw [if_pos hrec, if_pos hrec]; simp [pure]
            · simp only [hrec, Bool.false_eq_true, if_false, List.forIn_cons, List.forIn_nil, ih]
              cases hr : searchPaths g n e (path ++ [bb]) (cs ++ [(some bb, s)]) (exe.dropLast ++ [exe.getLast?.getD [] ++ [bb]] ++ [[]]) <;>
                simp [hr, pure, bind]
          · have hcall' : g.isCallsub bb = false := by simpa using hcall
            simp only [hcall', Bool.false_eq_true, if_false]
            by_cases hret : g.isRetsub bb = true
            · simp only [hret, if_true]
              rcases hcs : cs.getLast? with _ | ⟨cb, sn⟩
              · simp [hcs]
              · rcases cb with _ | cb
                · simp [hcs, failure]
                · simp only [hcs, Option.bind_eq_bind, Option.bind_some, Option.isSome_some, Bool.not_true, Bool.false_eq_true, if_false,
                    Option.getD_some]
                  obtain ⟨orp, hrp⟩ : ∃ o, g.retPoint cb = o := ⟨_, rfl⟩
                  simp only [hrp]
                  rcases orp with _ | rp
                  · simp [pure]
                  · simp only [Option.isSome_some, if_true, Option.getD_some, ih]
                    cases searchPaths g n rp (path ++ [bb]) cs.dropLast (exe.dropLast ++ [exe.getLast?.getD [] ++ [bb]]).dropLast <;>
                      simp [pure, bind]
            · simp only [hret, Bool.false_eq_true, if_false]
              have := loop_tie sat (fun nb => searchPaths g n nb (path ++ [bb]) cs (exe.dropLast ++ [exe.getLast?.getD [] ++ [bb]]))
                (fun nb r => Generated.searchPaths (graphOf g) sat n nb (path ++ [bb]) r cs (exe.dropLast ++ [exe.getLast?.getD [] ++ [bb]]))
                (fun nb r => ih nb (path ++ [bb]) r cs _) (g.next bb) acc
              simp only [pure, bind] at this ⊢
              rw [this]
              cases collect (fun nb => searchPaths g n nb (path ++ [bb]) cs (exe.dropLast ++ [exe.getLast?.getD [] ++ [bb]])) (g.next bb) <;> simp

/-- in the graph a detector searches (`mkDGraph`), a call site is not a `retsub` block and names its subroutine -/
theorem mkDGraph_calls (f : Function) (validated : Nat → Bool) (b : Nat) (h : (mkDGraph f validated).isCallsub b = true) :
    (mkDGraph f validated).isRetsub b = false ∧ ∃ s, (mkDGraph f validated).calledSub b = some s := by
  simp only [mkDGraph, FBlock.isCallsub, FBlock.isRetsub, FBlock.calledSub] at h ⊢
  split at h
  · rename_i l hl
    simp [hl]
  · cases h

end Tealer.TieS
