/-
  C11 — Reconstructed operands equal the operands the AVM would pass.
  (i) the stack effect tealer declares for every opcode sample equals the specification table / family formulas;
  (ii) one step of the symbolic stack of construct_stack_ast simulates an instrumented concrete stack.
-/
import TealerModel.Generated.OpTable
import TealerModel.Spec.OpTable
import TealerModel.Ast
import TealerModel.Lemmas.StackEffect
import TealerModel.Lemmas.OperandValues
import TealerModel.Props.TieStackAst
namespace Tealer.C11

/-- every non-family opcode sample: class, printed form, pops, pushes, introduction version and mode built by the
    real parse_line equal the specification table (regenerated table vs committed spec, checked by the kernel) -/
theorem C11_effects_table : (Generated.opTableChunks == Spec.opTableChunks) = true := by decide +kernel

/-- the specification row of a sample line -/
def specRow (l : String) : Option (String × Nat × Nat × Nat × Nat) :=
  (Spec.opTable.find? (·.1 == l)).map fun (_, cls, _, po, pu, ver, mode) => (cls, po, pu, ver, mode)

/-- THE VALUE OF AN IMMEDIATE DOES NOT CHANGE THE EFFECT: every non-family sample with a decimal immediate, re-parsed by the
    real parse_line with that immediate replaced by 0, 1, 2 and 255 (`replace 0`, `gtxn 0 Fee`, `substring 0 255`, `arg 0`,
    `load 255`, ...), has the class, pops, pushes, introduction version and mode of the specification row of its base sample -/
theorem C11_effects_immediates :
    Generated.immVariantsChunks.all (fun ch => ch.all fun (_, base, cls, po, pu, ver, mode) =>
      specRow base == some (cls, po, pu, ver, mode)) = true := by
  decide +kernel

/-- AVM stack effect of the immediate families as formulas in the immediate -/
def familySpec (op : String) (a : Int) (b : Nat) : Option (Nat × Nat) :=
  let n := a.toNat
  if op == "dig" then some (n + 1, n + 2)
  else if op == "cover" then some (n + 1, n + 1)
  else if op == "uncover" then some (n + 1, n + 1)
  else if op == "bury" then some (n + 1, n)
  else if op == "popn" then some (n, 0)
  else if op == "dupn" then some (1, n + 1)
  else if op == "frame_dig" then some (0, 1)
  else if op == "frame_bury" then some (1, 0)
  else if op == "pushints" then some (0, n)
  else if op == "pushbytess" then some (0, n)
  else if op == "switch" then some (1, 0)
  else if op == "match" then some (n + 1, 0)
  else if op == "proto" then (let _ := b; some (0, 0))
  else none

/-- rows where tealer's declared effect deviates from the AVM (known findings F13: `frame_bury` declared as push 1;
    F14: `switch` / `match` without labels declared as pop 0) -/
def knownDeviation (op : String) (a : Int) : Bool :=
  op == "frame_bury" || ((op == "switch" || op == "match") && a == 0)

/-- all immediates: dig/cover/uncover/bury/popn/dupn n for n up to 255, frame_dig, pushints/pushbytess/switch/match
    up to 8 operands, proto a r: the declared effect is the AVM's, except on the listed known deviations -/
theorem C11_effects_families :
    Generated.familiesChunks.all (fun ch => ch.all fun (op, a, b, po, pu) =>
      knownDeviation op a || familySpec op a b == some (po, pu)) = true := by
  decide +kernel

/-- the known deviations are exactly what tealer declares today (so that a change there is noticed too) -/
theorem C11_known_deviations :
    Generated.familiesChunks.all (fun ch => ch.all fun (op, a, _, po, pu) =>
      !knownDeviation op a || (if op == "frame_bury" then (po, pu) == (1, 1) else (po, pu) == (0, 0))) = true := by
  decide +kernel

/-- tagged concrete cell: `none` = was on the stack before the block started -/
abbrev Tag := Option (Nat × Nat)

/-- instrumented concrete machine for a "pop k / push m" opcode: pops `pops` cells (they must exist) and pushes
    `pushes` fresh cells tagged with their producer position and output index -/
def stepConc (st : List Tag) (p : Nat) (pops pushes : Nat) : Option (List Tag × List Tag) :=
  if pops ≤ st.length then
    some (st.drop (st.length - pops), st.take (st.length - pops) ++ (List.range pushes).map (fun j => some (p, j)))
  else none

/-- simulation relation: the concrete stack is some pre-block cells (all untagged) followed by the symbolic stack -/
def Sim (sym : List Ref) (conc : List Tag) : Prop :=
  ∃ below : List Tag, (∀ t ∈ below, t = none) ∧ conc = below ++ sym

/-- one step of construct_stack_ast simulates the concrete step: every reconstructed producer is the instruction that
    really pushed that operand (with the right output position), every Unknown comes from below the block entry -/
theorem C11_sim_step (sym : List Ref) (conc : List Tag) (p : Nat) (op : Op)
    (h : Sim sym conc) (args' conc' : List Tag)
    (hc : stepConc conc p op.pops op.pushes = some (args', conc')) :
    (astStep sym p op).1 = args' ∧ Sim (astStep sym p op).2 conc' := by
  obtain ⟨below, hb, rfl⟩ := h
  unfold stepConc at hc
  split at hc
  · rename_i hle
    simp only [Option.some.injEq, Prod.mk.injEq] at hc
    obtain ⟨rfl, rfl⟩ := hc
    unfold astStep popN
    by_cases hk : op.pops ≤ sym.length
    · simp only [hk, if_true]
      constructor
      · simp only [List.length_append]
        have : below.length + sym.length - op.pops = below.length + (sym.length - op.pops) := by omega
        rw [this, List.drop_append]
        simp
      · refine ⟨below, hb, ?_⟩
        simp only [List.length_append]
        have : below.length + sym.length - op.pops = below.length + (sym.length - op.pops) := by omega
        rw [this, List.take_append]
        simp [List.take_of_length_le]
    · simp only [hk, if_false]
      simp only [List.length_append] at hle
      constructor
      · simp only [List.length_append]
        have h1 : below.length + sym.length - op.pops ≤ below.length := by omega
        rw [List.drop_append_of_le_length h1]
        congr 1
        apply List.ext_getElem
        · simp; omega
        · intro n h1' h2'
          have hm : (below.drop (below.length + sym.length - op.pops))[n] ∈ below :=
            List.mem_of_mem_drop (List.getElem_mem _)
          simp [hb _ hm]
      · refine ⟨below.take (below.length + sym.length - op.pops), ?_, ?_⟩
        · intro t ht; exact hb t (List.mem_of_mem_take ht)
        · simp only [List.length_append]
          have h1 : below.length + sym.length - op.pops ≤ below.length := by omega
          rw [List.take_append_of_le_length h1]
          simp
  · cases hc

example : familySpec "dig" 3 0 = some (4, 5) := by decide

/-- THE DECLARED EFFECTS ARE THE AVM's, for every input: a successful step of the concrete semantics on any dedicated opcode
    of the fragment (control flow, constants, field reads, comparisons, logic, arithmetic) removes exactly `Op.pops` values
    from the top of the stack — tealer's `stack_pop_size` —, leaves everything below untouched and pushes exactly
    `Op.pushes` values.  (The generic opcodes — `Op.other` with the effect tealer declares — are compared with the
    specification table row by row in `C11_effects_table`.)  With `C11_sim_step` this is what makes the reconstructed operand
    of a comparison the value the AVM passes to it. -/
theorem C11_semantics_effect (prog : List Ins) (e : Avm.Env) (s s' : Avm.State) (i : Ins) (hi : prog[s.pc]? = some i)
    (hno : ∀ name po pu, i.op ≠ .other name po pu) (hs : Avm.step prog e s = .next s') :
    i.op.pops ≤ s.stack.length ∧
      ∃ pushed : List Avm.Val, pushed.length = i.op.pushes ∧
        s'.stack = s.stack.take (s.stack.length - i.op.pops) ++ pushed :=
  StackEffect.step_effect prog e s s' i hi hno hs

/-- THE RECONSTRUCTED OPERANDS ARE THE VALUES THE AVM PASSES.  Along a block, keep for every tag (q, j) the value instruction
    q pushed as output j (`valOf`).  If the symbolic stack agrees with the concrete stack before a step of a dedicated
    opcode (tagged cells hold the recorded values; Unknown cells are values from before the block), then
    * the operand list `astStep` — one step of construct_stack_ast — reconstructs for this instruction agrees position by
      position with the values the instruction really pops: a reference (q, j) IS the value instruction q pushed as its
      output j, and
    * the symbolic stack after the step agrees with the concrete stack after the step, with the instruction's own outputs
      recorded.
    By induction along the block this is the link between a matched leaf (`txn Fee` compared with `int c`) and the concrete
    comparison the AVM performs. -/
theorem C11_operands_are_runtime_values (prog : List Ins) (e : Avm.Env) (s s' : Avm.State) (i : Ins) (p : Nat)
    (hi : prog[s.pc]? = some i) (hno : ∀ name po pu, i.op ≠ .other name po pu) (hs : Avm.step prog e s = .next s')
    (valOf : Nat × Nat → Avm.Val) (sym : List Ref) (hsim : OperandValues.VSim valOf sym s.stack)
    (hfresh : ∀ c ∈ sym, ∀ q, c = some q → q.1 ≠ p) :
    ∃ pushed : List Avm.Val, pushed.length = i.op.pushes ∧
      List.Forall₂ (OperandValues.Agree valOf) (astStep sym p i.op).1 (s.stack.drop (s.stack.length - i.op.pops)) ∧
      OperandValues.VSim (OperandValues.extend valOf p pushed) (astStep sym p i.op).2 s'.stack := by
  obtain ⟨hpops, pushed, hlen, hstack⟩ := StackEffect.step_effect prog e s s' i hi hno hs
  obtain ⟨h1, h2⟩ := OperandValues.vsim_step valOf sym s.stack s'.stack p i.op pushed hsim hfresh hpops hlen hstack
  exact ⟨pushed, hlen, h1, h2⟩

/-- the premises are satisfiable: at block entry the symbolic stack is empty and agrees with any concrete stack -/
example (valOf : Nat × Nat → Avm.Val) (st : List Avm.Val) : OperandValues.VSim valOf [] st :=
  ⟨st, [], by simp, List.Forall₂.nil⟩

/-- THE STACK AST OF A BLOCK DENOTES THE VALUES OF ITS EXECUTION.  For any straight run of the concrete machine through the
    first `k` instructions (dedicated opcodes) of a block, there is one assignment of values to producer references —
    (q, j) ↦ the value the block's instruction q pushed as output j — under which, for EVERY instruction of the run, the
    operand list that `constructAst` (the model of construct_stack_ast) stores for it agrees position by position with
    the values that instruction really popped from the AVM stack; Unknown operands are values from before the block. -/
theorem C11_block_operands (prog : List Ins) (e : Avm.Env) (blockIns : List Ins) (pc0 k : Nat) (st : Nat → Avm.State)
    (hrun : OperandValues.BlockRun prog e blockIns pc0 k st) :
    ∃ valOf : Nat × Nat → Avm.Val, ∀ j, j < k →
      List.Forall₂ (OperandValues.Agree valOf) ((constructAst blockIns).argsOf j)
        ((st j).stack.drop ((st j).stack.length - (blockIns[j]!).op.pops)) := by
  obtain ⟨valOf, _, hargs, _⟩ := OperandValues.block_operands prog e blockIns pc0 st k hrun
  refine ⟨valOf, ?_⟩
  intro j hj
  have hjl : j < blockIns.length := by have := hrun.len; omega
  have : (constructAst blockIns).argsOf j = OperandValues.argsAt blockIns j := by
    unfold Ast.argsOf
    rw [OperandValues.constructAst_args]
    simp [hjl]
  rw [this]
  exact hargs j hj

/-- `construct_stack_ast` IS THE MODEL'S.  `Stack.pop_n_values` (with Python's negative slices and the `count == 0` guard, the
    padding with UnknownStackValue when the block consumes values from before it), `Stack.push_n_values` and the loop of
    `construct_stack_ast`, translated statement by statement from /repo's Python on this run (Generated/StackAst.lean), build for
    every instruction `p` of every block exactly the tree that the model's operand references unfold to: what
    `C11_operands_are_runtime_values` / `C11_block_operands` prove about `constructAst` is thereby a statement about the Python -/
theorem C11_tie_construct_stack_ast (ins : List Ins) :
    Generated.constructStackAst (TieS.insInfos ins) =
      (List.range ins.length).map fun p => TieA.full (constructAst ins) (some (p, 0)) :=
  TieS.construct_tie ins

/-- ... and `TieA.full` is the tree the other tie theorems (leaf matchers, `_get_asserted`, block / edge constraints) are stated
    for, at every depth beyond the position -/
theorem C11_tie_tree_depth (ins : List Ins) (p o n : Nat) (h : p < n) :
    treeOf (constructAst ins) n (some (p, o)) = TieA.full (constructAst ins) (some (p, o)) :=
  TieA.full_eq _ (TieA.backward_constructAst ins) p o n h

/-- non-vacuity / a test of the translation by the kernel: a block that consumes two values from before it at different times
    (`==; assert; int 3; ==`): the second `==` gets an UNKNOWN first operand, not a stale producer -/
example :
    let ins : List Ins := [⟨1, .txn "GroupIndex", "txn GroupIndex"⟩, ⟨2, .cmp .eq, "=="⟩, ⟨3, .assert, "assert"⟩, ⟨4, .int (.lit 3), "int 3"⟩, ⟨5, .cmp .eq, "=="⟩]
    (((Generated.constructStackAst (TieS.insInfos ins)).getD 4 .unknown).arg 0).isUnknown = true ∧
      (((Generated.constructStackAst (TieS.insInfos ins)).getD 4 .unknown).arg 1).pos? = some 3 := by
  decide +kernel

end Tealer.C11
