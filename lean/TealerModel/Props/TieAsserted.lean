/-
  Tie between the hand-written model of the recursion over condition trees (Ast.flattenAst, Generic.getAsserted) and the
  functions REGENERATED from /repo's Python on every run (Generated/Asserted.lean: _flatten_ast, compute_equations,
  DataflowTransactionContext._get_asserted).  The Python recursion is unbounded; the translation is bounded by fuel and
  returns `none` when it runs out.  The theorems say: on every stack AST whose references point backwards (which is every
  AST `construct_stack_ast` builds: `backward_constructAst`) and with enough fuel on both sides, the translated Python
  returns `some` of exactly what the model computes.
-/
import TealerModel.Generated.Asserted
import TealerModel.Props.TieFlow
import TealerModel.Lemmas.OperandValues
set_option linter.unusedSimpArgs false
set_option linter.unusedVariables false
namespace Tealer.TieA
open PyView TieM TieF

variable {D : Type} [DecidableEq D]

/-- every operand reference of instruction `p` names an EARLIER instruction of the block -/
def Backward (a : Ast) : Prop := ∀ p, ∀ c ∈ a.argsOf p, ∀ q, c = some q → q.1 < p

/-- the stack value the Python holds for a reference (whole tree below it) -/
def full (a : Ast) : Ref → PySV
  | none => .unknown
  | some (q, o) => treeOf a (q + 1) (some (q, o))

/-- below a backward AST the depth-bounded tree no longer changes once the bound exceeds the position -/
theorem treeOf_stable (a : Ast) (hB : Backward a) : ∀ (q : Nat) (o n m : Nat), q < n → q < m →
    treeOf a n (some (q, o)) = treeOf a m (some (q, o)) := by
  intro q
  induction q using Nat.strongRecOn with
  | _ q ih =>
    intro o n m hn hm
    obtain ⟨n', rfl⟩ : ∃ n', n = n' + 1 := ⟨n - 1, by omega⟩
    obtain ⟨m', rfl⟩ : ∃ m', m = m' + 1 := ⟨m - 1, by omega⟩
    simp only [treeOf]
    congr 1
    apply List.map_congr_left
    intro c hc
    rcases c with _ | ⟨q', o'⟩
    · rw [treeOf_none, treeOf_none]
    · have hlt : q' < q := hB q _ hc (q', o') rfl
      exact ih q' hlt o' n' m' (by omega) (by omega)

theorem full_eq (a : Ast) (hB : Backward a) (q o n : Nat) (h : q < n) : treeOf a n (some (q, o)) = full a (some (q, o)) :=
  treeOf_stable a hB q o n (q + 1) h (by omega)

theorem full_unfold (a : Ast) (hB : Backward a) (q o : Nat) :
    full a (some (q, o)) = .known q (a.opOf q) (a.textOf q) ((a.argsOf q).map (full a)) := by
  simp only [full, treeOf]
  congr 1
  apply List.map_congr_left
  intro c hc
  rcases c with _ | ⟨q', o'⟩
  · rw [treeOf_none]; rfl
  · have hlt : q' < q := hB q _ hc (q', o') rfl
    exact treeOf_stable a hB q' o' q (q' + 1) hlt (by omega)

theorem full_isUnknown (a : Ast) (r : Ref) : (full a r).isUnknown = r.isNone := by
  rcases r with _ | ⟨q, o⟩ <;> simp [full, treeOf, PySV.isUnknown]

theorem full_instruction (a : Ast) (q o : Nat) : (full a (some (q, o))).instruction = a.opOf q := by
  simp [full, treeOf, PySV.instruction]

theorem full_pos (a : Ast) (q o : Nat) : (full a (some (q, o))).pos? = some q := by
  simp [full, treeOf, PySV.pos?]

theorem full_arg (a : Ast) (hB : Backward a) (q o i : Nat) :
    (full a (some (q, o))).arg i = full a ((a.argsOf q).getD i none) := by
  rw [full_unfold a hB]
  simp only [PySV.arg]
  rw [List.getD_eq_getElem?_getD, List.getD_eq_getElem?_getD, List.getElem?_map]
  cases (a.argsOf q)[i]? <;> simp [full]

/-- the AST `construct_stack_ast` builds is backward -/
theorem backward_constructAst (ins : List Ins) : Backward (constructAst ins) := by
  intro p c hc q hq
  by_cases hp : p < ins.length
  · rw [EvalRun.argsOf_constructAst ins p hp] at hc
    exact OperandValues.argsAt_tags ins p c hc q hq
  · have : (constructAst ins).argsOf p = [] := by
      unfold Ast.argsOf
      rw [OperandValues.constructAst_args]
      have : (List.range ins.length)[p]? = none := by simp; omega
      simp [this]
    rw [this] at hc
    simp at hc

/-! ### `_flatten_ast` -/

/-- the class name the Python passes for a node operator -/
def clsOf : Op → String | .and => "And" | .or => "Or" | _ => ""

theorem isClass_and (op : Op) : isClass op "And" = (op == .and) := by
  cases op <;> simp [isClass, pyClass] <;> (try rfl)
  case cmp c => cases c <;> simp

theorem isClass_or (op : Op) : isClass op "Or" = (op == .or) := by
  cases op <;> simp [isClass, pyClass] <;> (try rfl)
  case cmp c => cases c <;> simp

theorem isClass_not (op : Op) : isClass op "Not" = (op == .not) := by
  cases op <;> simp [isClass, pyClass] <;> (try rfl)
  case cmp c => cases c <;> simp

theorem isClass_cls (node op : Op) (hn : node = .and ∨ node = .or) : isClass op (clsOf node) = (op == node) := by
  rcases hn with rfl | rfl
  · exact isClass_and op
  · exact isClass_or op

theorem flattenAst_none (a : Ast) (node : Op) (m : Nat) : flattenAst a node m none = [none] := by
  cases m <;> simp [flattenAst]

theorem flattenPy_unknown (k : Nat) (cls : String) : Generated.flattenAstPy (k + 1) .unknown cls = some [.unknown] := by
  simp [Generated.flattenAstPy, PySV.isUnknown]

/-- `_flatten_ast` = `flattenAst` (the Python side needs fuel ≥ position + 2, the model fuel ≥ position + 1) -/
theorem flatten_tie (a : Ast) (hA : Arity a) (hB : Backward a) (node : Op) (hn : node = .and ∨ node = .or) :
    ∀ (p o fp fm : Nat), p + 1 < fp → p < fm →
      Generated.flattenAstPy fp (full a (some (p, o))) (clsOf node) = some ((flattenAst a node fm (some (p, o))).map (full a)) := by
  intro p
  induction p using Nat.strongRecOn with
  | _ p ih =>
    intro o fp fm hfp hfm
    obtain ⟨f, rfl⟩ : ∃ f, fp = f + 1 := ⟨fp - 1, by omega⟩
    obtain ⟨m, rfl⟩ : ∃ m, fm = m + 1 := ⟨fm - 1, by omega⟩
    have sub : ∀ r ∈ a.argsOf p, Generated.flattenAstPy f (full a r) (clsOf node) = some ((flattenAst a node m r).map (full a)) := by
      intro r hr
      rcases r with _ | ⟨q, o'⟩
      · obtain ⟨f', rfl⟩ : ∃ f', f = f' + 1 := ⟨f - 1, by omega⟩
        rw [flattenAst_none]
        exact flattenPy_unknown f' _
      · have hq : q < p := hB p _ hr (q, o') rfl
        exact ih q hq o' f m (by omega) (by omega)
    unfold Generated.flattenAstPy
    simp only [flattenAst, full_isUnknown, full_instruction, isClass_cls node _ hn]
    by_cases hop : a.opOf p = node
    · have har := hA p
      rw [hop] at har
      have h2 : (a.argsOf p).length = 2 := by rcases hn with rfl | rfl <;> simpa [Op.pops] using har
      obtain ⟨l, r, hlr⟩ := len2 _ h2
      simp [hop, hlr, full_arg a hB, sub l (by simp [hlr]), sub r (by simp [hlr])]
    · simp [hop]

/-- a reference listed by `flattenAst` is the root or lies before it -/
theorem flatten_le (a : Ast) (hB : Backward a) (node : Op) : ∀ (m p o : Nat), ∀ r ∈ flattenAst a node m (some (p, o)),
    ∀ q o', r = some (q, o') → q ≤ p := by
  intro m
  induction m with
  | zero => intro p o r hr q o' h; simp [flattenAst] at hr; subst hr; cases h; exact Nat.le_refl _
  | succ m ih =>
    intro p o r hr q o' h
    simp only [flattenAst] at hr
    split at hr
    · split at hr
      · rename_i l r' hlr
        have hmem : ∀ x ∈ [l, r'], x ∈ a.argsOf p := by rw [hlr]; exact fun _ hx => hx
        rcases List.mem_append.1 hr with hr | hr
        · rcases l with _ | ⟨pl, ol⟩
          · rw [flattenAst_none] at hr; simp at hr; subst hr; cases h
          · have := hB p _ (hmem _ (by simp)) (pl, ol) rfl
            have := ih pl ol r hr q o' h
            omega
        · rcases r' with _ | ⟨pr, or'⟩
          · rw [flattenAst_none] at hr; simp at hr; subst hr; cases h
          · have := hB p _ (hmem _ (by simp)) (pr, or') rfl
            have := ih pr or' r hr q o' h
            omega
      · simp at hr; subst hr; cases h; exact Nat.le_refl _
    · simp at hr; subst hr; cases h; exact Nat.le_refl _

/-- when the root IS a node, everything listed lies strictly before it -/
theorem flatten_lt (a : Ast) (hA : Arity a) (hB : Backward a) (node : Op) (hn : node = .and ∨ node = .or) (m p o : Nat)
    (hop : a.opOf p = node) : ∀ r ∈ flattenAst a node (m + 1) (some (p, o)), ∀ q o', r = some (q, o') → q < p := by
  intro r hr q o' h
  have har := hA p
  rw [hop] at har
  have h2 : (a.argsOf p).length = 2 := by rcases hn with rfl | rfl <;> simpa [Op.pops] using har
  obtain ⟨l, r', hlr⟩ := len2 _ h2
  simp only [flattenAst, hop, beq_self_eq_true, if_true, hlr] at hr
  have hmem : ∀ x ∈ [l, r'], x ∈ a.argsOf p := by rw [hlr]; exact fun _ hx => hx
  rcases List.mem_append.1 hr with hr | hr
  · rcases l with _ | ⟨pl, ol⟩
    · rw [flattenAst_none] at hr; simp at hr; subst hr; cases h
    · have := hB p _ (hmem _ (by simp)) (pl, ol) rfl
      have := flatten_le a hB node m pl ol r hr q o' h
      omega
  · rcases r' with _ | ⟨pr, or'⟩
    · rw [flattenAst_none] at hr; simp at hr; subst hr; cases h
    · have := hB p _ (hmem _ (by simp)) (pr, or') rfl
      have := flatten_le a hB node m pr or' r hr q o' h
      omega

/-! ### `compute_equations` -/

theorem equations_loop (a : Ast) (eqs : List Ref) (known : List PySV) (hu : Bool) :
    (forIn (m := Option) eqs (hu, known) (fun r y =>
        if (full a r).isUnknown = true then some (ForInStep.yield (true, y.snd))
        else some (ForInStep.yield (y.fst, y.snd ++ [full a r])))) =
      some (hu || eqs.any isUnknownRef, known ++ (eqs.filterMap fun r => r.map fun q => full a (some q))) := by
  induction eqs generalizing known hu with
  | nil => simp
  | cons r rs ih =>
    simp only [List.forIn_cons]
    rcases r with _ | ⟨q, o⟩
    · have h : (full a none).isUnknown = true := rfl
      simp only [h, if_true, Option.bind_eq_bind, Option.bind_some]
      rw [ih]
      simp [isUnknownRef]
    · have h : (full a (some (q, o))).isUnknown = false := by rw [full_isUnknown]; rfl
      simp only [h, Bool.false_eq_true, if_false, Option.bind_eq_bind, Option.bind_some]
      rw [ih]
      simp [isUnknownRef]

/-- `compute_equations` = flatten, then split into the known equations and "some equation is unknown" -/
theorem equations_tie (a : Ast) (hA : Arity a) (hB : Backward a) (node : Op) (hn : node = .and ∨ node = .or)
    (p o fp fm : Nat) (hfp : p + 1 < fp) (hfm : p < fm) :
    Generated.computeEquationsPy fp (full a (some (p, o))) (clsOf node) =
      some (((flattenAst a node fm (some (p, o))).filterMap fun r => r.map fun q => full a (some q)),
            (flattenAst a node fm (some (p, o))).any isUnknownRef) := by
  unfold Generated.computeEquationsPy
  rw [flatten_tie a hA hB node hn p o fp fm hfp hfm]
  simp only [Option.bind_eq_bind, Option.bind_some, Option.pure_def, bind_pure_comp]
  have := equations_loop a (flattenAst a node fm (some (p, o))) [] false
  simp only [Bool.false_or, List.nil_append] at this
  simp
  rw [this]
  rfl

/-! ### `_get_asserted` -/

theorem asserted_loop (a : Ast) (g : PySV → Option (D × D)) (step : D × D → D × D → D × D) (model : Nat → D × D) :
    ∀ (refs : List Ref) (init : D × D), (∀ r ∈ refs, ∀ q, r = some q → g (full a (some q)) = some (model q.1)) →
    forIn (m := Option) (refs.filterMap fun r => r.map fun q => full a (some q)) init
        (fun eq s => (g eq).bind fun d => some (ForInStep.yield (step s d))) =
      some ((refs.filterMap fun r => r.map fun x => x.fst).foldl (fun s q => step s (model q)) init) := by
  intro refs
  induction refs with
  | nil => intro init _; simp
  | cons r rs ih =>
    intro init h
    rcases r with _ | q
    · simpa using ih init (fun r hr => h r (List.mem_cons_of_mem _ hr))
    · simp only [List.filterMap_cons, Option.map_some, List.forIn_cons, List.foldl_cons]
      rw [h (some q) (by simp) q rfl]
      simp only [Option.bind_some, Option.bind_eq_bind]
      exact ih _ (fun r hr => h r (List.mem_cons_of_mem _ hr))

theorem foldl_pair {α β γ : Type} (xs : List α) (f1 : β → α → β) (f2 : γ → α → γ) (i1 : β) (i2 : γ) :
    xs.foldl (fun s q => (f1 s.1 q, f2 s.2 q)) (i1, i2) = (xs.foldl f1 i1, xs.foldl f2 i2) := by
  induction xs generalizing i1 i2 with
  | nil => rfl
  | cons x xs ih => simp [ih]

theorem flatten_root (a : Ast) (node : Op) (m p o : Nat) (hop : a.opOf p = node) (l r : Ref) (hlr : a.argsOf p = [l, r]) :
    flattenAst a node (m + 1) (some (p, o)) = flattenAst a node m l ++ flattenAst a node m r := by
  simp [flattenAst, hop, hlr]

/-- `_get_asserted` = `getAsserted`, given that the leaf matcher `single` is the analysis' `_get_asserted_single`
    (Python fuel ≥ position + 3, model fuel ≥ position + 1) -/
theorem getAsserted_tie (A : Analysis D) (intcs : Option (List Nat)) (a : Ast) (hA : Arity a) (hB : Backward a) (key : Key)
    (E : PyView.Env) (single : Key → PySV → D × D)
    (hs : ∀ q o, single key (full a (some (q, o))) = A.single intcs a key q) :
    ∀ (p o fp fm : Nat), p + 2 < fp → p < fm →
      Generated.getAssertedPy A.dom (A.univ key.base) single E fp key (full a (some (p, o))) =
        some (getAsserted A intcs a key fm p) := by
  intro p
  induction p using Nat.strongRecOn with
  | _ p ih =>
    intro o fp fm hfp hfm
    obtain ⟨f, rfl⟩ : ∃ f, fp = f + 1 := ⟨fp - 1, by omega⟩
    obtain ⟨m, rfl⟩ : ∃ m, fm = m + 1 := ⟨fm - 1, by omega⟩
    unfold Generated.getAssertedPy getAsserted
    simp only [full_instruction, isClass_and, isClass_or, isClass_not]
    have har := hA p
    cases hop : a.opOf p
    case not =>
      rw [hop] at har
      obtain ⟨r, hr⟩ := len1 _ har
      simp [full_arg a hB, hr, full_isUnknown]
      rcases r with _ | ⟨q, o'⟩
      · simp
      · have hq : q < p := hB p _ (by rw [hr]; simp) (q, o') rfl
        simp [ih q hq o' f m (by omega) (by omega)]
    case and =>
      rw [hop] at har
      obtain ⟨l, r, hlr⟩ := len2 _ (by simpa [Op.pops] using har)
      have hroot : flattenAst a .and (m + 1) (some (p, 0)) = flattenAst a .and (m + 1) (some (p, o)) := by
        rw [flatten_root a .and m p 0 hop l r hlr, flatten_root a .and m p o hop l r hlr]
      simp
      rw [show "And" = clsOf .and from rfl, equations_tie a hA hB .and (Or.inl rfl) p o f (m + 1) (by omega) (by omega)]
      simp only [Option.bind_some, hroot]
      have hloop := asserted_loop a (Generated.getAssertedPy A.dom (A.univ key.base) single E f key)
        (fun s d => (A.dom.inter s.1 d.1, A.dom.union s.2 d.2)) (getAsserted A intcs a key m)
        (flattenAst a .and (m + 1) (some (p, o))) (A.univ key.base, A.dom.null)
        (by
          intro r hr q hq
          obtain ⟨q1, q2⟩ := q
          have hlt := flatten_lt a hA hB .and (Or.inl rfl) m p o hop r hr q1 q2 hq
          exact ih q1 hlt q2 f m (by omega) (by omega))
      rw [hloop, foldl_pair _ (fun acc q => A.dom.inter acc (getAsserted A intcs a key m q).fst) (fun acc q => A.dom.union acc (getAsserted A intcs a key m q).snd)]
      simp only [Option.bind_some]
      simp only [← List.any_eq_true]
      split <;> rfl
    case or =>
      rw [hop] at har
      obtain ⟨l, r, hlr⟩ := len2 _ (by simpa [Op.pops] using har)
      have hroot : flattenAst a .or (m + 1) (some (p, 0)) = flattenAst a .or (m + 1) (some (p, o)) := by
        rw [flatten_root a .or m p 0 hop l r hlr, flatten_root a .or m p o hop l r hlr]
      simp
      rw [show "Or" = clsOf .or from rfl, equations_tie a hA hB .or (Or.inr rfl) p o f (m + 1) (by omega) (by omega)]
      simp only [Option.bind_some, hroot]
      have hloop := asserted_loop a (Generated.getAssertedPy A.dom (A.univ key.base) single E f key)
        (fun s d => (A.dom.inter s.1 d.2, A.dom.union s.2 d.1)) (getAsserted A intcs a key m)
        (flattenAst a .or (m + 1) (some (p, o))) (A.univ key.base, A.dom.null)
        (by
          intro r hr q hq
          obtain ⟨q1, q2⟩ := q
          have hlt := flatten_lt a hA hB .or (Or.inr rfl) m p o hop r hr q1 q2 hq
          exact ih q1 hlt q2 f m (by omega) (by omega))
      rw [hloop, foldl_pair _ (fun acc q => A.dom.inter acc (getAsserted A intcs a key m q).snd) (fun acc q => A.dom.union acc (getAsserted A intcs a key m q).fst)]
      simp only [Option.bind_some]
      simp only [← List.any_eq_true]
      split <;> rfl
    all_goals simp [hs]

/-- On every stack value the translated `_block_level_constraints` / `_path_level_constraints` hand to `self._get_asserted`
    (the views `fblockView` / `predView` of TieFlow, depth `n` ≥ the block's length), the translated `_get_asserted`
    returns what the parameter `gaOf` of `block_tie` / `path_tie` stands for: the model's `getAsserted`. -/
theorem gaOf_is_python (A : Analysis D) (intcs : Option (List Nat)) (ins : List Ins) (key : Key) (E : PyView.Env)
    (single : Key → PySV → D × D)
    (hs : ∀ q o, single key (full (constructAst ins) (some (q, o))) = A.single intcs (constructAst ins) key q)
    (n q o : Nat) (hq : q < ins.length) (hn : ins.length ≤ n) :
    Generated.getAssertedPy A.dom (A.univ key.base) single E (ins.length + 3) key (treeOf (constructAst ins) n (some (q, o))) =
      some (gaOf A intcs (constructAst ins) key (ins.length + 1) (treeOf (constructAst ins) n (some (q, o)))) := by
  have hB := backward_constructAst ins
  rw [full_eq _ hB q o n (by omega)]
  simp only [gaOf, full_pos]
  exact getAsserted_tie A intcs _ (arity_constructAst ins) hB key E single hs q o _ _ (by omega) (by omega)

/-- the premise `hs` for the address analysis: AddrFields._get_asserted_single IS `_get_asserted_txn_gtxn`, which is the
    model's `addrSingle` (TieMatchers.addr_tie) -/
theorem single_addr (intcs : Option (List Nat)) (ins : List Ins) (key : Key) (q o : Nat) :
    Generated.getAssertedTxnGtxn (envOf intcs) (envOf intcs) key (full (constructAst ins) (some (q, o))) =
      addrAnalysis.single intcs (constructAst ins) key q := by
  rw [← full_eq _ (backward_constructAst ins) q o (q + 3) (by omega)]
  exact (addr_tie intcs _ (arity_constructAst ins) key q q o).symm

/-- the premise `hs` for the fee analysis (FeeField._get_asserted_single is `_get_asserted_fee`; `toG2` converts the model's
    FeeValue to the translated record) -/
theorem single_fee (intcs : Option (List Nat)) (ins : List Ins) (key : Key) (q o : Nat) :
    Generated.getAssertedFee (envOf intcs) (envOf intcs) key (full (constructAst ins) (some (q, o))) =
      toG2 (feeAnalysis.single intcs (constructAst ins) key q) := by
  rw [← full_eq _ (backward_constructAst ins) q o (q + 3) (by omega)]
  exact (fee_tie intcs _ (arity_constructAst ins) key q q o).symm

/-- `_get_asserted` of the address analysis, leaf matcher included, is the model's -/
theorem getAsserted_tie_addr (intcs : Option (List Nat)) (ins : List Ins) (key : Key) (n q o : Nat) (hq : q < ins.length) (hn : ins.length ≤ n) :
    Generated.getAssertedPy addrAnalysis.dom (addrAnalysis.univ key.base)
        (fun k v => Generated.getAssertedTxnGtxn (envOf intcs) (envOf intcs) k v) (envOf intcs) (ins.length + 3) key
        (treeOf (constructAst ins) n (some (q, o))) =
      some (gaOf addrAnalysis intcs (constructAst ins) key (ins.length + 1) (treeOf (constructAst ins) n (some (q, o)))) :=
  gaOf_is_python addrAnalysis intcs ins key (envOf intcs) _ (fun q o => single_addr intcs ins key q o) n q o hq hn

end Tealer.TieA
