/-
  C07 — Transaction-kind sets keep every approvable detector-relevant kind.
  The full statement is false on the current code (known finding F01: each comparison pattern answers in the
  label set of its own dimension and thereby clears the labels of the other dimensions).  Proved here:
  the counter-example, and the partial statement per dimension.
-/
import TealerModel.Props.TieFlow
import TealerModel.Props.Common
import TealerModel.Props.Tie
import TealerModel.Props.TieMatchers
namespace Tealer.C07

/-- tie to today's source (constants and tables imported from /repo on this run) -/
theorem C07_tie_source :
    OSet.ofList Generated.ALL_TRANSACTION_TYPES = ALL_TRANSACTION_TYPES ∧
    OSet.ofList Generated.APPLICATION_TRANSACTION_TYPES = APPLICATION_TRANSACTION_TYPES ∧
    OSet.ofList Generated.TYPEENUM_TRANSACTION_TYPES = TYPEENUM_TRANSACTION_TYPES ∧
    (Generated.oncompletionTable.all fun (n, l) => oncompletionToType (.lit n) == some l) = true ∧
    (Generated.typeEnumTable.all fun (n, l) => typeToType (.lit n) == some l) = true :=
  ⟨Tie.consts_tie.2.2.2.2.2.2.1, Tie.consts_tie.2.2.2.2.2.2.2.2.1, Tie.consts_tie.2.2.2.2.2.2.2.2.2.1, Tie.enum_tables_tie.1, Tie.enum_tables_tie.2.1⟩

/-- tie to today's source, lattice: transaction-kind sets are joined and met with Python's `|` and `&` (translated on this
    run from TxnType._union / _intersection) -/
theorem C07_tie_lattice (a b : NatSet) :
    txnTypeAnalysis.dom.union a b = Generated.txnTypeUnion a b ∧ txnTypeAnalysis.dom.inter a b = Generated.txnTypeInter a b :=
  ⟨(Tie.set_ops_tie a b).2.2.1, (Tie.set_ops_tie a b).2.2.2⟩

/-- the four kinds the detectors consume, as a function of the governed transaction's fields -/
def relevantKinds (typeEnum onCompletion : Nat) : List Nat :=
  if typeEnum = 1 then [TT.Pay] else if typeEnum = 4 then [TT.Axfer]
  else if typeEnum = 6 ∧ onCompletion = 4 then [TT.ApplUpdateApplication]
  else if typeEnum = 6 ∧ onCompletion = 5 then [TT.ApplDeleteApplication] else []

/-- `txn OnCompletion; int NoOp; ==` -/
def witnessAst : Ast := constructAst [⟨1, .txn "OnCompletion", ""⟩, ⟨2, .int (.named "NoOp"), ""⟩, ⟨3, .cmp .eq, ""⟩]

/-- full leaf statement for the OnCompletion pattern: the true set keeps every relevant kind of every
    transaction on which the comparison is true -/
def C07_leaf_full : Prop :=
  ∀ (typeEnum oc : Nat), oc = 0 →   -- the comparison `OnCompletion == NoOp` is true
    ∀ k ∈ relevantKinds typeEnum oc, k ∈ (txnTypeSingle none witnessAst ⟨"TransactionType", .self⟩ 2).1

/-- a payment has OnCompletion 0, passes the check, and its kind `Pay` is dropped -/
theorem C07_leaf_full_false : ¬ C07_leaf_full := by
  intro h
  have := h 1 0 rfl TT.Pay (by decide)
  revert this; decide

/-- within the TypeEnum dimension the Pay / Axfer kinds are handled exactly: for `TypeEnum == t` the true set
    lists Pay (Axfer) iff `t` is pay (axfer) and the false set lists it iff `t` is not -/
theorem C07_typeenum_partial (t : Nat) (ht : 1 ≤ t ∧ t ≤ 6) (lbl : Nat) (hl : typeToType (.lit t) = some lbl) :
    ((TT.Pay ∈ [lbl] ↔ t = 1) ∧ (TT.Pay ∈ OSet.diff TYPEENUM_TRANSACTION_TYPES [lbl] ↔ t ≠ 1)) ∧
    ((TT.Axfer ∈ [lbl] ↔ t = 4) ∧ (TT.Axfer ∈ OSet.diff TYPEENUM_TRANSACTION_TYPES [lbl] ↔ t ≠ 4)) := by
  obtain ⟨h1, h6⟩ := ht
  have : t = 1 ∨ t = 2 ∨ t = 3 ∨ t = 4 ∨ t = 5 ∨ t = 6 := by omega
  rcases this with rfl | rfl | rfl | rfl | rfl | rfl <;> simp [typeToType] at hl <;> subst hl <;> decide

/-- within the OnCompletion dimension the Update / Delete kinds are handled exactly -/
theorem C07_oncompletion_partial (c : Nat) (hc : c ≤ 5) (lbl : Nat) (hl : oncompletionToType (.lit c) = some lbl) :
    ((TT.ApplUpdateApplication ∈ [lbl] ↔ c = 4) ∧
      (TT.ApplUpdateApplication ∈ OSet.diff APPLICATION_TRANSACTION_TYPES [lbl] ↔ c ≠ 4)) ∧
    ((TT.ApplDeleteApplication ∈ [lbl] ↔ c = 5) ∧
      (TT.ApplDeleteApplication ∈ OSet.diff APPLICATION_TRANSACTION_TYPES [lbl] ↔ c ≠ 5)) := by
  have : c = 0 ∨ c = 1 ∨ c = 2 ∨ c = 3 ∨ c = 4 ∨ c = 5 := by omega
  rcases this with rfl | rfl | rfl | rfl | rfl | rfl <;> simp [oncompletionToType] at hl <;> subst hl <;> decide

/-- set algebra and flow layer are sound for the kind domain as for any set domain -/
theorem C07_forward_sound (g : Graph) (bc : Nat → NatSet) (pc : Nat → Nat → NatSet)
    (rout : List (Nat × NatSet)) (k : Nat) (tr : List Nat)
    (ht : Flow.FwdTrace g IntSet.gamma ALL_TRANSACTION_TYPES bc pc k tr)
    (hsol : ∀ b ∈ tr, getMap rout b [] = fwdF txnTypeAnalysis g ALL_TRANSACTION_TYPES bc pc rout b) :
    ∀ i, i < tr.length → k ∈ getMap rout tr[i]! [] :=
  Flow.forward_sound txnTypeLaws g ALL_TRANSACTION_TYPES bc pc rout k tr ht hsol

example : relevantKinds 1 0 = [TT.Pay] := by decide

/-- THE MATCHER IS THE PYTHON'S.  `_get_asserted_transaction_types`, translated statement by statement from /repo's Python on
    this run (together with is_value_matches_key, get_index_and_field, _get_index, is_int_push_ins, and the complete
    dictionaries of the two enum conversions), computes exactly the model's `txnTypeSingleE` — including WHEN it raises
    KeyError (`none`) — on the stack value the Python holds, for every key, block and instruction -/
theorem C07_tie_matcher (intcs : Option (List Nat)) (ins : List Ins) (key : Key) (n p o : Nat) :
    Generated.getAssertedTransactionTypes (TieM.envOf intcs) (TieM.envOf intcs) key (treeOf (constructAst ins) (n + 3) (some (p, o))) =
      txnTypeSingleE intcs (constructAst ins) key p :=
  TieM.txntypes_tie intcs _ (TieM.arity_constructAst ins) key n p o

/-- the two enum conversions (teal_enums.py), every key of their dictionaries included -/
theorem C07_tie_enum_conversions (v : Option IntVal) :
    PyView.lookupEnum Generated.typeEnumTable Generated.typeEnumNames v = v.bind typeToType ∧
    PyView.lookupEnum Generated.oncompletionTable Generated.oncompletionNames v = v.bind oncompletionToType :=
  ⟨TieM.lookup_type_tie v, TieM.lookup_oncompletion_tie v⟩

/-- the block-level constraint of this analysis is computed by the Python's own `_block_level_constraints`, translated on this
    run (instance of `TieF.block_tie`; edge constraints and transfer functions: `C01_tie_constraints`, `C01_tie_transfer_functions`) -/
theorem C07_tie_block_constraint (intcs : Option (List Nat)) (b : FBlock) (key : Key) (n : Nat) :
    blockConstraint txnTypeAnalysis intcs b key =
      Generated.blockLevelConstraints (TieM.envOf intcs) txnTypeAnalysis.dom (txnTypeAnalysis.univ key.base)
        (TieF.gaOf txnTypeAnalysis intcs (constructAst b.ins) key (b.ins.length + 1)) (TieM.envOf intcs) key (TieF.fblockView b n) :=
  TieF.block_tie txnTypeAnalysis intcs b key n

end Tealer.C07
