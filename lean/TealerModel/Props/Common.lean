/-
  Instantiation of the generic flow theorems for the four analyses: each domain's union / intersection
  over-approximate its concretisation, hence every solution the solver returns is sound along accepting traces.
-/
import TealerModel.Lemmas.Flow
import TealerModel.Lemmas.Solver
import TealerModel.Lemmas.Fee
import TealerModel.Lemmas.IntSet
import TealerModel.Lemmas.Addr
namespace Tealer

theorem feeLaws : Flow.GammaLaws feeAnalysis Fee.gamma :=
  { union_sound := fun a b v h => Fee.union_sound a b v h
    inter_sound := fun a b v ha hb => Fee.inter_sound a b v ha hb }

theorem groupIndicesLaws : Flow.GammaLaws groupIndicesAnalysis IntSet.gamma :=
  { union_sound := fun a b v h => (IntSet.union_exact a b v).mpr h
    inter_sound := fun a b v ha hb => (IntSet.inter_exact a b v).mpr ⟨ha, hb⟩ }

theorem txnTypeLaws : Flow.GammaLaws txnTypeAnalysis IntSet.gamma :=
  { union_sound := fun a b v h => (IntSet.union_exact a b v).mpr h
    inter_sound := fun a b v ha hb => (IntSet.inter_exact a b v).mpr ⟨ha, hb⟩ }

theorem addrLaws : Flow.GammaLaws addrAnalysis Addr.gamma :=
  { union_sound := fun a b v h => Addr.union_sound a b v h
    inter_sound := fun a b v ha hb => Addr.inter_sound a b v ha hb }

/-- flow layer, composed: the values the forward solver RETURNS (not just any solution) admit the concrete value at every
    block of an accepting trace — worklist theorem + soundness of any solution, under the decidable graph conditions `fwdWF` -/
theorem solver_forward_sound {D V : Type} [DecidableEq D] {A : Analysis D} {γ : D → V → Prop} (L : Flow.GammaLaws A γ)
    (g : Graph) (univ : D) (bc : Nat → D) (pc : Nat → Nat → D) (hwf : Solver.fwdWF g = true)
    (r : List (Nat × D)) (h : solveFwd A g univ bc pc = some r) (v : V) (tr : List Nat)
    (ht : Flow.FwdTrace g γ univ bc pc v tr) (hkeys : ∀ b ∈ tr, b ∈ g.keys) :
    ∀ i, i < tr.length → γ (getMap r tr[i]! A.dom.null) v :=
  Flow.forward_sound L g univ bc pc r v tr ht
    (fun b hb => Solver.solveFwd_solution A g univ bc pc hwf r h b (hkeys b hb))

/-- flow layer, composed, backward pass: the values the backward solver RETURNS admit the concrete value at every block of
    an accepting trace (leaves carry the forward values `ctx1`), under the decidable graph conditions `bwdWF` -/
theorem solver_backward_sound {D V : Type} [DecidableEq D] {A : Analysis D} {γ : D → V → Prop} (L : Flow.GammaLaws A γ)
    (g : Graph) (ctx1 : Nat → D) (hwf : Solver.bwdWF g = true)
    (r : List (Nat × D)) (h : solveBwd A g ctx1 = some r) (v : V) (tr : List Nat)
    (ht : Flow.BwdTrace g γ ctx1 v tr) (hkeys : ∀ b ∈ tr, b ∈ g.keys) :
    ∀ i, i < tr.length → γ (getMap r tr[i]! A.dom.null) v :=
  Flow.backward_sound L g ctx1 r v tr ht
    (fun b hb hl => Solver.solveBwd_leaf A g ctx1 r h b (hkeys b hb) hl)
    (fun b hb => Solver.solveBwd_solution A g ctx1 hwf r h b (hkeys b hb))

/-- both passes: what `solve` returns admits the concrete value at every block of an accepting trace that satisfies the
    forward and the backward trace facts -/
theorem solver_sound {D V : Type} [DecidableEq D] {A : Analysis D} {γ : D → V → Prop} (L : Flow.GammaLaws A γ)
    (g : Graph) (univ : D) (bc : Nat → D) (pc : Nat → Nat → D)
    (hwf1 : Solver.fwdWF g = true) (hwf2 : Solver.bwdWF g = true)
    (r : List (Nat × D)) (h : solve A g univ bc pc = .ok r) (v : V) (tr : List Nat)
    (ht1 : Flow.FwdTrace g γ univ bc pc v tr) (hkeys : ∀ b ∈ tr, b ∈ g.keys)
    (hshape : tr ≠ [] ∧ g.isLeaf tr[tr.length - 1]! = true ∧ (∀ i, i + 1 < tr.length → g.isLeaf tr[i]! = false) ∧
      (∀ i, i + 1 < tr.length → tr[i+1]! ∈ g.nextG tr[i]!) ∧
      (∀ i, i < tr.length → ∀ r, g.retPointOf tr[i]! = some r → g.calleeHasRetsub tr[i]! = true →
        ∃ j, i < j ∧ j < tr.length ∧ tr[j]! = r)) :
    ∀ i, i < tr.length → γ (getMap r tr[i]! A.dom.null) v := by
  unfold solve at h
  simp only [bind, Except.bind, pure, Except.pure, throw, throwThe, MonadExceptOf.throw] at h
  cases h1 : solveFwd A g univ bc pc with
  | none => simp [h1] at h
  | some rout =>
    simp only [h1] at h
    cases h2 : solveBwd A g (fun k => getMap rout k A.dom.null) with
    | none => simp [h2] at h
    | some r' =>
      simp only [h2, Except.ok.injEq] at h
      subst h
      have hf := solver_forward_sound L g univ bc pc hwf1 rout h1 v tr ht1 hkeys
      obtain ⟨hne, hlast, hint, hedges, hret⟩ := hshape
      refine solver_backward_sound L g _ hwf2 r' h2 v tr ?_ hkeys
      exact { nonempty := hne, lastLeaf := hlast, interior := hint, edges := hedges, returns := hret
              ctxOk := by
                intro b hb
                obtain ⟨i, hi, rfl⟩ := List.getElem_of_mem hb
                have := hf i hi
                simpa [hi] using this }

/-- The solver's forward result is a solution of the reach-out equations (worklist theorem instantiated):
    stated for any analysis, under the two decidable graph conditions the driver checks on every program. -/
def fwdInputs (g : Graph) (b : Nat) : List Nat :=
  g.prevG b ++ (match g.callsubOf b with | some c => [c] | none => [])

def bwdInputs (g : Graph) (b : Nat) : List Nat :=
  b :: g.nextG b ++ (match g.retPointOf b with | some r => [r] | none => [])

/-- decidable well-formedness of the global graph: successor / predecessor lists mirror each other, a return
    point's call site has it as return point and vice versa, every block is initially queued -/
def graphWF (g : Graph) : Bool :=
  g.keys.all (fun b => (g.prevG b).all fun p => (g.nextG p).contains b) &&
  g.keys.all (fun b => (g.nextG b).all fun n => (g.prevG n).contains b) &&
  g.keys.all (fun b => match g.callsubOf b with | some c => g.retPointOf c == some b | none => true) &&
  g.keys.all (fun b => match g.retPointOf b with | some r => g.callsubOf r == some b | none => true)

end Tealer
