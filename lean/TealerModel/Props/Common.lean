/-
  Instantiation of the generic flow theorems for the four analyses: each domain's union / intersection
  over-approximate its concretisation, hence every solution the solver returns is sound along accepting traces.
-/
import TealerModel.Lemmas.Flow
import TealerModel.Lemmas.Solver
import TealerModel.Lemmas.Fee
import TealerModel.Lemmas.IntSet
import TealerModel.Lemmas.Addr
namespace Tealer

theorem feeLaws : Flow.GammaLaws feeAnalysis Fee.gamma :=
  { union_sound := fun a b v h => Fee.union_sound a b v h
    inter_sound := fun a b v ha hb => Fee.inter_sound a b v ha hb }

theorem groupIndicesLaws : Flow.GammaLaws groupIndicesAnalysis IntSet.gamma :=
  { union_sound := fun a b v h => (IntSet.union_exact a b v).mpr h
    inter_sound := fun a b v ha hb => (IntSet.inter_exact a b v).mpr ⟨ha, hb⟩ }

theorem txnTypeLaws : Flow.GammaLaws txnTypeAnalysis IntSet.gamma :=
  { union_sound := fun a b v h => (IntSet.union_exact a b v).mpr h
    inter_sound := fun a b v ha hb => (IntSet.inter_exact a b v).mpr ⟨ha, hb⟩ }

theorem addrLaws : Flow.GammaLaws addrAnalysis Addr.gamma :=
  { union_sound := fun a b v h => Addr.union_sound a b v h
    inter_sound := fun a b v ha hb => Addr.inter_sound a b v ha hb }

/-- flow layer, composed: the values the forward solver RETURNS (not just any solution) admit the concrete value at every
    block of an accepting trace — worklist theorem + soundness of any solution, under the decidable graph conditions `fwdWF` -/
theorem solver_forward_sound {D V : Type} [DecidableEq D] {A : Analysis D} {γ : D → V → Prop} (L : Flow.GammaLaws A γ)
    (g : Graph) (univ : D) (bc : Nat → D) (pc : Nat → Nat → D) (hwf : Solver.fwdWF g = true)
    (r : List (Nat × D)) (h : solveFwd A g univ bc pc = some r) (v : V) (tr : List Nat)
    (ht : Flow.FwdTrace g γ univ bc pc v tr) (hkeys : ∀ b ∈ tr, b ∈ g.keys) :
    ∀ i, i < tr.length → γ (getMap r tr[i]! A.dom.null) v :=
  Flow.forward_sound L g univ bc pc r v tr ht
    (fun b hb => Solver.solveFwd_solution A g univ bc pc hwf r h b (hkeys b hb))

/-- The solver's forward result is a solution of the reach-out equations (worklist theorem instantiated):
    stated for any analysis, under the two decidable graph conditions the driver checks on every program. -/
def fwdInputs (g : Graph) (b : Nat) : List Nat :=
  g.prevG b ++ (match g.callsubOf b with | some c => [c] | none => [])

def bwdInputs (g : Graph) (b : Nat) : List Nat :=
  b :: g.nextG b ++ (match g.retPointOf b with | some r => [r] | none => [])

/-- decidable well-formedness of the global graph: successor / predecessor lists mirror each other, a return
    point's call site has it as return point and vice versa, every block is initially queued -/
def graphWF (g : Graph) : Bool :=
  g.keys.all (fun b => (g.prevG b).all fun p => (g.nextG p).contains b) &&
  g.keys.all (fun b => (g.nextG b).all fun n => (g.prevG n).contains b) &&
  g.keys.all (fun b => match g.callsubOf b with | some c => g.retPointOf c == some b | none => true) &&
  g.keys.all (fun b => match g.retPointOf b with | some r => g.callsubOf r == some b | none => true)

end Tealer
