/-
  Tie between the hand-written model of generic.py's two worklist solvers (Generic.worklistRun instantiated by solveFwd /
  solveBwd, about which the solver, confluence and exactness theorems are proved) and the functions REGENERATED from /repo's
  Python on every run (Generated/Worklist.lean: _merge_information_forward, forward_analyis, _merge_information_backward,
  backward_analysis, for one analysis key).  The Python keeps `global_reachout[key]` as a dictionary updated in place; the
  translation keeps it as a function of the block, the model as an association list: `asFun` relates the two.
-/
import TealerModel.Generated.Worklist
import TealerModel.Props.TieFlow
import TealerModel.Lemmas.Worklist
set_option linter.unusedSimpArgs false
set_option linter.unusedVariables false
namespace Tealer.TieW
open PyView TieF

variable {D : Type} [DecidableEq D]

/-- the association list of the model read as the Python's dictionary (missing key: the null set; the KeyError is `mkGraph`'s) -/
def asFun (dflt : D) (cur : List (Nat × D)) : Nat → D := fun k => getMap cur k dflt

theorem asFun_updMap (dflt : D) (cur : List (Nat × D)) (b : Nat) (v : D) :
    asFun dflt (updMap cur b v) = dmapSet (asFun dflt cur) b v := by
  funext k
  simp [asFun, dmapSet, Worklist.getMap_updMap]

/-- the re-queueing loop `for bi in L: if bi not in worklist: worklist.append(bi)` -/
theorem requeue_loop (L rest : List Nat) :
    (forIn (m := Option) L rest (fun bi wl => if (!(wl.contains bi)) = true then pure (ForInStep.yield (wl ++ [bi])) else pure (ForInStep.yield wl))) =
      some (L.foldl (fun wl d => if wl.contains d then wl else wl ++ [d]) rest) := by
  induction L generalizing rest with
  | nil => rfl
  | cons x xs ih =>
    simp only [List.forIn_cons, List.foldl_cons]
    by_cases h : rest.contains x = true
    · simp only [h, Bool.not_true, Bool.false_eq_true, if_false, if_true, Option.pure_def, Option.bind_eq_bind, Option.bind_some]
      exact ih rest
    · have h' : rest.contains x = false := by simpa using h
      simp only [h', Bool.not_false, if_true, if_false, Option.pure_def, Option.bind_eq_bind, Option.bind_some, Bool.false_eq_true]
      exact ih _

/-- `_merge_information_forward`: the new value is the model's `fwdF`; the dictionary is updated exactly when it differs -/
theorem merge_fwd_tie (A : Analysis D) (g : Graph) (univ : D) (bc : Nat → D) (pc : Nat → Nat → D) (cur : List (Nat × D))
    (b : Nat) (E : PyView.Env) (key : Key) (blocks : List Nat) :
    Generated.mergeInformationForward A.dom univ bc pc blocks (graphBlock g) E key b (asFun A.dom.null cur) =
      (if fwdF A g univ bc pc cur b = getMap cur b A.dom.null then (false, asFun A.dom.null cur)
       else (true, asFun A.dom.null (updMap cur b (fwdF A g univ bc pc cur b)))) := by
  unfold Generated.mergeInformationForward
  have h' : A.dom.inter (Generated.calculateReachin A.dom univ (pc b) E key (graphBlock g b) (asFun A.dom.null cur)) (bc b) =
      fwdF A g univ bc pc cur b := (reachin_tie A g univ bc pc cur b E key).symm
  have hb : asFun A.dom.null cur b = getMap cur b A.dom.null := rfl
  simp only [Id.run, List.forIn_cons, List.forIn_nil, pure_bind, bind_pure_comp, h', hb]
  by_cases hv : fwdF A g univ bc pc cur b = getMap cur b A.dom.null
  · simp [hv]; rfl
  · simp [hv, asFun_updMap]; rfl

/-- `_merge_information_backward` -/
theorem merge_bwd_tie (A : Analysis D) (g : Graph) (univ : D) (bc : Nat → D) (pc : Nat → Nat → D) (cur : List (Nat × D))
    (b : Nat) (E : PyView.Env) (key : Key) (blocks : List Nat) :
    Generated.mergeInformationBackward A.dom univ bc pc blocks (graphBlock g) E key b (asFun A.dom.null cur) =
      (if bwdF A g bc cur b = getMap cur b A.dom.null then (false, asFun A.dom.null cur)
       else (true, asFun A.dom.null (updMap cur b (bwdF A g bc cur b)))) := by
  unfold Generated.mergeInformationBackward
  have h := livein_tie A g univ bc cur b E key
  by_cases hl : g.isLeaf b = true
  · have hb : bwdF A g bc cur b = getMap cur b A.dom.null := by simp [bwdF, hl]
    simp [Id.run, graphBlock, hl, hb]
    rfl
  · simp only [hl, Bool.false_eq_true, if_false] at h
    have h' : A.dom.inter (Generated.calculateLivein A.dom univ E key (graphBlock g b) (asFun A.dom.null cur)) (bc b) =
        bwdF A g bc cur b := h.symm
    have hb : asFun A.dom.null cur b = getMap cur b A.dom.null := rfl
    have hlf : (graphBlock g b).isLeaf = false := by simpa [graphBlock] using hl
    simp only [Id.run, List.forIn_cons, List.forIn_nil, pure_bind, bind_pure_comp, h', hb, hlf]
    by_cases hv : bwdF A g bc cur b = getMap cur b A.dom.null
    · simp [hv]; rfl
    · simp [hv, asFun_updMap]; rfl

/-- THE FORWARD WORKLIST IS THE PYTHON'S: the `while worklist:` loop of `forward_analyis`, run with the same fuel from the same
    state, returns the model's `worklistRun` over `fwdF` / `fwdDeps` (and runs out of fuel exactly when the model does) -/
theorem fwd_loop_tie (A : Analysis D) (g : Graph) (univ : D) (bc : Nat → D) (pc : Nat → Nat → D) (E : PyView.Env) (key : Key)
    (blocks : List Nat) : ∀ (fuel : Nat) (cur : List (Nat × D)) (wl : List Nat),
    Generated.forwardAnalyisLoop A.dom univ bc pc blocks (graphBlock g) E key fuel wl (asFun A.dom.null cur) =
      (worklistRun (fwdF A g univ bc pc) (fwdDeps g) A.dom.null fuel cur wl).map (asFun A.dom.null) := by
  intro fuel
  induction fuel with
  | zero => intro cur wl; rfl
  | succ fuel ih =>
    intro cur wl
    rcases wl with _ | ⟨b, rest⟩
    · simp [Generated.forwardAnalyisLoop, worklistRun]
    · unfold Generated.forwardAnalyisLoop worklistRun
      simp only [List.isEmpty_cons, Bool.false_eq_true, if_false, List.headD_cons, List.drop_one, List.tail_cons,
        merge_fwd_tie A g univ bc pc cur b E key blocks]
      by_cases hv : fwdF A g univ bc pc cur b = getMap cur b A.dom.null
      · simp only [hv, if_true, Bool.false_eq_true, if_false]
        exact ih cur rest
      · simp only [hv, if_false, if_true]
        have hdeps : ((graphBlock g b).nextGlobal ++
            (if ((graphBlock g b).isCallsubBlock && (graphBlock g b).subReturnPoint.isSome) = true then
              [(graphBlock g b).subReturnPoint.getD 0] else ([] : List Nat))) = fwdDeps g b := by
          obtain ⟨r, hr⟩ : ∃ r, g.retPointOf b = r := ⟨_, rfl⟩
          simp only [graphBlock, fwdDeps, hr]
          cases r <;> simp
        erw [hdeps, requeue_loop]
        simp only [Option.bind_eq_bind, Option.bind_some]
        exact ih _ _

/-- THE BACKWARD WORKLIST IS THE PYTHON'S -/
theorem bwd_loop_tie (A : Analysis D) (g : Graph) (univ : D) (bc : Nat → D) (pc : Nat → Nat → D) (E : PyView.Env) (key : Key)
    (blocks : List Nat) : ∀ (fuel : Nat) (cur : List (Nat × D)) (wl : List Nat),
    Generated.backwardAnalysisLoop A.dom univ bc pc blocks (graphBlock g) E key fuel wl (asFun A.dom.null cur) =
      (worklistRun (bwdF A g bc) (bwdDeps g) A.dom.null fuel cur wl).map (asFun A.dom.null) := by
  intro fuel
  induction fuel with
  | zero => intro cur wl; rfl
  | succ fuel ih =>
    intro cur wl
    rcases wl with _ | ⟨b, rest⟩
    · simp [Generated.backwardAnalysisLoop, worklistRun]
    · unfold Generated.backwardAnalysisLoop worklistRun
      simp only [List.isEmpty_cons, Bool.false_eq_true, if_false, List.headD_cons, List.drop_one, List.tail_cons,
        merge_bwd_tie A g univ bc pc cur b E key blocks]
      by_cases hv : bwdF A g bc cur b = getMap cur b A.dom.null
      · simp only [hv, if_true, Bool.false_eq_true, if_false]
        exact ih cur rest
      · simp only [hv, if_false, if_true]
        have hdeps : ((graphBlock g b).prevGlobal ++
            (if (graphBlock g b).isSubReturnPoint = true then [(graphBlock g b).callsubBlock] else ([] : List Nat))) = bwdDeps g b := by
          obtain ⟨r, hr⟩ : ∃ r, g.callsubOf b = r := ⟨_, rfl⟩
          simp only [graphBlock, bwdDeps, hr]
          cases r <;> simp
        erw [hdeps, requeue_loop]
        simp only [Option.bind_eq_bind, Option.bind_some]
        exact ih _ _

/-- the initialisation loop `for b in self._function.blocks: global_reachout[key][b] = f(b)` -/
theorem init_loop (f : Nat → D) (body : Nat → (Nat → D) → Option (ForInStep (Nat → D)))
    (hbody : ∀ b r, body b r = some (ForInStep.yield (dmapSet r b (f b)))) :
    ∀ (keys : List Nat) (acc : Nat → D),
      forIn (m := Option) keys acc body = some (fun k => if k ∈ keys then f k else acc k) := by
  intro keys
  induction keys with
  | nil => intro acc; simp
  | cons x xs ih =>
    intro acc
    simp only [List.forIn_cons, hbody, Option.bind_eq_bind, Option.bind_some, ih]
    congr 1
    funext k
    by_cases hk : k ∈ xs
    · simp [hk]
    · by_cases hx : k = x
      · simp [hx, dmapSet]
      · simp [hk, hx, dmapSet]

theorem asFun_map_keys (dflt : D) (f : Nat → D) (keys : List Nat) :
    asFun dflt (keys.map fun k => (k, f k)) = fun k => if k ∈ keys then f k else dflt := by
  funext k
  induction keys with
  | nil => simp [asFun, Worklist.getMap_nil]
  | cons x xs ih =>
    simp only [asFun, List.map_cons, Worklist.getMap_cons] at ih ⊢
    by_cases hx : x = k
    · simp [hx]
    · have hx' : ¬ k = x := fun h => hx h.symm
      simp [hx, hx', ih]

/-- `forward_analyis` for one key = the model's `solveFwd` (same fuel, same initial worklist) -/
theorem forward_tie (A : Analysis D) (g : Graph) (univ : D) (bc : Nat → D) (pc : Nat → Nat → D) (E : PyView.Env) (key : Key) :
    Generated.forwardAnalyis A.dom univ bc pc g.keys (graphBlock g) E key (solverFuel g) (fwdWorklist g) =
      (solveFwd A g univ bc pc).map (asFun A.dom.null) := by
  unfold Generated.forwardAnalyis solveFwd
  simp only [List.forIn_cons, List.forIn_nil, Option.pure_def, Option.bind_eq_bind, Option.bind_some]
  rw [init_loop (fun _ => A.dom.null) _ (fun b r => rfl)]
  simp only [Option.bind_some]
  have h0 : (fun k => if k ∈ g.keys then A.dom.null else A.dom.null) = asFun A.dom.null (g.keys.map fun k => (k, A.dom.null)) := by
    rw [asFun_map_keys]
  rw [h0]
  exact fwd_loop_tie A g univ bc pc E key g.keys _ _ _

/-- `backward_analysis` for one key, started on the forward solution `ctx1` (= self._block_contexts[key] at that point)
    = the model's `solveBwd` -/
theorem backward_tie (A : Analysis D) (g : Graph) (univ : D) (ctx1 : Nat → D) (pc : Nat → Nat → D) (E : PyView.Env) (key : Key) :
    Generated.backwardAnalysis A.dom univ ctx1 pc g.keys (graphBlock g) E key (solverFuel g) (bwdWorklist g) =
      (solveBwd A g ctx1).map (asFun A.dom.null) := by
  unfold Generated.backwardAnalysis solveBwd
  simp only [List.forIn_cons, List.forIn_nil, Option.pure_def, Option.bind_eq_bind, Option.bind_some]
  rw [init_loop (fun b => if g.isLeaf b then ctx1 b else A.dom.null) _ (fun b r => by
    by_cases hl : g.isLeaf b = true <;> simp [graphBlock, hl])]
  simp only [Option.bind_some]
  have h0 : (fun k => if k ∈ g.keys then (if g.isLeaf k then ctx1 k else A.dom.null) else A.dom.null) =
      asFun A.dom.null (g.keys.map fun k => (k, if g.isLeaf k then ctx1 k else A.dom.null)) := by
    rw [asFun_map_keys]
  rw [h0]
  exact bwd_loop_tie A g univ ctx1 pc E key g.keys _ _ _

/-- `_update_gtxn_constraints` (one entry of its double loop) = the model's `updateGtxn` used by `runAnalysis` -/
theorem update_gtxn_tie (A : Analysis D) (gi : List Nat) (i : Nat) (v base : D) :
    Generated.updateGtxnConstraints A.dom gi i v base = updateGtxn A gi i v base := by
  unfold Generated.updateGtxnConstraints updateGtxn
  by_cases h : gi.contains i = true <;> simp [Id.run, h] <;> rfl

end Tealer.TieW
