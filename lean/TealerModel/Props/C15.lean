/-
  C15 — Verdicts are invariant under meaning-preserving rewrites of the source.
  Proved on the model: the analyses see an integer literal only through `intPush` / `intLit`, so spelling it with
  `int`, `pushint` or an entry-block `intcblock` + `intc` gives the same value; named type / completion constants denote
  the numbers of the tables; a stack-neutral padding pair leaves the symbolic stack unchanged; labels are resolved by
  name only.  (Decimal / hex / octal spellings are equal after parsing — Python's int() — and are compared on the real
  parser in C16.)  The end-to-end relation is checked metamorphically on every run (harness/metachecks.py).
-/
import TealerModel.Ast
import TealerModel.Dom
import TealerModel.Cfg
import TealerModel.Lemmas.Padding
namespace Tealer.C15

/-- `int c`, `pushint c` and `intc i` with an entry-block intcblock holding c at position i push the same known value -/
theorem C15_int_spellings (cs : List Nat) (i c : Nat) (h : cs[i]? = some c) :
    intPush (some cs) (.int (.lit c)) = some (some (.lit c)) ∧
    intPush (some cs) (.pushint (.lit c)) = some (some (.lit c)) ∧
    intPush (some cs) (.intc i) = some (some (.lit c)) := by
  simp [intPush, h]

/-- a type / completion action named by word or by number denotes the same label -/
theorem C15_named_constants :
    (typeToType (.named "pay") = typeToType (.lit 1)) ∧ (typeToType (.named "keyreg") = typeToType (.lit 2)) ∧
    (typeToType (.named "acfg") = typeToType (.lit 3)) ∧ (typeToType (.named "axfer") = typeToType (.lit 4)) ∧
    (typeToType (.named "afrz") = typeToType (.lit 5)) ∧ (typeToType (.named "appl") = typeToType (.lit 6)) ∧
    (oncompletionToType (.named "NoOp") = oncompletionToType (.lit 0)) ∧
    (oncompletionToType (.named "OptIn") = oncompletionToType (.lit 1)) ∧
    (oncompletionToType (.named "CloseOut") = oncompletionToType (.lit 2)) ∧
    (oncompletionToType (.named "ClearState") = oncompletionToType (.lit 3)) ∧
    (oncompletionToType (.named "UpdateApplication") = oncompletionToType (.lit 4)) ∧
    (oncompletionToType (.named "DeleteApplication") = oncompletionToType (.lit 5)) := by
  decide

/-- stack-neutral padding (`int k; pop` between statements): the symbolic stack after the pair is the stack before it -/
theorem C15_padding_neutral (st : List Ref) (p : Nat) (k : IntVal) :
    (astStep (astStep st p (.int k)).2 (p + 1) (.other "pop" 1 0)).2 = st := by
  simp [astStep, popN, Op.pops, Op.pushes]

/-- labels are resolved by name only: renaming every label consistently (an injective renaming applied to definitions
    and uses) resolves every jump to the same instruction position -/
theorem C15_label_lookup_rename (labels : List (String × Nat)) (ρ : String → String)
    (hinj : ∀ a b, ρ a = ρ b → a = b) (l : String) :
    lookupLabel (labels.map fun (n, k) => (ρ n, k)) (ρ l) = lookupLabel labels l := by
  unfold lookupLabel
  have : ∀ (xs : List (String × Nat)),
      (xs.map fun (x : String × Nat) => (ρ x.1, x.2)).find? (fun x => x.1 == ρ l) = (xs.find? (fun x => x.1 == l)).map (fun x => (ρ x.1, x.2)) := by
    intro xs
    induction xs with
    | nil => simp
    | cons x xs ih =>
      simp only [List.map_cons, List.find?_cons]
      by_cases hx : x.1 = l
      · simp [hx]
      · have h1 : (ρ x.1 == ρ l) = false := by simpa using fun h => hx (hinj _ _ h)
        have h2 : (x.1 == l) = false := by simpa using hx
        simp only [h1, h2]; exact ih
  have hrev : (labels.map fun (x : String × Nat) => (ρ x.1, x.2)).reverse = (labels.reverse.map fun (x : String × Nat) => (ρ x.1, x.2)) := by
    simp [List.map_reverse]
  have hmap : (labels.map fun (x : String × Nat) => match x with | (n, k) => (ρ n, k)) = (labels.map fun (x : String × Nat) => (ρ x.1, x.2)) := by
    apply List.map_congr_left; intro x _; rfl
  rw [hmap, hrev, this]
  cases labels.reverse.find? (fun x => x.1 == l) <;> simp

/-- INSERTING STACK-NEUTRAL PADDING BETWEEN STATEMENTS: for every block `pre ++ post` and the block `pre ++ [int c, pop] ++ post`, the
    stack AST (the model `constructAst` that `C11_tie_construct_stack_ast` shows to be what the Python builds) gives every
    instruction before the padding the same operand references, and every instruction after it the references it had, with the
    positions at or after the insertion point moved by two.  So every comparison is attributed to the same field reads and the
    same constants as before, whatever the block - the per-instruction premise of the metamorphic check for the padding rewrite -/
theorem C15_padding_operands (pre post : List Ins) (c : IntVal) (l1 l2 : Nat) (t1 t2 : String) :
    let pad : List Ins := [⟨l1, .int c, t1⟩, ⟨l2, .other "pop" 1 0, t2⟩]
    (∀ j, j < pre.length → OperandValues.argsAt (pre ++ pad ++ post) j = OperandValues.argsAt (pre ++ post) j) ∧
    (∀ j, j < post.length →
      OperandValues.argsAt (pre ++ pad ++ post) (pre.length + 2 + j) =
        (OperandValues.argsAt (pre ++ post) (pre.length + j)).map (Padding.shiftRef pre.length 2)) :=
  Padding.padding_operands pre post c l1 l2 t1 t2

/-- RESPELLING A PUSH (`int c` -> `pushint c` -> `intc i` / `intc_k`, a named constant -> its number): two blocks whose instructions
    have pairwise the same pop and push counts - every integer push pops 0 and pushes 1 - have the same operand references at
    every instruction; together with `C15_int_spellings` (the matchers read the same value from each spelling) every comparison is
    read exactly as before -/
theorem C15_respelling_operands (a b : List Ins)
    (h : ∀ i : Nat, (a[i]!).op.pops = (b[i]!).op.pops ∧ (a[i]!).op.pushes = (b[i]!).op.pushes) (j : Nat) :
    OperandValues.argsAt a j = OperandValues.argsAt b j :=
  Padding.argsAt_effects a b h j

example : (Op.int (.lit 5)).pops = (Op.pushint (.lit 5)).pops ∧ (Op.int (.lit 5)).pushes = (Op.intc 2).pushes ∧ (Op.pushint (.named "pay")).pops = (Op.intc 0).pops := by
  decide

/-- non-vacuity: `txn Fee; [int 7; pop;] int 1000; <=`: the comparison at position 2 reads (0, 0) and (1, 0); after the padding it
    sits at position 4 and reads (0, 0) and (3, 0) -/
example :
    let pre : List Ins := [⟨1, .txn "Fee", ""⟩]
    let post : List Ins := [⟨2, .int (.lit 1000), ""⟩, ⟨3, .cmp .le, ""⟩]
    OperandValues.argsAt (pre ++ post) 2 = [some (0, 0), some (1, 0)] ∧
      OperandValues.argsAt (pre ++ [⟨9, .int (.lit 7), ""⟩, ⟨9, .other "pop" 1 0, ""⟩] ++ post) 4 = [some (0, 0), some (3, 0)] := by
  decide +kernel

example : intPush (some [0, 1, 1000]) (.intc 2) = some (some (.lit 1000)) := by decide

end Tealer.C15
