/-
  C15 — Verdicts are invariant under meaning-preserving rewrites of the source.
  Proved on the model: the analyses see an integer literal only through `intPush` / `intLit`, so spelling it with
  `int`, `pushint` or an entry-block `intcblock` + `intc` gives the same value; named type / completion constants denote
  the numbers of the tables; a stack-neutral padding pair leaves the symbolic stack unchanged; labels are resolved by
  name only.  (Decimal / hex / octal spellings are equal after parsing — Python's int() — and are compared on the real
  parser in C16.)  The end-to-end relation is checked metamorphically on every run (harness/metachecks.py).
-/
import TealerModel.Ast
import TealerModel.Dom
import TealerModel.Cfg
namespace Tealer.C15

/-- `int c`, `pushint c` and `intc i` with an entry-block intcblock holding c at position i push the same known value -/
theorem C15_int_spellings (cs : List Nat) (i c : Nat) (h : cs[i]? = some c) :
    intPush (some cs) (.int (.lit c)) = some (some (.lit c)) ∧
    intPush (some cs) (.pushint (.lit c)) = some (some (.lit c)) ∧
    intPush (some cs) (.intc i) = some (some (.lit c)) := by
  simp [intPush, h]

/-- a type / completion action named by word or by number denotes the same label -/
theorem C15_named_constants :
    (typeToType (.named "pay") = typeToType (.lit 1)) ∧ (typeToType (.named "keyreg") = typeToType (.lit 2)) ∧
    (typeToType (.named "acfg") = typeToType (.lit 3)) ∧ (typeToType (.named "axfer") = typeToType (.lit 4)) ∧
    (typeToType (.named "afrz") = typeToType (.lit 5)) ∧ (typeToType (.named "appl") = typeToType (.lit 6)) ∧
    (oncompletionToType (.named "NoOp") = oncompletionToType (.lit 0)) ∧
    (oncompletionToType (.named "OptIn") = oncompletionToType (.lit 1)) ∧
    (oncompletionToType (.named "CloseOut") = oncompletionToType (.lit 2)) ∧
    (oncompletionToType (.named "ClearState") = oncompletionToType (.lit 3)) ∧
    (oncompletionToType (.named "UpdateApplication") = oncompletionToType (.lit 4)) ∧
    (oncompletionToType (.named "DeleteApplication") = oncompletionToType (.lit 5)) := by
  decide

/-- stack-neutral padding (`int k; pop` between statements): the symbolic stack after the pair is the stack before it -/
theorem C15_padding_neutral (st : List Ref) (p : Nat) (k : IntVal) :
    (astStep (astStep st p (.int k)).2 (p + 1) (.other "pop" 1 0)).2 = st := by
  simp [astStep, popN, Op.pops, Op.pushes]

/-- labels are resolved by name only: renaming every label consistently (an injective renaming applied to definitions
    and uses) resolves every jump to the same instruction position -/
theorem C15_label_lookup_rename (labels : List (String × Nat)) (ρ : String → String)
    (hinj : ∀ a b, ρ a = ρ b → a = b) (l : String) :
    lookupLabel (labels.map fun (n, k) => (ρ n, k)) (ρ l) = lookupLabel labels l := by
  unfold lookupLabel
  have : ∀ (xs : List (String × Nat)),
      (xs.map fun (x : String × Nat) => (ρ x.1, x.2)).find? (fun x => x.1 == ρ l) = (xs.find? (fun x => x.1 == l)).map (fun x => (ρ x.1, x.2)) := by
    intro xs
    induction xs with
    | nil => simp
    | cons x xs ih =>
      simp only [List.map_cons, List.find?_cons]
      by_cases hx : x.1 = l
      · simp [hx]
      · have h1 : (ρ x.1 == ρ l) = false := by simpa using fun h => hx (hinj _ _ h)
        have h2 : (x.1 == l) = false := by simpa using hx
        simp only [h1, h2]; exact ih
  have hrev : (labels.map fun (x : String × Nat) => (ρ x.1, x.2)).reverse = (labels.reverse.map fun (x : String × Nat) => (ρ x.1, x.2)) := by
    simp [List.map_reverse]
  have hmap : (labels.map fun (x : String × Nat) => match x with | (n, k) => (ρ n, k)) = (labels.map fun (x : String × Nat) => (ρ x.1, x.2)) := by
    apply List.map_congr_left; intro x _; rfl
  rw [hmap, hrev, this]
  cases labels.reverse.find? (fun x => x.1 == l) <;> simp

example : intPush (some [0, 1, 1000]) (.intc 2) = some (some (.lit 1000)) := by decide

end Tealer.C15
