/-
  C02 — Every reported path is a genuine, unvalidated accepting path.
-/
import TealerModel.Props.TieSearch
import TealerModel.Lemmas.Dfs
namespace Tealer.C02

/-- every path the search returns is the current path extended by a matched walk of the global graph (retsub resumes
    at the return point of its own callsub), ending in a leaf, revisiting no block within one activation,
    entering no subroutine recursively, and containing no validated block -/
theorem C02_valid (g : DGraph) (fuel bb : Nat) (path : List Nat) (cs : List Frame) (exe ps : List (List Nat))
    (h : searchPaths g fuel bb path cs exe = some ps) :
    ∀ π ∈ ps, ∃ rest, π = path ++ bb :: rest ∧ Dfs.Walk g cs exe bb rest :=
  Dfs.searchPaths_valid g fuel bb path cs exe ps h

/-- for a whole detector run: every reported path starts at the entry, ends in a leaf, has no validated block -/
theorem C02_detector (g : DGraph) (fuel entry : Nat) (main : String) (ps : List (List Nat))
    (h : searchPaths g fuel entry [] [(none, main)] [[]] = some ps) (π : List Nat) (hπ : π ∈ ps) :
    ∃ rest, π = entry :: rest ∧ (∀ x ∈ π, g.validated x = false) ∧
      g.isLeaf ((entry :: rest).getLast (by simp)) = true := by
  obtain ⟨rest, hπe, hw⟩ := Dfs.searchPaths_valid g fuel entry [] _ _ ps h π hπ
  refine ⟨rest, by simpa using hπe, ?_, Dfs.walk_ends_in_leaf g _ _ _ _ hw⟩
  intro x hx
  have : x ∈ entry :: rest := by simpa [hπe] using hx
  exact Dfs.walk_unvalidated g _ _ _ _ hw x this

/-- NO PATH IS REPORTED TWICE (when no successor list names a block twice — the fourth pass never adds an edge twice; the
    driver evaluates this premise on every program) -/
theorem C02_no_duplicates (g : DGraph) (hg : ∀ b, (g.next b).Nodup) (fuel entry : Nat) (main : String)
    (ps : List (List Nat)) (h : searchPaths g fuel entry [] [(none, main)] [[]] = some ps) : ps.Nodup :=
  Dfs.searchPaths_nodup g hg fuel entry [] _ _ ps h

/-- the short notation `'0 -> 2 -> 5'` determines the block sequence -/
def shortNotation (p : List Nat) : String := " -> ".intercalate (p.map toString)

example : shortNotation [0, 2, 5] = "0 -> 2 -> 5" := by decide

/-- THE SEARCH IS THE PYTHON'S.  `search_paths` (the nested function of detect_missing_tx_field_validations: loop cut per
    activation, validated blocks, leaves and the report condition, the recursion cut, call / return handling, successor
    order), translated statement by statement from /repo's Python on this run - with the shared result list threaded through -
    computes exactly what the model `searchPaths` computes, for every fuel, start block, path prefix, call stack and visited
    lists: the reported paths are the ones already in the list followed by the model's paths that satisfy the report condition,
    in the same order, and it raises exactly when the model does.  (On graphs whose call sites resolve; in the graph a detector
    searches a call site is never a `retsub` block and always names its subroutine: `TieS.mkDGraph_calls`.) -/
theorem C02_tie_search (g : DGraph) (hg : TieS.CallsOK g) (sat : List Nat → Bool) (fuel bb : Nat) (path : List Nat)
    (acc : List (List Nat)) (cs : List (Option Nat × String)) (exe : List (List Nat)) :
    Generated.searchPaths (TieS.graphOf g) sat fuel bb path acc cs exe =
      (searchPaths g fuel bb path cs exe).map (fun ps => acc ++ ps.filter sat) :=
  TieS.search_tie g hg sat fuel bb path acc cs exe

