/-
  C18 — Exported graphs and reports denote exactly the internal results.
  Decision logic of the JSON envelope and of --filter-paths stated outright on a small model of
  tealer/utils/output.py and tealer/__main__.py handle_output; the DOT / JSON files themselves are parsed back
  and compared with the internal results on every run (harness/clichecks.py).
-/
import TealerModel.Props.C02
import TealerModel.Lemmas.NumList
namespace Tealer.C18

structure PathJson where
  short : String
  blocks : List (List String)

structure DetectorJson where
  count : Nat
  paths : List PathJson

/-- ExecutionPaths.to_json, given the rendering of a block's instructions -/
def toJson (render : Nat → List String) (paths : List (List Nat)) : DetectorJson :=
  { count := paths.length,
    paths := paths.map fun p => { short := C02.shortNotation p, blocks := p.map render } }

/-- `count` equals the number of listed paths, and each listed path has one instruction list per block of the path
    (a block that occurs twice on a path is listed twice) -/
theorem C18_count (render : Nat → List String) (paths : List (List Nat)) :
    (toJson render paths).count = (toJson render paths).paths.length ∧
    ∀ i (h : i < paths.length), (((toJson render paths).paths[i]'(by simp [toJson, h])).blocks.length = (paths[i]).length) := by
  constructor
  · simp [toJson]
  · intro i h; simp [toJson]

/-- handle_output: `success` is true exactly when no error occurred (repaired in /repo, known_findings F10) -/
def success (error : Option String) : Bool := error.isNone

theorem C18_success (error : Option String) : success error = true ↔ error = none := by
  cases error <;> simp [success]

/-- ExecutionPaths.filter_paths, parametric in the regular-expression matcher (Python's re.search is external) -/
def filterPaths (matches_ : String → Bool) (paths : List (List Nat)) : List (List Nat) :=
  paths.filter fun p => !matches_ (C02.shortNotation p)

/-- the filter removes exactly the paths whose short notation matches, keeps the others in order -/
theorem C18_filter (m : String → Bool) (paths : List (List Nat)) (p : List Nat) :
    p ∈ filterPaths m paths ↔ p ∈ paths ∧ m (C02.shortNotation p) = false := by
  simp [filterPaths]

theorem C18_filter_sublist (m : String → Bool) (paths : List (List Nat)) : (filterPaths m paths).Sublist paths := by
  simp [filterPaths]

/-- path DOT files: a block is marked iff its id is the id of a block of the path (repaired in /repo, F12) -/
def marked (path : List Nat) (blockIdx : Nat) : Bool := path.contains blockIdx

theorem C18_marks (path : List Nat) (b : Nat) : marked path b = true ↔ b ∈ path := by simp [marked]

example : (toJson (fun _ => []) [[0, 1], [0, 2]]).count = 2 := by decide

/-- BLOCK ANNOTATIONS SHOW THE COMPUTED CONTEXTS: the short notation in which the transaction-context printer writes a block's group
    indices / sizes (`_repr_num_list`: runs of four or more consecutive numbers as `a..b`) denotes exactly the list that was printed,
    for every list of numbers - whatever the runs, including a run that starts at 0.  (The model `NumList.repr` is compared with the
    real `_repr_num_list` on ALL 131072 subsets of 0..16 - every value a context can have - on every run.) -/
theorem C18_annotation_denotes (l : List Nat) : NumList.denote (NumList.toks l) = l := NumList.denote_toks l

example : NumList.repr [0, 2, 3, 4, 5, 9] = "0 2..5 9" ∧ NumList.denote (NumList.toks [0, 2, 3, 4, 5, 9]) = [0, 2, 3, 4, 5, 9] := by decide +kernel

end Tealer.C18
