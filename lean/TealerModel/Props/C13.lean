/-
  C13 — Group-configuration verdicts follow the group semantics.
  Decision logic of detect_missing_tx_field_validations_group_complete stated outright on a small model, and the offset
  inversion of fill_group_relative_indexes.  The verdicts themselves are compared on every run with concrete groups
  executed by the Lean AVM semantics (harness/groupcheck.py).
-/
import TealerModel.Detect
namespace Tealer.C13

/-- configured offsets of one transaction: (offset, other transaction) -/
abbrev Offsets := List (Int × Nat)

/-- fill_group_relative_indexes: table[other] = list of (transaction, offset) with transaction.relative_indexes[offset] = other -/
def fillRelative (txns : List (Nat × Offsets)) (other : Nat) : List (Nat × Int) :=
  txns.flatMap fun (t, offs) => offs.filterMap fun (k, o) => if o == other then some (t, k) else none

/-- the offset table is exactly the inverse of the configured offsets -/
theorem C13_fill_inverse (txns : List (Nat × Offsets)) (other t : Nat) (k : Int) :
    (t, k) ∈ fillRelative txns other ↔ ∃ offs, (t, offs) ∈ txns ∧ (k, other) ∈ offs := by
  simp only [fillRelative, List.mem_flatMap, List.mem_filterMap]
  constructor
  · rintro ⟨⟨t', offs⟩, hm, ⟨k', o⟩, hko, h⟩
    simp only [] at h
    split at h
    · rename_i heq
      simp only [Option.some.injEq, Prod.mk.injEq] at h
      obtain ⟨rfl, rfl⟩ := h
      have : o = other := by simpa using heq
      subst this
      exact ⟨offs, hm, hko⟩
    · cases h
  · rintro ⟨offs, hm, hko⟩
    exact ⟨(t, offs), hm, (k, other), hko, by simp⟩

/-- what the verdict loop looks at for one eligible transaction -/
structure Checks where
  ownLogicSig : Option Bool          -- contract_checks_its_field(logic_sig), when there is one
  ownApplication : Option Bool
  absoluteIndex : Option Nat
  othersAbsolute : List Bool         -- contract_checks_txn_at_absolute_index for the other members' contracts
  othersRelative : List Bool         -- contract_checks_using_relative_index along the configured offsets

/-- detect_missing_tx_field_validations_group_complete for one eligible transaction: vulnerable unless cleared -/
def vulnerable (c : Checks) : Bool :=
  !(c.ownLogicSig == some true) && !(c.ownApplication == some true) &&
  !(c.absoluteIndex.isSome && c.othersAbsolute.any id) && !(c.othersRelative.any id)

/-- a transaction is cleared exactly when its own logic-sig or application, or another member through the configured
    absolute index or offset, excludes the value at every accepting exit -/
theorem C13_cleared_iff (c : Checks) :
    vulnerable c = false ↔
      c.ownLogicSig = some true ∨ c.ownApplication = some true ∨
      (c.absoluteIndex.isSome = true ∧ ∃ b ∈ c.othersAbsolute, b = true) ∨ (∃ b ∈ c.othersRelative, b = true) := by
  unfold vulnerable
  cases h1 : c.ownLogicSig == some true <;> cases h2 : c.ownApplication == some true <;>
    cases h3 : c.absoluteIndex.isSome <;> cases h4 : c.othersAbsolute.any id <;> cases h5 : c.othersRelative.any id <;>
    simp_all [List.any_eq_true]

/-- leaf criterion: a contract "checks the field" iff every leaf block of the function is validated -/
def contractChecks (leaves : List BlockCtx) (chk : Ctx → Bool) (absoluteIndex : Option Nat) : Bool :=
  leaves.all fun c => validatedInBlock chk c absoluteIndex

theorem C13_contract_checks (leaves : List BlockCtx) (chk : Ctx → Bool) (i : Option Nat) :
    contractChecks leaves chk i = false ↔ ∃ c ∈ leaves, validatedInBlock chk c i = false := by
  simp [contractChecks]

example : vulnerable { ownLogicSig := some false, ownApplication := none, absoluteIndex := some 0, othersAbsolute := [true], othersRelative := [] } = false := by decide

end Tealer.C13
