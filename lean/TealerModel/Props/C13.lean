/-
  C13 — Group-configuration verdicts follow the group semantics.
  Decision logic of detect_missing_tx_field_validations_group_complete stated outright on a small model, and the offset
  inversion of fill_group_relative_indexes.  The verdicts themselves are compared on every run with concrete groups
  executed by the Lean AVM semantics (harness/groupcheck.py).
-/
import TealerModel.Group
import TealerModel.Props.TieGroup
namespace Tealer.C13
open Tealer.Group

/-- the offset table is exactly the inverse of the configured offsets -/
theorem C13_fill_inverse (txns : List (Nat × Offsets)) (other t : Nat) (k : Int) :
    (t, k) ∈ fillRelative txns other ↔ ∃ offs, (t, offs) ∈ txns ∧ (k, other) ∈ offs := by
  simp only [fillRelative, List.mem_flatMap, List.mem_filterMap]
  constructor
  · rintro ⟨⟨t', offs⟩, hm, ⟨k', o⟩, hko, h⟩
    simp only [] at h
    split at h
    · rename_i heq
      simp only [Option.some.injEq, Prod.mk.injEq] at h
      obtain ⟨rfl, rfl⟩ := h
      have : o = other := by simpa using heq
      subst this
      exact ⟨offs, hm, hko⟩
    · cases h
  · rintro ⟨offs, hm, hko⟩
    exact ⟨(t, offs), hm, (k, other), hko, by simp⟩

/-- a transaction is cleared exactly when its own logic-sig or application, or another member through the configured
    absolute index or offset, excludes the value at every accepting exit -/
theorem C13_cleared_iff (c : Checks) :
    vulnerable c = false ↔
      c.ownLogicSig = some true ∨ c.ownApplication = some true ∨
      (c.absoluteIndex.isSome = true ∧ ∃ b ∈ c.othersAbsolute, b = true) ∨ (∃ b ∈ c.othersRelative, b = true) := by
  unfold vulnerable
  cases h1 : c.ownLogicSig == some true <;> cases h2 : c.ownApplication == some true <;>
    cases h3 : c.absoluteIndex.isSome <;> cases h4 : c.othersAbsolute.any id <;> cases h5 : c.othersRelative.any id <;>
    simp_all [List.any_eq_true]

theorem C13_contract_checks (leaves : List BlockCtx) (chk : Ctx → Bool) (i : Option Nat) :
    contractChecks leaves chk i = false ↔ ∃ c ∈ leaves, validatedInBlock chk c i = false := by
  simp [contractChecks]

example : vulnerable { ownLogicSig := some false, ownApplication := none, absoluteIndex := some 0, othersAbsolute := [true], othersRelative := [] } = false := by decide

/-- the loop reports exactly the eligible members that nothing clears -/
theorem C13_group_verdict_iff (det : DetType) (a : Answers) (txns : List GTxn) (i : Nat) :
    i ∈ groupVerdict det a txns ↔ ∃ t ∈ txns, t.id = i ∧ eligible det t = true ∧ cleared a txns t = false := by
  simp only [groupVerdict, List.mem_map, List.mem_filter, Bool.and_eq_true, Bool.not_eq_true']
  constructor
  · rintro ⟨t, ⟨hm, he, hc⟩, rfl⟩; exact ⟨t, hm, rfl, he, hc⟩
  · rintro ⟨t, hm, rfl, he, hc⟩; exact ⟨t, ⟨hm, he, hc⟩, rfl⟩

theorem find_id_of_mem {txns : List GTxn} (hn : (txns.map (·.id)).Nodup) {o : GTxn} (ho : o ∈ txns) :
    txns.find? (·.id == o.id) = some o := by
  induction txns with
  | nil => cases ho
  | cons x xs ih =>
    simp only [List.map_cons, List.nodup_cons, List.mem_map, not_exists, not_and] at hn
    rcases List.mem_cons.mp ho with rfl | h
    · simp [List.find?]
    · have hne : (x.id == o.id) = false := by
        have := hn.1 o h
        simp only [beq_eq_false_iff_ne, ne_eq]
        exact fun e => this e.symm
      simp only [List.find?, hne]
      exact ih hn.2 h

/-- with distinct transaction ids, a member is cleared exactly when: one of its own contracts excludes the value at every
    accepting exit; or it has a configured absolute index and a contract of some member excludes the value for that index;
    or some member configured an offset to it and a contract of that member excludes the value through that offset -/
theorem C13_cleared_spec (a : Answers) (txns : List GTxn) (t : GTxn) (hn : (txns.map (·.id)).Nodup) :
    cleared a txns t = true ↔
      anyContract t (a.own t.id) = true ∨
      (∃ i, t.absIndex = some i ∧ ∃ o ∈ txns, anyContract o (fun app => a.atAbs o.id app i) = true) ∨
      (∃ o ∈ txns, ∃ k, (k, t.id) ∈ o.offsets ∧ anyContract o (fun app => a.atRel o.id app k) = true) := by
  have hrel : clearedRel a txns t = true ↔
      ∃ o ∈ txns, ∃ k, (k, t.id) ∈ o.offsets ∧ anyContract o (fun app => a.atRel o.id app k) = true := by
    simp only [clearedRel, List.any_eq_true]
    constructor
    · rintro ⟨⟨oid, k⟩, hm, h⟩
      obtain ⟨offs, hmo, hk⟩ := (C13_fill_inverse _ _ _ _).mp hm
      obtain ⟨o, ho, heq⟩ := List.mem_map.mp hmo
      simp only [Prod.mk.injEq] at heq
      obtain ⟨rfl, rfl⟩ := heq
      simp only [find_id_of_mem hn ho] at h
      exact ⟨o, ho, k, hk, h⟩
    · rintro ⟨o, ho, k, hk, h⟩
      refine ⟨(o.id, k), (C13_fill_inverse _ _ _ _).mpr ⟨o.offsets, List.mem_map.mpr ⟨o, ho, rfl⟩, hk⟩, ?_⟩
      simp only [find_id_of_mem hn ho]
      exact h
  have habs : clearedAbs a txns t = true ↔
      ∃ i, t.absIndex = some i ∧ ∃ o ∈ txns, anyContract o (fun app => a.atAbs o.id app i) = true := by
    unfold clearedAbs
    cases h : t.absIndex with
    | none => simp
    | some i => simp [List.any_eq_true]
  simp only [cleared, clearedOwn, Bool.or_eq_true, habs, hrel, or_assoc]

/-- premises satisfiable / behaviour on a concrete group: T2 (id 2) is reached by T0 through offset +2 and cleared, whatever
    the bystander T1 (offset +1, no check) says and wherever it is listed; T2 declares a logic-sig without a contract -/
example :
    let a : Answers := { own := fun _ _ => false, atAbs := fun _ _ _ => false, atRel := fun o _ k => o == 0 && k == 2 }
    let t0 : GTxn := ⟨0, true, true, false, true, none, [(2, 2)]⟩
    let t1 : GTxn := ⟨1, true, true, false, true, none, [(1, 2)]⟩
    let t2 : GTxn := ⟨2, true, false, false, true, some 0, []⟩
    groupVerdict .stateless a [t0, t1, t2] = [0, 1] ∧ groupVerdict .stateless a [t1, t0, t2] = [1, 0] := by decide

/-- THE VERDICT LOOP IS THE PYTHON'S.  The body of `for group_txn in tealer.groups:` in
    `detect_missing_tx_field_validations_group_complete` (eligibility by detector type, declared logic-sig, application and transaction
    type; cleared by an own contract, by some member through the configured absolute index, by some member through its configured
    offset - every `continue` and `break`), translated statement by statement from /repo's Python on this run
    (Generated/GroupLoop.lean), reports exactly `Group.groupVerdict` - the function `C13_group_verdict_iff` and `C13_cleared_spec`
    characterise - and outputs the group exactly when that list is not empty.  The three contract-level questions stay parameters
    (`Answers`); `relItemsOf` is the table `fill_group_relative_indexes` builds (`C13_fill_inverse`). -/
theorem C13_tie_verdict_loop (det : Group.DetType) (a : Group.Answers) (txns : List Group.GTxn) :
    Generated.groupComplete det a (TieG.relItemsOf txns) txns =
      (!(Group.groupVerdict det a txns).isEmpty, Group.groupVerdict det a txns) :=
  TieG.group_tie det a txns

end Tealer.C13
