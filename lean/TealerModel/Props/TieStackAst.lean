/-
  Tie between the hand-written model of the stack AST (Ast.constructAst: operand REFERENCES (producer position, output index) per
  instruction - the object C11's value-simulation theorems are about) and `construct_stack_ast` with the `Stack` class,
  REGENERATED from /repo's Python on every run (Generated/StackAst.lean).  The Python builds trees of KnownStackValue objects; the
  theorem says that the tree it stores for instruction `p` is exactly the tree `full` unfolds from the model's references.
-/
import TealerModel.Generated.StackAst
import TealerModel.Props.TieAsserted
set_option linter.unusedSimpArgs false
set_option linter.unusedVariables false
namespace Tealer.TieS
open PyView TieM TieF TieA OperandValues

/-- what construct_stack_ast reads of the block's instructions (`stack_pop_size` / `stack_push_size` are the model's `pops` /
    `pushes`, compared with the real classes row by row in C11_effects_table) -/
def insInfos (ins : List Ins) (start : Nat := 0) : List PyInsInfo :=
  (ins.zipIdx start).map fun (i, p) => { pos := p, op := i.op, text := i.text, pops := i.op.pops, pushes := i.op.pushes }

/-- `Stack.pop_n_values` = the model's `popN`, on stacks of trees that are images of reference stacks -/
theorem popN_tie (F : Ref → PySV) (hF : F none = .unknown) (st : List Ref) (k : Nat) :
    Generated.popNValues (st.map F) k = (((popN st k).1).map F, ((popN st k).2).map F) := by
  unfold Generated.popNValues popN
  simp only [Id.run, List.length_map]
  by_cases hk0 : k = 0
  · subst hk0
    simp
    rfl
  · by_cases hle : k ≤ st.length
    · simp [hk0, hle, sliceLast, sliceButLast, List.map_drop, List.map_take]
      rfl
    · have : ¬ st.length ≥ k := by omega
      simp [hk0, hle, this, hF]
      rfl

theorem pushN_tie (a b : List PySV) : Generated.pushNValues a b = a ++ b := rfl

/-- the inner loop `for i in range(push): ins_out_values.append(KnownStackValue(ins, ins_in_values, i))` -/
theorem out_loop_list {α : Type} (v : PySV) (l : List α) (acc : List PySV) :
    (forIn (m := Id) l acc fun _ r => pure (ForInStep.yield (r ++ [v]))) = pure (acc ++ List.replicate l.length v) := by
  induction l generalizing acc with
  | nil => simp
  | cons x xs ih =>
    simp only [List.forIn_cons, pure_bind, ih, List.length_cons, List.replicate_succ]
    simp

theorem out_loop (v : PySV) (n : Nat) (acc : List PySV) :
    (forIn (m := Id) (List.range n) acc fun _ r => pure (ForInStep.yield (r ++ [v]))) = pure (acc ++ List.replicate n v) := by
  rw [out_loop_list, List.length_range]

theorem full_const (a : Ast) (hB : Backward a) (p j : Nat) : full a (some (p, j)) = full a (some (p, 0)) := by
  rw [full_unfold a hB, full_unfold a hB]

/-- the loop of construct_stack_ast, from any prefix of the block: invariant `stack = refs mapped to trees`, `dict = trees of the
    instructions so far` -/
theorem construct_loop (ins : List Ins) :
    ∀ (suf pre : List Ins), ins = pre ++ suf →
      forIn (m := Id) (insInfos suf pre.length)
          (((symRun ins pre.length).map (full (constructAst ins)), (List.range pre.length).map (fun p => full (constructAst ins) (some (p, 0)))) :
            List PySV × List PySV)
          (fun ins_ r =>
            (fun a => ForInStep.yield
                (Generated.pushNValues (Generated.popNValues r.fst ins_.pops).snd a,
                 r.snd ++ [PySV.known ins_.pos ins_.op ins_.text (Generated.popNValues r.fst ins_.pops).fst])) <$>
              forIn (m := Id) (List.range ins_.pushes) ([] : List PySV) fun _ o =>
                pure (ForInStep.yield (o ++ [PySV.known ins_.pos ins_.op ins_.text (Generated.popNValues r.fst ins_.pops).fst]))) =
        pure ((symRun ins ins.length).map (full (constructAst ins)), (List.range ins.length).map (fun p => full (constructAst ins) (some (p, 0)))) := by
  intro suf
  induction suf with
  | nil => intro pre h; subst h; simp [insInfos]
  | cons i suf ih =>
    intro pre h
    have hB := backward_constructAst ins
    have hget : ins[pre.length]! = i := by subst h; simp
    have hlt : pre.length < ins.length := by subst h; simp
    simp only [insInfos, List.zipIdx_cons, List.map_cons, List.forIn_cons]
    rw [popN_tie (full (constructAst ins)) rfl, out_loop]
    simp only [map_pure, pure_bind, List.nil_append, pushN_tie]
    have := ih (pre ++ [i]) (by subst h; simp)
    simp only [List.length_append, List.length_cons, List.length_nil, Nat.zero_add, insInfos] at this
    rw [← this]
    congr 1
    -- the new dictionary entry and the new stack
    have hargs : (constructAst ins).argsOf pre.length = (popN (symRun ins pre.length) i.op.pops).1 := by
      rw [EvalRun.argsOf_constructAst ins _ hlt]
      simp [argsAt, astStep, hget]
    have hop : (constructAst ins).opOf pre.length = i.op := by
      rw [EvalRun.opOf_constructAst ins _ hlt, hget]
    have htext : (constructAst ins).textOf pre.length = i.text := by
      simp [Ast.textOf, constructAst]
      have : ins[pre.length]? = some i := by subst h; simp
      simp [this]
    have hnode : ∀ j, full (constructAst ins) (some (pre.length, j)) =
        PySV.known pre.length i.op i.text (((popN (symRun ins pre.length) i.op.pops).1).map (full (constructAst ins))) := by
      intro j
      rw [full_unfold _ hB, hop, htext, hargs]
    congr 1
    swap
    · simp [List.range_succ, hnode]
    · simp only [symRun, hget, astStep, List.map_append, List.map_map]
      congr 1
      have hm : (List.range i.op.pushes).map (full (constructAst ins) ∘ fun j => some (pre.length, j)) =
          (List.range i.op.pushes).map (fun _ => PySV.known pre.length i.op i.text (((popN (symRun ins pre.length) i.op.pops).1).map (full (constructAst ins)))) :=
        List.map_congr_left (fun j _ => hnode j)
      rw [hm]
      simp [List.map_const']

/-- `construct_stack_ast` IS THE MODEL'S: for every block, the stack value the Python stores for instruction `p` is the tree of
    the model's operand references (`full`), i.e. `treeOf (constructAst ins) n (some (p, 0))` for every depth n > p -/
theorem construct_tie (ins : List Ins) :
    Generated.constructStackAst (insInfos ins) = (List.range ins.length).map fun p => full (constructAst ins) (some (p, 0)) := by
  unfold Generated.constructStackAst
  have h := construct_loop ins ins [] rfl
  simp only [List.length_nil, List.range_zero, List.map_nil, symRun] at h
  simp only [Id.run, bind_pure_comp]
  rw [h]
  rfl

end Tealer.TieS
