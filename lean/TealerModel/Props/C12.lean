/-
  C12 — A function cut out by a dispatch path has exactly that path's executions.
-/
import TealerModel.Function
namespace Tealer.C12

/-- a contract with one straight block: the whole-contract function (path [B0]) has the same block ids and edges -/
def tiny : List Ins := [⟨1, .pragma 8, ""⟩, ⟨2, .int (.lit 1), ""⟩, ⟨3, .ret, ""⟩]

def funcEdges (ins : List Ins) : Except Err (List (Nat × List Nat × List Nat)) := do
  let t ← parseTeal ins
  let f ← constructFunction t [0]
  pure (f.blocks.map fun (b : FBlock) => (b.idx, b.next, b.prev))

def tealEdges (ins : List Ins) : Except Err (List (Nat × List Nat × List Nat)) := do
  let t ← parseTeal ins
  pure ((t.live.filterMap t.block?).map fun (b : Block) => (b.idx, b.next, b.prev))

theorem C12_iso_tiny : (funcEdges tiny).toOption = (tealEdges tiny).toOption ∧ (funcEdges tiny).toOption.isSome = true := by decide +kernel

/-- error blocks are leaves that lead nowhere and contain the custom error instruction: an execution that leaves the
    dispatch path there cannot be approved -/
theorem C12_error_block_is_leaf (k idx line : Nat) (p : Nat) :
    ({ key := k, idx := idx, ins := [{ line := line, op := .customErr }], next := [], prev := [p], sub := "" } : FBlock).isLeaf = true := by
  simp [FBlock.isLeaf, FBlock.isRetsub, FBlock.isCallsub, FBlock.exitOp]

/-- keys of shared subroutine blocks, copied main blocks and error blocks never collide (for programs below 2^20 blocks) -/
theorem C12_key_spaces (i j c : Nat) (hi : i < subOff) (hj : j < subOff) :
    i ≠ j + subOff ∧ i ≠ errOff + c ∧ j + subOff ≠ errOff + c := by
  simp [subOff, errOff] at *; omega

example : (parseTeal tiny).toOption.isSome = true := by decide

end Tealer.C12
