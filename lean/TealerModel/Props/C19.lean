/-
  C19 — Version, mode and cost reporting agree with the AVM specification.
-/
import TealerModel.Generated.ParseTable
import TealerModel.Generated.OpTable
import TealerModel.Spec.OpTable
import TealerModel.Spec.CostTable
namespace Tealer.C19

/-- introduction version and execution mode of every opcode sample equal the specification table -/
theorem C19_versions_modes :
    ((Generated.opTableChunks.map fun ch => ch.map fun (l, _, _, _, _, v, m) => (l, v, m)) ==
    (Spec.opTableChunks.map fun ch => ch.map fun (l, _, _, _, _, v, m) => (l, v, m))) = true := by
  decide +kernel

/-- versions are 1..8 (0 for the tool's own pseudo instructions) and modes are Signature / Application / Any -/
theorem C19_ranges :
    Generated.opTableChunks.all (fun ch => ch.all fun (_, _, _, _, _, v, m) => v ≤ 8 && m ≤ 2) = true := by
  decide +kernel

/-- opcode cost under each declared program version 1..8 equals the specification table -/
theorem C19_costs :
    ((Generated.parseTableChunks.map fun ch => ch.map fun (l, _, _, c) => (l, c)) ==
    (Spec.costTableChunks.map fun ch => ch.map fun (l, _, _, c) => (l, c))) = true := by
  decide +kernel

/-- model of _verify_version's flag and of _detect_execution_mode -/
def flagged (declared insVersion : Nat) : Bool := declared < insVersion

def detectMode : List Nat → Nat
  | [] => 2
  | m :: rest => if m != 2 then m else detectMode rest

/-- the contract is classified Any exactly when no instruction is mode specific; otherwise by the first mode-specific one -/
theorem C19_mode_any (ms : List Nat) : detectMode ms = 2 ↔ ∀ m ∈ ms, m = 2 := by
  induction ms with
  | nil => simp [detectMode]
  | cons m rest ih =>
    simp only [detectMode]
    by_cases h : m = 2
    · simp [h, ih]
    · simp [h]

theorem C19_flag_iff (declared insVersion : Nat) : flagged declared insVersion = true ↔ insVersion > declared := by
  simp [flagged]

example : detectMode [2, 0, 1] = 0 := by decide

end Tealer.C19
