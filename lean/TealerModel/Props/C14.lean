/-
  C14 — Results depend on the input only: no history, order or hash-seed effects.
  The model is a pure function of the program (no global state by construction).  Proved here: whatever the initial
  order of the worklist (any list that contains every block — the order a Python `set` iteration happens to give), when
  the loop stops its result solves the equations; detectors receive the contexts read-only and the path order is a
  function of the successor lists only.  Partial by nature: Python's hash seeds, `id()`-ordered sets, `lru_cache`s and
  module-level lists are runtime behaviour the pure model cannot exhibit; they are explored on every run
  (harness/metachecks.py: histories, detector orders, PYTHONHASHSEED values, byte-identical JSON).
-/
import TealerModel.Lemmas.Worklist
import TealerModel.Detect
import TealerModel.Lemmas.Confluence
import TealerModel.Lemmas.Fee
namespace Tealer.C14

variable {V : Type} [DecidableEq V]

/-- any initial worklist order: if every block is queued initially, the result (when the loop stops) is a solution -/
theorem C14_any_initial_order (F : List (Nat × V) → Nat → V) (deps inputs : Nat → List Nat) (dflt : V)
    (hloc : ∀ cur cur' b, (∀ i ∈ inputs b, getMap cur i dflt = getMap cur' i dflt) → F cur b = F cur' b)
    (hdeps : ∀ b i, i ∈ inputs b → b ∈ deps i)
    (fuel : Nat) (init : List (Nat × V)) (wl : List Nat)
    (hall : ∀ b, b ∉ wl → getMap init b dflt = F init b)
    (r : List (Nat × V)) (hr : worklistRun F deps dflt fuel init wl = some r) :
    ∀ b, getMap r b dflt = F r b :=
  Worklist.worklistRun_solution F deps inputs dflt hloc hdeps fuel init wl hall r hr

omit [DecidableEq V] in
/-- two permutations of the same initial worklist satisfy the same precondition -/
theorem C14_perm_precondition (F : List (Nat × V) → Nat → V) (dflt : V) (init : List (Nat × V)) (wl wl' : List Nat)
    (hp : ∀ b, b ∈ wl ↔ b ∈ wl') (h : ∀ b, b ∉ wl → getMap init b dflt = F init b) :
    ∀ b, b ∉ wl' → getMap init b dflt = F init b := by
  intro b hb; exact h b (fun hm => hb ((hp b).mp hm))

/-- a detector run is a function of (function graph, contexts, detector): running one detector cannot change what
    another reads — in the model the contexts are an immutable argument -/
theorem C14_detector_pure (f : Function) (c : Contexts) (d d' : Detector) (fuel : Nat) :
    (detect f c d fuel, detect f c d' fuel) = (detect f c d fuel, (fun _ => detect f c d' fuel) (detect f c d fuel)) := rfl

/-- set inclusion on the list representation of the integer / transaction-kind sets -/
def subsetLe (a b : NatSet) : Prop := ∀ x ∈ a, x ∈ b

theorem natSet_mono (A : Analysis NatSet) (hd : A.dom = natSetDomain) : Confluence.MonoLaws A subsetLe := by
  refine ⟨fun a x hx => hx, ?_, ?_, ?_⟩
  · intro a a' b b' h1 h2 x hx
    rw [hd] at hx ⊢
    simp only [natSetDomain] at hx ⊢
    rcases (OSet.mem_union x a b).mp hx with h | h
    · exact (OSet.mem_union x a' b').mpr (Or.inl (h1 x h))
    · exact (OSet.mem_union x a' b').mpr (Or.inr (h2 x h))
  · intro a a' b b' h1 h2 x hx
    rw [hd] at hx ⊢
    simp only [natSetDomain] at hx ⊢
    obtain ⟨ha, hb⟩ := (OSet.mem_inter x a b).mp hx
    exact (OSet.mem_inter x a' b').mpr ⟨h1 x ha, h2 x hb⟩
  · intro a x hx
    rw [hd] at hx
    simp [natSetDomain] at hx

/-- THE WORKLIST REACHES A UNIQUE FIXPOINT, WHATEVER THE ORDER A SET ITERATION GIVES.  Forward pass of the group-size /
    group-index analysis (the same proof applies to the transaction-kind analysis: same domain): on a function graph whose
    predecessor lists are mirrored by successor lists, whose return points know their call sites and whose successors are
    blocks of the function, two runs started from ANY two initial worklists that contain every block have, when both
    stop, the same members in every block's set.  (The premises are the decidable conditions of `Solver.fwdWF`, which the
    driver evaluates per program; they fail exactly on the F04 shape — where the hash-seed dependence F25 was observed.) -/
theorem C14_forward_order_independent (g : Graph) (univ : NatSet) (bc : Nat → NatSet) (pc : Nat → Nat → NatSet)
    (hmirror : ∀ b ∈ g.keys, ∀ p ∈ g.prevG b, b ∈ g.nextG p)
    (hret : ∀ b ∈ g.keys, ∀ c, g.callsubOf b = some c → g.retPointOf c = some b)
    (hclosed : ∀ b ∈ g.keys, ∀ d ∈ fwdDeps g b, d ∈ g.keys)
    (wl1 wl2 : List Nat) (h1 : ∀ b ∈ wl1, b ∈ g.keys) (h2 : ∀ b ∈ wl2, b ∈ g.keys)
    (c1 : ∀ b ∈ g.keys, b ∈ wl1) (c2 : ∀ b ∈ g.keys, b ∈ wl2)
    (f1 f2 : Nat) (r1 r2 : List (Nat × NatSet))
    (hr1 : worklistRun (fwdF groupIndicesAnalysis g univ bc pc) (fwdDeps g) groupIndicesAnalysis.dom.null f1
      (g.keys.map fun k => (k, groupIndicesAnalysis.dom.null)) wl1 = some r1)
    (hr2 : worklistRun (fwdF groupIndicesAnalysis g univ bc pc) (fwdDeps g) groupIndicesAnalysis.dom.null f2
      (g.keys.map fun k => (k, groupIndicesAnalysis.dom.null)) wl2 = some r2) :
    ∀ k x, x ∈ getMap r1 k groupIndicesAnalysis.dom.null ↔ x ∈ getMap r2 k groupIndicesAnalysis.dom.null := by
  have := Confluence.solveFwd_confluent groupIndicesAnalysis subsetLe (natSet_mono groupIndicesAnalysis rfl) g univ bc pc
    hmirror hret hclosed wl1 wl2 h1 h2 c1 c2 f1 f2 r1 r2 hr1 hr2
  intro k x
  exact ⟨(this k).1 x, (this k).2 x⟩

/-- the generic statement: any analysis whose domain operations are monotone for some order -/
theorem C14_forward_order_independent_generic {D : Type} [DecidableEq D] (A : Analysis D) (le : D → D → Prop)
    (M : Confluence.MonoLaws A le) (g : Graph) (univ : D) (bc : Nat → D) (pc : Nat → Nat → D)
    (hmirror : ∀ b ∈ g.keys, ∀ p ∈ g.prevG b, b ∈ g.nextG p)
    (hret : ∀ b ∈ g.keys, ∀ c, g.callsubOf b = some c → g.retPointOf c = some b)
    (hclosed : ∀ b ∈ g.keys, ∀ d ∈ fwdDeps g b, d ∈ g.keys)
    (wl1 wl2 : List Nat) (h1 : ∀ b ∈ wl1, b ∈ g.keys) (h2 : ∀ b ∈ wl2, b ∈ g.keys)
    (c1 : ∀ b ∈ g.keys, b ∈ wl1) (c2 : ∀ b ∈ g.keys, b ∈ wl2)
    (f1 f2 : Nat) (r1 r2 : List (Nat × D))
    (hr1 : worklistRun (fwdF A g univ bc pc) (fwdDeps g) A.dom.null f1 (g.keys.map fun k => (k, A.dom.null)) wl1 = some r1)
    (hr2 : worklistRun (fwdF A g univ bc pc) (fwdDeps g) A.dom.null f2 (g.keys.map fun k => (k, A.dom.null)) wl2 = some r2) :
    ∀ k, le (getMap r1 k A.dom.null) (getMap r2 k A.dom.null) ∧ le (getMap r2 k A.dom.null) (getMap r1 k A.dom.null) :=
  Confluence.solveFwd_confluent A le M g univ bc pc hmirror hret hclosed wl1 wl2 h1 h2 c1 c2 f1 f2 r1 r2 hr1 hr2

/-- the backward pass, generic statement (leaves keep the forward values, non-leaf blocks are solved by the worklist) -/
theorem C14_backward_order_independent_generic {D : Type} [DecidableEq D] (A : Analysis D) (le : D → D → Prop)
    (M : Confluence.MonoLaws A le) (g : Graph) (ctx1 : Nat → D)
    (hmirror : ∀ b ∈ g.keys, g.isLeaf b = false → ∀ n ∈ g.nextG b, b ∈ g.prevG n)
    (hret : ∀ b ∈ g.keys, g.isLeaf b = false → ∀ r, g.retPointOf b = some r → g.callsubOf r = some b)
    (hclosed : ∀ b ∈ g.keys, g.isLeaf b = false → ∀ d ∈ bwdDeps g b, d ∈ g.keys ∧ g.isLeaf d = false)
    (wl1 wl2 : List Nat) (h1 : ∀ b ∈ wl1, b ∈ g.keys ∧ g.isLeaf b = false) (h2 : ∀ b ∈ wl2, b ∈ g.keys ∧ g.isLeaf b = false)
    (c1 : ∀ b ∈ g.keys, g.isLeaf b = false → b ∈ wl1) (c2 : ∀ b ∈ g.keys, g.isLeaf b = false → b ∈ wl2)
    (f1 f2 : Nat) (r1 r2 : List (Nat × D))
    (hr1 : worklistRun (bwdF A g ctx1) (bwdDeps g) A.dom.null f1
      (g.keys.map fun k => (k, if g.isLeaf k then ctx1 k else A.dom.null)) wl1 = some r1)
    (hr2 : worklistRun (bwdF A g ctx1) (bwdDeps g) A.dom.null f2
      (g.keys.map fun k => (k, if g.isLeaf k then ctx1 k else A.dom.null)) wl2 = some r2) :
    ∀ k, le (getMap r1 k A.dom.null) (getMap r2 k A.dom.null) ∧ le (getMap r2 k A.dom.null) (getMap r1 k A.dom.null) :=
  Confluence.solveBwd_confluent A le M g ctx1 hmirror hret hclosed wl1 wl2 h1 h2 c1 c2 f1 f2 r1 r2 hr1 hr2

/-- the fee chain is a domain with monotone operations: order = inclusion of the admitted fees (union and intersection are
    exact on them) — so both order-independence theorems apply to the fee analysis: two runs admit the same fees -/
theorem fee_mono : Confluence.MonoLaws feeAnalysis (fun a b => ∀ fee, Fee.gamma a fee → Fee.gamma b fee) := by
  refine ⟨fun _ _ h => h, ?_, ?_, ?_⟩
  · intro a a' b b' h1 h2 fee hf
    have : feeAnalysis.dom.union = feeUnion := rfl
    rw [this] at hf ⊢
    rcases (Fee.union_exact a b fee).mp hf with h | h
    · exact (Fee.union_exact a' b' fee).mpr (Or.inl (h1 fee h))
    · exact (Fee.union_exact a' b' fee).mpr (Or.inr (h2 fee h))
  · intro a a' b b' h1 h2 fee hf
    have : feeAnalysis.dom.inter = feeInter := rfl
    rw [this] at hf ⊢
    obtain ⟨ha, hb⟩ := (Fee.inter_exact a b fee).mp hf
    exact (Fee.inter_exact a' b' fee).mpr ⟨h1 fee ha, h2 fee hb⟩
  · intro a fee hf
    have hn : feeAnalysis.dom.null = feeNull := rfl
    rw [hn] at hf
    have h0 := (Fee.null_only_zero fee).mp hf
    subst h0
    unfold Fee.gamma
    split <;> omega

/-- the integer / kind sets and the fee chain satisfy the premises of the generic theorems -/
theorem C14_domains_monotone :
    Confluence.MonoLaws groupIndicesAnalysis subsetLe ∧ Confluence.MonoLaws txnTypeAnalysis subsetLe ∧
    Confluence.MonoLaws feeAnalysis (fun a b => ∀ fee, Fee.gamma a fee → Fee.gamma b fee) :=
  ⟨natSet_mono groupIndicesAnalysis rfl, natSet_mono txnTypeAnalysis rfl, fee_mono⟩

end Tealer.C14
