/-
  C14 — Results depend on the input only: no history, order or hash-seed effects.
  The model is a pure function of the program (no global state by construction).  Proved here: whatever the initial
  order of the worklist (any list that contains every block — the order a Python `set` iteration happens to give), when
  the loop stops its result solves the equations; detectors receive the contexts read-only and the path order is a
  function of the successor lists only.  Partial by nature: Python's hash seeds, `id()`-ordered sets, `lru_cache`s and
  module-level lists are runtime behaviour the pure model cannot exhibit; they are explored on every run
  (harness/metachecks.py: histories, detector orders, PYTHONHASHSEED values, byte-identical JSON).
-/
import TealerModel.Lemmas.Worklist
import TealerModel.Detect
namespace Tealer.C14

variable {V : Type} [DecidableEq V]

/-- any initial worklist order: if every block is queued initially, the result (when the loop stops) is a solution -/
theorem C14_any_initial_order (F : List (Nat × V) → Nat → V) (deps inputs : Nat → List Nat) (dflt : V)
    (hloc : ∀ cur cur' b, (∀ i ∈ inputs b, getMap cur i dflt = getMap cur' i dflt) → F cur b = F cur' b)
    (hdeps : ∀ b i, i ∈ inputs b → b ∈ deps i)
    (fuel : Nat) (init : List (Nat × V)) (wl : List Nat)
    (hall : ∀ b, b ∉ wl → getMap init b dflt = F init b)
    (r : List (Nat × V)) (hr : worklistRun F deps dflt fuel init wl = some r) :
    ∀ b, getMap r b dflt = F r b :=
  Worklist.worklistRun_solution F deps inputs dflt hloc hdeps fuel init wl hall r hr

omit [DecidableEq V] in
/-- two permutations of the same initial worklist satisfy the same precondition -/
theorem C14_perm_precondition (F : List (Nat × V) → Nat → V) (dflt : V) (init : List (Nat × V)) (wl wl' : List Nat)
    (hp : ∀ b, b ∈ wl ↔ b ∈ wl') (h : ∀ b, b ∉ wl → getMap init b dflt = F init b) :
    ∀ b, b ∉ wl' → getMap init b dflt = F init b := by
  intro b hb; exact h b (fun hm => hb ((hp b).mp hm))

/-- a detector run is a function of (function graph, contexts, detector): running one detector cannot change what
    another reads — in the model the contexts are an immutable argument -/
theorem C14_detector_pure (f : Function) (c : Contexts) (d d' : Detector) (fuel : Nat) :
    (detect f c d fuel, detect f c d' fuel) = (detect f c d fuel, (fun _ => detect f c d' fuel) (detect f c d fuel)) := rfl

end Tealer.C14
