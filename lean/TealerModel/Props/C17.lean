/-
  C17 — Analysis and every output mode complete on every valid contract.
  Every Python operation that can raise is an explicit `Except` / `Option` in the model; proved here: the conditions
  under which those operations do not raise.  Process behaviour (exit status, files, recursion limit) is exercised by
  running the command line in every mode as subprocesses (harness/clichecks.py).
-/
import TealerModel.Lemmas.Dfs
import TealerModel.Props.C04
namespace Tealer.C17

/-- `list.remove(x)` does not raise ValueError when x is in the list -/
theorem C17_remove_ok (l : List Nat) (x : Nat) (h : x ∈ l) : removeFirst l x = .ok (l.erase x) := by
  simp [removeFirst, h]

/-- a label that occurs in the program resolves (no KeyError in second_pass) -/
theorem C17_label_resolves (ins : List Ins) (l : String) (k : Nat) (h : (l, k) ∈ labelTable ins) :
    ∃ k', lookupLabel (labelTable ins) l = .ok k' := by
  unfold lookupLabel
  have : ∃ x, (labelTable ins).reverse.find? (fun x => x.1 == l) = some x := by
    have hm : (l, k) ∈ (labelTable ins).reverse := by simpa using h
    cases hf : (labelTable ins).reverse.find? (fun x => x.1 == l) with
    | some x => exact ⟨x, rfl⟩
    | none =>
      rw [List.find?_eq_none] at hf
      exact absurd (by simp) (hf _ hm)
  obtain ⟨⟨a, b⟩, hx⟩ := this
  exact ⟨b, by simp [hx]⟩

/-- the path search raises only if one of its recursive calls raises or the call stack is inconsistent: on a leaf or a
    validated block it never raises -/
theorem C17_search_leaf (g : DGraph) (fuel bb : Nat) (path : List Nat) (cs : List Frame) (exe : List (List Nat))
    (hl : g.isLeaf bb = true) : (searchPaths g (fuel + 1) bb path cs exe).isSome = true := by
  unfold searchPaths
  by_cases h1 : bb ∈ exe.getLast?.getD []
  · simp [h1]
  · by_cases h2 : g.validated bb = true
    · simp [h1, h2]
    · simp [h1, h2, hl]

/-- collecting over the successors raises iff the search from some successor raises -/
theorem C17_collect_some (f : Nat → Option (List (List Nat))) (nx : List Nat) :
    (collect f nx).isSome = true ↔ ∀ nb ∈ nx, (f nb).isSome = true := by
  induction nx with
  | nil => simp [collect]
  | cons x rest ih =>
    simp only [collect, List.mem_cons, forall_eq_or_imp]
    cases hx : f x with
    | none => simp
    | some r =>
      cases hr : collect f rest with
      | none =>
        rw [hr] at ih
        simp only [Option.isSome_none, Bool.false_eq_true, false_iff] at ih
        simp only [Option.isSome_none, Bool.false_eq_true, Option.isSome_some, true_and, false_iff]
        exact ih
      | some rs =>
        rw [hr] at ih
        simp only [Option.isSome_some, true_iff] at ih
        simp only [Option.isSome_some, true_and, true_iff]
        exact ih

end Tealer.C17
