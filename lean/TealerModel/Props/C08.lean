/-
  C08 — Per-block address-field information admits every approvable address.
-/
import TealerModel.Props.TieFlow
import TealerModel.Props.Common
import TealerModel.Props.Tie
import TealerModel.Props.TieMatchers
namespace Tealer.C08

/-- tie to today's source (constants and tables imported from /repo on this run) -/
theorem C08_tie_source : Generated.addrMarkers = [ANY_ADDRESS, NO_ADDRESS, SOME_ADDRESS, CREATOR_ADDRESS] ∧
    Generated.addrBaseKeys = addrAnalysis.baseKeys ∧ Generated.ZERO_ADDRESS = ZERO_ADDRESS :=
  ⟨Tie.consts_tie.2.2.2.2.2.2.2.2.2.2.1, Tie.consts_tie.2.2.2.2.2.2.2.2.2.2.2.1, Tie.consts_tie.2.2.2.1⟩

/-- tie to today's source, lattice: the model's address union / intersection are the functions translated on this run from
    the Python AST of AddrFields._union / _intersection -/
theorem C08_tie_lattice (a b : AddrSet) :
    addrAnalysis.dom.union a b = Generated.addrUnion a b ∧ addrAnalysis.dom.inter a b = Generated.addrInter a b :=
  ⟨Tie.addr_union_tie a b, Tie.addr_inter_tie a b⟩

/-- tie to today's source, leaf: the address set a comparison operand denotes is computed by the function translated on this
    run from AddrFields._get_asserted_address -/
theorem C08_tie_leaf (op : Op) (text : String) : assertedAddress op text = Generated.addrAsserted op text :=
  Tie.addr_asserted_tie op text

theorem C08_union_sound (a b : AddrSet) (v : String) :
    Addr.gamma a v ∨ Addr.gamma b v → Addr.gamma (addrUnion a b) v := Addr.union_sound a b v

theorem C08_inter_sound (a b : AddrSet) (v : String) :
    Addr.gamma a v → Addr.gamma b v → Addr.gamma (addrInter a b) v := Addr.inter_sound a b v

/-- comparing with ZeroAddress / a literal / CreatorAddress: the asserted set admits the non-zero address
    that equals the comparand -/
theorem C08_comparand_sound (op : Op) (text : String) (y : Option String) (v : String)
    (hv : Addr.IsAddr v) (hden : Addr.comparand op = some y) (hy : y = some v) :
    Addr.gamma (assertedAddress op text) v := Addr.assertedAddress_sound op text y v hv hden hy

/-- a field without the ANY marker excludes every address it does not list (so "not any address" is reported
    only when some address really is excluded) -/
theorem C08_notAny (s : AddrSet) (v : String) (h : s.contains ANY_ADDRESS = false) (hv : ¬ v ∈ s) :
    ¬ Addr.gamma s v := Addr.notAny_excludes s v h hv

/-- flow layer -/
theorem C08_forward_sound (g : Graph) (bc : Nat → AddrSet) (pc : Nat → Nat → AddrSet)
    (rout : List (Nat × AddrSet)) (v : String) (tr : List Nat)
    (ht : Flow.FwdTrace g Addr.gamma addrUniv bc pc v tr)
    (hsol : ∀ b ∈ tr, getMap rout b addrNull = fwdF addrAnalysis g addrUniv bc pc rout b) :
    ∀ i, i < tr.length → Addr.gamma (getMap rout tr[i]! addrNull) v :=
  Flow.forward_sound addrLaws g addrUniv bc pc rout v tr ht hsol

theorem C08_backward_sound (g : Graph) (ctx1 : Nat → AddrSet) (lout : List (Nat × AddrSet))
    (v : String) (tr : List Nat) (ht : Flow.BwdTrace g Addr.gamma ctx1 v tr)
    (hleaf : ∀ b ∈ tr, g.isLeaf b = true → getMap lout b addrNull = ctx1 b)
    (hsol : ∀ b ∈ tr, getMap lout b addrNull = bwdF addrAnalysis g ctx1 lout b) :
    ∀ i, i < tr.length → Addr.gamma (getMap lout tr[i]! addrNull) v :=
  Flow.backward_sound addrLaws g ctx1 lout v tr ht hleaf hsol

example : Addr.gamma (addrInter addrUniv ["X"]) "X" := by decide

/-- THE MATCHER IS THE PYTHON'S.  `_get_asserted_txn_gtxn`, translated statement by statement from /repo's Python on this run,
    computes exactly the model's `addrSingle` on the stack value the Python holds, for every key, block and instruction -/
theorem C08_tie_matcher (intcs : Option (List Nat)) (ins : List Ins) (key : Key) (n p o : Nat) :
    addrSingle intcs (constructAst ins) key p =
      Generated.getAssertedTxnGtxn (TieM.envOf intcs) (TieM.envOf intcs) key (treeOf (constructAst ins) (n + 3) (some (p, o))) :=
  TieM.addr_tie intcs _ (TieM.arity_constructAst ins) key n p o

/-- the block-level constraint of this analysis is computed by the Python's own `_block_level_constraints`, translated on this
    run (instance of `TieF.block_tie`; edge constraints and transfer functions: `C01_tie_constraints`, `C01_tie_transfer_functions`) -/
theorem C08_tie_block_constraint (intcs : Option (List Nat)) (b : FBlock) (key : Key) (n : Nat) :
    blockConstraint addrAnalysis intcs b key =
      Generated.blockLevelConstraints (TieM.envOf intcs) addrAnalysis.dom (addrAnalysis.univ key.base)
        (TieF.gaOf addrAnalysis intcs (constructAst b.ins) key (b.ins.length + 1)) (TieM.envOf intcs) key (TieF.fblockView b n) :=
  TieF.block_tie addrAnalysis intcs b key n

/-- the views of the translated functions read `isinstance(x, C)` as "x is of class C": right, because on this run no class of
    /repo's instruction / field modules is a subclass of another one the analyses test for (`itxn` is not a `Txn`, `gitxn` not a
    `Gtxn`; only the `intc` family shares `IntcInstruction`) -/
theorem C08_tie_class_hierarchy : Generated.classHierarchy = PyView.classHierarchySpec := Tie.class_hierarchy_tie

end Tealer.C08
