/-
  Tie between the hand-written model of the leaf matchers (Ast.lean, Dom.lean) and the functions REGENERATED from /repo's
  Python on every run by the statement-by-statement translator (Generated/Matchers.lean): is_int_push_ins, _get_index,
  get_index_and_field, is_value_matches_key, and the `_get_asserted_*` matchers of the four analyses.  If the Python of one
  of these functions changes meaning, the corresponding theorem stops checking.
-/
import TealerModel.Generated.Matchers
import TealerModel.Props.Tie
import TealerModel.Lemmas.EvalRun
set_option linter.unusedSimpArgs false
namespace Tealer.TieM
open PyView

/-- the surroundings of the translated functions, from the model's `intcs` (the constants of the single entry-block
    `intcblock`, or `none` when tealer does not know them: `Teal._int_constants` is then empty) -/
def gic (intcs : Option (List Nat)) (i : Nat) : Bool × Nat :=
  match intcs with
  | some cs => (match cs[i]? with | some n => (true, n) | none => (false, 0))
  | none => (false, 0)
def envOf (intcs : Option (List Nat)) : PyView.Env := { getIntConstant := gic intcs }

theorem gic_none (i : Nat) : gic none i = (false, 0) := rfl
theorem gic_hit (cs : List Nat) (i n : Nat) (h : cs[i]? = some n) : gic (some cs) i = (true, n) := by simp [gic, h]
theorem gic_miss (cs : List Nat) (i : Nat) (h : cs[i]? = none) : gic (some cs) i = (false, 0) := by simp [gic, h]

/-- `is_int_push_ins` in the shape the Python returns it -/
def ipOf (intcs : Option (List Nat)) (op : Op) : Bool × Option IntVal :=
  match intPush intcs op with | some v => (true, v) | none => (false, none)

theorem isIntPush_tie (intcs : Option (List Nat)) (op : Op) :
    Generated.isIntPushIns (envOf intcs) op = ipOf intcs op := by
  unfold Generated.isIntPushIns ipOf
  cases op <;> simp [Id.run, isClass, pyClass, valueOf, intPush, indexOf, intConstant, envOf] <;> try rfl
  case intc i =>
    cases intcs with
    | none => simp [gic_none]; rfl
    | some cs =>
      cases h : cs[i]? with
      | none => simp [gic_miss cs i h, h]; rfl
      | some n => simp [gic_hit cs i n h, h]; rfl
  case cmp c => cases c <;> simp <;> rfl


/-- the stack AST gives every instruction as many arguments as it pops (true of `constructAst`: `arity_constructAst`) -/
def Arity (a : Ast) : Prop := ∀ p, (a.argsOf p).length = (a.opOf p).pops

/-- the Python's TransactionIndex for the model's index -/
def fromIdx : IndexType → Generated.GIndex
  | .self => { indexType := Generated.IndexType_Self, value := 0 }
  | .absolute i => { indexType := Generated.IndexType_Absolute, value := (i : Int) }
  | .relative k => { indexType := Generated.IndexType_Relative, value := k }
  | .unknown => { indexType := Generated.IndexType_Unknown, value := 0 }

theorem tree_succ (a : Ast) (n p o : Nat) :
    treeOf a (n + 1) (some (p, o)) = .known p (a.opOf p) (a.textOf p) ((a.argsOf p).map (treeOf a n)) := rfl

theorem tree_instruction (a : Ast) (n p o : Nat) : (treeOf a n (some (p, o))).instruction = a.opOf p := by
  cases n <;> rfl

theorem tree_isUnknown (a : Ast) (n : Nat) (r : Ref) : (treeOf a n r).isUnknown = r.isNone := by
  cases r with
  | none => cases n <;> rfl
  | some q => obtain ⟨p, o⟩ := q; cases n <;> rfl

theorem isGlobalF_iff (op : Op) (f : String) : (isClass op "Global" = true ∧ fieldOf op = f) ↔ op = .global f := by
  cases op <;> simp [isClass, pyClass, fieldOf]
  case cmp c => cases c <;> simp
theorem isTxnF_iff (op : Op) (f : String) : (isClass op "Txn" = true ∧ fieldOf op = f) ↔ op = .txn f := by
  cases op <;> simp [isClass, pyClass, fieldOf]
  case cmp c => cases c <;> simp

theorem isGI_eq (op : Op) : (isClass op "Txn" && fieldOf op == "GroupIndex") = (op == .txn "GroupIndex") := by
  rw [Bool.eq_iff_iff]
  simp only [Bool.and_eq_true, beq_iff_eq]
  exact isTxnF_iff op "GroupIndex"

/-- the offset part shared by the `-` and `+` branches of `_get_index` -/
theorem rel_branch (intcs : Option (List Nat)) (op : Op) (f : Nat → Int) :
    (if (match intPush intcs op with | some v => (true, v) | none => (false, none)).fst = true ∧
          isIntLit (match intPush intcs op with | some v => (true, v) | none => (false, none)).snd = true then
        (pure ({ indexType := 2, value := f (litOf (match intPush intcs op with | some v => (true, v) | none => (false, none)).snd) } : Generated.GIndex) : Id Generated.GIndex)
      else pure { indexType := 777, value := 0 }) =
      fromIdx (match intLit intcs op with | some n => .relative (f n) | none => .unknown) := by
  obtain ⟨v, hv⟩ : ∃ v, intPush intcs op = v := ⟨_, rfl⟩
  simp only [intLit, hv]
  rcases v with _ | _ | iv
  · simp [fromIdx, Generated.IndexType_Unknown]; rfl
  · simp [isIntLit, fromIdx, Generated.IndexType_Unknown]; rfl
  · cases iv <;> simp [isIntLit, litOf, fromIdx, Generated.IndexType_Unknown, Generated.IndexType_Relative] <;> rfl
theorem isSub_eq (op : Op) : isClass op "Sub" = (op == .sub) := by
  cases op <;> simp [isClass, pyClass]
  case cmp c => cases c <;> simp
theorem isAdd_eq (op : Op) : isClass op "Add" = (op == .add) := by
  cases op <;> simp [isClass, pyClass]
  case cmp c => cases c <;> simp

theorem len2 {α : Type} (l : List α) (h : l.length = 2) : ∃ x y, l = [x, y] := by
  match l, h with
  | [x, y], _ => exact ⟨x, y, rfl⟩
theorem len1 {α : Type} (l : List α) (h : l.length = 1) : ∃ x, l = [x] := by
  match l, h with
  | [x], _ => exact ⟨x, rfl⟩

theorem treeOf_none (a : Ast) (n : Nat) : treeOf a n none = .unknown := by cases n <;> rfl

theorem tree_arg (a : Ast) (n p o i : Nat) :
    (treeOf a (n + 1) (some (p, o))).arg i = treeOf a n ((a.argsOf p).getD i none) := by
  simp only [tree_succ, PySV.arg, List.getD_eq_getElem?_getD, List.getElem?_map]
  cases h : (a.argsOf p)[i]? <;> simp [treeOf_none]

theorem gi_other (intcs : Option (List Nat)) (a : Ast) (q : Nat) (h0 : ¬ a.opOf q = .txn "GroupIndex")
    (hv : intPush intcs (a.opOf q) = none) (hs : ¬ a.opOf q = .sub) (ha : ¬ a.opOf q = .add) :
    getIndex intcs a q = .unknown := by
  unfold getIndex
  have h0' : (a.opOf q == Op.txn "GroupIndex") = false := by simpa using h0
  simp only [h0', hv, Bool.false_eq_true, if_false]
  split <;> simp_all

theorem getIndex_tie (intcs : Option (List Nat)) (a : Ast) (hA : Arity a) (n q o : Nat) :
    Generated.getIndex (envOf intcs) (treeOf a (n + 1) (some (q, o))) = fromIdx (getIndex intcs a q) := by
  by_cases hother : (¬ a.opOf q = .txn "GroupIndex") ∧ intPush intcs (a.opOf q) = none ∧ (¬ a.opOf q = .sub) ∧ (¬ a.opOf q = .add)
  · obtain ⟨h0, hv, hs, ha⟩ := hother
    rw [gi_other intcs a q h0 hv hs ha]
    unfold Generated.getIndex
    simp only [tree_instruction, isIntPush_tie, ipOf, isGI_eq, isSub_eq, isAdd_eq, Id.run, hv]
    simp [h0, hs, ha, fromIdx, Generated.IndexType_Unknown]; rfl
  unfold Generated.getIndex getIndex
  simp only [tree_instruction, isIntPush_tie, ipOf, isGI_eq, isSub_eq, isAdd_eq, Id.run]
  by_cases h0 : a.opOf q = .txn "GroupIndex"
  · simp [h0, fromIdx, Generated.IndexType_Self]; rfl
  · have h0' : (a.opOf q == Op.txn "GroupIndex") = false := by simpa using h0
    simp only [h0']
    obtain ⟨v, hv⟩ : ∃ v, intPush intcs (a.opOf q) = v := ⟨_, rfl⟩
    simp only [hv]
    rcases v with _ | _ | iv
    · -- not an int push
      simp only [tree_arg, tree_isUnknown]
      by_cases hs : a.opOf q = .sub
      · have hl := hA q
        rw [hs] at hl
        obtain ⟨r1, r2, hargs⟩ := len2 _ hl
        simp only [hs, hargs, if_true]
        rcases r1 with _ | ⟨p1, o1⟩ <;> rcases r2 with _ | ⟨p2, o2⟩ <;>
          simp [fromIdx, Generated.IndexType_Unknown, tree_instruction, isGroupIndexRead] <;> try rfl
        by_cases h1 : a.opOf p1 = Op.txn "GroupIndex"
        · simp only [h1, if_true]
          exact rel_branch intcs (a.opOf p2) (fun n => -(n : Int))
        · simp [h1, fromIdx, Generated.IndexType_Unknown]; rfl
      · have hs' : (a.opOf q == Op.sub) = false := by simpa using hs
        simp only [hs', Bool.false_eq_true, if_false]
        by_cases ha : a.opOf q = .add
        · have hl := hA q
          rw [ha] at hl
          obtain ⟨r1, r2, hargs⟩ := len2 _ hl
          simp only [ha, hargs]
          rcases r1 with _ | ⟨p1, o1⟩ <;> rcases r2 with _ | ⟨p2, o2⟩ <;>
            simp [fromIdx, Generated.IndexType_Unknown, tree_instruction, isGroupIndexRead] <;> try rfl
          by_cases h1 : a.opOf p1 = Op.txn "GroupIndex"
          · simp only [h1, if_true]
            exact rel_branch intcs (a.opOf p2) (fun n => (n : Int))
          · simp only [h1, if_false]
            by_cases h2 : a.opOf p2 = Op.txn "GroupIndex"
            · simp only [h2, if_true]
              exact rel_branch intcs (a.opOf p1) (fun n => (n : Int))
            · simp [h2, fromIdx, Generated.IndexType_Unknown]; rfl
        · exact absurd ⟨h0, hv, hs, ha⟩ hother
    · simp [isIntLit, fromIdx, Generated.IndexType_Unknown]; rfl
    · cases iv <;> simp [isIntLit, litOf, fromIdx, Generated.IndexType_Unknown, Generated.IndexType_Absolute] <;> rfl


def fromIF : Option (IndexType × String) → Bool × Option Generated.GIndex × Option String
  | none => (false, none, none)
  | some (ix, f) => (true, some (fromIdx ix), some f)

theorem getIndexAndField_tie (intcs : Option (List Nat)) (a : Ast) (hA : Arity a) (n p o : Nat) :
    Generated.getIndexAndField (envOf intcs) (treeOf a (n + 2) (some (p, o))) = fromIF (getIndexAndField intcs a p) := by
  unfold Generated.getIndexAndField getIndexAndField
  simp only [tree_instruction, Id.run, tree_arg, tree_isUnknown]
  cases hop : a.opOf p <;> simp [isClass, pyClass, fromIF, fieldOf, idxOf, fromIdx, Generated.IndexType_Self, Generated.IndexType_Absolute] <;> try rfl
  case gtxns f =>
    have hl := hA p
    rw [hop] at hl
    obtain ⟨r, hargs⟩ := len1 _ hl
    simp only [hargs]
    rcases r with _ | ⟨q, o'⟩
    · simp [fromIdx, Generated.IndexType_Unknown]; rfl
    · simp [getIndex_tie intcs a hA n q o']; rfl
  case cmp c => cases c <;> simp <;> rfl


theorem isValueMatchesKey_tie (intcs : Option (List Nat)) (a : Ast) (hA : Arity a) (key : Key) (n : Nat) (r : Ref)
    (fld : Option String) :
    Generated.isValueMatchesKey (envOf intcs) key (treeOf a (n + 2) r) fld = valueMatchesKey intcs a key r fld := by
  rcases r with _ | ⟨p, o⟩
  · simp [Generated.isValueMatchesKey, Generated.getIndexAndField, valueMatchesKey, treeOf, PySV.instruction, isClass, pyClass, Id.run]
    rfl
  · unfold Generated.isValueMatchesKey valueMatchesKey
    simp only [getIndexAndField_tie intcs a hA n p o, Id.run]
    cases hm : getIndexAndField intcs a p with
    | none => simp [fromIF]; rfl
    | some v =>
      obtain ⟨ix, f⟩ := v
      simp only [fromIF]
      obtain ⟨base, kind⟩ := key
      cases ix <;> cases kind <;> cases fld <;>
        simp [fromIdx, Generated.IndexType_Self, Generated.IndexType_Absolute, Generated.IndexType_Relative,
          Generated.IndexType_Unknown, keyIsAtIndex, keyIsAbsolute, keyIsRelative, keyIndBase, keyStr]
      all_goals (simp only [pure]; try grind)


theorem sizesU_gen : Generated.sizesU = sizesU := Tie.consts_tie.2.2.2.2.1
theorem indicesU_gen : Generated.indicesU = indicesU := Tie.consts_tie.2.2.2.2.2.1

/-- the part of `_get_asserted_groupsizes` / `_get_asserted_groupindices` after the field operand has been found -/
theorem int_branch (intcs : Option (List Nat)) (op : Op) (c : Cmp) (U : NatSet) (hU : U.Nodup) (sw : Bool) :
    (match Option.map (fun x => (x, sw)) (intLit intcs op) with
      | none => (U, U)
      | some (n, _) => (OSet.ofList (assertedIntValues c n U), OSet.diff U (OSet.ofList (assertedIntValues c n U)))) =
    (if (ipOf intcs op).fst = true then
        if (ipOf intcs op).snd = none ∨ isIntLit (ipOf intcs op).snd = false then (pure (U, U) : Id (NatSet × NatSet))
        else pure (OSet.ofList (Generated.intAssertedValues (cmpOf (Op.cmp c)) (litOf (ipOf intcs op).snd) U),
              OSet.diff U (OSet.ofList (Generated.intAssertedValues (cmpOf (Op.cmp c)) (litOf (ipOf intcs op).snd) U)))
      else pure (U, U)) := by
  have hT := fun n => Tie.int_asserted_tie c n U hU
  obtain ⟨v, hv⟩ : ∃ v, intPush intcs op = v := ⟨_, rfl⟩
  simp only [intLit, ipOf, hv]
  rcases v with _ | _ | iv
  · simp; rfl
  · simp; rfl
  · cases iv <;> simp [isIntLit, litOf, cmpOf, hT] <;> rfl

theorem isCmp6_eq (op : Op) :
    (isClass op "Eq" || isClass op "Neq" || isClass op "Less" || isClass op "LessE" || isClass op "Greater" || isClass op "GreaterE") =
      (match op with | .cmp _ => true | _ => false) := by
  cases op <;> simp [isClass, pyClass]
  case cmp c => cases c <;> simp

theorem ofList_sizesU : OSet.ofList Generated.sizesU = sizesU := by decide +kernel
theorem ofList_indicesU : OSet.ofList Generated.indicesU = indicesU := by decide +kernel

theorem groupsizes_tie (intcs : Option (List Nat)) (a : Ast) (hA : Arity a) (kind : KeyKind) (n p o : Nat) :
    intSingle intcs a ⟨"GroupSize", kind⟩ p =
      Generated.getAssertedGroupsizes (envOf intcs) (envOf intcs) (treeOf a (n + 1) (some (p, o))) := by
  unfold intSingle Generated.getAssertedGroupsizes
  simp only [tree_instruction, isCmp6_eq, Id.run, tree_arg, tree_isUnknown, intUniv, ofList_sizesU, isIntPush_tie]
  cases hop : a.opOf p <;> simp <;> try rfl
  rename_i c
  have hl := hA p
  rw [hop] at hl
  obtain ⟨r1, r2, hargs⟩ := len2 _ hl
  simp only [hargs]
  rcases r1 with _ | ⟨p1, o1⟩ <;> rcases r2 with _ | ⟨p2, o2⟩ <;> simp <;> try rfl
  simp only [tree_instruction, isGlobalF_iff, sizesU_gen]
  by_cases h1 : a.opOf p1 = Op.global "GroupSize"
  · simp only [h1, if_true]
    exact int_branch intcs (a.opOf p2) c sizesU Tie.int_universes_nodup.1 false
  · simp only [h1, if_false]
    by_cases h2 : a.opOf p2 = Op.global "GroupSize"
    · simp only [h2, if_true]
      exact int_branch intcs (a.opOf p1) c sizesU Tie.int_universes_nodup.1 true
    · simp [h2]; rfl

theorem groupindices_tie (intcs : Option (List Nat)) (a : Ast) (hA : Arity a) (base : String) (hb : base ≠ "GroupSize")
    (kind : KeyKind) (n p o : Nat) :
    intSingle intcs a ⟨base, kind⟩ p =
      Generated.getAssertedGroupindices (envOf intcs) (envOf intcs) (treeOf a (n + 1) (some (p, o))) := by
  unfold intSingle Generated.getAssertedGroupindices
  have hb' : (base == "GroupSize") = false := by simpa using hb
  simp only [tree_instruction, isCmp6_eq, Id.run, tree_arg, tree_isUnknown, intUniv, ofList_indicesU, isIntPush_tie, hb',
    Bool.false_eq_true, if_false]
  cases hop : a.opOf p <;> simp <;> try rfl
  rename_i c
  have hl := hA p
  rw [hop] at hl
  obtain ⟨r1, r2, hargs⟩ := len2 _ hl
  simp only [hargs]
  rcases r1 with _ | ⟨p1, o1⟩ <;> rcases r2 with _ | ⟨p2, o2⟩ <;> simp <;> try rfl
  simp only [tree_instruction, isTxnF_iff, indicesU_gen]
  by_cases h1 : a.opOf p1 = Op.txn "GroupIndex"
  · simp only [h1, if_true]
    exact int_branch intcs (a.opOf p2) c indicesU Tie.int_universes_nodup.2 false
  · simp only [h1, if_false]
    by_cases h2 : a.opOf p2 = Op.txn "GroupIndex"
    · simp only [h2, if_true]
      exact int_branch intcs (a.opOf p1) c indicesU Tie.int_universes_nodup.2 true
    · simp [h2]; rfl

theorem mirrored_tie (c : Cmp) : Generated.mirroredComparison (.cmp c) = .cmp c.mirror := by
  cases c <;> rfl

def toG2 (r : FeeValue × FeeValue) : Generated.GFeeValue × Generated.GFeeValue := (Tie.toG r.1, Tie.toG r.2)

theorem fee_final (c : Cmp) (v : FeeValue) :
    toG2 (feeAssertedMax c v) = Generated.feeAssertedMax (cmpOf (Op.cmp c)) (Tie.toG v) := by
  have := Tie.fee_table_tie c v
  simpa [toG2, cmpOf] using this

theorem fee_tie (intcs : Option (List Nat)) (a : Ast) (hA : Arity a) (key : Key) (n p o : Nat) :
    toG2 (feeSingle intcs a key p) =
      Generated.getAssertedFee (envOf intcs) (envOf intcs) key (treeOf a (n + 3) (some (p, o))) := by
  have hU : toG2 (feeUniv, feeUniv) = (({ isUnknown := false, value := Generated.MAX_UINT64 } : Generated.GFeeValue),
      ({ isUnknown := false, value := Generated.MAX_UINT64 } : Generated.GFeeValue)) := by
    simp [toG2, Tie.toG, feeUniv, Generated.MAX_UINT64, MAX_UINT64]
  have hunk : Tie.toG { isUnknown := true } = ({ isUnknown := true, value := Generated.MAX_UINT64 } : Generated.GFeeValue) := by
    simp [Tie.toG, Generated.MAX_UINT64, MAX_UINT64]
  unfold feeSingle Generated.getAssertedFee
  simp only [tree_instruction, isCmp6_eq, Id.run, tree_arg, tree_isUnknown, isIntPush_tie, isValueMatchesKey_tie intcs a hA]
  cases hop : a.opOf p <;> simp only [hU] <;> try rfl
  rename_i c
  have hl := hA p
  rw [hop] at hl
  obtain ⟨r1, r2, hargs⟩ := len2 _ hl
  simp only [hargs, List.getD_cons_zero, List.getD_cons_succ, mirrored_tie]
  rcases r1 with _ | ⟨p1, o1⟩ <;> rcases r2 with _ | ⟨p2, o2⟩
  · simp [hU]; rfl
  · by_cases hm : valueMatchesKey intcs a key (some (p2, o2)) = true
    · simp [hm, fee_final, hunk]; rfl
    · simp [hm, hU]; rfl
  · by_cases hm : valueMatchesKey intcs a key (some (p1, o1)) = true
    · simp [hm, fee_final, hunk]; rfl
    · simp [hm, hU]; rfl
  · simp only [tree_instruction]
    by_cases hm1 : valueMatchesKey intcs a key (some (p1, o1)) = true
    · obtain ⟨v, hv⟩ : ∃ v, intPush intcs (a.opOf p2) = v := ⟨_, rfl⟩
      rcases v with _ | _ | iv
      · simp [hm1, fee_final, hunk, ipOf, intLit, hv]; rfl
      · simp [hm1, fee_final, hunk, ipOf, intLit, hv, isIntLit]; rfl
      · cases iv <;> simp [hm1, fee_final, hunk, ipOf, intLit, hv, isIntLit, litOf, Tie.toG] <;> rfl
    · by_cases hm2 : valueMatchesKey intcs a key (some (p2, o2)) = true
      · obtain ⟨v, hv⟩ : ∃ v, intPush intcs (a.opOf p1) = v := ⟨_, rfl⟩
        rcases v with _ | _ | iv
        · simp [hm1, hm2, fee_final, hunk, ipOf, intLit, hv]; rfl
        · simp [hm1, hm2, fee_final, hunk, ipOf, intLit, hv, isIntLit]; rfl
        · cases iv <;> simp [hm1, hm2, fee_final, hunk, ipOf, intLit, hv, isIntLit, litOf, Tie.toG] <;> rfl
      · simp [hm1, hm2, hU]; rfl

theorem tree_text (a : Ast) (n p o : Nat) : (treeOf a n (some (p, o))).text = a.textOf p := by
  cases n <;> rfl

theorem isEqNeq_eq (op : Op) : (isClass op "Eq" || isClass op "Neq") = (op == .cmp .eq || op == .cmp .neq) := by
  cases op <;> simp [isClass, pyClass]
  case cmp c => cases c <;> simp
theorem isEq_eq (op : Op) : isClass op "Eq" = (op == .cmp .eq) := by
  cases op <;> simp [isClass, pyClass]
  case cmp c => cases c <;> simp

theorem addr_tie (intcs : Option (List Nat)) (a : Ast) (hA : Arity a) (key : Key) (n p o : Nat) :
    addrSingle intcs a key p =
      Generated.getAssertedTxnGtxn (envOf intcs) (envOf intcs) key (treeOf a (n + 3) (some (p, o))) := by
  have hU : OSet.ofList [Generated.ANY_ADDRESS] = addrUniv := by decide
  have hS : OSet.ofList [Generated.SOME_ADDRESS] = [SOME_ADDRESS] := by decide
  unfold addrSingle Generated.getAssertedTxnGtxn
  simp only [tree_instruction, isEqNeq_eq, isEq_eq, Id.run, tree_arg, tree_isUnknown, isValueMatchesKey_tie intcs a hA, hU, hS,
    ← Tie.addr_asserted_tie]
  cases hop : a.opOf p <;> simp <;> try rfl
  rename_i c
  have hl := hA p
  rw [hop] at hl
  obtain ⟨r1, r2, hargs⟩ := len2 _ hl
  simp only [hargs, List.getD_cons_zero, List.getD_cons_succ]
  cases c <;> simp <;> try rfl
  all_goals (
    rcases r1 with _ | ⟨p1, o1⟩ <;> rcases r2 with _ | ⟨p2, o2⟩ <;> simp [tree_instruction, tree_text, isClass, pyClass] <;> try rfl)
  all_goals (repeat' split) <;> simp_all <;> try rfl

theorem lookup_type_tie (v : Option IntVal) :
    lookupEnum Generated.typeEnumTable Generated.typeEnumNames v = v.bind typeToType := by
  rcases v with _ | iv
  · rfl
  · cases iv with
    | lit n =>
      match n with
      | 0 | 1 | 2 | 3 | 4 | 5 | 6 => rfl
      | n + 7 => simp [lookupEnum, Generated.typeEnumTable, typeToType, List.find?]
    | named s =>
      by_cases h1 : s = "pay"; · subst h1; rfl
      by_cases h2 : s = "keyreg"; · subst h2; rfl
      by_cases h3 : s = "acfg"; · subst h3; rfl
      by_cases h4 : s = "axfer"; · subst h4; rfl
      by_cases h5 : s = "afrz"; · subst h5; rfl
      by_cases h6 : s = "appl"; · subst h6; rfl
      have hne : ∀ t : String, ¬ s = t → (t == s) = false := by
        intro t h; simp; exact fun e => h e.symm
      simp [lookupEnum, Generated.typeEnumNames, typeToType, List.find?, h1, h2, h3, h4, h5, h6,
        hne _ h1, hne _ h2, hne _ h3, hne _ h4, hne _ h5, hne _ h6]
theorem lookup_oncompletion_tie (v : Option IntVal) :
    lookupEnum Generated.oncompletionTable Generated.oncompletionNames v = v.bind oncompletionToType := by
  rcases v with _ | iv
  · rfl
  · cases iv with
    | lit n =>
      match n with
      | 0 | 1 | 2 | 3 | 4 | 5 => rfl
      | n + 6 => simp [lookupEnum, Generated.oncompletionTable, oncompletionToType, List.find?]
    | named s =>
      by_cases h1 : s = "NoOp"; · subst h1; rfl
      by_cases h2 : s = "OptIn"; · subst h2; rfl
      by_cases h3 : s = "CloseOut"; · subst h3; rfl
      by_cases h4 : s = "ClearState"; · subst h4; rfl
      by_cases h5 : s = "UpdateApplication"; · subst h5; rfl
      by_cases h6 : s = "DeleteApplication"; · subst h6; rfl
      have hne : ∀ t : String, ¬ s = t → (t == s) = false := by
        intro t h; simp; exact fun e => h e.symm
      simp [lookupEnum, Generated.oncompletionNames, oncompletionToType, List.find?, h1, h2, h3, h4, h5, h6,
        hne _ h1, hne _ h2, hne _ h3, hne _ h4, hne _ h5, hne _ h6]

theorem isNot_eq (op : Op) : isClass op "Not" = (op == .not) := by
  cases op <;> simp [isClass, pyClass]
  case cmp c => cases c <;> simp

theorem txntypes_tie (intcs : Option (List Nat)) (a : Ast) (hA : Arity a) (key : Key) (n p o : Nat) :
    Generated.getAssertedTransactionTypes (envOf intcs) (envOf intcs) key (treeOf a (n + 3) (some (p, o))) =
      txnTypeSingleE intcs a key p := by
  have hU : OSet.ofList Generated.txnTypeU = ALL_TRANSACTION_TYPES := Tie.consts_tie.2.2.2.2.2.2.2.1
  have hA' : OSet.ofList Generated.APPLICATION_TRANSACTION_TYPES = APPLICATION_TRANSACTION_TYPES := Tie.consts_tie.2.2.2.2.2.2.2.2.1
  have hT : OSet.ofList Generated.TYPEENUM_TRANSACTION_TYPES = TYPEENUM_TRANSACTION_TYPES := Tie.consts_tie.2.2.2.2.2.2.2.2.2.1
  have hm0 := isValueMatchesKey_tie intcs a hA key (n + 1) (some (p, o))
  unfold Generated.getAssertedTransactionTypes txnTypeSingleE
  simp only [tree_instruction, isEqNeq_eq, isEq_eq, isNot_eq, tree_arg, tree_isUnknown, isIntPush_tie, hm0,
    isValueMatchesKey_tie intcs a hA, hU, hA', hT, lookup_type_tie, lookup_oncompletion_tie]
  have ho : ∀ f, valueMatchesKey intcs a key (some (p, 0)) f = valueMatchesKey intcs a key (some (p, o)) f := fun _ => rfl
  simp only [ho]
  by_cases happ : valueMatchesKey intcs a key (some (p, o)) (some "ApplicationID") = true
  · have e1 : OSet.ofList [102] = [TT.ApplCreation] := by decide
    simp [happ, e1]
  · have e1 : OSet.ofList [102] = [TT.ApplCreation] := by decide
    simp only [happ, e1]
    cases hop : a.opOf p <;> simp [isClass, pyClass] <;> try rfl
    case not =>
      have hl := hA p
      rw [hop] at hl
      obtain ⟨r, hargs⟩ := len1 _ hl
      simp only [hargs]
      rcases r with _ | ⟨q, o'⟩ <;> simp <;> try rfl
    case cmp c =>
      have hl := hA p
      rw [hop] at hl
      obtain ⟨r1, r2, hargs⟩ := len2 _ hl
      simp only [hargs]
      cases c <;> simp <;> try rfl
      all_goals (rcases r1 with _ | ⟨p1, o1⟩ <;> rcases r2 with _ | ⟨p2, o2⟩ <;> simp <;> try rfl)
      all_goals (
        simp only [tree_instruction]
        generalize valueMatchesKey intcs a key (some (p1, o1)) (some "ApplicationID") = m1A
        generalize valueMatchesKey intcs a key (some (p2, o2)) (some "ApplicationID") = m2A
        generalize valueMatchesKey intcs a key (some (p1, o1)) (some "TypeEnum") = m1T
        generalize valueMatchesKey intcs a key (some (p2, o2)) (some "TypeEnum") = m2T
        generalize valueMatchesKey intcs a key (some (p1, o1)) (some "OnCompletion") = m1O
        generalize valueMatchesKey intcs a key (some (p2, o2)) (some "OnCompletion") = m2O
        obtain ⟨i2, hi2⟩ : ∃ v, intPush intcs (a.opOf p1) = v := ⟨_, rfl⟩
        obtain ⟨i3, hi3⟩ : ∃ v, intPush intcs (a.opOf p2) = v := ⟨_, rfl⟩
        simp only [ipOf, hi2, hi3]
        rcases i2 with _ | _ | iv2 <;> rcases i3 with _ | _ | iv3 <;> simp [isIntLit, litOf] <;> try rfl
        all_goals (
          have hsing : ∀ x : Nat, OSet.ofList [x] = [x] := fun _ => rfl
          simp only [hsing]
          first
          | (generalize typeToType iv3 = tt; generalize oncompletionToType iv3 = oc
             cases m1A <;> cases m1T <;> cases m1O <;> cases tt <;> cases oc <;> cases iv3 <;> simp <;> try (split <;> simp_all))
          | (generalize typeToType iv2 = tt; generalize oncompletionToType iv2 = oc
             cases m2A <;> cases m2T <;> cases m2O <;> cases tt <;> cases oc <;> cases iv2 <;> simp <;> try (split <;> simp_all))
          | (cases m1A <;> cases m1T <;> cases m1O <;> simp)
          | (cases m2A <;> cases m2T <;> cases m2O <;> simp)))

/-- the premise of the tie theorems holds for every stack AST `construct_stack_ast` builds -/
theorem arity_constructAst (ins : List Ins) : Arity (constructAst ins) := by
  intro p
  by_cases hp : p < ins.length
  · rw [EvalRun.argsOf_constructAst ins p hp, EvalRun.opOf_constructAst ins p hp]
    exact EvalRun.argsAt_length ins p
  · have h1 : (constructAst ins).opOf p = .err := by
      unfold Ast.opOf constructAst
      simp [List.getElem?_eq_none (Nat.le_of_not_lt hp)]
    have h2 : (constructAst ins).argsOf p = [] := by
      unfold Ast.argsOf
      rw [OperandValues.constructAst_args]
      simp [List.getElem?_eq_none (show ((List.range ins.length).map (OperandValues.argsAt ins)).length ≤ p by simpa using Nat.le_of_not_lt hp)]
    rw [h1, h2]; rfl

end Tealer.TieM
