/-
  C09 — Per-block fee bound is an upper bound on every approvable fee.
  Property theorems only (helper lemmas live in Lemmas/).
-/
import TealerModel.Props.Common
import TealerModel.Props.Tie
namespace Tealer.C09

/-- tie to today's source: the model's lattice operations and operator table are the functions translated from
    fee_field.py's AST on this run, and its constants are the ones imported from /repo -/
theorem C09_tie_source (a b : FeeValue) (c : Cmp) :
    Tie.toG (feeUnion a b) = Generated.feeUnion (Tie.toG a) (Tie.toG b) ∧
    Tie.toG (feeInter a b) = Generated.feeInter (Tie.toG a) (Tie.toG b) ∧
    (Tie.toG (feeAssertedMax c a).1, Tie.toG (feeAssertedMax c a).2) = Generated.feeAssertedMax c (Tie.toG a) ∧
    Generated.MAX_TRANSACTION_COST = MAX_TRANSACTION_COST ∧ Generated.MAX_UINT64 = MAX_UINT64 :=
  ⟨Tie.fee_union_tie a b, Tie.fee_inter_tie a b, Tie.fee_table_tie c a, Tie.consts_tie.1, Tie.consts_tie.2.1⟩


/-- chain lattice: union and intersection over-approximate (and are exact on) the admitted fees -/
theorem C09_union_sound (a b : FeeValue) (fee : Nat) :
    Fee.gamma a fee ∨ Fee.gamma b fee → Fee.gamma (feeUnion a b) fee := Fee.union_sound a b fee

theorem C09_inter_sound (a b : FeeValue) (fee : Nat) :
    Fee.gamma a fee → Fee.gamma b fee → Fee.gamma (feeInter a b) fee := Fee.inter_sound a b fee

theorem C09_inter_exact (a b : FeeValue) (fee : Nat) :
    Fee.gamma (feeInter a b) fee ↔ Fee.gamma a fee ∧ Fee.gamma b fee := Fee.inter_exact a b fee

theorem C09_union_exact (a b : FeeValue) (fee : Nat) :
    Fee.gamma (feeUnion a b) fee ↔ Fee.gamma a fee ∨ Fee.gamma b fee := Fee.union_exact a b fee

/-- operator table: for `Fee op c` (field as first operand), all six operators, every constant and every
    uint64 fee, the true (false) bound admits every fee on which the comparison is true (false) -/
theorem C09_operator_table (op : Cmp) (c fee : Nat) (hfee : fee ≤ MAX_UINT64) :
    (op.eval fee c = true → Fee.gamma (feeAssertedMax op { value := c }).1 fee) ∧
    (op.eval fee c = false → Fee.gamma (feeAssertedMax op { value := c }).2 fee) :=
  Fee.assertedMax_sound op c fee hfee

/-- a single direct check yields exactly the implied bound -/
theorem C09_single_exact :
    (∀ c, (feeAssertedMax .le { value := c }).1 = { value := c }) ∧
    (∀ c, (feeAssertedMax .lt { value := c }).1 = { value := c - 1 }) ∧
    (∀ c, (feeAssertedMax .eq { value := c }).1 = { value := c }) ∧
    (∀ c, (feeAssertedMax .gt { value := c }).2 = { value := c }) ∧
    (∀ c, (feeAssertedMax .ge { value := c }).2 = { value := c - 1 }) :=
  ⟨fun _ => rfl, fun _ => rfl, fun _ => rfl, fun _ => rfl, fun _ => rfl⟩

/-- a bound at or below 272000 is credited exactly when every admitted fee is at most the cost bound -/
theorem C09_credit (v : FeeValue) :
    checksField .feeCheck { maxFee := if v.isUnknown then MAX_UINT64 else v.value, maxFeeUnknown := v.isUnknown } = true ↔
      ∀ fee, Fee.gamma v fee → fee ≤ MAX_TRANSACTION_COST := by
  rw [← Fee.feeCheck_iff]
  cases v with | mk u x => cases u <;> simp [checksField]

/-- flow layer: every solution of the reach-out equations is an upper bound along an accepting trace -/
theorem C09_forward_sound (g : Graph) (bc : Nat → FeeValue) (pc : Nat → Nat → FeeValue)
    (rout : List (Nat × FeeValue)) (fee : Nat) (tr : List Nat)
    (ht : Flow.FwdTrace g Fee.gamma feeUniv bc pc fee tr)
    (hsol : ∀ b ∈ tr, getMap rout b feeNull = fwdF feeAnalysis g feeUniv bc pc rout b) :
    ∀ i, i < tr.length → Fee.gamma (getMap rout tr[i]! feeNull) fee :=
  Flow.forward_sound feeLaws g feeUniv bc pc rout fee tr ht hsol

theorem C09_backward_sound (g : Graph) (ctx1 : Nat → FeeValue) (lout : List (Nat × FeeValue))
    (fee : Nat) (tr : List Nat) (ht : Flow.BwdTrace g Fee.gamma ctx1 fee tr)
    (hleaf : ∀ b ∈ tr, g.isLeaf b = true → getMap lout b feeNull = ctx1 b)
    (hsol : ∀ b ∈ tr, getMap lout b feeNull = bwdF feeAnalysis g ctx1 lout b) :
    ∀ i, i < tr.length → Fee.gamma (getMap lout tr[i]! feeNull) fee :=
  Flow.backward_sound feeLaws g ctx1 lout fee tr ht hleaf hsol

/-- operator table, constant as FIRST operand (`int c; txn Fee; op`): the model of the repaired
    `_get_asserted_fee` reads it with the mirrored operator, and the table is sound for it
    (known_findings F02, fixed: the unmirrored reading gave `int 1000; txn Fee; <` the bound 999) -/
theorem C09_operator_table_const_first (op : Cmp) (c fee : Nat) (hfee : fee ≤ MAX_UINT64) :
    (op.eval c fee = true → Fee.gamma (feeAssertedMax op.mirror { value := c }).1 fee) ∧
    (op.eval c fee = false → Fee.gamma (feeAssertedMax op.mirror { value := c }).2 fee) := by
  have := Fee.assertedMax_sound op.mirror c fee hfee
  rwa [Cmp.mirror_eval] at this

/-- the unmirrored reading really is unsound (regression witness of F02) -/
theorem C09_unmirrored_unsound :
    ¬ (∀ (op : Cmp) (c fee : Nat), fee ≤ MAX_UINT64 →
        (op.eval c fee = true → Fee.gamma (feeAssertedMax op { value := c }).1 fee)) := by
  intro h
  have := h .lt 1000 2000 (by decide) (by decide)
  revert this; decide

-- non-vacuity: the hypotheses of the operator table are satisfiable and the conclusion is informative
example : Cmp.le.eval 1000 272000 = true ∧ Fee.gamma (feeAssertedMax .le { value := 272000 }).1 1000 := by decide

end Tealer.C09
