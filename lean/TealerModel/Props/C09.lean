/-
  C09 — Per-block fee bound is an upper bound on every approvable fee.
  Property theorems only (helper lemmas live in Lemmas/).
-/
import TealerModel.Props.TieFlow
import TealerModel.Props.Common
import TealerModel.Props.Tie
import TealerModel.Props.TieMatchers
import TealerModel.Lemmas.FeeLeaf
namespace Tealer.C09

/-- tie to today's source: the model's lattice operations and operator table are the functions translated from
    fee_field.py's AST on this run, and its constants are the ones imported from /repo -/
theorem C09_tie_source (a b : FeeValue) (c : Cmp) :
    Tie.toG (feeUnion a b) = Generated.feeUnion (Tie.toG a) (Tie.toG b) ∧
    Tie.toG (feeInter a b) = Generated.feeInter (Tie.toG a) (Tie.toG b) ∧
    (Tie.toG (feeAssertedMax c a).1, Tie.toG (feeAssertedMax c a).2) = Generated.feeAssertedMax c (Tie.toG a) ∧
    Generated.MAX_TRANSACTION_COST = MAX_TRANSACTION_COST ∧ Generated.MAX_UINT64 = MAX_UINT64 :=
  ⟨Tie.fee_union_tie a b, Tie.fee_inter_tie a b, Tie.fee_table_tie c a, Tie.consts_tie.1, Tie.consts_tie.2.1⟩


/-- chain lattice: union and intersection over-approximate (and are exact on) the admitted fees -/
theorem C09_union_sound (a b : FeeValue) (fee : Nat) :
    Fee.gamma a fee ∨ Fee.gamma b fee → Fee.gamma (feeUnion a b) fee := Fee.union_sound a b fee

theorem C09_inter_sound (a b : FeeValue) (fee : Nat) :
    Fee.gamma a fee → Fee.gamma b fee → Fee.gamma (feeInter a b) fee := Fee.inter_sound a b fee

theorem C09_inter_exact (a b : FeeValue) (fee : Nat) :
    Fee.gamma (feeInter a b) fee ↔ Fee.gamma a fee ∧ Fee.gamma b fee := Fee.inter_exact a b fee

theorem C09_union_exact (a b : FeeValue) (fee : Nat) :
    Fee.gamma (feeUnion a b) fee ↔ Fee.gamma a fee ∨ Fee.gamma b fee := Fee.union_exact a b fee

/-- operator table: for `Fee op c` (field as first operand), all six operators, every constant and every
    uint64 fee, the true (false) bound admits every fee on which the comparison is true (false) -/
theorem C09_operator_table (op : Cmp) (c fee : Nat) (hfee : fee ≤ MAX_UINT64) :
    (op.eval fee c = true → Fee.gamma (feeAssertedMax op { value := c }).1 fee) ∧
    (op.eval fee c = false → Fee.gamma (feeAssertedMax op { value := c }).2 fee) :=
  Fee.assertedMax_sound op c fee hfee

/-- a single direct check yields exactly the implied bound -/
theorem C09_single_exact :
    (∀ c, (feeAssertedMax .le { value := c }).1 = { value := c }) ∧
    (∀ c, (feeAssertedMax .lt { value := c }).1 = { value := c - 1 }) ∧
    (∀ c, (feeAssertedMax .eq { value := c }).1 = { value := c }) ∧
    (∀ c, (feeAssertedMax .gt { value := c }).2 = { value := c }) ∧
    (∀ c, (feeAssertedMax .ge { value := c }).2 = { value := c - 1 }) :=
  ⟨fun _ => rfl, fun _ => rfl, fun _ => rfl, fun _ => rfl, fun _ => rfl⟩

/-- a bound at or below 272000 is credited exactly when every admitted fee is at most the cost bound -/
theorem C09_credit (v : FeeValue) :
    checksField .feeCheck { maxFee := if v.isUnknown then MAX_UINT64 else v.value, maxFeeUnknown := v.isUnknown } = true ↔
      ∀ fee, Fee.gamma v fee → fee ≤ MAX_TRANSACTION_COST := by
  rw [← Fee.feeCheck_iff]
  cases v with | mk u x => cases u <;> simp [checksField]

/-- flow layer: every solution of the reach-out equations is an upper bound along an accepting trace -/
theorem C09_forward_sound (g : Graph) (bc : Nat → FeeValue) (pc : Nat → Nat → FeeValue)
    (rout : List (Nat × FeeValue)) (fee : Nat) (tr : List Nat)
    (ht : Flow.FwdTrace g Fee.gamma feeUniv bc pc fee tr)
    (hsol : ∀ b ∈ tr, getMap rout b feeNull = fwdF feeAnalysis g feeUniv bc pc rout b) :
    ∀ i, i < tr.length → Fee.gamma (getMap rout tr[i]! feeNull) fee :=
  Flow.forward_sound feeLaws g feeUniv bc pc rout fee tr ht hsol

theorem C09_backward_sound (g : Graph) (ctx1 : Nat → FeeValue) (lout : List (Nat × FeeValue))
    (fee : Nat) (tr : List Nat) (ht : Flow.BwdTrace g Fee.gamma ctx1 fee tr)
    (hleaf : ∀ b ∈ tr, g.isLeaf b = true → getMap lout b feeNull = ctx1 b)
    (hsol : ∀ b ∈ tr, getMap lout b feeNull = bwdF feeAnalysis g ctx1 lout b) :
    ∀ i, i < tr.length → Fee.gamma (getMap lout tr[i]! feeNull) fee :=
  Flow.backward_sound feeLaws g ctx1 lout fee tr ht hleaf hsol

/-- operator table, constant as FIRST operand (`int c; txn Fee; op`): the model of the repaired
    `_get_asserted_fee` reads it with the mirrored operator, and the table is sound for it
    (known_findings F02, fixed: the unmirrored reading gave `int 1000; txn Fee; <` the bound 999) -/
theorem C09_operator_table_const_first (op : Cmp) (c fee : Nat) (hfee : fee ≤ MAX_UINT64) :
    (op.eval c fee = true → Fee.gamma (feeAssertedMax op.mirror { value := c }).1 fee) ∧
    (op.eval c fee = false → Fee.gamma (feeAssertedMax op.mirror { value := c }).2 fee) := by
  have := Fee.assertedMax_sound op.mirror c fee hfee
  rwa [Cmp.mirror_eval] at this

/-- the unmirrored reading really is unsound (regression witness of F02) -/
theorem C09_unmirrored_unsound :
    ¬ (∀ (op : Cmp) (c fee : Nat), fee ≤ MAX_UINT64 →
        (op.eval c fee = true → Fee.gamma (feeAssertedMax op { value := c }).1 fee)) := by
  intro h
  have := h .lt 1000 2000 (by decide) (by decide)
  revert this; decide

-- non-vacuity: the hypotheses of the operator table are satisfiable and the conclusion is informative
example : Cmp.le.eval 1000 272000 = true ∧ Fee.gamma (feeAssertedMax .le { value := 272000 }).1 1000 := by decide

/-- THE FEE LEAF AGAINST THE CONCRETE SEMANTICS.  In a straight run of a block of the concrete machine, a comparison
    instruction whose reconstructed operands (construct_stack_ast) are the outputs of a `txn Fee` and of an `int n` pushes a
    non-zero value exactly when `fee op n` holds for the fee of the transaction being approved; hence that fee lies in the
    true side of the operator table when the pushed value is non-zero and in the false side when it is zero.  This is the
    leaf premise of `C01_asserted_of_run` for the direct check `txn Fee; int n; op`. -/
theorem C09_leaf_concrete (prog : List Ins) (e : Avm.Env) (blockIns : List Ins) (pc0 : Nat) (st : Nat → Avm.State) (k : Nat)
    (hrun : OperandValues.BlockRun prog e blockIns pc0 k st) (valOf : Nat × Nat → Avm.Val)
    (hout : ∀ j, j < k → ∀ i, i < (blockIns[j]!).op.pushes →
      (st (j + 1)).stack[(st j).stack.length - (blockIns[j]!).op.pops + i]? = some (valOf (j, i)))
    (hargs : ∀ j, j < k → List.Forall₂ (OperandValues.Agree valOf) (OperandValues.argsAt blockIns j)
      ((st j).stack.drop ((st j).stack.length - (blockIns[j]!).op.pops)))
    (p p1 p2 : Nat) (c : Cmp) (n : Nat) (hp : p < k) (hp1 : p1 < k) (hp2 : p2 < k)
    (hopp : (blockIns[p]!).op = .cmp c) (hop1 : (blockIns[p1]!).op = .txn "Fee") (hop2 : (blockIns[p2]!).op = .int (.lit n))
    (hargsp : OperandValues.argsAt blockIns p = [some (p1, 0), some (p2, 0)]) :
    ∃ fee, e.field e.self "Fee" = some (.int fee) ∧ EvalRun.truthy (valOf (p, 0)) = c.eval fee n ∧
      (fee ≤ MAX_UINT64 →
        (EvalRun.truthy (valOf (p, 0)) = true → Fee.gamma (feeAssertedMax c { value := n }).1 fee) ∧
        (EvalRun.truthy (valOf (p, 0)) = false → Fee.gamma (feeAssertedMax c { value := n }).2 fee)) :=
  FeeLeaf.fee_leaf prog e blockIns pc0 st k hrun valOf hout hargs p p1 p2 c n hp hp1 hp2 hopp hop1 hop2 hargsp

/-- THE LEAF PREMISE, DISCHARGED FOR DIRECT FEE CHECKS.  The hypothesis "the leaf matcher is sound for the actual truth of the
    leaf" of `C01_asserted_of_run` / `C01_block_constraint_of_run` holds, for the key Fee, at every comparison of a straight
    run whose stack-AST operands are a `txn Fee` and an `int n`: the tool's `_get_asserted_fee` returns the operator table's
    entry (`feeSingle_direct`) and the approved fee is on the side the AVM's pushed value selects (`C09_leaf_concrete`). -/
theorem C09_leaf_premise_direct (prog : List Ins) (e : Avm.Env) (blockIns : List Ins) (pc0 : Nat) (st : Nat → Avm.State)
    (k : Nat) (hrun : OperandValues.BlockRun prog e blockIns pc0 k st) (valOf : Nat × Nat → Avm.Val)
    (hout : ∀ j, j < k → ∀ i, i < (blockIns[j]!).op.pushes →
      (st (j + 1)).stack[(st j).stack.length - (blockIns[j]!).op.pops + i]? = some (valOf (j, i)))
    (hargs : ∀ j, j < k → List.Forall₂ (OperandValues.Agree valOf) (OperandValues.argsAt blockIns j)
      ((st j).stack.drop ((st j).stack.length - (blockIns[j]!).op.pops)))
    (ic : Option (List Nat)) (p p1 p2 : Nat) (c : Cmp) (n : Nat) (hp : p < k) (hp1 : p1 < k) (hp2 : p2 < k)
    (hopp : (blockIns[p]!).op = .cmp c) (hop1 : (blockIns[p1]!).op = .txn "Fee") (hop2 : (blockIns[p2]!).op = .int (.lit n))
    (hargsp : OperandValues.argsAt blockIns p = [some (p1, 0), some (p2, 0)]) :
    ∃ fee, e.field e.self "Fee" = some (.int fee) ∧
      (fee ≤ MAX_UINT64 →
        (EvalRun.truthy (valOf (p, 0)) = true → Fee.gamma (feeSingle ic (constructAst blockIns) ⟨"Fee", .self⟩ p).1 fee) ∧
        (EvalRun.truthy (valOf (p, 0)) = false → Fee.gamma (feeSingle ic (constructAst blockIns) ⟨"Fee", .self⟩ p).2 fee)) :=
  FeeLeaf.fee_leaf_premise prog e blockIns pc0 st k hrun valOf hout hargs ic p p1 p2 c n hp hp1 hp2 hopp hop1 hop2 hargsp

/-- THE MATCHER IS THE PYTHON'S.  `_get_asserted_fee` — operand classification, the `field_is_second_operand` test and the
    mirrored comparison (`_MIRRORED_COMPARISON` read from the module) — translated statement by statement from /repo's
    Python on this run, computes exactly the model's `feeSingle` on the stack value the Python holds -/
theorem C09_tie_matcher (intcs : Option (List Nat)) (ins : List Ins) (key : Key) (n p o : Nat) :
    TieM.toG2 (feeSingle intcs (constructAst ins) key p) =
      Generated.getAssertedFee (TieM.envOf intcs) (TieM.envOf intcs) key (treeOf (constructAst ins) (n + 3) (some (p, o))) :=
  TieM.fee_tie intcs _ (TieM.arity_constructAst ins) key n p o

/-- the block-level constraint of this analysis is computed by the Python's own `_block_level_constraints`, translated on this
    run (instance of `TieF.block_tie`; edge constraints and transfer functions: `C01_tie_constraints`, `C01_tie_transfer_functions`) -/
theorem C09_tie_block_constraint (intcs : Option (List Nat)) (b : FBlock) (key : Key) (n : Nat) :
    blockConstraint feeAnalysis intcs b key =
      Generated.blockLevelConstraints (TieM.envOf intcs) feeAnalysis.dom (feeAnalysis.univ key.base)
        (TieF.gaOf feeAnalysis intcs (constructAst b.ins) key (b.ins.length + 1)) (TieM.envOf intcs) key (TieF.fblockView b n) :=
  TieF.block_tie feeAnalysis intcs b key n

end Tealer.C09
