/-
  C06 — Per-block GroupSize/GroupIndex sets are sound and exact.
-/
import TealerModel.Props.TieFlow
import TealerModel.Props.Common
import TealerModel.Props.Tie
import TealerModel.Props.TieMatchers
import TealerModel.Lemmas.IntLeaf
namespace Tealer.C06

/-- tie to today's source (constants and tables imported from /repo on this run) -/
theorem C06_tie_source : Generated.sizesU = sizesU ∧ Generated.indicesU = indicesU ∧ Generated.MAX_GROUP_SIZE = MAX_GROUP_SIZE ∧
    Generated.intBaseKeys = groupIndicesAnalysis.baseKeys :=
  ⟨Tie.consts_tie.2.2.2.2.1, Tie.consts_tie.2.2.2.2.2.1, Tie.consts_tie.2.2.1, Tie.consts_tie.2.2.2.2.2.2.2.2.2.2.2.2.2⟩

/-- tie to today's source, operator table: the model's `assertedIntValues` is the function translated on this run from the
    Python AST of `_get_asserted_int_values`, on the two universal sets the analysis uses (and on any duplicate-free one) -/
theorem C06_tie_operator_table (c : Cmp) (n : Nat) :
    assertedIntValues c n sizesU = Generated.intAssertedValues c n Generated.sizesU ∧
    assertedIntValues c n indicesU = Generated.intAssertedValues c n Generated.indicesU := by
  rw [Tie.consts_tie.2.2.2.2.1, Tie.consts_tie.2.2.2.2.2.1]
  exact ⟨Tie.int_asserted_tie c n sizesU Tie.int_universes_nodup.1, Tie.int_asserted_tie c n indicesU Tie.int_universes_nodup.2⟩

/-- tie to today's source, lattice: group-size / group-index sets are joined and met with Python's `|` and `&` -/
theorem C06_tie_lattice (a b : NatSet) :
    groupIndicesAnalysis.dom.union a b = Generated.intUnion a b ∧ groupIndicesAnalysis.dom.inter a b = Generated.intInter a b :=
  ⟨(Tie.set_ops_tie a b).1, (Tie.set_ops_tie a b).2.1⟩

/-- leaf layer, field as first operand, all six operators, every constant: the true set lists exactly the
    values of the universe on which the comparison holds, the false set exactly the others -/
theorem C06_leaf_exact (c : Cmp) (n : Nat) (U : NatSet) (v : Nat) (hv : v ∈ U) :
    (v ∈ OSet.ofList (assertedIntValues c n U) ↔ c.eval v n = true) ∧
    (v ∈ OSet.diff U (OSet.ofList (assertedIntValues c n U)) ↔ c.eval v n = false) :=
  ⟨IntSet.asserted_true_iff c n U v hv, IntSet.asserted_false_iff c n U v hv⟩

/-- set algebra is exact -/
theorem C06_union_exact (a b : NatSet) (v : Nat) : v ∈ OSet.union a b ↔ v ∈ a ∨ v ∈ b := OSet.mem_union v a b
theorem C06_inter_exact (a b : NatSet) (v : Nat) : v ∈ OSet.inter a b ↔ v ∈ a ∧ v ∈ b := OSet.mem_inter v a b

/-- an index is never listed without a larger size -/
theorem C06_coupling (sizes indices : NatSet) (i : Nat) (h : i ∈ storeIndices sizes indices) :
    ∃ s ∈ sizes, i < s := IntSet.storeIndices_coupling sizes indices i h

/-- the coupling step never removes the index of an actual execution -/
theorem C06_coupling_sound (sizes indices : NatSet) (size idx : Nat) (hs : size ∈ sizes) (hi : idx ∈ indices)
    (hlt : idx < size) : idx ∈ storeIndices sizes indices := IntSet.storeIndices_sound sizes indices size idx hs hi hlt

/-- flow layer -/
theorem C06_forward_sound (g : Graph) (univ : NatSet) (bc : Nat → NatSet) (pc : Nat → Nat → NatSet)
    (rout : List (Nat × NatSet)) (v : Nat) (tr : List Nat)
    (ht : Flow.FwdTrace g IntSet.gamma univ bc pc v tr)
    (hsol : ∀ b ∈ tr, getMap rout b [] = fwdF groupIndicesAnalysis g univ bc pc rout b) :
    ∀ i, i < tr.length → v ∈ getMap rout tr[i]! [] :=
  Flow.forward_sound groupIndicesLaws g univ bc pc rout v tr ht hsol

theorem C06_backward_sound (g : Graph) (ctx1 : Nat → NatSet) (lout : List (Nat × NatSet))
    (v : Nat) (tr : List Nat) (ht : Flow.BwdTrace g IntSet.gamma ctx1 v tr)
    (hleaf : ∀ b ∈ tr, g.isLeaf b = true → getMap lout b [] = ctx1 b)
    (hsol : ∀ b ∈ tr, getMap lout b [] = bwdF groupIndicesAnalysis g ctx1 lout b) :
    ∀ i, i < tr.length → v ∈ getMap lout tr[i]! [] :=
  Flow.backward_sound groupIndicesLaws g ctx1 lout v tr ht hleaf hsol

/-- the either-operand-order leaf statement is FALSE on the current code (known finding F02: a constant-first
    ordered comparison is read as if the field were the first operand; tests/transaction_context/test_group_indices.py
    pins that reading): `int 2; global GroupSize; <`, i.e. 2 < size, holds for size 16 but the true set is {1} -/
def C06_leaf_full : Prop :=
  ∀ (c : Cmp) (n v : Nat), v ∈ sizesU → (c.eval n v = true → v ∈ OSet.ofList (assertedIntValues c n sizesU))

theorem C06_leaf_full_false : ¬ C06_leaf_full := by
  intro h
  have := h .lt 2 16 (by decide) (by decide)
  revert this; decide

/-- what a mirrored reading would give: exact for the constant-first order as well (the repair that the pinned
    tests rule out) -/
theorem C06_leaf_exact_if_mirrored (c : Cmp) (n : Nat) (U : NatSet) (v : Nat) (hv : v ∈ U) :
    (v ∈ OSet.ofList (assertedIntValues c.mirror n U) ↔ c.eval n v = true) ∧
    (v ∈ OSet.diff U (OSet.ofList (assertedIntValues c.mirror n U)) ↔ c.eval n v = false) := by
  have h1 := IntSet.asserted_true_iff c.mirror n U v hv
  have h2 := IntSet.asserted_false_iff c.mirror n U v hv
  rw [Cmp.mirror_eval] at h1 h2
  exact ⟨h1, h2⟩

example : (16 : Nat) ∈ sizesU ∧ Cmp.le.eval 16 16 = true := by decide

/-- THE GROUP-SIZE LEAF AGAINST THE CONCRETE SEMANTICS.  In a straight run of a block, a comparison instruction whose
    reconstructed operands are the outputs of `global GroupSize` and of `int n` pushes a non-zero value exactly when
    `size op n` holds for the size of the group being approved; hence (`C06_leaf_exact`) that size is in the true set of the
    operator table when the pushed value is non-zero and in the false set when it is zero. -/
theorem C06_leaf_concrete (prog : List Ins) (e : Avm.Env) (blockIns : List Ins) (pc0 : Nat) (st : Nat → Avm.State) (k : Nat)
    (hrun : OperandValues.BlockRun prog e blockIns pc0 k st) (valOf : Nat × Nat → Avm.Val)
    (hout : ∀ j, j < k → ∀ i, i < (blockIns[j]!).op.pushes →
      (st (j + 1)).stack[(st j).stack.length - (blockIns[j]!).op.pops + i]? = some (valOf (j, i)))
    (hargs : ∀ j, j < k → List.Forall₂ (OperandValues.Agree valOf) (OperandValues.argsAt blockIns j)
      ((st j).stack.drop ((st j).stack.length - (blockIns[j]!).op.pops)))
    (p p1 p2 : Nat) (c : Cmp) (n : Nat) (hp : p < k) (hp1 : p1 < k) (hp2 : p2 < k)
    (hopp : (blockIns[p]!).op = .cmp c) (hop1 : (blockIns[p1]!).op = .global "GroupSize")
    (hop2 : (blockIns[p2]!).op = .int (.lit n))
    (hargsp : OperandValues.argsAt blockIns p = [some (p1, 0), some (p2, 0)]) (hsize : e.size ∈ sizesU) :
    (EvalRun.truthy (valOf (p, 0)) = true → e.size ∈ OSet.ofList (assertedIntValues c n sizesU)) ∧
    (EvalRun.truthy (valOf (p, 0)) = false → e.size ∈ OSet.diff sizesU (OSet.ofList (assertedIntValues c n sizesU))) := by
  have h := IntLeaf.size_leaf prog e blockIns pc0 st k hrun valOf hout hargs p p1 p2 c n hp hp1 hp2 hopp hop1 hop2 hargsp
  rw [h]
  exact ⟨(IntSet.asserted_true_iff c n sizesU e.size hsize).mpr, (IntSet.asserted_false_iff c n sizesU e.size hsize).mpr⟩

/-- the tool's leaf matcher on the direct check `global GroupSize; int n; op` returns exactly the operator table's true set
    and its complement in the universe — the sets `C06_leaf_concrete` places the concrete group size in -/
theorem C06_leaf_matcher_direct (ic : Option (List Nat)) (a : Ast) (p p1 p2 o1 o2 : Nat) (c : Cmp) (n : Nat)
    (hp : a.opOf p = .cmp c) (hargs : a.argsOf p = [some (p1, o1), some (p2, o2)])
    (h1 : a.opOf p1 = .global "GroupSize") (h2 : a.opOf p2 = .int (.lit n)) :
    intSingle ic a ⟨"GroupSize", .self⟩ p =
      (OSet.ofList (assertedIntValues c n sizesU), OSet.diff sizesU (OSet.ofList (assertedIntValues c n sizesU))) := by
  have := IntLeaf.intSingle_direct ic a p p1 p2 o1 o2 c n hp hargs h1 h2
  simpa [intUniv] using this

/-- THE MATCHER IS THE PYTHON'S.  `_get_asserted_groupsizes` and `_get_asserted_groupindices`, translated statement by
    statement from /repo's Python on this run (with `is_int_push_ins` translated too), compute exactly the model's
    `intSingle` on the stack value the Python holds (`treeOf`), for every block and every instruction of it -/
theorem C06_tie_matchers (intcs : Option (List Nat)) (ins : List Ins) (kind : KeyKind) (n p o : Nat) :
    intSingle intcs (constructAst ins) ⟨"GroupSize", kind⟩ p =
        Generated.getAssertedGroupsizes (TieM.envOf intcs) (TieM.envOf intcs) (treeOf (constructAst ins) (n + 1) (some (p, o))) ∧
      ∀ base, base ≠ "GroupSize" → intSingle intcs (constructAst ins) ⟨base, kind⟩ p =
        Generated.getAssertedGroupindices (TieM.envOf intcs) (TieM.envOf intcs) (treeOf (constructAst ins) (n + 1) (some (p, o))) :=
  ⟨TieM.groupsizes_tie intcs _ (TieM.arity_constructAst ins) kind n p o,
   fun base hb => TieM.groupindices_tie intcs _ (TieM.arity_constructAst ins) base hb kind n p o⟩

/-- the block-level constraint of this analysis is computed by the Python's own `_block_level_constraints`, translated on this
    run (instance of `TieF.block_tie`; edge constraints and transfer functions: `C01_tie_constraints`, `C01_tie_transfer_functions`) -/
theorem C06_tie_block_constraint (intcs : Option (List Nat)) (b : FBlock) (key : Key) (n : Nat) :
    blockConstraint groupIndicesAnalysis intcs b key =
      Generated.blockLevelConstraints (TieM.envOf intcs) groupIndicesAnalysis.dom (groupIndicesAnalysis.univ key.base)
        (TieF.gaOf groupIndicesAnalysis intcs (constructAst b.ins) key (b.ins.length + 1)) (TieM.envOf intcs) key (TieF.fblockView b n) :=
  TieF.block_tie groupIndicesAnalysis intcs b key n

end Tealer.C06
