/-
  C20 — The regex engine reports exactly the reachable occurrences.
  Proved on the model of _find_instructions: every reported match starts at an instruction that is reachable from the
  start label and at which the pattern matches, and lists the matched instructions in order; every instruction the
  search visits is reachable.  Completeness of the match set and the `covered` set are decided on every run by an
  independent reachability closure (harness/regexcheck.py); `covered` is known to be incomplete at joins (F23).
-/
import TealerModel.Regex
namespace Tealer.C20
open Tealer.Regex

/-- invariant: everything recorded so far is justified -/
def Good (g : IG) (plen s : Nat) (st : St) : Prop :=
  (∀ v ∈ st.visited, Reach g s v) ∧
  (∀ m ∈ st.matches_, ∃ c, Reach g s c ∧ isMatch g plen 0 (some c) = true ∧ m = matchList g (plen - 1) c) ∧
  (∀ c ∈ st.covered, Reach g s c)

theorem find_good (g : IG) (plen s : Nat) : ∀ fuel cur st, Reach g s cur → Good g plen s st →
    Good g plen s (find g plen fuel cur st).2 := by
  intro fuel
  induction fuel with
  | zero => intro cur st _ h; simpa [find] using h
  | succ n ih =>
    intro cur st hr hg
    unfold find
    split
    · exact hg
    · simp only []
      -- state after recording the visit and the possible match
      have hg1 : Good g plen s (if isMatch g plen 0 (some cur) = true then
          { visited := cur :: st.visited, matches_ := st.matches_ ++ [matchList g (plen - 1) cur], covered := st.covered }
          else { visited := cur :: st.visited, matches_ := st.matches_, covered := st.covered }) := by
        obtain ⟨hv, hm, hc⟩ := hg
        split
        · rename_i hit
          refine ⟨?_, ?_, hc⟩
          · intro v hv'; simp at hv'; rcases hv' with rfl | h; exact hr; exact hv v h
          · intro m hm'; simp at hm'
            rcases hm' with h | rfl
            · exact hm m h
            · exact ⟨cur, hr, hit, rfl⟩
        · refine ⟨?_, hm, hc⟩
          intro v hv'; simp at hv'; rcases hv' with rfl | h; exact hr; exact hv v h
      -- the fold over the successors preserves the invariant
      have key : ∀ (nxs : List Nat) (acc : Bool × St), (∀ x ∈ nxs, x ∈ g.next cur) → Good g plen s acc.2 →
          Good g plen s (nxs.foldl (fun (acc : Bool × St) nx =>
            if acc.2.covered.contains nx then acc else
            let (r, st') := find g plen n nx acc.2
            if r then (true, { st' with covered := cur :: st'.covered }) else (acc.1, st')) acc).2 := by
        intro nxs
        induction nxs with
        | nil => intro acc _ h; simpa using h
        | cons x xs ihx =>
          intro acc hsub h
          simp only [List.foldl_cons]
          apply ihx
          · intro y hy; exact hsub y (List.mem_cons_of_mem _ hy)
          · split
            · exact h
            · have hx : Reach g s x := Reach.step cur x hr (hsub x (by simp))
              have := ih x acc.2 hx h
              split
              · obtain ⟨hv, hm, hc⟩ := this
                refine ⟨hv, hm, ?_⟩
                intro c hc'; simp at hc'; rcases hc' with rfl | h'; exact hr; exact hc c h'
              · exact this
      split
      · rename_i hit
        have := key (g.next cur) (true, { visited := cur :: st.visited, matches_ := st.matches_ ++ [matchList g (plen - 1) cur], covered := st.covered })
          (fun _ h => h) (by simpa [hit] using hg1)
        simpa [hit] using this
      · rename_i hit
        have hit' : isMatch g plen 0 (some cur) = false := by simpa using hit
        have := key (g.next cur) (false, { visited := cur :: st.visited, matches_ := st.matches_, covered := st.covered })
          (fun _ h => h) (by simpa [hit'] using hg1)
        simpa [hit'] using this

/-- every reported match starts at an instruction reachable from the start label at which the pattern matches
    (consecutively, in straight-line code), and lists those instructions in order; every covered instruction is
    reachable from the label -/
theorem C20_sound (g : IG) (plen n start : Nat) :
    (∀ m ∈ (matchRegex g plen n start).1, ∃ c, Reach g start c ∧ isMatch g plen 0 (some c) = true ∧ m = matchList g (plen - 1) c) ∧
    (∀ c ∈ (matchRegex g plen n start).2, Reach g start c) := by
  have := find_good g plen start (n + 1) start {} Reach.refl ⟨by simp, by simp, by simp⟩
  unfold matchRegex
  exact ⟨this.2.1, this.2.2⟩

/-- a match of a pattern of length k lists k instructions when the successor chain exists -/
theorem C20_match_head (g : IG) (k c : Nat) : (matchList g k c).head? = some c := by
  cases k <;> simp [matchList]

example : isMatch { next := fun _ => [], same := fun _ _ => true } 1 0 (some 0) = true := by decide

end Tealer.C20

namespace Tealer.C20
open Tealer.Regex

/-- invariant of the search used for completeness; `G` = the instructions whose successor loop is still running -/
structure Inv (g : IG) (plen n : Nat) (G : Nat → Prop) (st : St) : Prop where
  nodup : st.visited.Nodup
  bound : ∀ v ∈ st.visited, v < n
  cov : ∀ c ∈ st.covered, c ∈ st.visited
  recd : ∀ v ∈ st.visited, isMatch g plen 0 (some v) = true → matchList g (plen - 1) v ∈ st.matches_
  closed : ∀ v ∈ st.visited, ¬ G v → ∀ w ∈ g.next v, w ∈ st.visited

theorem length_le_of_nodup_bound (l : List Nat) (n : Nat) (hn : l.Nodup) (hb : ∀ x ∈ l, x < n) : l.length ≤ n := by
  induction n generalizing l with
  | zero =>
    cases l with
    | nil => simp
    | cons a t => exact absurd (hb a (by simp)) (by omega)
  | succ k ih =>
    -- remove `k` from the list
    have h1 : (l.erase k).Nodup := hn.erase k
    have h2 : ∀ x ∈ l.erase k, x < k := by
      intro x hx
      have hxl : x ∈ l := List.mem_of_mem_erase hx
      have hne : x ≠ k := by
        intro e; subst e
        exact (List.Nodup.mem_erase_iff hn).mp hx |>.1 rfl
      have := hb x hxl
      omega
    have := ih (l.erase k) h1 h2
    have hlen : l.length ≤ (l.erase k).length + 1 := by
      by_cases hk : k ∈ l
      · rw [List.length_erase_of_mem hk]; omega
      · rw [List.erase_of_not_mem hk]; omega
    omega

theorem find_complete (g : IG) (plen n : Nat) (hb : ∀ a, a < n → ∀ b ∈ g.next a, b < n) :
    ∀ fuel cur st (G : Nat → Prop), cur < n → Inv g plen n G st → n + 1 ≤ fuel + st.visited.length →
      Inv g plen n G (find g plen fuel cur st).2 ∧ cur ∈ (find g plen fuel cur st).2.visited ∧
      (∀ v ∈ st.visited, v ∈ (find g plen fuel cur st).2.visited) ∧
      (∀ m ∈ st.matches_, m ∈ (find g plen fuel cur st).2.matches_) := by
  intro fuel
  induction fuel with
  | zero =>
    intro cur st G hc hinv hf
    exfalso
    have := length_le_of_nodup_bound st.visited n hinv.nodup hinv.bound
    omega
  | succ f ih =>
    intro cur st G hc hinv hf
    unfold find
    split
    · rename_i hvis
      exact ⟨hinv, by simpa using hvis, fun _ h => h, fun _ h => h⟩
    · rename_i hvis
      have hcur : cur ∉ st.visited := by simpa using hvis
      simp only []
      -- the state after recording the visit and the possible match
      let st1 : St := if isMatch g plen 0 (some cur) = true then
          { visited := cur :: st.visited, matches_ := st.matches_ ++ [matchList g (plen - 1) cur], covered := st.covered }
          else { visited := cur :: st.visited, matches_ := st.matches_, covered := st.covered }
      have hv1 : st1.visited = cur :: st.visited := by simp only [st1]; split <;> rfl
      have hc1 : st1.covered = st.covered := by simp only [st1]; split <;> rfl
      have hm1 : ∀ m ∈ st.matches_, m ∈ st1.matches_ := by
        intro m hm; simp only [st1]; split
        · simp [hm]
        · exact hm
      have hinv1 : Inv g plen n (fun x => G x ∨ x = cur) st1 := by
        refine ⟨?_, ?_, ?_, ?_, ?_⟩
        · rw [hv1]; exact List.nodup_cons.mpr ⟨hcur, hinv.nodup⟩
        · intro v hv; rw [hv1] at hv
          rcases List.mem_cons.mp hv with rfl | h; exact hc; exact hinv.bound v h
        · intro c hc'; rw [hc1] at hc'; rw [hv1]; exact List.mem_cons_of_mem _ (hinv.cov c hc')
        · intro v hv hmatch; rw [hv1] at hv
          rcases List.mem_cons.mp hv with rfl | h
          · simp only [st1, hmatch, if_true]; simp
          · exact hm1 _ (hinv.recd v h hmatch)
        · intro v hv hG w hw; rw [hv1] at hv ⊢
          rcases List.mem_cons.mp hv with rfl | h
          · exact absurd (Or.inr rfl) hG
          · exact List.mem_cons_of_mem _ (hinv.closed v h (fun hg => hG (Or.inl hg)) w hw)
      -- the loop over the successors
      have key : ∀ (nxs : List Nat) (acc : Bool × St), (∀ x ∈ nxs, x ∈ g.next cur) →
          Inv g plen n (fun x => G x ∨ x = cur) acc.2 → (∀ v ∈ st1.visited, v ∈ acc.2.visited) →
          (∀ m ∈ st1.matches_, m ∈ acc.2.matches_) →
          let res := nxs.foldl (fun (acc : Bool × St) nx =>
            if acc.2.covered.contains nx then acc else
            let (r, st') := find g plen f nx acc.2
            if r then (true, { st' with covered := cur :: st'.covered }) else (acc.1, st')) acc
          Inv g plen n (fun x => G x ∨ x = cur) res.2 ∧ (∀ v ∈ acc.2.visited, v ∈ res.2.visited) ∧
            (∀ m ∈ acc.2.matches_, m ∈ res.2.matches_) ∧ (∀ x ∈ nxs, x ∈ res.2.visited) := by
        intro nxs
        induction nxs with
        | nil => intro acc _ h _ _; exact ⟨h, fun _ h => h, fun _ h => h, fun _ h => by cases h⟩
        | cons x xs ihx =>
          intro acc hsub hacc hsup hmsup
          simp only [List.foldl_cons]
          have hxn : x < n := hb cur hc x (hsub x (by simp))
          -- one step
          have hstep : ∃ acc' : Bool × St,
              (if acc.2.covered.contains x then acc else
                let (r, st') := find g plen f x acc.2
                if r then (true, { st' with covered := cur :: st'.covered }) else (acc.1, st')) = acc' ∧
              Inv g plen n (fun x => G x ∨ x = cur) acc'.2 ∧ (∀ v ∈ acc.2.visited, v ∈ acc'.2.visited) ∧
              (∀ m ∈ acc.2.matches_, m ∈ acc'.2.matches_) ∧ x ∈ acc'.2.visited := by
            split
            · rename_i hcov
              exact ⟨acc, rfl, hacc, fun _ h => h, fun _ h => h, hacc.cov x (by simpa using hcov)⟩
            · have hfuel : n + 1 ≤ f + acc.2.visited.length := by
                have h1 : (cur :: st.visited).length ≤ acc.2.visited.length := by
                  have hnd : (cur :: st.visited).Nodup := List.nodup_cons.mpr ⟨hcur, hinv.nodup⟩
                  have hsub' : (cur :: st.visited) ⊆ acc.2.visited := by
                    intro v hv; exact hsup v (by rw [hv1]; exact hv)
                  -- a duplicate-free list included in another is not longer
                  have : ∀ (l1 l2 : List Nat), l1.Nodup → l1 ⊆ l2 → l1.length ≤ l2.length := by
                    intro l1
                    induction l1 with
                    | nil => intro _ _ _; simp
                    | cons a t iht =>
                      intro l2 hnd hs
                      have ha : a ∈ l2 := hs (by simp)
                      have := iht (l2.erase a) (List.nodup_cons.mp hnd).2 (by
                        intro y hy
                        have hya : y ≠ a := by intro e; subst e; exact (List.nodup_cons.mp hnd).1 hy
                        exact (List.mem_erase_of_ne hya).mpr (hs (List.mem_cons_of_mem _ hy)))
                      rw [List.length_erase_of_mem ha] at this
                      have hpos : 0 < l2.length := List.length_pos_of_mem ha
                      simp only [List.length_cons]; omega
                  exact this _ _ hnd hsub'
                simp only [List.length_cons] at h1
                omega
              obtain ⟨hi, hx, hsv, hsm⟩ := ih x acc.2 (fun y => G y ∨ y = cur) hxn hacc hfuel
              generalize hfx : find g plen f x acc.2 = res at hi hx hsv hsm
              obtain ⟨r, st'⟩ := res
              simp only []
              split
              · refine ⟨_, rfl, ?_, hsv, hsm, hx⟩
                refine ⟨hi.nodup, hi.bound, ?_, hi.recd, hi.closed⟩
                intro c hc'
                simp only [List.mem_cons] at hc'
                rcases hc' with rfl | h
                · exact hsv c (hsup c (by rw [hv1]; simp))
                · exact hi.cov c h
              · exact ⟨_, rfl, hi, hsv, hsm, hx⟩
          obtain ⟨acc', heq, hi', hsv', hsm', hx'⟩ := hstep
          rw [heq]
          obtain ⟨r1, r2, r3, r4⟩ := ihx acc' (fun y hy => hsub y (List.mem_cons_of_mem _ hy)) hi'
            (fun v hv => hsv' v (hsup v hv)) (fun m hm => hsm' m (hmsup m hm))
          refine ⟨r1, fun v hv => r2 v (hsv' v hv), fun m hm => r3 m (hsm' m hm), ?_⟩
          intro y hy
          rcases List.mem_cons.mp hy with rfl | h
          · exact r2 y hx'
          · exact r4 y h
      -- put the pieces together
      have hfin : ∀ (hit : Bool), hit = isMatch g plen 0 (some cur) →
          let res := (g.next cur).foldl (fun (acc : Bool × St) nx =>
            if acc.2.covered.contains nx then acc else
            let (r, st') := find g plen f nx acc.2
            if r then (true, { st' with covered := cur :: st'.covered }) else (acc.1, st')) (hit, st1)
          Inv g plen n G res.2 ∧ cur ∈ res.2.visited ∧ (∀ v ∈ st.visited, v ∈ res.2.visited) ∧
            (∀ m ∈ st.matches_, m ∈ res.2.matches_) := by
        intro hit _
        obtain ⟨r1, r2, r3, r4⟩ := key (g.next cur) (hit, st1) (fun _ h => h) hinv1 (fun _ h => h) (fun _ h => h)
        refine ⟨?_, r2 cur (by rw [hv1]; simp), fun v hv => r2 v (by rw [hv1]; simp [hv]), fun m hm => r3 m (hm1 m hm)⟩
        refine ⟨r1.nodup, r1.bound, r1.cov, r1.recd, ?_⟩
        intro v hv hG w hw
        by_cases hvc : v = cur
        · subst hvc; exact r4 w hw
        · exact r1.closed v hv (fun h => h.elim hG hvc) w hw
      by_cases hit : isMatch g plen 0 (some cur) = true
      · have := hfin true hit.symm
        simp only [st1, hit, if_true] at this
        simpa [hit] using this
      · have hit' : isMatch g plen 0 (some cur) = false := by simpa using hit
        have := hfin false hit'.symm
        simp only [st1, hit'] at this
        simpa [hit'] using this

/-- COMPLETENESS OF THE MATCH SET: if the instructions reachable from the start label are among the `n` instruction
    positions, every reachable instruction at which the pattern occurs (consecutively, in straight-line code) is reported,
    with its instruction list.  With `C20_sound`: a match is reported at an instruction iff it is reachable and the pattern
    occurs there.  (The `n + 1` fuel the model gives the search is shown sufficient here.) -/
theorem C20_complete (g : IG) (plen n start : Nat) (hs : start < n) (hb : ∀ a, a < n → ∀ b ∈ g.next a, b < n)
    (c : Nat) (hr : Reach g start c) (hm : isMatch g plen 0 (some c) = true) :
    matchList g (plen - 1) c ∈ (matchRegex g plen n start).1 := by
  have h0 : Inv g plen n (fun _ => False) ({} : St) :=
    { nodup := List.nodup_nil
      bound := fun v hv => nomatch hv
      cov := fun v hv => nomatch hv
      recd := fun v hv => nomatch hv
      closed := fun v hv => nomatch hv }
  obtain ⟨hinv, hstart, _, _⟩ := find_complete g plen n hb (n + 1) start {} (fun _ => False) hs h0 (by simp)
  have hall : ∀ x, Reach g start x → x ∈ (find g plen (n + 1) start {}).2.visited := by
    intro x hx
    induction hx with
    | refl => exact hstart
    | step a b _ hab ih => exact hinv.closed a ih (fun h => h) b hab
  unfold matchRegex
  exact hinv.recd c (hall c hr) hm

/-- reported ⇔ reachable occurrence -/
theorem C20_exact (g : IG) (plen n start : Nat) (hs : start < n) (hb : ∀ a, a < n → ∀ b ∈ g.next a, b < n) (m : List Nat) :
    m ∈ (matchRegex g plen n start).1 ↔
      ∃ c, Reach g start c ∧ isMatch g plen 0 (some c) = true ∧ m = matchList g (plen - 1) c := by
  constructor
  · exact (C20_sound g plen n start).1 m
  · rintro ⟨c, hr, hm, rfl⟩
    exact C20_complete g plen n start hs hb c hr hm

end Tealer.C20

namespace Tealer.C20
open Tealer.Regex
/-- the hypotheses of `C20_exact` on a concrete graph with a loop (0 → 1 → {2, 0}): the one occurrence is reported -/
example :
    let g : IG := { next := fun c => if c == 0 then [1] else if c == 1 then [2, 0] else [], same := fun c k => c == 2 && k == 0 }
    (matchRegex g 1 3 0).1 = [[2]] ∧ (0 < 3) ∧ (List.range 3).all (fun a => (g.next a).all (· < 3)) = true := by decide
end Tealer.C20
