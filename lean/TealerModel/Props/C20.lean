/-
  C20 — The regex engine reports exactly the reachable occurrences.
  Proved on the model of _find_instructions: every reported match starts at an instruction that is reachable from the
  start label and at which the pattern matches, and lists the matched instructions in order; every instruction the
  search visits is reachable.  Completeness of the match set and the `covered` set are decided on every run by an
  independent reachability closure (harness/regexcheck.py); `covered` is known to be incomplete at joins (F23).
-/
import TealerModel.Regex
namespace Tealer.C20
open Tealer.Regex

/-- invariant: everything recorded so far is justified -/
def Good (g : IG) (plen s : Nat) (st : St) : Prop :=
  (∀ v ∈ st.visited, Reach g s v) ∧
  (∀ m ∈ st.matches_, ∃ c, Reach g s c ∧ isMatch g plen 0 (some c) = true ∧ m = matchList g (plen - 1) c) ∧
  (∀ c ∈ st.covered, Reach g s c)

theorem find_good (g : IG) (plen s : Nat) : ∀ fuel cur st, Reach g s cur → Good g plen s st →
    Good g plen s (find g plen fuel cur st).2 := by
  intro fuel
  induction fuel with
  | zero => intro cur st _ h; simpa [find] using h
  | succ n ih =>
    intro cur st hr hg
    unfold find
    split
    · exact hg
    · simp only []
      -- state after recording the visit and the possible match
      have hg1 : Good g plen s (if isMatch g plen 0 (some cur) = true then
          { visited := cur :: st.visited, matches_ := st.matches_ ++ [matchList g (plen - 1) cur], covered := st.covered }
          else { visited := cur :: st.visited, matches_ := st.matches_, covered := st.covered }) := by
        obtain ⟨hv, hm, hc⟩ := hg
        split
        · rename_i hit
          refine ⟨?_, ?_, hc⟩
          · intro v hv'; simp at hv'; rcases hv' with rfl | h; exact hr; exact hv v h
          · intro m hm'; simp at hm'
            rcases hm' with h | rfl
            · exact hm m h
            · exact ⟨cur, hr, hit, rfl⟩
        · refine ⟨?_, hm, hc⟩
          intro v hv'; simp at hv'; rcases hv' with rfl | h; exact hr; exact hv v h
      -- the fold over the successors preserves the invariant
      have key : ∀ (nxs : List Nat) (acc : Bool × St), (∀ x ∈ nxs, x ∈ g.next cur) → Good g plen s acc.2 →
          Good g plen s (nxs.foldl (fun (acc : Bool × St) nx =>
            if acc.2.covered.contains nx then acc else
            let (r, st') := find g plen n nx acc.2
            if r then (true, { st' with covered := cur :: st'.covered }) else (acc.1, st')) acc).2 := by
        intro nxs
        induction nxs with
        | nil => intro acc _ h; simpa using h
        | cons x xs ihx =>
          intro acc hsub h
          simp only [List.foldl_cons]
          apply ihx
          · intro y hy; exact hsub y (List.mem_cons_of_mem _ hy)
          · split
            · exact h
            · have hx : Reach g s x := Reach.step cur x hr (hsub x (by simp))
              have := ih x acc.2 hx h
              split
              · obtain ⟨hv, hm, hc⟩ := this
                refine ⟨hv, hm, ?_⟩
                intro c hc'; simp at hc'; rcases hc' with rfl | h'; exact hr; exact hc c h'
              · exact this
      split
      · rename_i hit
        have := key (g.next cur) (true, { visited := cur :: st.visited, matches_ := st.matches_ ++ [matchList g (plen - 1) cur], covered := st.covered })
          (fun _ h => h) (by simpa [hit] using hg1)
        simpa [hit] using this
      · rename_i hit
        have hit' : isMatch g plen 0 (some cur) = false := by simpa using hit
        have := key (g.next cur) (false, { visited := cur :: st.visited, matches_ := st.matches_, covered := st.covered })
          (fun _ h => h) (by simpa [hit'] using hg1)
        simpa [hit'] using this

/-- every reported match starts at an instruction reachable from the start label at which the pattern matches
    (consecutively, in straight-line code), and lists those instructions in order; every covered instruction is
    reachable from the label -/
theorem C20_sound (g : IG) (plen n start : Nat) :
    (∀ m ∈ (matchRegex g plen n start).1, ∃ c, Reach g start c ∧ isMatch g plen 0 (some c) = true ∧ m = matchList g (plen - 1) c) ∧
    (∀ c ∈ (matchRegex g plen n start).2, Reach g start c) := by
  have := find_good g plen start (n + 1) start {} Reach.refl ⟨by simp, by simp, by simp⟩
  unfold matchRegex
  exact ⟨this.2.1, this.2.2⟩

/-- a match of a pattern of length k lists k instructions when the successor chain exists -/
theorem C20_match_head (g : IG) (k c : Nat) : (matchList g k c).head? = some c := by
  cases k <;> simp [matchList]

example : isMatch { next := fun _ => [], same := fun _ _ => true } 1 0 (some 0) = true := by decide

end Tealer.C20
