/-
  Tie between the hand-written model and the definitions REGENERATED from /repo's Python source on every run
  (Generated/Leaf.lean: translated from the AST; Generated/Consts.lean: read from the imported modules).
  If the Python of a leaf function or a constant changes meaning, these theorems stop checking.
-/
import TealerModel.Generated.Leaf
import TealerModel.Generated.Consts
import TealerModel.Dom
namespace Tealer.Tie

def toG (v : FeeValue) : Generated.GFeeValue := { isUnknown := v.isUnknown, value := v.value }

theorem fee_union_tie (a b : FeeValue) : toG (feeUnion a b) = Generated.feeUnion (toG a) (toG b) := by
  cases a with | mk au av => cases b with | mk bu bv =>
  cases au <;> cases bu <;>
    simp [toG, feeUnion, Generated.feeUnion, Generated.MAX_TRANSACTION_COST, MAX_TRANSACTION_COST] <;>
    grind

theorem fee_inter_tie (a b : FeeValue) : toG (feeInter a b) = Generated.feeInter (toG a) (toG b) := by
  cases a with | mk au av => cases b with | mk bu bv =>
  cases au <;> cases bu <;>
    simp [toG, feeInter, Generated.feeInter, Generated.MAX_TRANSACTION_COST, MAX_TRANSACTION_COST] <;>
    grind

theorem fee_table_tie (c : Cmp) (v : FeeValue) :
    (toG (feeAssertedMax c v).1, toG (feeAssertedMax c v).2) = Generated.feeAssertedMax c (toG v) := by
  cases v with | mk u x =>
  cases c <;> cases u <;>
    simp [toG, feeAssertedMax, Generated.feeAssertedMax, feeUniv, Generated.MAX_UINT64, MAX_UINT64]

theorem consts_tie :
    Generated.MAX_TRANSACTION_COST = MAX_TRANSACTION_COST ∧ Generated.MAX_UINT64 = MAX_UINT64 ∧
    Generated.MAX_GROUP_SIZE = MAX_GROUP_SIZE ∧ Generated.ZERO_ADDRESS = ZERO_ADDRESS ∧
    Generated.sizesU = sizesU ∧ Generated.indicesU = indicesU ∧
    OSet.ofList Generated.ALL_TRANSACTION_TYPES = ALL_TRANSACTION_TYPES ∧
    OSet.ofList Generated.txnTypeU = ALL_TRANSACTION_TYPES ∧
    OSet.ofList Generated.APPLICATION_TRANSACTION_TYPES = APPLICATION_TRANSACTION_TYPES ∧
    OSet.ofList Generated.TYPEENUM_TRANSACTION_TYPES = TYPEENUM_TRANSACTION_TYPES ∧
    Generated.addrMarkers = [ANY_ADDRESS, NO_ADDRESS, SOME_ADDRESS, CREATOR_ADDRESS] ∧
    Generated.addrBaseKeys = addrAnalysis.baseKeys ∧ Generated.feeBaseKeys = feeAnalysis.baseKeys ∧
    Generated.intBaseKeys = groupIndicesAnalysis.baseKeys := by
  decide +kernel

/-- the two name/number tables of teal_enums.py agree with the model's -/
theorem enum_tables_tie :
    (Generated.oncompletionTable.all fun (n, l) => oncompletionToType (.lit n) == some l) = true ∧
    (Generated.typeEnumTable.all fun (n, l) => typeToType (.lit n) == some l) = true ∧
    (Generated.oncompletionNames.all fun (n, l) => oncompletionToType (.named n) == some l) = true ∧
    (Generated.typeEnumNames.all fun (n, l) => typeToType (.named n) == some l) = true := by
  decide +kernel

end Tealer.Tie
