/-
  Tie between the hand-written model and the definitions REGENERATED from /repo's Python source on every run
  (Generated/Leaf.lean: translated from the AST; Generated/Consts.lean: read from the imported modules).
  If the Python of a leaf function or a constant changes meaning, these theorems stop checking.
-/
import TealerModel.Generated.Leaf
import TealerModel.Generated.Consts
import TealerModel.Dom
import TealerModel.PyView
namespace Tealer.Tie

def toG (v : FeeValue) : Generated.GFeeValue := { isUnknown := v.isUnknown, value := v.value }

theorem fee_union_tie (a b : FeeValue) : toG (feeUnion a b) = Generated.feeUnion (toG a) (toG b) := by
  cases a with | mk au av => cases b with | mk bu bv =>
  cases au <;> cases bu <;>
    simp [toG, feeUnion, Generated.feeUnion, Generated.MAX_TRANSACTION_COST, MAX_TRANSACTION_COST] <;>
    grind

theorem fee_inter_tie (a b : FeeValue) : toG (feeInter a b) = Generated.feeInter (toG a) (toG b) := by
  cases a with | mk au av => cases b with | mk bu bv =>
  cases au <;> cases bu <;>
    simp [toG, feeInter, Generated.feeInter, Generated.MAX_TRANSACTION_COST, MAX_TRANSACTION_COST] <;>
    grind

theorem fee_table_tie (c : Cmp) (v : FeeValue) :
    (toG (feeAssertedMax c v).1, toG (feeAssertedMax c v).2) = Generated.feeAssertedMax c (toG v) := by
  cases v with | mk u x =>
  cases c <;> cases u <;>
    simp [toG, feeAssertedMax, Generated.feeAssertedMax, feeUniv, Generated.MAX_UINT64, MAX_UINT64]

/-- `_get_asserted_int_values` as translated from the Python AST agrees with the model on every duplicate-free universal
    set (the Python removes the first occurrence of the compared value for `!=`; the model filters) -/
theorem int_asserted_tie (c : Cmp) (n : Nat) (U : List Nat) (hU : U.Nodup) :
    assertedIntValues c n U = Generated.intAssertedValues c n U := by
  cases c <;> simp only [assertedIntValues, Generated.intAssertedValues]
  case neq =>
    by_cases hm : n ∈ U
    · have : U.contains n = true := by simpa using hm
      simp only [this, if_true]
      rw [List.Nodup.erase_eq_filter hU]
      simp [bne]
    · have : U.contains n = false := by simpa using hm
      simp only [this]
      simp only [Bool.false_eq_true, if_false]
      apply List.filter_eq_self.mpr
      intro a ha
      simp only [bne_iff_ne, ne_eq]
      intro e; subst e; exact hm ha
  all_goals simp

/-- the universal sets the analysis passes to it are duplicate-free -/
theorem int_universes_nodup : sizesU.Nodup ∧ indicesU.Nodup := by decide +kernel

/-- the address lattice operations of the model are the functions translated on this run from AddrFields._union /
    _intersection (with its `_universal_set()` / `_null_set()` translated in place) -/
theorem addr_union_tie (a b : AddrSet) : addrUnion a b = Generated.addrUnion a b := by
  simp only [addrUnion, Generated.addrUnion, addrUniv, addrNull, OSet.ofList, List.foldr, OSet.insert]
  rfl

theorem addr_inter_tie (a b : AddrSet) : addrInter a b = Generated.addrInter a b := by
  simp only [addrInter, Generated.addrInter, addrUniv, addrNull, OSet.ofList, List.foldr, OSet.insert]
  rfl

/-- the integer-set and transaction-kind lattices use Python's `|` and `&` -/
theorem set_ops_tie (a b : NatSet) :
    natSetDomain.union a b = Generated.intUnion a b ∧ natSetDomain.inter a b = Generated.intInter a b ∧
    natSetDomain.union a b = Generated.txnTypeUnion a b ∧ natSetDomain.inter a b = Generated.txnTypeInter a b :=
  ⟨rfl, rfl, rfl, rfl⟩

/-- the address a comparison operand denotes: the model's `assertedAddress` is the function translated on this run from
    AddrFields._get_asserted_address (instruction classes mapped to the model's constructors) -/
theorem addr_asserted_tie (op : Op) (text : String) : assertedAddress op text = Generated.addrAsserted op text := by
  unfold assertedAddress Generated.addrAsserted
  by_cases h1 : op = .global "ZeroAddress"
  · subst h1; simp [addrNull, OSet.ofList, OSet.insert, Generated.NO_ADDRESS, NO_ADDRESS]
  · have h1' : (op == Op.global "ZeroAddress") = false := by simpa using h1
    simp only [h1']
    cases op with
    | addr a =>
      by_cases ha : a = ZERO_ADDRESS
      · subst ha; simp [addrNull, OSet.ofList, OSet.insert, Generated.NO_ADDRESS, NO_ADDRESS, Generated.ZERO_ADDRESS, ZERO_ADDRESS]
      · have : (a == Generated.ZERO_ADDRESS) = false := by simpa [Generated.ZERO_ADDRESS, ZERO_ADDRESS] using ha
        have h2 : (a == ZERO_ADDRESS) = false := by simpa using ha
        simp [this, h2, OSet.ofList, OSet.insert]
    | global f =>
      by_cases hf : f = "CreatorAddress"
      · subst hf; simp [OSet.ofList, OSet.insert, Generated.CREATOR_ADDRESS, CREATOR_ADDRESS]
      · have hz : ¬ f = "ZeroAddress" := by intro e; subst e; exact h1 rfl
        simp [hf, hz, OSet.ofList, OSet.insert, Generated.SOME_ADDRESS, SOME_ADDRESS]
    | _ => simp [OSet.ofList, OSet.insert, Generated.SOME_ADDRESS, SOME_ADDRESS]

theorem consts_tie :
    Generated.MAX_TRANSACTION_COST = MAX_TRANSACTION_COST ∧ Generated.MAX_UINT64 = MAX_UINT64 ∧
    Generated.MAX_GROUP_SIZE = MAX_GROUP_SIZE ∧ Generated.ZERO_ADDRESS = ZERO_ADDRESS ∧
    Generated.sizesU = sizesU ∧ Generated.indicesU = indicesU ∧
    OSet.ofList Generated.ALL_TRANSACTION_TYPES = ALL_TRANSACTION_TYPES ∧
    OSet.ofList Generated.txnTypeU = ALL_TRANSACTION_TYPES ∧
    OSet.ofList Generated.APPLICATION_TRANSACTION_TYPES = APPLICATION_TRANSACTION_TYPES ∧
    OSet.ofList Generated.TYPEENUM_TRANSACTION_TYPES = TYPEENUM_TRANSACTION_TYPES ∧
    Generated.addrMarkers = [ANY_ADDRESS, NO_ADDRESS, SOME_ADDRESS, CREATOR_ADDRESS] ∧
    Generated.addrBaseKeys = addrAnalysis.baseKeys ∧ Generated.feeBaseKeys = feeAnalysis.baseKeys ∧
    Generated.intBaseKeys = groupIndicesAnalysis.baseKeys := by
  decide +kernel

/-- the two name/number tables of teal_enums.py agree with the model's -/
theorem enum_tables_tie :
    (Generated.oncompletionTable.all fun (n, l) => oncompletionToType (.lit n) == some l) = true ∧
    (Generated.typeEnumTable.all fun (n, l) => typeToType (.lit n) == some l) = true ∧
    (Generated.oncompletionNames.all fun (n, l) => oncompletionToType (.named n) == some l) = true ∧
    (Generated.typeEnumNames.all fun (n, l) => typeToType (.named n) == some l) = true := by
  decide +kernel

/-- THE VIEWS READ `isinstance` RIGHT: the sub-class table of the instruction and field classes the analyses test with
    `isinstance`, read from /repo's modules on this run, is the specification's (every class stands alone but `IntcInstruction`).
    A class made a subclass of `Txn` / `Gtxn` / a governed field class - so that the analyses take its reads for reads of the
    governed transaction - changes the table and this stops checking. -/
theorem class_hierarchy_tie : Generated.classHierarchy = PyView.classHierarchySpec := by
  decide +kernel

end Tealer.Tie
