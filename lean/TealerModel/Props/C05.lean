/-
  C05 — Subroutine, call-site and return-point structure is faithful.
-/
import TealerModel.Function
import TealerModel.Lemmas.ParseSubs
namespace Tealer.C05
open Tealer.Reach Tealer.ParseSubs

/-- the labels targeted by callsub instructions, and only those, are subroutines (names of the subroutine table) -/
theorem C05_subs_are_callsub_targets (ins : List Ins) (l : String) :
    l ∈ (callsubTable ins).map (·.1) ↔ ∃ i ∈ ins, i.op = .callsub l := by
  simp only [callsubTable, callsubLabels, List.map_map, Function.comp_def, List.map_id', List.mem_eraseDups,
    List.mem_filterMap]
  constructor
  · rintro ⟨i, hi, h⟩
    refine ⟨i, hi, ?_⟩
    split at h <;> simp_all
  · rintro ⟨i, hi, h⟩
    exact ⟨i, hi, by simp [h]⟩

/-- a callsub block knows the block where execution resumes: the first (only) successor, none if it has none -/
theorem C05_return_point (b : FBlock) : b.retPoint = b.next.head? := rfl

/-- A SUBROUTINE'S BLOCKS ARE THOSE REACHABLE FROM ITS ENTRY WITHOUT FOLLOWING CALLS.  For every program the model's
    `parseTeal` accepts: the graph `bs` of passes 3-4 is well-formed, `__main__` is exactly the closure of block 0 under
    its successor edges, every subroutine is exactly the closure of its entry block, and no block is listed twice.  (A
    `callsub` block's only successor edge is its return point, so the closure does not enter callees.)  The loop's fuel
    — number of blocks + 1 — is shown sufficient inside `Reach.go_spec`. -/
theorem C05_blocks_are_closure (ins : List Ins) (t : Teal) (h : parseTeal ins = .ok t) :
    ∃ nexts bs, insNext ins = .ok nexts ∧ graphOf ins nexts = .ok bs ∧ WF bs ∧
      ((∀ x, x ∈ t.main.blocks ↔ Reach bs 0 x) ∧ t.main.blocks.Nodup ∧ t.main.entry = 0) ∧
      (∀ s ∈ t.subs, (∀ x, x ∈ s.blocks ↔ Reach bs s.entry x) ∧ s.blocks.Nodup ∧ s.entry < bs.length) :=
  parse_blocks_closure ins t h

/-- EACH SUBROUTINE'S CALLER AND RETURN-POINT TABLES LIST EXACTLY ITS CALL SITES.  A block is in the caller table of `s`
    iff it is retained and contains a `callsub s` instruction; the return points are the single successors of those
    blocks, in the same order; the exit blocks are the blocks without successor or ending in `retsub`; and `s` is the
    target of some callsub. -/
theorem C05_caller_tables (ins : List Ins) (t : Teal) (h : parseTeal ins = .ok t) :
    ∃ nexts bs, insNext ins = .ok nexts ∧ graphOf ins nexts = .ok bs ∧
      ∀ s ∈ t.subs,
        (∀ b, b ∈ s.callers ↔ b ∈ t.live ∧ ∃ k, (∃ i, ins[k]? = some i ∧ i.op = .callsub s.name) ∧
            blockOfIns (createBB ins nexts).1 k = .ok b) ∧
        s.retPoints = s.callers.filterMap (fun c => if (bs[c]!).next.length == 1 then (bs[c]!).next.head? else none) ∧
        s.exits = s.blocks.filter (fun b => (bs[b]!).next.length == 0 || exitOp ins (bs[b]!) == some .retsub) ∧
        s.name ∈ callsubLabels ins := by
  obtain ⟨nexts, bs, h1, h2, h3⟩ := parse_callers ins t h
  refine ⟨nexts, bs, h1, h2, ?_⟩
  intro s hs
  obtain ⟨hc, hr, he, hn⟩ := h3 s hs
  refine ⟨?_, hr, he, hn⟩
  intro b
  rw [hc b]
  constructor
  · rintro ⟨hl, k, hk, hb⟩
    exact ⟨hl, k, (mem_callPositions ins s.name k).mp hk, hb⟩
  · rintro ⟨hl, k, hk, hb⟩
    exact ⟨hl, k, (mem_callPositions ins s.name k).mpr hk, hb⟩

/-- the two theorems are not vacuous: a program with a subroutine, a call in a loop and a dead call site -/
def sample : List Ins :=
  [⟨1, .pragma 8, ""⟩, ⟨2, .callsub "f", ""⟩, ⟨3, .int (.lit 1), ""⟩, ⟨4, .ret, ""⟩, ⟨5, .callsub "f", ""⟩,
   ⟨6, .label "f", ""⟩, ⟨7, .int (.lit 0), ""⟩, ⟨8, .bz "g", ""⟩, ⟨9, .retsub, ""⟩, ⟨10, .label "g", ""⟩, ⟨11, .retsub, ""⟩]

example : (match parseTeal sample with
    | .ok t => t.main.blocks == [0, 1] &&
        (t.subs.map fun s => (s.name, s.entry, s.blocks, s.callers, s.retPoints, s.exits)) == [("f", 3, [3, 5, 4], [0], [1], [5, 4])]
    | .error _ => false) = true := by decide +kernel

example : (callsubTable [⟨1, .callsub "f", ""⟩, ⟨2, .label "f", ""⟩, ⟨3, .retsub, ""⟩]).map (·.1) = ["f"] := by decide

end Tealer.C05
