/-
  C05 — Subroutine, call-site and return-point structure is faithful.
-/
import TealerModel.Function
namespace Tealer.C05

/-- the labels targeted by callsub instructions, and only those, are subroutines (names of the subroutine table) -/
theorem C05_subs_are_callsub_targets (ins : List Ins) (l : String) :
    l ∈ (callsubTable ins).map (·.1) ↔ ∃ i ∈ ins, i.op = .callsub l := by
  simp only [callsubTable, callsubLabels, List.map_map, Function.comp_def, List.map_id', List.mem_eraseDups,
    List.mem_filterMap]
  constructor
  · rintro ⟨i, hi, h⟩
    refine ⟨i, hi, ?_⟩
    split at h <;> simp_all
  · rintro ⟨i, hi, h⟩
    exact ⟨i, hi, by simp [h]⟩

/-- a callsub block knows the block where execution resumes: the first (only) successor, none if it has none -/
theorem C05_return_point (b : FBlock) : b.retPoint = b.next.head? := rfl

example : (callsubTable [⟨1, .callsub "f", ""⟩, ⟨2, .label "f", ""⟩, ⟨3, .retsub, ""⟩]).map (·.1) = ["f"] := by decide

end Tealer.C05
