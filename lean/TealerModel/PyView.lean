/-
  The data the leaf matchers of the transaction-context analyses read, in the shape the Python reads it:
  a stack value is `UnknownStackValue` or `KnownStackValue(instruction, args)` (analyses/utils/stack_ast_builder.py).
  `Generated/Matchers.lean` (REGENERATED from the Python AST on every run) is written against these accessors;
  `treeOf` builds the stack value the Python holds from the model's `Ast`.  Import-free apart from the model.
-/
import TealerModel.Ast
namespace Tealer

inductive PySV
  | unknown
  | known (pos : Nat) (op : Op) (text : String) (args : List PySV)   -- `pos`: which instruction of the block (its identity; never read by the translated code)
deriving Inhabited

namespace PySV
/-- the instruction that produced the value (position in its block) -/
def pos? : PySV → Option Nat | .unknown => none | .known p _ _ _ => some p
/-- `isinstance(x, UnknownStackValue)` -/
def isUnknown : PySV → Bool | .unknown => true | _ => false
/-- `x.instruction` (the Python never reads it on an unknown value; `.err` there) -/
def instruction : PySV → Op | .unknown => .err | .known _ op _ _ => op
/-- `str(x.instruction)` -/
def text : PySV → String | .unknown => "" | .known _ _ t _ => t
/-- `x.args[i]`; the stack AST gives every instruction exactly `stack_pop_size` arguments, positions beyond that
    (an IndexError in Python, never reached) read as unknown -/
def arg : PySV → Nat → PySV
  | .unknown, _ => .unknown
  | .known _ _ _ args, i => args.getD i .unknown
end PySV

/-- the stack value the Python holds for reference `r`, to depth `n` below it -/
def treeOf (a : Ast) : Nat → Ref → PySV
  | _, none => .unknown
  | 0, some (p, _) => .known p (a.opOf p) (a.textOf p) []
  | n + 1, some (p, _) => .known p (a.opOf p) (a.textOf p) ((a.argsOf p).map (treeOf a n))

namespace PyView

/-- the Python class of an instruction, as far as the model's `Op` distinguishes classes -/
def pyClass : Op → String
  | .int _ => "Int" | .pushint _ => "PushInt" | .intc _ => "IntcInstruction" | .addr _ => "Addr"
  | .txn _ => "Txn" | .gtxn _ _ => "Gtxn" | .gtxns _ => "Gtxns" | .global _ => "Global"
  | .cmp .eq => "Eq" | .cmp .neq => "Neq" | .cmp .lt => "Less" | .cmp .le => "LessE"
  | .cmp .gt => "Greater" | .cmp .ge => "GreaterE"
  | .and => "And" | .or => "Or" | .not => "Not" | .add => "Add" | .sub => "Sub"
  | .assert => "Assert" | .ret => "Return" | .err => "Err" | .bz _ => "BZ" | .bnz _ => "BNZ"
  | .customErr => "TealerCustomErrInstruction"
  | _ => "Instruction"

/-- what `isClass` assumes of tealer's class hierarchy (SPEC): among the classes of their modules, each instruction / field class
    the analyses test with `isinstance` has no instance but its own - `itxn` is not a `Txn`, `gitxn` not a `Gtxn` - except
    `IntcInstruction`, the common base of the `intc` family.  `Props/Tie.class_hierarchy_tie` compares this table with the
    one read from /repo on every run. -/
def classHierarchySpec : List (String × List String) :=
  (["Int", "PushInt"].map fun c => (c, [c])) ++
  [("IntcInstruction", ["Intc", "Intc0", "Intc1", "Intc2", "Intc3", "IntcInstruction"])] ++
  (["Addr", "Txn", "Gtxn", "Gtxns", "Global", "Eq", "Neq", "Less", "LessE", "Greater", "GreaterE", "And", "Or", "Not", "Add", "Sub",
    "Assert", "Return", "Err", "BZ", "BNZ", "TealerCustomErrInstruction", "B", "Callsub", "Retsub", "Switch", "Match", "Label", "Pragma",
    "Intcblock",
    "RekeyTo", "CloseRemainderTo", "AssetCloseTo", "Sender", "Fee", "TypeEnum", "OnCompletion", "ApplicationID", "GroupIndex",
    "GroupSize", "ZeroAddress", "CreatorAddress"].map fun c => (c, [c]))

/-- `isinstance(ins, C)` for one of the classes above -/
def isClass (op : Op) (c : String) : Bool := pyClass op == c

/-- `ins.field` as the name of the field's class (`GroupIndex`, `Fee`, `ZeroAddress`, ...) -/
def fieldOf : Op → String
  | .txn f | .gtxn _ f | .gtxns f | .global f => f
  | _ => ""

/-- `ins.idx` of `gtxn` -/
def idxOf : Op → Int | .gtxn i _ => i | _ => 0

/-- `ins.value` of `int` / `pushint` -/
def valueOf : Op → Option IntVal | .int v | .pushint v => some v | _ => none

/-- `ins.index` of the `intc` family -/
def indexOf : Op → Nat | .intc i => i | _ => 0

/-- `ins.addr` of `addr` -/
def addrOf : Op → String | .addr a => a | _ => ""

/-- the comparison a comparison instruction stands for (`==` for anything else; only used under an
    `isinstance(ins, (Eq, ..., GreaterE))` guard) -/
def cmpOf : Op → Cmp | .cmp c => c | _ => .eq

/-- `isinstance(value, int)` for the value `is_int_push_ins` returns (an int, a name, or None) -/
def isIntLit : Option IntVal → Bool | some (.lit _) => true | _ => false

/-- the integer, under an `isinstance(value, int)` guard -/
def litOf : Option IntVal → Nat | some (.lit n) => n | _ => 0

/-- what a raising dictionary lookup by int-or-name does: the two tables of teal_enums.py -/
def lookupEnum (ints : List (Nat × Nat)) (names : List (String × Nat)) : Option IntVal → Option Nat
  | some (.lit n) => (ints.find? (·.1 == n)).map (·.2)
  | some (.named s) => (names.find? (·.1 == s)).map (·.2)
  | none => none

/-- `teal.get_int_constant(i)` returns (known, int); as the (is_known, value) pair `is_int_push_ins` unpacks -/
def intConstant (r : Bool × Nat) : Bool × Option IntVal := (r.1, some (.lit r.2))

/-- key_helpers.is_gtxn_at_index_key / is_absolute_index_key / is_relative_index_key on the model's structured keys
    (the Python tests the prefix of the key string built by get_gtxn_at_index_key / get_absolute_index_key /
    get_relative_index_key) -/
def keyIsAtIndex (k : Key) : Bool := match k.kind with | .atIndex _ => true | _ => false
def keyIsAbsolute (k : Key) : Bool := match k.kind with | .abs _ => true | _ => false
def keyIsRelative (k : Key) : Bool := match k.kind with | .rel _ => true | _ => false
/-- key_helpers.get_ind_base_for_gtxn_type_keys -/
def keyIndBase (k : Key) : Int × String :=
  match k.kind with
  | .atIndex i | .abs i => ((i : Int), k.base)
  | .rel o => (o, k.base)
  | .self => (0, k.base)
/-- a base key is the name of its field -/
def keyStr (k : Key) : String := k.base

/-- what the translated functions take from their surroundings -/
structure Env where
  /-- `teal.get_int_constant(index)` -/
  getIntConstant : Nat → Bool × Nat

/-- an instruction of a block together with `get_stack_value_for_ins(ins)` -/
structure PyIns where
  op : Op
  sv : PySV
deriving Inhabited

/-- what generic.py reads of a basic block (blocks are named by their keys in the function) -/
structure PyBlock where
  isEntry : Bool                     -- block == self._entry_block
  instructions : List PyIns          -- block.instructions
  exitInstr : PyIns                  -- block.exit_instr
  exitInstrNextLen : Nat             -- len(block.exit_instr.next)
  next : List Nat                    -- block.next
  nextGlobal : List Nat              -- next_blocks_global(self._function, block)
  prevGlobal : List Nat              -- prev_blocks_global(self._function, block)
  isSubReturnPoint : Bool            -- block.is_sub_return_point
  callsubBlock : Nat                 -- block.callsub_block (when it is a return point)
  isCallsubBlock : Bool              -- block.is_callsub_block
  subReturnPoint : Option Nat        -- block.sub_return_point
  calleeRetsubBlocks : Nat           -- len(block.called_subroutine.retsub_blocks)
  isLeaf : Bool := false             -- leaf_block_global(block)
deriving Inhabited

/-- what the path search of detectors/utils.py reads of the function's graph (blocks are named by their keys) -/
structure PyGraph where
  validated : Nat → Bool          -- validated_in_block(bb, function, checks_field)
  isLeaf : Nat → Bool             -- leaf_block_global(bb)
  isCallsub : Nat → Bool          -- bb.is_callsub_block
  isRetsub : Nat → Bool           -- bb.is_retsub_block
  calledSub : Nat → String        -- bb.called_subroutine (by name)
  retPoint : Nat → Option Nat     -- bb.sub_return_point
  nextGlobal : Nat → List Nat     -- next_blocks_global(function, bb)

/-- a dictionary with block keys that is only written and looked up: `d[k] = v` is function update -/
def dictSet {V : Type} (d : Nat → Option V) (k : Nat) (v : V) : Nat → Option V :=
  fun k' => if k' = k then some v else d k'

/-- Python's `l[-n:]` (for n = 0 this is `l[0:]`: the whole list) -/
def sliceLast {α : Type} (l : List α) (n : Nat) : List α := if n = 0 then l else l.drop (l.length - n)
/-- Python's `l[:-n]` (for n = 0 this is `l[:0]`: the empty list) -/
def sliceButLast {α : Type} (l : List α) (n : Nat) : List α := if n = 0 then [] else l.take (l.length - n)

/-- what construct_stack_ast reads of an instruction: its identity (position in the block), class view, printed form,
    `stack_pop_size` and `stack_push_size` -/
structure PyInsInfo where
  pos : Nat
  op : Op
  text : String
  pops : Nat
  pushes : Nat
deriving Inhabited

/-- a dictionary with block keys whose lookups are totalised (`d[k]` of a missing key is a KeyError in Python, modelled by
    `mkGraph`): `d[k] = v` is function update -/
def dmapSet {V : Type} (d : Nat → V) (k : Nat) (v : V) : Nat → V :=
  fun k' => if k' = k then v else d k'

end PyView
end Tealer
