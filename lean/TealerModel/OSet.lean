/-
  Finite sets as strictly sorted lists (canonical form, so that `=` is set equality as in Python's
  `set.__eq__`).  Membership lemmas do not depend on any property of the order.
-/
namespace Tealer

class LtB (α : Type) where
  ltb : α → α → Bool

instance : LtB Nat := ⟨fun a b => decide (a < b)⟩
instance : LtB String := ⟨fun a b => decide (a < b)⟩

namespace OSet
variable {α : Type} [DecidableEq α] [LtB α]

def insert (a : α) : List α → List α
  | [] => [a]
  | b :: l => if a = b then b :: l else if LtB.ltb a b then a :: b :: l else b :: insert a l

def ofList (l : List α) : List α := l.foldr insert []

def union (a b : List α) : List α := b.foldr insert a

def inter (a b : List α) : List α := a.filter fun x => b.contains x

def diff (a b : List α) : List α := a.filter fun x => !b.contains x

theorem mem_insert (a x : α) (l : List α) : x ∈ insert a l ↔ x = a ∨ x ∈ l := by
  induction l with
  | nil => simp [insert]
  | cons b l ih =>
    unfold insert
    split
    · rename_i h; subst h; simp
    · split
      · simp
      · simp [ih]; constructor
        · rintro (h | h | h) <;> simp [h]
        · rintro (h | h | h) <;> simp [h]

theorem mem_ofList (x : α) (l : List α) : x ∈ ofList l ↔ x ∈ l := by
  induction l with
  | nil => simp [ofList]
  | cons b l ih => simp [ofList, mem_insert] at ih ⊢; simp [ih]

theorem mem_union (x : α) (a b : List α) : x ∈ union a b ↔ x ∈ a ∨ x ∈ b := by
  induction b with
  | nil => simp [union]
  | cons c b ih =>
    simp only [union, List.foldr_cons, mem_insert] at ih ⊢
    rw [ih]; simp; constructor
    · rintro (h | h | h) <;> simp [h]
    · rintro (h | h | h) <;> simp [h]

omit [LtB α] in
theorem mem_inter (x : α) (a b : List α) : x ∈ inter a b ↔ x ∈ a ∧ x ∈ b := by
  simp [inter]

omit [LtB α] in
theorem mem_diff (x : α) (a b : List α) : x ∈ diff a b ↔ x ∈ a ∧ x ∉ b := by
  simp [diff]

end OSet
end Tealer
