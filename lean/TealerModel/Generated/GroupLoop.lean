/- REGENERATED on every run by harness/group_gen.py (+ flow_gen.py, pydo.py): the verdict loop of
   detectors/utils.py detect_missing_tx_field_validations_group_complete for one group, from the Python AST of /repo. -/
import TealerModel.Group
set_option linter.unusedVariables false
namespace Tealer.Generated

/-- the body of `for group_txn in tealer.groups:` - (is_vulnerable, ids of the keys of vulnerable_transactions in insertion order);
    the group is appended to the output exactly when the first component is true -/
def groupComplete (det : Tealer.Group.DetType) (A : Tealer.Group.Answers) (relItems : Tealer.Group.GTxn → List (Tealer.Group.GTxn × Int))
    (transactions : List Tealer.Group.GTxn) : Bool × List Nat := Id.run do
  let mut is_vulnerable := false
  let mut vulnerable_transactions : List Nat := []
  for txn in transactions do
    if ((det == Tealer.Group.DetType.stateless) && (!txn.hasLogicSig)) then
      continue
    if ((det == Tealer.Group.DetType.stateful) && (!txn.hasApp)) then
      continue
    if (!txn.typeOk) then
      continue
    if (txn.lsContract && (A.own txn.id false)) then
      continue
    if (txn.hasApp && (A.own txn.id true)) then
      continue
    if txn.absIndex.isSome then
      let mut checked := false
      for other_txn in transactions do
        if (other_txn.lsContract && (A.atAbs other_txn.id false (txn.absIndex.getD 0))) then
          checked := true
          break
        if (other_txn.hasApp && (A.atAbs other_txn.id true (txn.absIndex.getD 0))) then
          checked := true
          break
      if checked then
        continue
    let mut checked := false
    for (other_txn, offset) in relItems txn do
      if (other_txn.lsContract && (A.atRel other_txn.id false offset)) then
        checked := true
        break
      if (other_txn.hasApp && (A.atRel other_txn.id true offset)) then
        checked := true
        break
    if checked then
      continue
    is_vulnerable := true
    if (det == Tealer.Group.DetType.stateless) then
      if txn.lsContract then
        vulnerable_transactions := vulnerable_transactions ++ [txn.id]    -- `vulnerable_transactions[txn] = [txn.logic_sig]`
      else
        vulnerable_transactions := vulnerable_transactions ++ [txn.id]    -- `vulnerable_transactions[txn] = []`
    else if (det == Tealer.Group.DetType.stateful) then
      if txn.hasApp then
        vulnerable_transactions := vulnerable_transactions ++ [txn.id]    -- `vulnerable_transactions[txn] = [txn.application]`
      else
        vulnerable_transactions := vulnerable_transactions ++ [txn.id]    -- `vulnerable_transactions[txn] = []`
  return (is_vulnerable, vulnerable_transactions)

end Tealer.Generated
