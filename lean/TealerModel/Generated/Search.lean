/- REGENERATED on every run by harness/search_gen.py + harness/pydo.py: the path search of detectors/utils.py
   (the nested function search_paths of detect_missing_tx_field_validations), translated statement by statement from the Python
   AST of /repo.  The shared result list is threaded through; recursion is on a fuel argument. -/
import TealerModel.PyView
set_option linter.unusedVariables false
namespace Tealer.Generated

/-- translated from detectors/utils.py detect_missing_tx_field_validations.search_paths; returns the list `paths_without_check`
    after the call; `none` = the Python raises (or the fuel is exhausted) -/
def searchPaths (G : Tealer.PyView.PyGraph) (satisfies : List Nat → Bool) : Nat → Nat → List Nat → List (List Nat) → List (Option Nat × String) → List (List Nat) → Option (List (List Nat))
  | 0, _, _, _, _, _ => none
  | fuel + 1, bb, current_path, paths_without_check, current_call_stack, current_subroutine_executed => do
    let mut current_path := current_path
    let mut paths_without_check := paths_without_check
    let mut current_call_stack := current_call_stack
    let mut current_subroutine_executed := current_subroutine_executed
    if ((current_subroutine_executed.getLast?.getD []).contains bb) then
      return paths_without_check
    if (G.validated bb) then
      return paths_without_check
    current_path := (current_path ++ [bb])
    if (G.isLeaf bb) then
      if (satisfies current_path) then
        paths_without_check := paths_without_check ++ [current_path]
      return paths_without_check
    current_subroutine_executed := (current_subroutine_executed.dropLast ++ [((current_subroutine_executed.getLast?.getD []) ++ [bb])])
    if (G.isCallsub bb) then
      let mut called_subroutine := (G.calledSub bb)
      let mut already_called_subroutines := (current_call_stack.map fun frame => frame.2)
      if (already_called_subroutines.contains called_subroutine) then
        return paths_without_check
      current_call_stack := (current_call_stack ++ [(some bb, called_subroutine)])
      current_subroutine_executed := (current_subroutine_executed ++ [[]])
    if (G.isRetsub bb) then
      let (callsub_block, _) ← current_call_stack.getLast?
      if !(callsub_block.isSome) then failure
      let mut return_point := (G.retPoint (callsub_block.getD 0))
      if return_point.isSome then
        paths_without_check ← searchPaths G satisfies fuel (return_point.getD 0) current_path paths_without_check current_call_stack.dropLast current_subroutine_executed.dropLast
    else
      for next_bb in (G.nextGlobal bb) do
        paths_without_check ← searchPaths G satisfies fuel next_bb current_path paths_without_check current_call_stack current_subroutine_executed
    return paths_without_check

end Tealer.Generated
