/- REGENERATED on every run by harness/flow_gen.py + harness/pydo.py: the transfer functions of
   analyses/dataflow/transaction_context/generic.py translated statement by statement from the Python AST of /repo, for one
   analysis key (the loops over independent per-key dictionary entries are removed). -/
import TealerModel.PyView
import TealerModel.Dom
import TealerModel.Generated.Matchers
set_option linter.unusedVariables false
namespace Tealer.Generated

/-- translated from DataflowTransactionContext._calculate_reachin; `pathCtx p` = self._path_contexts[key][block][p] -/
def calculateReachin {D : Type} (dom : Tealer.Domain D) (univ : D) (pathCtx : Nat → D) (self : Tealer.PyView.Env) (key : Tealer.Key) (block : Tealer.PyView.PyBlock) (reachout : Nat → D) : D := Id.run do
  let mut reachin_information : D := dom.null
  if block.isEntry then
    reachin_information := univ
  else
    reachin_information := dom.null
  for prev_b in block.prevGlobal do
    reachin_information := (dom.union reachin_information (dom.inter (reachout prev_b) (pathCtx prev_b)))
  if block.isSubReturnPoint then
    reachin_information := (dom.inter reachin_information (reachout block.callsubBlock))
  return reachin_information

/-- translated from DataflowTransactionContext._calculate_livein -/
def calculateLivein {D : Type} (dom : Tealer.Domain D) (univ : D) (self : Tealer.PyView.Env) (key : Tealer.Key) (block : Tealer.PyView.PyBlock) (liveout : Nat → D) : D := Id.run do
  let mut livein_information := dom.null
  for next_b in block.nextGlobal do
    livein_information := (dom.union livein_information (liveout next_b))
  if (block.isCallsubBlock && block.subReturnPoint.isSome && (block.calleeRetsubBlocks != 0)) then
    livein_information := (dom.inter livein_information (liveout (block.subReturnPoint.getD 0)))
  return livein_information

/-- translated from DataflowTransactionContext._block_level_constraints for one key: the value of self._block_contexts[key][block] when the function returns; `getAsserted v` = self._get_asserted(key, v) -/
def blockLevelConstraints {D : Type} (E : Tealer.PyView.Env) (dom : Tealer.Domain D) (univ : D) (getAsserted : Tealer.PySV → D × D) (self : Tealer.PyView.Env) (key : Tealer.Key) (block : Tealer.PyView.PyBlock) : D := Id.run do
  let mut ctx : D := dom.null
  for _k in [()] do
    ctx := univ
  for ins in block.instructions do
    if ((Tealer.PyView.isClass ins.op "Assert")) then
      let mut assert_ins_stack_value := ins.sv
      let mut assert_ins_arg := (assert_ins_stack_value.arg 0)
      if assert_ins_arg.isUnknown then
        continue
      for _k in [()] do
        let mut (asserted_values, _) := (getAsserted assert_ins_arg)
        let mut present_values := ctx
        ctx := (dom.inter present_values asserted_values)
    else if ((Tealer.PyView.isClass ins.op "Return")) then
      let mut return_ins_value := ins.sv
      let mut return_ins_arg := (return_ins_value.arg 0)
      if return_ins_arg.isUnknown then
        continue
      let mut (is_int, value) := (Tealer.Generated.isIntPushIns E return_ins_arg.instruction)
      if (is_int && ((Tealer.PyView.isIntLit value) && (Tealer.PyView.litOf value == 0))) then
        for _k in [()] do
          ctx := dom.null
        continue
      for _k in [()] do
        let mut (true_values, _) := (getAsserted return_ins_arg)
        let mut present_values := ctx
        ctx := (dom.inter present_values true_values)
    else if ((Tealer.PyView.isClass ins.op "Err") || (Tealer.PyView.isClass ins.op "TealerCustomErrInstruction")) then
      for _k in [()] do
        ctx := dom.null
  return ctx

/-- translated from DataflowTransactionContext._path_level_constraints for one key: the entries self._path_contexts[key][b][block] it writes, as a partial function of the successor (a later write to the same successor replaces the earlier one); `getAsserted v` = self._get_asserted(key, v) -/
def pathLevelConstraints {D : Type} (E : Tealer.PyView.Env) (dom : Tealer.Domain D) (univ : D) (getAsserted : Tealer.PySV → D × D) (self : Tealer.PyView.Env) (key : Tealer.Key) (block : Tealer.PyView.PyBlock) : Nat → Option D := Id.run do
  let mut pc : Nat → Option D := fun _ => none
  for _k in [()] do
    for b in block.nextGlobal do
      -- `b not in path_context`: the inner dictionary is created (no entry is written)
      pc := Tealer.PyView.dictSet pc b univ
  if ((Tealer.PyView.isClass block.exitInstr.op "BZ") || (Tealer.PyView.isClass block.exitInstr.op "BNZ")) then
    let mut exit_ins_stack_value := block.exitInstr.sv
    let mut exit_ins_arg := (exit_ins_stack_value.arg 0)
    if exit_ins_arg.isUnknown then
      return pc
    for _k in [()] do
      let mut (true_values, false_values) := (getAsserted exit_ins_arg)
      let mut default_branch : Option (Nat) := default
      let mut jump_branch : Nat := default
      if (block.next.length == 1) then
        if (decide (block.exitInstrNextLen > 1)) then
          break
        default_branch := none
        jump_branch := (block.next.getD 0 0)
      else
        default_branch := (some (block.next.getD 0 0))
        jump_branch := (block.next.getD 1 0)
      if ((Tealer.PyView.isClass block.exitInstr.op "BZ")) then
        pc := Tealer.PyView.dictSet pc jump_branch false_values
        if default_branch.isSome then
          pc := Tealer.PyView.dictSet pc (default_branch.getD 0) true_values
      else if ((Tealer.PyView.isClass block.exitInstr.op "BNZ")) then
        pc := Tealer.PyView.dictSet pc jump_branch true_values
        if default_branch.isSome then
          pc := Tealer.PyView.dictSet pc (default_branch.getD 0) false_values
  return pc

end Tealer.Generated
