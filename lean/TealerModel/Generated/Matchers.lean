/- REGENERATED on every run by harness/matchers_gen.py + harness/pydo.py: the leaf matchers of the transaction-context
   analyses and the helpers they call, translated statement by statement from the Python AST of /repo. -/
import TealerModel.PyView
import TealerModel.Generated.Leaf
set_option linter.unusedVariables false
namespace Tealer.Generated

/-- group_helpers.TransactionIndex(index_type, value), `index_type` by the number of the IndexType member -/
structure GIndex where
  indexType : Nat
  value : Int
deriving DecidableEq, Repr, Inhabited

/-- fee_field._MIRRORED_COMPARISON, read from the module -/
def mirrorTable : List (Tealer.Cmp × Tealer.Cmp) := [(.lt, .gt), (.le, .ge), (.gt, .lt), (.ge, .le)]
/-- fee_field._mirrored_comparison: `_MIRRORED_COMPARISON.get(type(ins))`, the instruction itself when absent -/
def mirroredComparison (ins : Tealer.Op) : Tealer.Op :=
  match ins with
  | .cmp c => (match mirrorTable.find? (·.1 == c) with | some (_, m) => .cmp m | none => ins)
  | _ => ins

def IndexType_Self : Nat := 0
def IndexType_Absolute : Nat := 1
def IndexType_Relative : Nat := 2
def IndexType_Unknown : Nat := 777

/-- translated from utils/analyses.py is_int_push_ins; `ins.bb.teal.get_int_constant` is `E.getIntConstant` -/
def isIntPushIns (E : Tealer.PyView.Env) (ins : Tealer.Op) : (Bool) × (Option Tealer.IntVal) := Id.run do
  if (((Tealer.PyView.isClass ins "Int")) || ((Tealer.PyView.isClass ins "PushInt"))) then
    return (true, (Tealer.PyView.valueOf ins))
  if ((Tealer.PyView.isClass ins "IntcInstruction")) then
    -- dropped guard: `if not ins.bb or not ins.bb.teal: raise ...` (the block and its Teal object are always set)
    let mut teal := E
    let mut (is_known, value) := (Tealer.PyView.intConstant (E.getIntConstant (Tealer.PyView.indexOf ins)))
    if is_known then
      return (true, value)
    return (true, none)
  return (false, none)

/-- translated from group_helpers._get_index -/
def getIndex (E : Tealer.PyView.Env) (index_stack_value : Tealer.PySV) : Tealer.Generated.GIndex := Id.run do
  if (((Tealer.PyView.isClass index_stack_value.instruction "Txn")) && ((Tealer.PyView.fieldOf index_stack_value.instruction) == "GroupIndex")) then
    return ({ indexType := 0, value := ((0 : Nat) : Int) } : Tealer.Generated.GIndex)
  let mut (pushes_int, int_value) := (Tealer.Generated.isIntPushIns E index_stack_value.instruction)
  if (pushes_int && (Tealer.PyView.isIntLit int_value)) then
    return ({ indexType := 1, value := ((Tealer.PyView.litOf int_value : Nat) : Int) } : Tealer.Generated.GIndex)
  if (pushes_int && (!(Tealer.PyView.isIntLit int_value))) then
    return ({ indexType := 777, value := ((0 : Nat) : Int) } : Tealer.Generated.GIndex)
  if ((Tealer.PyView.isClass index_stack_value.instruction "Sub")) then
    let mut arg1 := (index_stack_value.arg 0)
    let mut arg2 := (index_stack_value.arg 1)
    if (arg1.isUnknown || arg2.isUnknown) then
      return ({ indexType := 777, value := ((0 : Nat) : Int) } : Tealer.Generated.GIndex)
    if (!(((Tealer.PyView.isClass arg1.instruction "Txn")) && ((Tealer.PyView.fieldOf arg1.instruction) == "GroupIndex"))) then
      return ({ indexType := 777, value := ((0 : Nat) : Int) } : Tealer.Generated.GIndex)
    let (t_is_int, t_int_value) := (Tealer.Generated.isIntPushIns E arg2.instruction)
    let mut is_int := t_is_int
    int_value := t_int_value
    if (is_int && (Tealer.PyView.isIntLit int_value)) then
      let mut offset := (-((Tealer.PyView.litOf int_value : Nat) : Int))
      return ({ indexType := 2, value := offset } : Tealer.Generated.GIndex)
    return ({ indexType := 777, value := ((0 : Nat) : Int) } : Tealer.Generated.GIndex)
  if ((Tealer.PyView.isClass index_stack_value.instruction "Add")) then
    let mut arg1 := (index_stack_value.arg 0)
    let mut arg2 := (index_stack_value.arg 1)
    if (arg1.isUnknown || arg2.isUnknown) then
      return ({ indexType := 777, value := ((0 : Nat) : Int) } : Tealer.Generated.GIndex)
    let mut offset_arg := arg2
    if (!(((Tealer.PyView.isClass arg1.instruction "Txn")) && ((Tealer.PyView.fieldOf arg1.instruction) == "GroupIndex"))) then
      if (!(((Tealer.PyView.isClass arg2.instruction "Txn")) && ((Tealer.PyView.fieldOf arg2.instruction) == "GroupIndex"))) then
        return ({ indexType := 777, value := ((0 : Nat) : Int) } : Tealer.Generated.GIndex)
      offset_arg := arg1
    let (t_is_int, t_int_value) := (Tealer.Generated.isIntPushIns E offset_arg.instruction)
    let mut is_int := t_is_int
    int_value := t_int_value
    if (is_int && (Tealer.PyView.isIntLit int_value)) then
      let mut offset := int_value
      return ({ indexType := 2, value := ((Tealer.PyView.litOf offset : Nat) : Int) } : Tealer.Generated.GIndex)
    return ({ indexType := 777, value := ((0 : Nat) : Int) } : Tealer.Generated.GIndex)
  return ({ indexType := 777, value := ((0 : Nat) : Int) } : Tealer.Generated.GIndex)

/-- translated from group_helpers.get_index_and_field -/
def getIndexAndField (E : Tealer.PyView.Env) (value : Tealer.PySV) : (Bool) × (Option (Tealer.Generated.GIndex)) × (Option (String)) := Id.run do
  if (!((Tealer.PyView.isClass value.instruction "Txn") || (Tealer.PyView.isClass value.instruction "Gtxn") || (Tealer.PyView.isClass value.instruction "Gtxns"))) then
    return (false, none, none)
  let mut field := (Tealer.PyView.fieldOf value.instruction)
  if ((Tealer.PyView.isClass value.instruction "Txn")) then
    return (true, (some ({ indexType := 0, value := ((0 : Nat) : Int) } : Tealer.Generated.GIndex)), (some field))
  if ((Tealer.PyView.isClass value.instruction "Gtxn")) then
    return (true, (some ({ indexType := 1, value := (Tealer.PyView.idxOf value.instruction) } : Tealer.Generated.GIndex)), (some field))
  let mut index_stack_value := (value.arg 0)
  if index_stack_value.isUnknown then
    return (true, (some ({ indexType := 777, value := ((0 : Nat) : Int) } : Tealer.Generated.GIndex)), (some field))
  let mut index := (Tealer.Generated.getIndex E index_stack_value)
  return (true, (some index), (some field))

/-- translated from key_helpers.is_value_matches_key (analysis keys are the structured keys of the model; a field class is its name) -/
def isValueMatchesKey (E : Tealer.PyView.Env) (analysis_key : Tealer.Key) (stack_value : Tealer.PySV) (key_field : Option (String)) : Bool := Id.run do
  let mut (value_is_field, value_index, value_field) := (Tealer.Generated.getIndexAndField E stack_value)
  if (!value_is_field) then
    return false
  if ((value_index.getD default).indexType == 777) then
    return false
  let mut field : String := default
  if key_field.isNone then
    let mut field_str : String := default
    if ((Tealer.PyView.keyIsAtIndex analysis_key) || (Tealer.PyView.keyIsAbsolute analysis_key) || (Tealer.PyView.keyIsRelative analysis_key)) then
      let (_, t_field_str) := (Tealer.PyView.keyIndBase analysis_key)
      field_str := t_field_str
    else
      field_str := (Tealer.PyView.keyStr analysis_key)
    field := field_str
  else
    field := (key_field.getD default)
  if (!(value_field == some field)) then
    return false
  if ((Tealer.PyView.keyIsAtIndex analysis_key) || (Tealer.PyView.keyIsAbsolute analysis_key)) then
    if ((value_index.getD default).indexType != 1) then
      return false
    let mut (idx, _) := (Tealer.PyView.keyIndBase analysis_key)
    if ((value_index.getD default).value == idx) then
      return true
    return false
  if (Tealer.PyView.keyIsRelative analysis_key) then
    if ((value_index.getD default).indexType != 2) then
      return false
    let mut (offset, _) := (Tealer.PyView.keyIndBase analysis_key)
    if ((value_index.getD default).value == offset) then
      return true
    return false
  if ((value_index.getD default).indexType == 0) then
    return true
  return false

/-- translated from int_fields.GroupIndices._get_asserted_groupsizes -/
def getAssertedGroupsizes (E : Tealer.PyView.Env) (self : Tealer.PyView.Env) (ins_stack_value : Tealer.PySV) : (List Nat) × (List Nat) := Id.run do
  let mut U := Tealer.Generated.sizesU
  if ((Tealer.PyView.isClass ins_stack_value.instruction "Eq") || (Tealer.PyView.isClass ins_stack_value.instruction "Neq") || (Tealer.PyView.isClass ins_stack_value.instruction "Less") || (Tealer.PyView.isClass ins_stack_value.instruction "LessE") || (Tealer.PyView.isClass ins_stack_value.instruction "Greater") || (Tealer.PyView.isClass ins_stack_value.instruction "GreaterE")) then
    let mut arg1 := (ins_stack_value.arg 0)
    let mut arg2 := (ins_stack_value.arg 1)
    if (arg1.isUnknown || arg2.isUnknown) then
      return ((Tealer.OSet.ofList U), (Tealer.OSet.ofList U))
    let mut ins1 := arg1.instruction
    let mut ins2 := arg2.instruction
    let mut compared_value : Option Tealer.IntVal := none
    if (((Tealer.PyView.isClass ins1 "Global")) && ((Tealer.PyView.fieldOf ins1) == "GroupSize")) then
      let mut (is_int, value) := (Tealer.Generated.isIntPushIns E ins2)
      if is_int then
        compared_value := value
    else if (((Tealer.PyView.isClass ins2 "Global")) && ((Tealer.PyView.fieldOf ins2) == "GroupSize")) then
      let mut (is_int, value) := (Tealer.Generated.isIntPushIns E ins1)
      if is_int then
        compared_value := value
    if (compared_value.isNone || (!(Tealer.PyView.isIntLit compared_value))) then
      return ((Tealer.OSet.ofList U), (Tealer.OSet.ofList U))
    let mut ins := ins_stack_value.instruction
    let mut asserted_values := (Tealer.Generated.intAssertedValues (Tealer.PyView.cmpOf ins) (Tealer.PyView.litOf compared_value) U)
    return ((Tealer.OSet.ofList asserted_values), (Tealer.OSet.diff (Tealer.OSet.ofList U) (Tealer.OSet.ofList asserted_values)))
  return ((Tealer.OSet.ofList U), (Tealer.OSet.ofList U))

/-- translated from int_fields.GroupIndices._get_asserted_groupindices -/
def getAssertedGroupindices (E : Tealer.PyView.Env) (self : Tealer.PyView.Env) (ins_stack_value : Tealer.PySV) : (List Nat) × (List Nat) := Id.run do
  let mut U := Tealer.Generated.indicesU
  if ((Tealer.PyView.isClass ins_stack_value.instruction "Eq") || (Tealer.PyView.isClass ins_stack_value.instruction "Neq") || (Tealer.PyView.isClass ins_stack_value.instruction "Less") || (Tealer.PyView.isClass ins_stack_value.instruction "LessE") || (Tealer.PyView.isClass ins_stack_value.instruction "Greater") || (Tealer.PyView.isClass ins_stack_value.instruction "GreaterE")) then
    let mut arg1 := (ins_stack_value.arg 0)
    let mut arg2 := (ins_stack_value.arg 1)
    if (arg1.isUnknown || arg2.isUnknown) then
      return ((Tealer.OSet.ofList U), (Tealer.OSet.ofList U))
    let mut ins1 := arg1.instruction
    let mut ins2 := arg2.instruction
    let mut compared_value : Option Tealer.IntVal := none
    if (((Tealer.PyView.isClass ins1 "Txn")) && ((Tealer.PyView.fieldOf ins1) == "GroupIndex")) then
      let mut (is_int, value) := (Tealer.Generated.isIntPushIns E ins2)
      if is_int then
        compared_value := value
    else if (((Tealer.PyView.isClass ins2 "Txn")) && ((Tealer.PyView.fieldOf ins2) == "GroupIndex")) then
      let mut (is_int, value) := (Tealer.Generated.isIntPushIns E ins1)
      if is_int then
        compared_value := value
    if (compared_value.isNone || (!(Tealer.PyView.isIntLit compared_value))) then
      return ((Tealer.OSet.ofList U), (Tealer.OSet.ofList U))
    let mut ins := ins_stack_value.instruction
    let mut asserted_values := (Tealer.Generated.intAssertedValues (Tealer.PyView.cmpOf ins) (Tealer.PyView.litOf compared_value) U)
    return ((Tealer.OSet.ofList asserted_values), (Tealer.OSet.diff (Tealer.OSet.ofList U) (Tealer.OSet.ofList asserted_values)))
  return ((Tealer.OSet.ofList U), (Tealer.OSet.ofList U))

/-- translated from fee_field.FeeField._get_asserted_fee -/
def getAssertedFee (E : Tealer.PyView.Env) (self : Tealer.PyView.Env) (key : Tealer.Key) (ins_stack_value : Tealer.PySV) : (Tealer.Generated.GFeeValue) × (Tealer.Generated.GFeeValue) := Id.run do
  if ((Tealer.PyView.isClass ins_stack_value.instruction "Eq") || (Tealer.PyView.isClass ins_stack_value.instruction "Neq") || (Tealer.PyView.isClass ins_stack_value.instruction "Less") || (Tealer.PyView.isClass ins_stack_value.instruction "LessE") || (Tealer.PyView.isClass ins_stack_value.instruction "Greater") || (Tealer.PyView.isClass ins_stack_value.instruction "GreaterE")) then
    let mut arg1 := (ins_stack_value.arg 0)
    let mut arg2 := (ins_stack_value.arg 1)
    let mut compared_value : Option (Tealer.Generated.GFeeValue) := none
    if (arg1.isUnknown && arg2.isUnknown) then
      return (({ isUnknown := false, value := Tealer.Generated.MAX_UINT64 } : Tealer.Generated.GFeeValue), ({ isUnknown := false, value := Tealer.Generated.MAX_UINT64 } : Tealer.Generated.GFeeValue))
    if arg1.isUnknown then
      if ((!arg2.isUnknown) && (!(Tealer.Generated.isValueMatchesKey E key arg2 none))) then
        return (({ isUnknown := false, value := Tealer.Generated.MAX_UINT64 } : Tealer.Generated.GFeeValue), ({ isUnknown := false, value := Tealer.Generated.MAX_UINT64 } : Tealer.Generated.GFeeValue))
      compared_value := (some ({ isUnknown := true, value := Tealer.Generated.MAX_UINT64 } : Tealer.Generated.GFeeValue))
    else if arg2.isUnknown then
      if ((!arg1.isUnknown) && (!(Tealer.Generated.isValueMatchesKey E key arg1 none))) then
        return (({ isUnknown := false, value := Tealer.Generated.MAX_UINT64 } : Tealer.Generated.GFeeValue), ({ isUnknown := false, value := Tealer.Generated.MAX_UINT64 } : Tealer.Generated.GFeeValue))
      compared_value := (some ({ isUnknown := true, value := Tealer.Generated.MAX_UINT64 } : Tealer.Generated.GFeeValue))
    else if (Tealer.Generated.isValueMatchesKey E key arg1 none) then
      let mut (is_int, value) := (Tealer.Generated.isIntPushIns E arg2.instruction)
      if (is_int && (Tealer.PyView.isIntLit value)) then
        compared_value := (some ({ isUnknown := false, value := (Tealer.PyView.litOf value) } : Tealer.Generated.GFeeValue))
      else
        compared_value := (some ({ isUnknown := true, value := Tealer.Generated.MAX_UINT64 } : Tealer.Generated.GFeeValue))
    else if (Tealer.Generated.isValueMatchesKey E key arg2 none) then
      let mut (is_int, value) := (Tealer.Generated.isIntPushIns E arg1.instruction)
      if (is_int && (Tealer.PyView.isIntLit value)) then
        compared_value := (some ({ isUnknown := false, value := (Tealer.PyView.litOf value) } : Tealer.Generated.GFeeValue))
      else
        compared_value := (some ({ isUnknown := true, value := Tealer.Generated.MAX_UINT64 } : Tealer.Generated.GFeeValue))
    if compared_value.isNone then
      return (({ isUnknown := false, value := Tealer.Generated.MAX_UINT64 } : Tealer.Generated.GFeeValue), ({ isUnknown := false, value := Tealer.Generated.MAX_UINT64 } : Tealer.Generated.GFeeValue))
    let mut ins := ins_stack_value.instruction
    let mut field_is_second_operand := (((!arg2.isUnknown) && (Tealer.Generated.isValueMatchesKey E key arg2 none)) && (arg1.isUnknown || (!(Tealer.Generated.isValueMatchesKey E key arg1 none))))
    if field_is_second_operand then
      ins := (Tealer.Generated.mirroredComparison ins)
    return (Tealer.Generated.feeAssertedMax (Tealer.PyView.cmpOf ins) (compared_value.getD default))
  return (({ isUnknown := false, value := Tealer.Generated.MAX_UINT64 } : Tealer.Generated.GFeeValue), ({ isUnknown := false, value := Tealer.Generated.MAX_UINT64 } : Tealer.Generated.GFeeValue))

/-- translated from addr_fields.AddrFields._get_asserted_txn_gtxn -/
def getAssertedTxnGtxn (E : Tealer.PyView.Env) (self : Tealer.PyView.Env) (key : Tealer.Key) (ins_stack_value : Tealer.PySV) : (List String) × (List String) := Id.run do
  if (!((Tealer.PyView.isClass ins_stack_value.instruction "Eq") || (Tealer.PyView.isClass ins_stack_value.instruction "Neq"))) then
    return ((Tealer.OSet.ofList [Tealer.Generated.ANY_ADDRESS]), (Tealer.OSet.ofList [Tealer.Generated.ANY_ADDRESS]))
  let mut arg1 := (ins_stack_value.arg 0)
  let mut arg2 := (ins_stack_value.arg 1)
  let mut asserted_addresses : Option (List String) := none
  if (arg1.isUnknown && arg2.isUnknown) then
    return ((Tealer.OSet.ofList [Tealer.Generated.ANY_ADDRESS]), (Tealer.OSet.ofList [Tealer.Generated.ANY_ADDRESS]))
  if arg1.isUnknown then
    if ((!arg2.isUnknown) && (!(Tealer.Generated.isValueMatchesKey E key arg2 none))) then
      return ((Tealer.OSet.ofList [Tealer.Generated.ANY_ADDRESS]), (Tealer.OSet.ofList [Tealer.Generated.ANY_ADDRESS]))
    asserted_addresses := (some (Tealer.OSet.ofList [Tealer.Generated.SOME_ADDRESS]))
  else if arg2.isUnknown then
    if ((!arg1.isUnknown) && (!(Tealer.Generated.isValueMatchesKey E key arg1 none))) then
      return ((Tealer.OSet.ofList [Tealer.Generated.ANY_ADDRESS]), (Tealer.OSet.ofList [Tealer.Generated.ANY_ADDRESS]))
    asserted_addresses := (some (Tealer.OSet.ofList [Tealer.Generated.SOME_ADDRESS]))
  else if (Tealer.Generated.isValueMatchesKey E key arg1 none) then
    asserted_addresses := (some (Tealer.Generated.addrAsserted arg2.instruction arg2.text))
  else if (Tealer.Generated.isValueMatchesKey E key arg2 none) then
    asserted_addresses := (some (Tealer.Generated.addrAsserted arg1.instruction arg1.text))
  if asserted_addresses.isNone then
    return ((Tealer.OSet.ofList [Tealer.Generated.ANY_ADDRESS]), (Tealer.OSet.ofList [Tealer.Generated.ANY_ADDRESS]))
  if ((Tealer.PyView.isClass ins_stack_value.instruction "Eq")) then
    return ((asserted_addresses.getD default), (Tealer.OSet.ofList [Tealer.Generated.ANY_ADDRESS]))
  return ((Tealer.OSet.ofList [Tealer.Generated.ANY_ADDRESS]), (asserted_addresses.getD default))

/-- translated from txn_types.TxnType._get_asserted_transaction_types (a KeyError of the two enum conversions is `none`) -/
def getAssertedTransactionTypes (E : Tealer.PyView.Env) (self : Tealer.PyView.Env) (key : Tealer.Key) (ins_stack_value : Tealer.PySV) : Option ((List Nat) × (List Nat)) := do
  let mut U := (Tealer.OSet.ofList Tealer.Generated.txnTypeU)
  let mut ins1 := ins_stack_value.instruction
  if (Tealer.Generated.isValueMatchesKey E key ins_stack_value (some "ApplicationID")) then
    return ((Tealer.OSet.diff (Tealer.OSet.ofList Tealer.Generated.APPLICATION_TRANSACTION_TYPES) (Tealer.OSet.ofList [102])), (Tealer.OSet.ofList [102]))
  if ((Tealer.PyView.isClass ins1 "Not")) then
    let mut not_arg := (ins_stack_value.arg 0)
    if not_arg.isUnknown then
      return (U, U)
    let mut ins2 := not_arg.instruction
    if (Tealer.Generated.isValueMatchesKey E key not_arg (some "ApplicationID")) then
      return ((Tealer.OSet.ofList [102]), (Tealer.OSet.diff (Tealer.OSet.ofList Tealer.Generated.APPLICATION_TRANSACTION_TYPES) (Tealer.OSet.ofList [102])))
    return (U, U)
  if ((Tealer.PyView.isClass ins1 "Eq") || (Tealer.PyView.isClass ins1 "Neq")) then
    let mut arg1 := (ins_stack_value.arg 0)
    let mut arg2 := (ins_stack_value.arg 1)
    if (arg1.isUnknown || arg2.isUnknown) then
      return (U, U)
    let mut ins2 := arg1.instruction
    let mut ins3 := arg2.instruction
    let mut (is_int_ins2, value_2) := (Tealer.Generated.isIntPushIns E ins2)
    let mut (is_int_ins3, value_3) := (Tealer.Generated.isIntPushIns E ins3)
    if ((is_int_ins2 && is_int_ins3) || ((!is_int_ins2) && (!is_int_ins3))) then
      return (U, U)
    let mut true_values : Option (List Nat) := none
    let mut false_values : Option (List Nat) := none
    if ((Tealer.Generated.isValueMatchesKey E key arg1 (some "ApplicationID")) && value_3.isSome) then
      if ((Tealer.PyView.isIntLit value_3) && ((Tealer.PyView.isIntLit value_3) && (Tealer.PyView.litOf value_3 == 0))) then
        true_values := (some (Tealer.OSet.ofList [102]))
        false_values := (some (Tealer.OSet.diff (Tealer.OSet.ofList Tealer.Generated.APPLICATION_TRANSACTION_TYPES) (Tealer.OSet.ofList [102])))
    else if ((Tealer.Generated.isValueMatchesKey E key arg2 (some "ApplicationID")) && value_2.isSome) then
      if ((Tealer.PyView.isIntLit value_2) && ((Tealer.PyView.isIntLit value_2) && (Tealer.PyView.litOf value_2 == 0))) then
        true_values := (some (Tealer.OSet.ofList [102]))
        false_values := (some (Tealer.OSet.diff (Tealer.OSet.ofList Tealer.Generated.APPLICATION_TRANSACTION_TYPES) (Tealer.OSet.ofList [102])))
    if ((Tealer.Generated.isValueMatchesKey E key arg1 (some "TypeEnum")) && value_3.isSome) then
      let mut compared_type := (← (Tealer.PyView.lookupEnum Tealer.Generated.typeEnumTable Tealer.Generated.typeEnumNames value_3))
      true_values := (some (Tealer.OSet.ofList [compared_type]))
      false_values := (some (Tealer.OSet.diff (Tealer.OSet.ofList Tealer.Generated.TYPEENUM_TRANSACTION_TYPES) (Tealer.OSet.ofList [compared_type])))
    else if ((Tealer.Generated.isValueMatchesKey E key arg2 (some "TypeEnum")) && value_2.isSome) then
      let mut compared_type := (← (Tealer.PyView.lookupEnum Tealer.Generated.typeEnumTable Tealer.Generated.typeEnumNames value_2))
      true_values := (some (Tealer.OSet.ofList [compared_type]))
      false_values := (some (Tealer.OSet.diff (Tealer.OSet.ofList Tealer.Generated.TYPEENUM_TRANSACTION_TYPES) (Tealer.OSet.ofList [compared_type])))
    if ((Tealer.Generated.isValueMatchesKey E key arg1 (some "OnCompletion")) && value_3.isSome) then
      let mut compared_on_completion := (← (Tealer.PyView.lookupEnum Tealer.Generated.oncompletionTable Tealer.Generated.oncompletionNames value_3))
      true_values := (some (Tealer.OSet.ofList [compared_on_completion]))
      false_values := (some (Tealer.OSet.diff (Tealer.OSet.ofList Tealer.Generated.APPLICATION_TRANSACTION_TYPES) (Tealer.OSet.ofList [compared_on_completion])))
    else if ((Tealer.Generated.isValueMatchesKey E key arg2 (some "OnCompletion")) && value_2.isSome) then
      let mut compared_on_completion := (← (Tealer.PyView.lookupEnum Tealer.Generated.oncompletionTable Tealer.Generated.oncompletionNames value_2))
      true_values := (some (Tealer.OSet.ofList [compared_on_completion]))
      false_values := (some (Tealer.OSet.diff (Tealer.OSet.ofList Tealer.Generated.APPLICATION_TRANSACTION_TYPES) (Tealer.OSet.ofList [compared_on_completion])))
    if (true_values.isSome && false_values.isSome) then
      if ((Tealer.PyView.isClass ins1 "Eq")) then
        return ((true_values.getD default), (false_values.getD default))
      return ((false_values.getD default), (true_values.getD default))
  return (U, U)

end Tealer.Generated
