/- REGENERATED on every run by harness/extract.py from /repo (do not edit). -/
namespace Tealer.Generated

/-- for every instruction / field class the analyses test with `isinstance`: the classes of its module that ARE instances of it
    (itself and its subclasses).  The views of PyView.lean read `isinstance(x, C)` as `type(x) is C` (one exception:
    IntcInstruction), which is right exactly when this table is the one of the specification. -/
def classHierarchy : List (String × List String) := [("Int", ["Int"]), ("PushInt", ["PushInt"]), ("IntcInstruction", ["Intc", "Intc0", "Intc1", "Intc2", "Intc3", "IntcInstruction"]), ("Addr", ["Addr"]), ("Txn", ["Txn"]), ("Gtxn", ["Gtxn"]), ("Gtxns", ["Gtxns"]), ("Global", ["Global"]), ("Eq", ["Eq"]), ("Neq", ["Neq"]), ("Less", ["Less"]), ("LessE", ["LessE"]), ("Greater", ["Greater"]), ("GreaterE", ["GreaterE"]), ("And", ["And"]), ("Or", ["Or"]), ("Not", ["Not"]), ("Add", ["Add"]), ("Sub", ["Sub"]), ("Assert", ["Assert"]), ("Return", ["Return"]), ("Err", ["Err"]), ("BZ", ["BZ"]), ("BNZ", ["BNZ"]), ("TealerCustomErrInstruction", ["TealerCustomErrInstruction"]), ("B", ["B"]), ("Callsub", ["Callsub"]), ("Retsub", ["Retsub"]), ("Switch", ["Switch"]), ("Match", ["Match"]), ("Label", ["Label"]), ("Pragma", ["Pragma"]), ("Intcblock", ["Intcblock"]), ("RekeyTo", ["RekeyTo"]), ("CloseRemainderTo", ["CloseRemainderTo"]), ("AssetCloseTo", ["AssetCloseTo"]), ("Sender", ["Sender"]), ("Fee", ["Fee"]), ("TypeEnum", ["TypeEnum"]), ("OnCompletion", ["OnCompletion"]), ("ApplicationID", ["ApplicationID"]), ("GroupIndex", ["GroupIndex"]), ("GroupSize", ["GroupSize"]), ("ZeroAddress", ["ZeroAddress"]), ("CreatorAddress", ["CreatorAddress"])]
def MAX_GROUP_SIZE : Nat := 16
def MAX_UINT64 : Nat := 18446744073709551615
def MAX_TRANSACTION_COST : Nat := 272000
def ZERO_ADDRESS : String := "AAAAAAAAAAAAAAAAAAAAAAAAAAAAAAAAAAAAAAAAAAAAEVAL4QAJS7JHB4"
def ALL_TRANSACTION_TYPES : List Nat := [16, 32, 48, 64, 103, 96, 97, 98, 99, 100, 101, 102]
def APPLICATION_TRANSACTION_TYPES : List Nat := [96, 97, 98, 99, 100, 101, 102]
def TYPEENUM_TRANSACTION_TYPES : List Nat := [16, 32, 48, 64, 80, 103]
def sizesU : List Nat := [1, 2, 3, 4, 5, 6, 7, 8, 9, 10, 11, 12, 13, 14, 15, 16]
def indicesU : List Nat := [0, 1, 2, 3, 4, 5, 6, 7, 8, 9, 10, 11, 12, 13, 14, 15]
def txnTypeU : List Nat := [16, 32, 48, 64, 103, 96, 97, 98, 99, 100, 101, 102]
def oncompletionTable : List (Nat × Nat) := [(0, 96), (1, 97), (2, 98), (3, 99), (4, 100), (5, 101)]
def typeEnumTable : List (Nat × Nat) := [(1, 16), (2, 32), (3, 48), (4, 64), (5, 80), (6, 103)]
def oncompletionNames : List (String × Nat) := [("NoOp", 96), ("OptIn", 97), ("CloseOut", 98), ("ClearState", 99), ("UpdateApplication", 100), ("DeleteApplication", 101)]
def typeEnumNames : List (String × Nat) := [("pay", 16), ("keyreg", 32), ("acfg", 48), ("axfer", 64), ("afrz", 80), ("appl", 103)]
def addrMarkers : List String := ["ANY_ADDRESS", "NO_ADDRESS", "SOME_ADDRESS", "CREATOR_ADDRESS"]
def ANY_ADDRESS : String := "ANY_ADDRESS"
def NO_ADDRESS : String := "NO_ADDRESS"
def SOME_ADDRESS : String := "SOME_ADDRESS"
def CREATOR_ADDRESS : String := "CREATOR_ADDRESS"
def addrBaseKeys : List String := ["RekeyTo", "CloseRemainderTo", "AssetCloseTo", "Sender"]
def feeBaseKeys : List String := ["Fee"]
def intBaseKeys : List String := ["GroupSize", "GroupIndex"]
def detectors : List (String × String) := [("can-close-account", "DetectorType.STATELESS"), ("can-close-asset", "DetectorType.STATELESS"), ("constant-gtxn", "DetectorType.STATELESS"), ("group-size-check", "DetectorType.STATELESS_AND_STATEFULL"), ("is-deletable", "DetectorType.STATEFULL"), ("is-updatable", "DetectorType.STATEFULL"), ("missing-fee-check", "DetectorType.STATELESS"), ("rekey-to", "DetectorType.STATELESS"), ("self-access", "DetectorType.STATELESS"), ("sender-access", "DetectorType.STATELESS"), ("unprotected-deletable", "DetectorType.STATEFULL"), ("unprotected-updatable", "DetectorType.STATEFULL")]

end Tealer.Generated
