/- REGENERATED on every run by harness/extract.py: leaf decision functions translated from the Python AST of /repo. -/
import TealerModel.Syntax
import TealerModel.OSet
import TealerModel.Generated.Consts
namespace Tealer.Generated

structure GFeeValue where
  isUnknown : Bool
  value : Nat
deriving DecidableEq, Repr, Inhabited

/-- translated from fee_field.FeeField._union -/
def feeUnion (a b : GFeeValue) : GFeeValue :=
  (if (a.isUnknown && b.isUnknown) then a else (if a.isUnknown then (if (decide (b.value > Tealer.Generated.MAX_TRANSACTION_COST)) then b else a) else (if b.isUnknown then (if (decide (a.value > Tealer.Generated.MAX_TRANSACTION_COST)) then a else b) else (if (decide (a.value > b.value)) then a else b))))

/-- translated from fee_field.FeeField._intersection -/
def feeInter (a b : GFeeValue) : GFeeValue :=
  (if (a.isUnknown && b.isUnknown) then a else (if a.isUnknown then (if (decide (b.value > Tealer.Generated.MAX_TRANSACTION_COST)) then a else b) else (if b.isUnknown then (if (decide (a.value > Tealer.Generated.MAX_TRANSACTION_COST)) then b else a) else (if (decide (a.value < b.value)) then a else b))))

/-- translated from fee_field.FeeField._get_asserted_max_value -/
def feeAssertedMax (comparison_ins : Cmp) (compared_value : GFeeValue) : GFeeValue × GFeeValue :=
  (if (comparison_ins == .eq) then (compared_value, ({ isUnknown := false, value := Tealer.Generated.MAX_UINT64 } : GFeeValue)) else (if (comparison_ins == .neq) then (({ isUnknown := false, value := Tealer.Generated.MAX_UINT64 } : GFeeValue), compared_value) else (if (comparison_ins == .lt) then (if compared_value.isUnknown then (compared_value, ({ isUnknown := false, value := Tealer.Generated.MAX_UINT64 } : GFeeValue)) else (({ isUnknown := false, value := (max 0 (compared_value.value - 1)) } : GFeeValue), ({ isUnknown := false, value := Tealer.Generated.MAX_UINT64 } : GFeeValue))) else (if (comparison_ins == .le) then (compared_value, ({ isUnknown := false, value := Tealer.Generated.MAX_UINT64 } : GFeeValue)) else (if (comparison_ins == .gt) then (({ isUnknown := false, value := Tealer.Generated.MAX_UINT64 } : GFeeValue), compared_value) else (if (comparison_ins == .ge) then (if compared_value.isUnknown then (({ isUnknown := false, value := Tealer.Generated.MAX_UINT64 } : GFeeValue), compared_value) else (({ isUnknown := false, value := Tealer.Generated.MAX_UINT64 } : GFeeValue), ({ isUnknown := false, value := (max 0 (compared_value.value - 1)) } : GFeeValue))) else (({ isUnknown := false, value := Tealer.Generated.MAX_UINT64 } : GFeeValue), ({ isUnknown := false, value := Tealer.Generated.MAX_UINT64 } : GFeeValue))))))))

/-- translated from int_fields.GroupIndices._get_asserted_int_values -/
def intAssertedValues (comparison_ins : Cmp) (compared_int : Nat) (universal_set : List Nat) : List Nat :=
  (let U := universal_set; (if (comparison_ins == .eq) then [compared_int] else (if (comparison_ins == .neq) then (let U := (if (U.contains compared_int) then U.erase compared_int else U); U) else (if (comparison_ins == .lt) then (U.filter fun i => (decide (i < compared_int))) else (if (comparison_ins == .le) then (U.filter fun i => (decide (i ≤ compared_int))) else (if (comparison_ins == .gt) then (U.filter fun i => (decide (i > compared_int))) else (if (comparison_ins == .ge) then (U.filter fun i => (decide (i ≥ compared_int))) else U)))))))

/-- translated from AddrFields._union -/
def addrUnion (a b : List String) : List String :=
  (if ((a.contains Tealer.Generated.ANY_ADDRESS) || (b.contains Tealer.Generated.ANY_ADDRESS)) then (Tealer.OSet.ofList [Tealer.Generated.ANY_ADDRESS]) else (if ((a.contains Tealer.Generated.NO_ADDRESS) && (b.contains Tealer.Generated.NO_ADDRESS)) then (Tealer.OSet.ofList [Tealer.Generated.NO_ADDRESS]) else (if (a.contains Tealer.Generated.NO_ADDRESS) then b else (if (b.contains Tealer.Generated.NO_ADDRESS) then a else (Tealer.OSet.union a b)))))

/-- translated from AddrFields._intersection -/
def addrInter (a b : List String) : List String :=
  (if ((a.contains Tealer.Generated.NO_ADDRESS) || (b.contains Tealer.Generated.NO_ADDRESS)) then (Tealer.OSet.ofList [Tealer.Generated.NO_ADDRESS]) else (if ((a.contains Tealer.Generated.ANY_ADDRESS) && (b.contains Tealer.Generated.ANY_ADDRESS)) then (Tealer.OSet.ofList [Tealer.Generated.ANY_ADDRESS]) else (if (a.contains Tealer.Generated.ANY_ADDRESS) then b else (if (b.contains Tealer.Generated.ANY_ADDRESS) then a else (Tealer.OSet.inter a b)))))

/-- translated from GroupIndices._union -/
def intUnion (a b : List Nat) : List Nat :=
  (Tealer.OSet.union a b)

/-- translated from GroupIndices._intersection -/
def intInter (a b : List Nat) : List Nat :=
  (Tealer.OSet.inter a b)

/-- translated from TxnType._union -/
def txnTypeUnion (a b : List Nat) : List Nat :=
  (Tealer.OSet.union a b)

/-- translated from TxnType._intersection -/
def txnTypeInter (a b : List Nat) : List Nat :=
  (Tealer.OSet.inter a b)

/-- translated from AddrFields._get_asserted_address; `text` = str(ins) -/
def addrAsserted (ins : Tealer.Op) (text : String) : List String :=
  (if (ins == Tealer.Op.global "ZeroAddress") then (Tealer.OSet.ofList [Tealer.Generated.NO_ADDRESS]) else (match ins with | Tealer.Op.addr addr_ => (if (addr_ == Tealer.Generated.ZERO_ADDRESS) then (Tealer.OSet.ofList [Tealer.Generated.NO_ADDRESS]) else (Tealer.OSet.ofList [addr_])) | _ => (if (ins == Tealer.Op.global "CreatorAddress") then (Tealer.OSet.ofList [Tealer.Generated.CREATOR_ADDRESS]) else (Tealer.OSet.ofList [(Tealer.Generated.SOME_ADDRESS ++ "_" ++ text)]))))

/-- the fields of a block context that the detector predicates read -/
structure GCtx where
  rekeytoAny : Bool
  closetoAny : Bool
  assetclosetoAny : Bool
  senderAny : Bool
  types : List Nat
  maxFee : Nat
  maxFeeUnknown : Bool

/-- translated from MissingRekeyTo.detect.checks_field (rekey-to) -/
def checks_rekeyTo (c : GCtx) : Bool :=
  (!c.rekeytoAny)

/-- translated from CanCloseAccount.detect.checks_field (can-close-account) -/
def checks_canCloseAccount (c : GCtx) : Bool :=
  (!(c.closetoAny && (c.types.contains 16)))

/-- translated from CanCloseAsset.detect.checks_field (can-close-asset) -/
def checks_canCloseAsset (c : GCtx) : Bool :=
  (!(c.assetclosetoAny && (c.types.contains 64)))

/-- translated from MissingFeeCheck.detect.checks_field (missing-fee-check) -/
def checks_feeCheck (c : GCtx) : Bool :=
  (c.maxFeeUnknown || (decide (c.maxFee ≤ Tealer.Generated.MAX_TRANSACTION_COST)))

/-- translated from IsUpdatable.detect.checks_field (is-updatable) -/
def checks_isUpdatable (c : GCtx) : Bool :=
  (!(c.types.contains 100))

/-- translated from IsDeletable.detect.checks_field (is-deletable) -/
def checks_isDeletable (c : GCtx) : Bool :=
  (!(c.types.contains 101))

/-- translated from AnyoneCanUpdate.detect.checks_field (unprotected-updatable) -/
def checks_anyoneCanUpdate (c : GCtx) : Bool :=
  (!((c.types.contains 100) && c.senderAny))

/-- translated from AnyoneCanDelete.detect.checks_field (unprotected-deletable) -/
def checks_anyoneCanDelete (c : GCtx) : Bool :=
  (!((c.types.contains 101) && c.senderAny))

/-- translated from detectors/utils.py validated_in_block -/
def validatedInBlock {α : Type} (chk : α → Bool) (self : α) (gtxn : Nat → α) (groupIndices : List Nat) (absolute_index : Option Nat) : Bool :=
  (if (chk self) then true else (match absolute_index with | some absolute_index => (if (chk (gtxn absolute_index)) then true else false) | none => (groupIndices.all fun i => (chk (gtxn i)))))

end Tealer.Generated
