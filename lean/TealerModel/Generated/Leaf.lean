/- REGENERATED on every run by harness/extract.py: leaf decision functions translated from the Python AST of /repo. -/
import TealerModel.Syntax
import TealerModel.Generated.Consts
namespace Tealer.Generated

structure GFeeValue where
  isUnknown : Bool
  value : Nat
deriving DecidableEq, Repr

/-- translated from fee_field.FeeField._union -/
def feeUnion (a b : GFeeValue) : GFeeValue :=
  (if (a.isUnknown && b.isUnknown) then a else (if a.isUnknown then (if (decide (b.value > Tealer.Generated.MAX_TRANSACTION_COST)) then b else a) else (if b.isUnknown then (if (decide (a.value > Tealer.Generated.MAX_TRANSACTION_COST)) then a else b) else (if (decide (a.value > b.value)) then a else b))))

/-- translated from fee_field.FeeField._intersection -/
def feeInter (a b : GFeeValue) : GFeeValue :=
  (if (a.isUnknown && b.isUnknown) then a else (if a.isUnknown then (if (decide (b.value > Tealer.Generated.MAX_TRANSACTION_COST)) then a else b) else (if b.isUnknown then (if (decide (a.value > Tealer.Generated.MAX_TRANSACTION_COST)) then b else a) else (if (decide (a.value < b.value)) then a else b))))

/-- translated from fee_field.FeeField._get_asserted_max_value -/
def feeAssertedMax (comparison_ins : Cmp) (compared_value : GFeeValue) : GFeeValue × GFeeValue :=
  (if (comparison_ins == .eq) then (compared_value, ({ isUnknown := false, value := Tealer.Generated.MAX_UINT64 } : GFeeValue)) else (if (comparison_ins == .neq) then (({ isUnknown := false, value := Tealer.Generated.MAX_UINT64 } : GFeeValue), compared_value) else (if (comparison_ins == .lt) then (if compared_value.isUnknown then (compared_value, ({ isUnknown := false, value := Tealer.Generated.MAX_UINT64 } : GFeeValue)) else (({ isUnknown := false, value := (max 0 (compared_value.value - 1)) } : GFeeValue), ({ isUnknown := false, value := Tealer.Generated.MAX_UINT64 } : GFeeValue))) else (if (comparison_ins == .le) then (compared_value, ({ isUnknown := false, value := Tealer.Generated.MAX_UINT64 } : GFeeValue)) else (if (comparison_ins == .gt) then (({ isUnknown := false, value := Tealer.Generated.MAX_UINT64 } : GFeeValue), compared_value) else (if (comparison_ins == .ge) then (if compared_value.isUnknown then (({ isUnknown := false, value := Tealer.Generated.MAX_UINT64 } : GFeeValue), compared_value) else (({ isUnknown := false, value := Tealer.Generated.MAX_UINT64 } : GFeeValue), ({ isUnknown := false, value := (max 0 (compared_value.value - 1)) } : GFeeValue))) else (({ isUnknown := false, value := Tealer.Generated.MAX_UINT64 } : GFeeValue), ({ isUnknown := false, value := Tealer.Generated.MAX_UINT64 } : GFeeValue))))))))

end Tealer.Generated
