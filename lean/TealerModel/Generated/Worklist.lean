/- REGENERATED on every run by harness/worklist_gen.py (+ flow_gen.py, pydo.py): the worklist solvers of
   analyses/dataflow/transaction_context/generic.py translated statement by statement from the Python AST of /repo, for one
   analysis key; `while worklist:` is recursion on fuel (`none` when it runs out). -/
import TealerModel.Generated.Flow
set_option linter.unusedVariables false
namespace Tealer.Generated

/-- translated from DataflowTransactionContext._merge_information_forward for one key: (updated, global_reachout[key] after the call) -/
def mergeInformationForward {D : Type} [DecidableEq D] (dom : Tealer.Domain D) (univ : D) (blockCtx : Nat → D) (pathCtx : Nat → Nat → D) (blocks : List Nat) (blockOf : Nat → Tealer.PyView.PyBlock) (self : Tealer.PyView.Env) (key : Tealer.Key) (block : Nat) (global_reachout : Nat → D) : Bool × (Nat → D) := Id.run do
  let mut global_reachout := global_reachout
  let mut updated := false
  for _k in [()] do
    let mut new_reachout := (dom.inter (calculateReachin dom univ (pathCtx block) self key (blockOf block) global_reachout) (blockCtx block))
    if (new_reachout != (global_reachout block)) then
      global_reachout := Tealer.PyView.dmapSet global_reachout block new_reachout
      updated := true
  return (updated, global_reachout)

/-- the `while worklist:` loop of DataflowTransactionContext.forward_analyis; one iteration per unit of fuel -/
def forwardAnalyisLoop {D : Type} [DecidableEq D] (dom : Tealer.Domain D) (univ : D) (blockCtx : Nat → D) (pathCtx : Nat → Nat → D) (blocks : List Nat) (blockOf : Nat → Tealer.PyView.PyBlock) (self : Tealer.PyView.Env) (key : Tealer.Key) : Nat → List Nat → (Nat → D) → Option (Nat → D)
  | 0, _, _ => none    -- out of fuel
  | fuel + 1, worklist, global_reachout => do
    if worklist.isEmpty then return global_reachout    -- `while worklist:` is left
    let mut worklist := worklist
    let mut global_reachout := global_reachout
    let mut b := (worklist.headD 0)
    worklist := (worklist.drop 1)
    -- the Python updates `global_reachout[key]` in place
    let (t_updated, t_state) := (mergeInformationForward dom univ blockCtx pathCtx blocks blockOf self key b global_reachout)
    let mut updated := t_updated
    global_reachout := t_state
    if updated then
      let mut return_point_block := (if ((blockOf b).isCallsubBlock && (blockOf b).subReturnPoint.isSome) then [((blockOf b).subReturnPoint.getD 0)] else ([] : List Nat))
      for bi in ((blockOf b).nextGlobal ++ return_point_block) do
        if (!(worklist.contains bi)) then
          worklist := worklist ++ [bi]
    forwardAnalyisLoop dom univ blockCtx pathCtx blocks blockOf self key fuel worklist global_reachout

/-- translated from DataflowTransactionContext.forward_analyis for one key: the value of self._block_contexts[key] when it returns -/
def forwardAnalyis {D : Type} [DecidableEq D] (dom : Tealer.Domain D) (univ : D) (blockCtx : Nat → D) (pathCtx : Nat → Nat → D) (blocks : List Nat) (blockOf : Nat → Tealer.PyView.PyBlock) (self : Tealer.PyView.Env) (key : Tealer.Key) (fuel : Nat) (worklist : List Nat) : Option (Nat → D) := do
  let mut global_reachout : Nat → D := fun _ => dom.null
  -- `global_reachout = {}`: the dictionary of per-key dictionaries
  for _k in [()] do
    -- `global_reachout[key] = {}`: the dictionary of this key (a function of the block)
    for b in blocks do
      global_reachout := Tealer.PyView.dmapSet global_reachout b dom.null
  -- `self._block_contexts[key] = global_reachout[key]`: the result
  forwardAnalyisLoop dom univ blockCtx pathCtx blocks blockOf self key fuel worklist global_reachout

/-- translated from DataflowTransactionContext._merge_information_backward for one key: (updated, global_liveout[key] after the call) -/
def mergeInformationBackward {D : Type} [DecidableEq D] (dom : Tealer.Domain D) (univ : D) (blockCtx : Nat → D) (pathCtx : Nat → Nat → D) (blocks : List Nat) (blockOf : Nat → Tealer.PyView.PyBlock) (self : Tealer.PyView.Env) (key : Tealer.Key) (block : Nat) (global_liveout : Nat → D) : Bool × (Nat → D) := Id.run do
  let mut global_liveout := global_liveout
  if (blockOf block).isLeaf then
    return (false, global_liveout)
  let mut updated := false
  for _k in [()] do
    let mut new_liveout := (dom.inter (calculateLivein dom univ self key (blockOf block) global_liveout) (blockCtx block))
    if (new_liveout != (global_liveout block)) then
      global_liveout := Tealer.PyView.dmapSet global_liveout block new_liveout
      updated := true
  return (updated, global_liveout)

/-- the `while worklist:` loop of DataflowTransactionContext.backward_analysis; one iteration per unit of fuel -/
def backwardAnalysisLoop {D : Type} [DecidableEq D] (dom : Tealer.Domain D) (univ : D) (blockCtx : Nat → D) (pathCtx : Nat → Nat → D) (blocks : List Nat) (blockOf : Nat → Tealer.PyView.PyBlock) (self : Tealer.PyView.Env) (key : Tealer.Key) : Nat → List Nat → (Nat → D) → Option (Nat → D)
  | 0, _, _ => none    -- out of fuel
  | fuel + 1, worklist, global_liveout => do
    if worklist.isEmpty then return global_liveout    -- `while worklist:` is left
    let mut worklist := worklist
    let mut global_liveout := global_liveout
    let mut b := (worklist.headD 0)
    worklist := (worklist.drop 1)
    -- the Python updates `global_liveout[key]` in place
    let (t_updated, t_state) := (mergeInformationBackward dom univ blockCtx pathCtx blocks blockOf self key b global_liveout)
    let mut updated := t_updated
    global_liveout := t_state
    if updated then
      let mut callsub_block := (if (blockOf b).isSubReturnPoint then [(blockOf b).callsubBlock] else ([] : List Nat))
      for bi in ((blockOf b).prevGlobal ++ callsub_block) do
        if (!(worklist.contains bi)) then
          worklist := worklist ++ [bi]
    backwardAnalysisLoop dom univ blockCtx pathCtx blocks blockOf self key fuel worklist global_liveout

/-- translated from DataflowTransactionContext.backward_analysis for one key: the value of self._block_contexts[key] when it returns -/
def backwardAnalysis {D : Type} [DecidableEq D] (dom : Tealer.Domain D) (univ : D) (blockCtx : Nat → D) (pathCtx : Nat → Nat → D) (blocks : List Nat) (blockOf : Nat → Tealer.PyView.PyBlock) (self : Tealer.PyView.Env) (key : Tealer.Key) (fuel : Nat) (worklist : List Nat) : Option (Nat → D) := do
  let mut global_liveout : Nat → D := fun _ => dom.null
  -- `global_liveout = {}`: the dictionary of per-key dictionaries
  for _k in [()] do
    -- `global_liveout[key] = {}`: the dictionary of this key (a function of the block)
    for b in blocks do
      if (blockOf b).isLeaf then
        global_liveout := Tealer.PyView.dmapSet global_liveout b (blockCtx b)
      else
        global_liveout := Tealer.PyView.dmapSet global_liveout b dom.null
  -- `self._block_contexts[key] = global_liveout[key]`: the result
  backwardAnalysisLoop dom univ blockCtx pathCtx blocks blockOf self key fuel worklist global_liveout

/-- translated from DataflowTransactionContext._update_gtxn_constraints: the value it writes to
    self._block_contexts[get_gtxn_at_index_key(ind, key)][block] (one entry of the double loop over keys and indices);
    `groupIndices` = self._function.transaction_context(block).group_indices -/
def updateGtxnConstraints {D : Type} (dom : Tealer.Domain D) (groupIndices : List Nat) (ind : Nat) (gtxCtx baseCtx : D) : D := Id.run do
  let mut gtxCtx := gtxCtx
  if (groupIndices.contains ind) then
    gtxCtx := (dom.inter gtxCtx baseCtx)
  else
    gtxCtx := dom.null
  return gtxCtx

end Tealer.Generated
