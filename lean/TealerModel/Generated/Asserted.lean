/- REGENERATED on every run by harness/asserted_gen.py (+ flow_gen.py, pydo.py): the recursion over condition trees -
   stack_ast_builder._flatten_ast, compute_equations and DataflowTransactionContext._get_asserted - translated statement by
   statement from the Python AST of /repo.  The unbounded Python recursion is bounded by `fuel` (`none` when it runs out). -/
import TealerModel.PyView
import TealerModel.Dom
set_option linter.unusedVariables false
namespace Tealer.Generated

/-- translated from analyses/utils/stack_ast_builder._flatten_ast (`node_ins`: the class, by name) -/
def flattenAstPy  : Nat → Tealer.PySV → String → Option (List Tealer.PySV)
  | 0, _, _ => none    -- out of fuel
  | fuel + 1, root, node_ins => do
    if root.isUnknown then
      return [root]
    if (!(Tealer.PyView.isClass root.instruction node_ins)) then
      return [root]
    let mut left := (root.arg 0)
    let mut right := (root.arg 1)
    return ((← flattenAstPy fuel left node_ins) ++ (← flattenAstPy fuel right node_ins))

/-- translated from analyses/utils/stack_ast_builder.compute_equations -/
def computeEquationsPy  (fuel : Nat) (root : Tealer.PySV) (node_ins : String) : Option ((List Tealer.PySV) × (Bool)) := do
  let mut equations := (← flattenAstPy fuel root node_ins)
  let mut has_unkown_value := false
  let mut known_equations := ([] : List Tealer.PySV)
  for eq in equations do
    if eq.isUnknown then
      has_unkown_value := true
    else
      known_equations := known_equations ++ [eq]
  return (known_equations, has_unkown_value)

/-- translated from DataflowTransactionContext._get_asserted; `single key v` = self._get_asserted_single(key, v), `univ` = self._universal_set(key) -/
def getAssertedPy {D : Type} (dom : Tealer.Domain D) (univ : D) (single : Tealer.Key → Tealer.PySV → D × D) (self : Tealer.PyView.Env) : Nat → Tealer.Key → Tealer.PySV → Option ((D) × (D))
  | 0, _, _ => none    -- out of fuel
  | fuel + 1, key, ins_stack_value => do
    if (!((Tealer.PyView.isClass ins_stack_value.instruction "And") || (Tealer.PyView.isClass ins_stack_value.instruction "Or") || (Tealer.PyView.isClass ins_stack_value.instruction "Not"))) then
      let mut (t, f) := (single key ins_stack_value)
      return (t, f)
    if ((Tealer.PyView.isClass ins_stack_value.instruction "Not")) then
      let mut arg := (ins_stack_value.arg 0)
      if arg.isUnknown then
        return (univ, univ)
      let mut (true_values, false_values) := (← getAssertedPy dom univ single self fuel key arg)
      let mut final_true_values := false_values
      let mut final_false_values := true_values
      return (final_true_values, final_false_values)
    if ((Tealer.PyView.isClass ins_stack_value.instruction "And")) then
      let mut (individual_equations, has_unknown_value) := (← computeEquationsPy fuel ins_stack_value "And")
      let mut final_true_values := univ
      let mut final_false_values := dom.null
      for equation in individual_equations do
        let mut (true_values, false_values) := (← getAssertedPy dom univ single self fuel key equation)
        final_true_values := (dom.inter final_true_values true_values)
        final_false_values := (dom.union final_false_values false_values)
      if has_unknown_value then
        final_false_values := univ
      return (final_true_values, final_false_values)
    let mut (individual_equations, has_unknown_value) := (← computeEquationsPy fuel ins_stack_value "Or")
    let mut final_false_values := univ
    let mut final_true_values := dom.null
    for equation in individual_equations do
      let mut (true_values, false_values) := (← getAssertedPy dom univ single self fuel key equation)
      final_false_values := (dom.inter final_false_values false_values)
      final_true_values := (dom.union final_true_values true_values)
    if has_unknown_value then
      final_true_values := univ
    return (final_true_values, final_false_values)

end Tealer.Generated
