/- REGENERATED on every run by harness/stackast_gen.py: Stack.pop_n_values, Stack.push_n_values and construct_stack_ast of
   analyses/utils/stack_ast_builder.py translated statement by statement from the Python AST of /repo. -/
import TealerModel.PyView
set_option linter.unusedVariables false
namespace Tealer.Generated

/-- translated from Stack.pop_n_values: (the returned list, self._values after the call) -/
def popNValues (self_values : List Tealer.PySV) (count : Nat) : List Tealer.PySV × List Tealer.PySV := Id.run do
  let mut self_values := self_values
  if (count == 0) then
    return (([] : List Tealer.PySV), self_values)
  if (decide (self_values.length ≥ count)) then
    let mut vals := (Tealer.PyView.sliceLast self_values count)
    self_values := (Tealer.PyView.sliceButLast self_values count)
    return (vals, self_values)
  let mut remaining_elements := (List.replicate (count - self_values.length) Tealer.PySV.unknown)
  let mut vals := (remaining_elements ++ self_values)
  self_values := ([] : List Tealer.PySV)
  return (vals, self_values)

/-- translated from Stack.push_n_values: self._values after the call -/
def pushNValues (self_values : List Tealer.PySV) (values : List Tealer.PySV) : List Tealer.PySV := Id.run do
  let mut self_values := self_values
  self_values := self_values ++ values
  return self_values

/-- translated from construct_stack_ast: the values of the returned dictionary, in block order -/
def constructStackAst (instructions : List Tealer.PyView.PyInsInfo) : List Tealer.PySV := Id.run do
  let mut stack_values : List Tealer.PySV := []    -- Stack(): self._values = []
  let mut ins_stack_value : List Tealer.PySV := []    -- the dictionary, as the list of its values in insertion order
  for ins in instructions do
    let (t_ins_in_values, t_values) := popNValues stack_values ins.pops
    let mut ins_in_values := t_ins_in_values
    stack_values := t_values
    let mut ins_out_values := ([] : List Tealer.PySV)
    for i in List.range ins.pushes do
      ins_out_values := ins_out_values ++ [(Tealer.PySV.known ins.pos ins.op ins.text ins_in_values)]
    stack_values := pushNValues stack_values ins_out_values
    ins_stack_value := ins_stack_value ++ [(Tealer.PySV.known ins.pos ins.op ins.text ins_in_values)]
  return ins_stack_value

end Tealer.Generated
