import TealerModel.Proto
import TealerModel.Avm
import TealerModel.Regex
import TealerModel.NumList
import TealerModel.Group
import TealerModel.Lemmas.Solver
open Tealer Tealer.Proto

def emit (out : IO.FS.Stream) (s : String) : IO Unit := out.putStrLn s

def exitKind (o : Option Op) : String :=
  match o with
  | some (.callsub l) => "callsub:" ++ pencode l
  | some .retsub => "retsub"
  | some (.bz l) => "bz:" ++ pencode l
  | some (.bnz l) => "bnz:" ++ pencode l
  | some (.b l) => "b:" ++ pencode l
  | some (.switch _) => "switch"
  | some (.match_ _) => "match"
  | some .err => "err"
  | some .ret => "return"
  | _ => "-"

def renderTeal (out : IO.FS.Stream) (t : Teal) : IO Unit := do
  for b in t.allBlocks do
    let first := (b.ins.head?.map (·.line)).getD 0
    let last := (b.ins.getLast?.map (·.line)).getD 0
    emit out s!"block {b.idx} live={if t.live.contains b.idx then 1 else 0} sub={pencode (b.sub.getD "-")} lines={first}-{last} n={b.ins.length} next={natList b.next} prev={natList b.prev} exit={exitKind (b.ins.getLast?.map (·.op))}"
  for s in t.main :: t.subs do
    emit out s!"sub {pencode s.name} entry={s.entry} blocks={natList s.blocks} exits={natList s.exits} callers={natList s.callers} retpoints={natList s.retPoints}"
  emit out ("intcs " ++ (match t.intcs with | some [] => "none" | some cs => natList cs | none => "none"))
  emit out s!"version {t.version}"
  emit out s!"live {natList t.live}"

def renderFunction (out : IO.FS.Stream) (f : Function) : IO Unit := do
  emit out s!"fentry {f.entry}"
  for b in f.blocks do
    emit out s!"fblock {b.key} idx={b.idx} sub={pencode b.sub} n={b.ins.length} next={natList b.next} prev={natList b.prev} leaf={if b.isLeaf then 1 else 0} abs={if accessedUsingAbsoluteIndex f.intcs b then 1 else 0} exit={exitKind b.exitOp} lines={(b.ins.head?.map (·.line)).getD 0}-{(b.ins.getLast?.map (·.line)).getD 0}"
  for s in f.main :: f.subs do
    emit out s!"fsub {pencode s.name} entry={s.entry} blocks={natList s.blocks} retsubs={natList s.retsubs} callers={natList s.callers} retpoints={natList s.retPoints}"

def renderAsts (out : IO.FS.Stream) (f : Function) : IO Unit := do
  for b in f.blocks do
    let a := constructAst b.ins
    for (args, p) in a.args.zipIdx do
      if !args.isEmpty then
        emit out s!"ast {b.key} {p} {" ".intercalate (args.map renderRef)}"

def renderContexts (out : IO.FS.Stream) (f : Function) (c : Contexts) : IO Unit := do
  for b in f.blocks do
    let bc := c.get b.key
    emit out s!"ctx {b.key} self 0 {renderCtx bc.self}"
    for (x, i) in bc.atIndex.zipIdx do
      if x != defaultTail then emit out s!"ctx {b.key} at {i} {renderCtx x}"
    for (x, i) in bc.abs.zipIdx do
      if x != defaultTail then emit out s!"ctx {b.key} abs {i} {renderCtx x}"
    for (k, x) in bc.rel do
      if x != defaultTail then emit out s!"ctx {b.key} rel {k} {renderCtx x}"

def renderPath (p : List Nat) : String := "-".intercalate (p.map toString)

def handleProg (out : IO.FS.Stream) (id : String) (pathSpec : String) (toks : List String) : IO Unit := do
  match toks.mapM parseIns with
  | none => emit out "err decode"
  | some ins =>
    match parseTeal ins with
    | .error e => emit out s!"err teal {e}"
    | .ok t =>
      renderTeal out t
      let path := (pathSpec.splitOn ".").filterMap String.toNat?
      match constructFunction t path with
      | .error e => emit out s!"err func {e}"
      | .ok f =>
        renderFunction out f
        renderAsts out f
        match analyse f with
        | .error e => emit out s!"err analyse {e}"
        | .ok c =>
          renderContexts out f c
          match mkGraph f with
          | .ok g => emit out s!"premises fwdWF={if Solver.fwdWF g then 1 else 0} bwdWF={if Solver.bwdWF g then 1 else 0} nodupNext={if f.blocks.all (fun b => b.next.eraseDups.length == b.next.length) then 1 else 0}"
          | .error _ => pure ()
          let fuel := (f.blocks.length + 2) * (f.subs.length + 2) + 2
          for d in allDetectors do
            match detect f c d fuel with
            | .error e => emit out s!"err detect {d.name} {e}"
            | .ok ps => emit out s!"paths {d.name} {"|".intercalate (ps.map renderPath)}"
  emit out s!"end {id}"

def parseVal (s : String) : Option Avm.Val :=
  let s := pdecode s
  if s.startsWith "i" then (s.drop 1).toNat?.map Avm.Val.int
  else if s.startsWith "b" then some (.bytes (s.drop 1).toString)
  else none

def parseTxn (spec : String) : Option Avm.Txn := do
  let fs ← (spec.splitOn ";").filter (· != "") |>.mapM fun kv =>
    match kv.splitOn "=" with
    | [k, v] => (parseVal v).map fun v => (pdecode k, v)
    | _ => none
  pure { fields := fs }

/-- for each pc: (block idx, is first instruction of its block) -/
def pcBlocks (prog : List Ins) (t : Teal) : List (Nat × Bool) :=
  prog.map fun i =>
    match t.allBlocks.find? fun b => b.ins.any (·.line == i.line) with
    | some b => (b.idx, (b.ins.head?.map (·.line)) == some i.line)
    | none => (999999, false)

def handleRun (out : IO.FS.Stream) (prog : List Ins) (pcb : List (Nat × Bool)) (id : String) (args : List String) : IO Unit := do
  match args with
  | [fuel, size, self, creator, txns] =>
    match fuel.toNat?, size.toNat?, self.toNat?, (txns.splitOn "|").mapM parseTxn with
    | some fuel, some size, some self, some txns =>
      let e : Avm.Env := { size, self, txns, creator := pdecode creator }
      let r := Avm.run prog e fuel
      let (tag, why, tr) := match r with
        | .accept t => ("accept", "-", t)
        | .reject w t => ("reject", w, t)
        | .outOfFuel t => ("fuel", "-", t)
        | .unsupported w t => ("unsupported", pencode w, t)
      -- block-entry sequence and the single-entry / sequential-execution check
      let (blocks, wf, _) := tr.foldl (fun (acc, wf, prev) pc =>
        let (b, first) := pcb[pc]?.getD (999999, false)
        let seq := match prev with
          | some (ppc, pb) => (pc == ppc + 1 && pb == b && !first) || first
          | none => first
        (if first then b :: acc else acc, wf && seq, some (pc, b))) (([] : List Nat), true, (none : Option (Nat × Nat)))
      emit out s!"res {id} {tag} {why} blocks={natList blocks.reverse} wf={if wf then 1 else 0} steps={tr.length}"
    | _, _, _, _ => emit out s!"res {id} badenv"
  | _ => emit out s!"res {id} badrequest"

def parseAssoc (s : String) : List (Nat × List Nat) :=
  (s.splitOn ";").filterMap fun e =>
    match e.splitOn ":" with
    | [k, vs] => k.toNat?.map fun k => (k, (vs.splitOn ",").filterMap String.toNat?)
    | _ => none

def handleRegex (out : IO.FS.Stream) (id : String) (args : List String) : IO Unit := do
  match args with
  | [start, plen, n, nexts, same] =>
    match start.toNat?, plen.toNat?, n.toNat? with
    | some start, some plen, some n =>
      let nx := parseAssoc nexts
      let sm := parseAssoc same
      let g : Regex.IG := {
        next := fun c => (nx.find? (·.1 == c)).map (·.2) |>.getD []
        same := fun c k => ((sm.find? (·.1 == k)).map (·.2) |>.getD []).contains c }
      let (ms, cov) := Regex.matchRegex g plen n start
      emit out s!"rx {id} matches={"|".intercalate (ms.map fun m => "-".intercalate (m.map toString))} covered={natList (cov.mergeSort (· ≤ ·)).eraseDups}"
    | _, _, _ => emit out s!"rx {id} badrequest"
  | _ => emit out s!"rx {id} badrequest"

/-- `group <id> <sl|sf> <txns> <own> <abs> <rel>`: the group verdict loop on scripted contract answers.
    txns `|`-separated `id,hasLogicSig,lsContract,app,typeOk,abs|-,k:other;...|-`; answer lists `,`-separated `id:c[:n]`, `-` when empty;
    a malformed request is rejected, never defaulted -/
def handleGroup (out : IO.FS.Stream) (id : String) (args : List String) : IO Unit := do
  let bit (s : String) : Option Bool := if s == "1" then some true else if s == "0" then some false else none
  let lst (s : String) (sep : String) : List String := if s == "-" then [] else s.splitOn sep
  let parseTxn (s : String) : Option Group.GTxn :=
    match s.splitOn "," with
    | [i, fl, ls, app, ok, ab, offs] => do
      let i ← i.toNat?
      let fl ← bit fl
      let ls ← bit ls
      let app ← bit app
      let ok ← bit ok
      let ab ← if ab == "-" then some none else ab.toNat?.map some
      let offs ← (lst offs ";").mapM fun e =>
        match e.splitOn ":" with
        | [k, o] => do some ((← k.toInt?), (← o.toNat?))
        | _ => none
      some ⟨i, fl, ls, app, ok, ab, offs⟩
    | _ => none
  let parseAns (s : String) (arity : Nat) : Option (List (Nat × Bool × Int)) :=
    (lst s ",").mapM fun e =>
      match e.splitOn ":", arity with
      | [i, c], 2 => do some ((← i.toNat?), (← bit c), 0)
      | [i, c, n], 3 => do some ((← i.toNat?), (← bit c), (← n.toInt?))
      | _, _ => none
  match args with
  | [det, txns, own, ab, rel] =>
    let det : Option Group.DetType := match det with
      | "sl" => some .stateless | "sf" => some .stateful | _ => none
    match det, (lst txns "|").mapM parseTxn, parseAns own 2, parseAns ab 3, parseAns rel 3 with
    | some det, some txns, some own, some ab, some rel =>
      let a : Group.Answers := {
        own := fun i c => own.contains (i, c, 0)
        atAbs := fun i c n => ab.contains (i, c, Int.ofNat n)
        atRel := fun i c k => rel.contains (i, c, k) }
      emit out s!"gv {id} {natList (Group.groupVerdict det a txns)}"
    | _, _, _, _, _ => emit out s!"gv {id} badrequest"
  | _ => emit out s!"gv {id} badrequest"

partial def loop (inp out : IO.FS.Stream) (prog : List Ins) (pcb : List (Nat × Bool)) : IO Unit := do
  let line ← inp.getLine
  if line.isEmpty then return ()
  let line := (line.dropRightWhile (fun c => c == '\n' || c == '\r'))
  match line.splitOn " " with
  | "prog" :: id :: path :: toks =>
    handleProg out id path (toks.filter (· != ""))
    out.flush
    loop inp out prog pcb
  | "semprog" :: toks =>
    match (toks.filter (· != "")).mapM parseIns with
    | some ins =>
      match parseTeal ins with
      | .ok t => emit out "semprog ok"; out.flush; loop inp out ins (pcBlocks ins t)
      | .error e => emit out s!"semprog err {e}"; out.flush; loop inp out [] []
    | none => emit out "semprog err decode"; out.flush; loop inp out [] []
  | ["reprnum", id, vals] =>
    -- _repr_num_list of a sorted list of numbers ("-" = the empty list)
    let l := if vals == "-" then [] else (vals.splitOn ",").filterMap String.toNat?
    emit out s!"reprnum {id} {pencode (NumList.repr l)}"
    out.flush
    loop inp out prog pcb
  | "regex" :: id :: args =>
    handleRegex out id args
    out.flush
    loop inp out prog pcb
  | "group" :: id :: args =>
    handleGroup out id args
    out.flush
    loop inp out prog pcb
  | "run" :: id :: args =>
    handleRun out prog pcb id args
    out.flush
    loop inp out prog pcb
  | [""] => loop inp out prog pcb
  | _ =>
    emit out "err request"
    out.flush
    loop inp out prog pcb

def main : IO Unit := do
  let inp ← IO.getStdin
  let out ← IO.getStdout
  loop inp out [] []
