import TealerModel.Proto
open Tealer Tealer.Proto

def emit (out : IO.FS.Stream) (s : String) : IO Unit := out.putStrLn s

def renderTeal (out : IO.FS.Stream) (t : Teal) : IO Unit := do
  for b in t.allBlocks do
    let first := (b.ins.head?.map (·.line)).getD 0
    let last := (b.ins.getLast?.map (·.line)).getD 0
    emit out s!"block {b.idx} live={if t.live.contains b.idx then 1 else 0} sub={pencode (b.sub.getD "-")} lines={first}-{last} n={b.ins.length} next={natList b.next} prev={natList b.prev}"
  for s in t.main :: t.subs do
    emit out s!"sub {pencode s.name} entry={s.entry} blocks={natList s.blocks} exits={natList s.exits} callers={natList s.callers} retpoints={natList s.retPoints}"
  emit out ("intcs " ++ (match t.intcs with | some [] => "none" | some cs => natList cs | none => "none"))
  emit out s!"version {t.version}"
  emit out s!"live {natList t.live}"

def renderFunction (out : IO.FS.Stream) (f : Function) : IO Unit := do
  emit out s!"fentry {f.entry}"
  for b in f.blocks do
    emit out s!"fblock {b.key} idx={b.idx} sub={pencode b.sub} n={b.ins.length} next={natList b.next} prev={natList b.prev}"
  for s in f.main :: f.subs do
    emit out s!"fsub {pencode s.name} entry={s.entry} blocks={natList s.blocks} retsubs={natList s.retsubs} callers={natList s.callers} retpoints={natList s.retPoints}"

def renderAsts (out : IO.FS.Stream) (f : Function) : IO Unit := do
  for b in f.blocks do
    let a := constructAst b.ins
    for (args, p) in a.args.zipIdx do
      if !args.isEmpty then
        emit out s!"ast {b.key} {p} {" ".intercalate (args.map renderRef)}"

def renderContexts (out : IO.FS.Stream) (f : Function) (c : Contexts) : IO Unit := do
  for b in f.blocks do
    let bc := c.get b.key
    emit out s!"ctx {b.key} self 0 {renderCtx bc.self}"
    for (x, i) in bc.atIndex.zipIdx do
      if x != defaultTail then emit out s!"ctx {b.key} at {i} {renderCtx x}"
    for (x, i) in bc.abs.zipIdx do
      if x != defaultTail then emit out s!"ctx {b.key} abs {i} {renderCtx x}"
    for (k, x) in bc.rel do
      if x != defaultTail then emit out s!"ctx {b.key} rel {k} {renderCtx x}"

def renderPath (p : List Nat) : String := "-".intercalate (p.map toString)

def handleProg (out : IO.FS.Stream) (id : String) (pathSpec : String) (toks : List String) : IO Unit := do
  match toks.mapM parseIns with
  | none => emit out "err decode"
  | some ins =>
    match parseTeal ins with
    | .error e => emit out s!"err teal {e}"
    | .ok t =>
      renderTeal out t
      let path := (pathSpec.splitOn ".").filterMap String.toNat?
      match constructFunction t path with
      | .error e => emit out s!"err func {e}"
      | .ok f =>
        renderFunction out f
        renderAsts out f
        match analyse f with
        | .error e => emit out s!"err analyse {e}"
        | .ok c =>
          renderContexts out f c
          let fuel := (f.blocks.length + 2) * (f.subs.length + 2) + 2
          for d in allDetectors do
            match detect f c d fuel with
            | .error e => emit out s!"err detect {d.name} {e}"
            | .ok ps => emit out s!"paths {d.name} {"|".intercalate (ps.map renderPath)}"
  emit out s!"end {id}"

partial def loop (inp out : IO.FS.Stream) : IO Unit := do
  let line ← inp.getLine
  if line.isEmpty then return ()
  let line := (line.dropRightWhile (fun c => c == '\n' || c == '\r'))
  match line.splitOn " " with
  | "prog" :: id :: path :: toks => handleProg out id path (toks.filter (· != ""))
  | [""] => pure ()
  | _ => emit out "err request"
  out.flush
  loop inp out

def main : IO Unit := do
  let inp ← IO.getStdin
  let out ← IO.getStdout
  loop inp out
