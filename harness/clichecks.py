"""C17 / C18: the command line in every output mode, as subprocesses (exit status, tracebacks), and the exported
JSON / DOT files parsed back and compared with the internal results of an in-process run."""
import html, json, os, random, re, shutil, subprocess, sys, tempfile, multiprocessing
HERE = os.path.dirname(os.path.abspath(__file__))
sys.path.insert(0, HERE)
import gen
import engine

PRINTERS = ["cfg", "subroutine-cfg", "call-graph", "human-summary", "transaction-context"]

ADVERSARIAL = {
    'dead-branching': "#pragma version 8\nint 1\nreturn\ndead:\nint 1\nbnz other\nint 2\npop\nother:\nint 1\nreturn\n",
    'dead-calls': "#pragma version 8\nint 1\nreturn\ndead:\ncallsub f\nint 1\nreturn\nf:\nretsub\n",
    'dead-two-succ-in-sub': "#pragma version 8\ncallsub f\nint 1\nreturn\nf:\nint 1\nbz x\nretsub\ndead:\nint 1\nbnz x\nint 3\npop\nx:\nretsub\n",
    'labels-at-end': "#pragma version 8\nint 1\nbnz end\nint 1\nreturn\nend:\n",
    'empty-sub': "#pragma version 8\ncallsub f\nint 1\nreturn\nf:\nretsub\n",
    'back-to-back-labels': "#pragma version 8\nint 1\nbnz a\nb b\na:\nb:\nint 1\nreturn\n",
    'branch-last': "#pragma version 8\ntop:\ntxn NumAppArgs\nint 1\nbnz top\n",
    'call-last': "#pragma version 8\nb main\nf:\nretsub\nmain:\nint 1\ncallsub f\n",
    'call-last-in-sub': "#pragma version 8\ncallsub f\nint 1\nreturn\ng:\nint 2\npop\nretsub\nf:\nint 1\nbz y\ncallsub g\nint 1\nreturn\ny:\nint 1\ncallsub g\n",
    'loop': "#pragma version 8\nint 0\nstore 0\ntop:\nload 0\nint 3\n<\nbz done\nload 0\nint 1\n+\nstore 0\nb top\ndone:\nint 1\nreturn\n",
    'recursion': "#pragma version 8\nint 3\ncallsub f\nint 1\nreturn\nf:\ndup\nbz base\nint 1\n-\ncallsub f\nbase:\nretsub\n",
    'branch-to-next': "#pragma version 8\ntxn Fee\nint 5\n<\nbz nxt\nnxt:\nint 1\nreturn\n",
    'switch-dup': "#pragma version 8\ntxn NumAppArgs\nswitch a a b\nerr\na:\nint 1\nreturn\nb:\nint 1\nreturn\n",
    'shared-sub-twice': "#pragma version 8\ncallsub f\ncallsub f\nint 1\nreturn\nf:\nint 2\npop\nretsub\n",
    'no-pragma': "int 1\nreturn\n",
}
KNOWN_CRASHERS = {
    'retsub-in-main': ("#pragma version 8\ntxn NumAppArgs\nbz ok\nretsub\nok:\nint 1\nreturn\n", 'F21'),
    'typeenum-zero': ("#pragma version 8\ntxn TypeEnum\nint 0\n==\nassert\nint 1\nreturn\n", 'F22'),
}


def run_cli(args, src, workdir, timeout=120):
    os.makedirs(workdir, exist_ok=True)
    f = os.path.join(workdir, 'c.teal')
    with open(f, 'w') as fh:
        fh.write(src)
    env = dict(os.environ, TEALER_ROOT_OUTPUT_DIR=os.path.join(workdir, 'out'), PYTHONHASHSEED=os.environ.get('PYTHONHASHSEED', '0'))
    cmd = ['/venv/bin/python', '-m', 'tealer'] + [a.replace('{file}', 'c.teal') for a in args]   # relative: the contract name (and output directory) derive from the path as given
    try:
        p = subprocess.run(cmd, capture_output=True, text=True, timeout=timeout, env=env, cwd=workdir)
        return p.returncode, p.stdout, p.stderr
    except subprocess.TimeoutExpired:
        return 'timeout', '', ''


MODES = [("detect-text", ["detect", "--contracts", "{file}"]),
         ("detect-json", ["--json", "-", "detect", "--contracts", "{file}"])] + \
        [("print-" + p, ["print", p, "--contracts", "{file}"]) for p in PRINTERS]


def one_program(item):
    name, src, modes = item['name'], item['src'], item['modes']
    base = tempfile.mkdtemp(prefix='tealer-verif-cli-')
    out = {'name': name, 'src': src, 'runs': [], 'c18': []}
    try:
        for mname, args in modes:
            wd = os.path.join(base, mname)
            code, so, se = run_cli(args, src, wd)
            if code == 'timeout':
                # a loaded machine is not a hang: only a run that does not finish within a much longer limit counts
                code, so, se = run_cli(args, src, wd, timeout=900)
            tb = 'Traceback (most recent call last)' in se or 'Traceback (most recent call last)' in so
            out['runs'].append({'mode': mname, 'exit': code, 'traceback': tb, 'tail': (se or so)[-600:] if (tb or code not in (0,)) else ''})
            if item.get('c18'):
                try:
                    out['c18'] += check_outputs(mname, src, wd, so)
                except Exception as e:  # noqa
                    import traceback
                    out['c18'].append(('harness', mname, 'harness error ' + traceback.format_exc()[-800:]))
        if item.get('c18'):
            for pat in item.get('filters', []):
                wd = os.path.join(base, 'filter')
                code, so, se = run_cli(["--json", "-", "detect", "--contracts", "{file}", "--filter-paths", pat], src, wd)
                out['c18'] += check_filter(pat, src, so)
    finally:
        shutil.rmtree(base, ignore_errors=True)
    return out


_INTERNAL = {}
def internal(src):
    """internal results of an in-process run on the same source"""
    if src in _INTERNAL: return _INTERNAL[src]
    import impl
    from tealer.utils.analyses import next_blocks_global
    teal, cap = impl.parse(src, 'c')
    fn = impl.construct_function_traced(teal, ["B0"])
    blocks = {b.idx: [(i.line, str(i)) for i in b.instructions] for b in teal.bbs}
    # global edges of the contract graph: callsub -> callee entry, retsub -> return points, else next
    edges = set()
    for b in teal.bbs:
        if b.is_retsub_block:
            for r in b.subroutine.return_point_blocks: edges.add((b.idx, r.idx))
        elif b.is_callsub_block:
            edges.add((b.idx, b.called_subroutine.entry.idx))
        else:
            for n in b.next: edges.add((b.idx, n.idx))
    paths = {}
    for l in impl.run_detectors(teal, fn):
        w = l.split(' ')
        if w[0] == 'paths':
            paths[w[1]] = [[int(x) for x in p.split('-')] for p in (w[2] if len(w) > 2 else '').split('|') if p]
    fblocks = {b.idx: [(i.line, str(i)) for i in b.instructions] for b in fn.blocks}
    subs = {s.name: sorted(b.idx for b in s.blocks) for s in teal.subroutines.values()}
    callers = {s.name: sorted(set(b.subroutine.name for b in s.caller_blocks)) for s in teal.subroutines.values()}
    ctx = {b.idx: (sorted(fn.transaction_context(b).group_indices), sorted(fn.transaction_context(b).group_sizes)) for b in fn.blocks}
    # call sites per subroutine: (callsub block, callee name, return point or None)
    callsites = {s.name: sorted((b.idx, b.called_subroutine.name, b.sub_return_point.idx if b.sub_return_point is not None else None)
                                for b in s.blocks if b.is_callsub_block) for s in teal.subroutines.values()}
    # edges inside a subroutine: successor edges of its blocks, except that a call site leads to its call box
    subedges = {s.name: sorted((b.idx, n.idx) for b in s.blocks if not b.is_callsub_block for n in b.next) for s in teal.subroutines.values()}
    r = {'blocks': blocks, 'edges': edges, 'paths': paths, 'fblocks': fblocks, 'subs': subs, 'callers': callers, 'ctx': ctx, 'callsites': callsites, 'subedges': subedges}
    _INTERNAL[src] = r
    return r


NODE_RE = re.compile(r'^(\d+)\[label=<<TABLE ALIGN="LEFT" COLOR="([#\w]+)">(.*?)</TABLE>>', re.S | re.M)
EDGE_RE = re.compile(r'(\d+):s -> (\d+):(\d+):n')
ROW_RE = re.compile(r'<TR><TD [^>]*>(?:<B>//[^<]*</B><BR/>)*(\d+)\. (.*?)</TD></TR>', re.S)


def parse_dot(text):
    nodes = {}
    for m in NODE_RE.finditer(text):
        rows = [(int(a), html.unescape(re.sub(r'</?[BI]>', '', b))) for a, b in ROW_RE.findall(m.group(3))]
        nodes[int(m.group(1))] = {'color': m.group(2), 'rows': rows, 'raw': m.group(3)}
    edges = set((int(a), int(b)) for a, b, c in EDGE_RE.findall(text))
    return nodes, edges


def check_outputs(mode, src, wd, stdout):
    bad = []
    I = internal(src)
    outdir = os.path.join(wd, 'out', 'c')
    if mode == 'detect-json':
        start = stdout.find('{')
        try:
            j = json.loads(stdout[start:])
        except Exception:
            return [('json', mode, 'stdout is not JSON')]
        if j.get('success') is not True or j.get('error') is not None:
            bad.append(('success', mode, f"success={j.get('success')} error={j.get('error')} on a run without error"))
        for res in j.get('result', []):
            if res.get('type') != 'ExecutionPaths': continue
            det = res.get('check')
            if res.get('count') != len(res.get('paths', [])):
                bad.append(('count', det, f"count={res.get('count')} but {len(res.get('paths', []))} paths listed"))
            want = I['paths'].get(det)
            got = [[int(x) for x in p['short'].split(' -> ')] for p in res.get('paths', [])]
            if want is not None and got != want:
                bad.append(('paths', det, f"JSON short notations {got} != internal paths {want}"))
            for p, g in zip(res.get('paths', []), got):
                exp = [[f"{ln}: {txt}" for ln, txt in I['fblocks'].get(i, I['blocks'].get(i, []))] for i in g]
                if p.get('blocks') != exp:
                    bad.append(('blocks', det, f"JSON blocks of path {p['short']} do not list the instructions of exactly those blocks ({len(p.get('blocks', []))} lists for {len(g)} blocks)"))
        if sorted(r.get('check') for r in j.get('result', [])) != sorted(I['paths']) and I['paths']:
            pass
    if mode == 'print-cfg':
        p = os.path.join(outdir, 'full_cfg.dot')
        if not os.path.exists(p): return [('file', mode, 'full_cfg.dot not written')]
        nodes, edges = parse_dot(open(p).read())
        if set(nodes) != set(I['blocks']):
            bad.append(('nodes', mode, f"DOT nodes {sorted(nodes)} != blocks {sorted(I['blocks'])}"))
        for i, n in nodes.items():
            if [a for a, _ in n['rows']] != [a for a, _ in I['blocks'].get(i, [])]:
                bad.append(('node-text', mode, f"node {i} shows {n['rows'][:3]}.. , block has {I['blocks'].get(i, [])[:3]}.."))
                break
        if edges != I['edges']:
            bad.append(('edges', mode, f"DOT edges {sorted(edges)} != global graph {sorted(I['edges'])}"))
    if mode == 'detect-text':
        for det, ps in I['paths'].items():
            for k, pth in enumerate(ps, 1):
                p = os.path.join(outdir, det, f"{det}-{k}.dot")
                if not os.path.exists(p):
                    bad.append(('file', det, f"{det}-{k}.dot not written")); continue
                if k > 3: continue
                nodes, edges = parse_dot(open(p).read())
                red = sorted(i for i, n in nodes.items() if n['color'] == 'RED')
                if red != sorted(set(pth)):
                    bad.append(('path-marks', det, f"{det}-{k}.dot marks blocks {red}, the path is {pth}"))
    if mode == 'print-transaction-context':
        p = os.path.join(outdir, 'print-transaction-context', 'transaction-context.dot')
        if os.path.exists(p):
            nodes, edges = parse_dot(open(p).read())
            def decode(raw, what):
                # own reader of the printer's short notation (`0 2 5..9`): the set of numbers it denotes
                m = re.search(what + r':[ ]?([0-9. ]*)', raw)
                if m is None: return None
                out = set()
                for tok in m.group(1).split():
                    mm = re.fullmatch(r'(\d+)\.\.(\d+)', tok)
                    if mm: out.update(range(int(mm.group(1)), int(mm.group(2)) + 1))
                    elif tok.isdigit(): out.add(int(tok))
                    else: return None
                return out
            for i, n in nodes.items():
                gi, gs = I['ctx'].get(i, (None, None))
                if gi is None: continue
                raw = html.unescape(n['raw'])
                got_i, got_s = decode(raw, 'GroupIndex'), decode(raw, 'GroupSize')
                if got_i != set(gi) or got_s != set(gs):
                    bad.append(('annotations', mode, f"node {i} shows GroupIndex {sorted(got_i) if got_i is not None else None} / GroupSize "
                                                     f"{sorted(got_s) if got_s is not None else None}; the computed context is {sorted(gi)} / {sorted(gs)}")); break
        else:
            bad.append(('file', mode, 'transaction-context.dot not written'))
    if mode == 'print-subroutine-cfg':
        d = os.path.join(outdir, 'print-subroutine-cfg')
        files = os.listdir(d) if os.path.isdir(d) else []
        for sname, blocks in I['subs'].items():
            cand = [f for f in files if f == f'subroutine_{sname}_cfg.dot']
            if not cand:
                bad.append(('file', mode, f"no subroutine-cfg file for {sname} among {files}")); continue
            nodes, edges = parse_dot(open(os.path.join(d, cand[0])).read())
            if sorted(nodes) != blocks:
                bad.append(('sub-nodes', mode, f"{cand[0]} has nodes {sorted(nodes)}, subroutine {sname} has blocks {blocks}"))
            txt = open(os.path.join(d, cand[0])).read()
            # one call box per call site: `x<B>_<R>[label="Subroutine <callee>" ...] <B>:s -> x<B>_<R>:n;` and, when the call
            # has a return point, `x<B>_<R>:s -> <R>:<line>:n;`
            boxes = sorted((int(b_), lab, (int(r_) if r_ != 'none' else None)) for b_, r_, lab in re.findall(r'x(\d+)_(\w+)\[label="Subroutine ([^"]*)"', txt))
            into = sorted((int(a), int(b_)) for a, b_, r_ in re.findall(r'(\d+):s -> x(\d+)_(\w+):n', txt))
            outof = sorted((int(b_), int(r2)) for b_, r_, r2 in re.findall(r'x(\d+)_(\w+):s -> (\d+):\d+:n', txt))
            want = I['callsites'].get(sname, [])
            if boxes != want:
                bad.append(('call-boxes', mode, f"{cand[0]} has call boxes {boxes} (call site, callee, return point); subroutine {sname} has the call sites {want}"))
            elif into != sorted((b_, b_) for b_, _, _ in want) or outof != sorted((b_, r_) for b_, _, r_ in want if r_ is not None):
                bad.append(('call-box-edges', mode, f"{cand[0]}: edges into the call boxes {into}, out of them {outof}; call sites {want}"))
            own_edges = sorted(set((int(a), int(b_)) for a, b_ in re.findall(r'(?<![\w])(\d+):s -> (\d+):\d+:n', txt)))
            if own_edges != sorted(set(I['subedges'].get(sname, []))):
                bad.append(('sub-edges', mode, f"{cand[0]} has edges {own_edges}, subroutine {sname} has {I['subedges'].get(sname, [])}"))
    if mode == 'print-call-graph':
        p = os.path.join(outdir, 'call-graph.dot')
        want = set()
        for callee, cs in I['callers'].items():
            for c in cs: want.add((c, callee))
        if os.path.exists(p):
            txt = open(p).read()
            got = set(re.findall(r'"?([\w.]+)"? -> "?([\w.]+)"?', txt))
            if got != want:
                bad.append(('call-graph', mode, f"call-graph edges {sorted(got)} != call sites {sorted(want)}"))
        elif want:
            bad.append(('file', mode, f"call-graph.dot not written although the contract has calls {sorted(want)}"))
    return bad


def check_filter(pat, src, stdout):
    I = internal(src)
    start = stdout.find('{')
    try:
        j = json.loads(stdout[start:])
    except Exception:
        return [('json', 'filter', 'stdout is not JSON')]
    bad = []
    for res in j.get('result', []):
        if res.get('type') != 'ExecutionPaths': continue
        det = res.get('check')
        want = [p for p in I['paths'].get(det, []) if re.search(pat, ' -> '.join(map(str, p))) is None]
        got = [[int(x) for x in p['short'].split(' -> ')] for p in res.get('paths', [])]
        if got != want:
            bad.append(('filter', det, f"--filter-paths {pat!r} left {got}, expected {want}"))
    return bad


def programs(cx, n):
    items = [{'name': 'adv:' + k, 'src': v} for k, v in ADVERSARIAL.items()]
    rng = random.Random(f"cli/{cx.seed}")
    for i in range(n):
        src, tags = gen.fragment(cx.seed, 1000 + i, max_stmts=4)
        items.append({'name': f'fragment/{cx.seed}/{1000 + i}', 'src': src})
    for i in rng.sample(range(gen.N_CALLFAM), min(n, 12)):
        src, tags = gen.callfam(cx.seed, i)
        items.append({'name': f'callfam/{cx.seed}/{i}', 'src': src})
    return items


def run_all(items):
    with multiprocessing.get_context('fork').Pool(min(16, os.cpu_count() or 4)) as pool:
        return pool.map(one_program, items, chunksize=1)


def one_callgraph(item):
    base = tempfile.mkdtemp(prefix='tealer-verif-cg-')
    try:
        wd = os.path.join(base, 'cg')
        code, so, se = run_cli(["print", "call-graph", "--contracts", "{file}"], item['src'], wd)
        try:
            bad = check_outputs('print-call-graph', item['src'], wd, so)
        except Exception as e:  # noqa
            import traceback
            bad = [('harness', 'print-call-graph', traceback.format_exc()[-800:])]
        return {'name': item['name'], 'src': item['src'], 'exit': code, 'bad': bad}
    finally:
        shutil.rmtree(base, ignore_errors=True)


def callgraph_export(cx):
    """C05, last clause: the exported call graph has an edge f -> g exactly for the retained call sites — for every declared
    version that has subroutines (4..8), on the call-heavy adversarial layouts and a sample of the call-loop family"""
    rng = random.Random(f"cg/{cx.seed}")
    srcs = [(k, ADVERSARIAL[k]) for k in ('dead-calls', 'empty-sub', 'call-last', 'recursion', 'shared-sub-twice', 'dead-two-succ-in-sub')]
    # call structures that no walk from `__main__` (or from a subroutine nobody calls) covers: a mutual-recursion island called only
    # from dead code or from itself, a subroutine whose only call site is inside itself, an island that calls a reachable helper
    srcs += [('recursion-island', "#pragma version 8\ncallsub helper\nint 1\nreturn\nhelper:\nint 3\npop\nretsub\nping:\nint 1\nbz ping_out\ncallsub pong\nping_out:\nretsub\npong:\ncallsub helper\ncallsub ping\nretsub\n"),
             ('self-only-recursion', "#pragma version 8\nint 1\nreturn\ncountdown:\nload 0\nbz cd_out\ncallsub countdown\ncd_out:\nretsub\n"),
             ('island-from-dead-code', "#pragma version 8\nint 1\nreturn\ncallsub a\nerr\na:\ncallsub b\nretsub\nb:\nload 1\nbz b_out\ncallsub a\nb_out:\nretsub\n")]
    items = []
    for k, src in srcs:
        for v in ((4, 5, 6, 7, 8) if not cx.quick() else (4, rng.choice([5, 6, 7]), 8)):
            items.append({'name': f'cg:{k}@v{v}', 'src': src.replace('#pragma version 8', f'#pragma version {v}')})
    for i in rng.sample(range(gen.N_CALLFAM), 6 if cx.quick() else 36):
        items.append({'name': f'cg:callfam/{cx.seed}/{i}', 'src': gen.callfam(cx.seed, i)[0]})
    with multiprocessing.get_context('fork').Pool(min(16, os.cpu_count() or 4)) as pool:
        res = pool.map(one_callgraph, items, chunksize=1)
    for r in res:
        for (kind, where, detail) in r['bad']:
            if kind == 'harness': raise RuntimeError(detail)
            cx.violations.append({'kind': 'call-graph-export', 'program': r['name'], 'prop': 'C05', 'field': kind, 'where': where, 'detail': detail, 'src': r['src'], 'env': None})
        if r['exit'] != 0:
            cx.violations.append({'kind': 'call-graph-export', 'program': r['name'], 'prop': 'C05', 'field': 'exit', 'where': 'print call-graph', 'detail': f"`tealer print call-graph` exit status {r['exit']}", 'src': r['src'], 'env': None})
        cx.distinct.add(r['name'])
    cx.evaluations += len(res)
    return len(res)


def c17_inprocess(cx):
    """the whole pipeline (parse, functions, four analyses, nine detectors) in-process on many programs with unreachable
    code, adversarial layouts and dense control flow: an exception of the real tool is an internal error of `tealer detect`,
    unless the program has the shape of a listed finding and the reference model raises the same exception there"""
    import engine, gen
    n = 60 if cx.quick() else 1500
    items = []
    for i in range(n):
        items.append({'name': f'deadcode/{cx.seed}/{i}', 'src': gen.deadcode(cx.seed, i), 'nenv': 0, 'seed': cx.seed})
        items.append({'name': f'layout/{cx.seed}/{i}', 'src': gen.layout(cx.seed, i), 'nenv': 0, 'seed': cx.seed})
        if i % 2 == 0: items.append({'name': f'dense/{cx.seed}/{i}', 'src': gen.dense(cx.seed, i), 'nenv': 0, 'seed': cx.seed})
    res = engine.run_items(items)
    stats = {'programs': 0, 'impl_errors': 0, 'shared_block_programs': 0, 'parse_rejected': 0, 'timeouts': 0}
    for it, r in zip(items, res):
        if r['status'] == 'harness-error':
            raise RuntimeError(r.get('detail', '')[-800:])
        if r['status'] == 'impl-parse-error': stats['parse_rejected'] += 1; continue
        if r['status'] == 'impl-timeout': stats['timeouts'] += 1; continue
        stats['programs'] += 1
        cx.distinct.add(r['name'])
        if r.get('shared_blocks'):
            stats['shared_block_programs'] += 1        # a subroutine body entered other than through callsub: outside C17
            continue
        err = r.get('impl_err')
        if not err: continue
        stats['impl_errors'] += 1
        known = None
        if r.get('model_err') == err:
            for f in cx.findings:
                if f.get('status') == 'known' and 'C17' in f.get('properties', []) and f.get('shape') in r.get('shapes', []):
                    known = f; break
        if known:
            cx.known_seen[known['id']] = f"{known['what']} [{r['name']}: {err}]"
        else:
            cx.violations.append({'kind': 'internal-error', 'program': r['name'], 'prop': 'C17', 'field': 'in-process', 'where': err,
                                  'detail': f"the analysis raises {err} on a valid program (reference model: {r.get('model_err') or 'no error'})", 'src': it['src'], 'env': None})
    cx.evaluations += stats['programs']
    return stats


def c17(cx):
    inproc = c17_inprocess(cx)
    n = 10 if cx.quick() else 120
    items = programs(cx, n)
    import gen as _gen
    for i in range(6 if cx.quick() else 60):
        items.append({'name': f'deadcode/{cx.seed}/{2000 + i}', 'src': _gen.deadcode(cx.seed, 2000 + i)})
    for it in items: it['modes'] = MODES
    for k, (src, fid) in KNOWN_CRASHERS.items():
        items.append({'name': 'known:' + k, 'src': src, 'modes': MODES[:2], 'finding': fid})
    res = run_all(items)
    runs = 0
    for it, r in zip(items, res):
        for run in r['runs']:
            runs += 1
            ok = run['exit'] == 0 and not run['traceback']
            if it.get('finding'):
                if not ok:
                    what = next((f['what'] for f in cx.findings if f['id'] == it['finding']), '')
                    cx.known_seen[it['finding']] = f"{what} [{it['name']} {run['mode']}: exit {run['exit']}]"
                continue
            if not ok:
                cx.violations.append({'kind': 'internal-error', 'program': r['name'], 'prop': 'C17', 'field': run['mode'], 'where': run['mode'],
                                      'detail': f"`tealer {run['mode']}` exit status {run['exit']}, traceback={run['traceback']}: {run['tail'][-300:]}", 'src': r['src'], 'env': None})
        cx.distinct.add(r['name'])
    cx.evaluations += runs
    cx.samples += [{'program': res[0]['name'], 'source': res[0]['src'], 'runs': res[0]['runs']}]
    return {'programs': len(items) + inproc['programs'], 'disagreements_checked': 0, 'cli_runs': runs, 'modes': [m for m, _ in MODES], 'in_process': inproc,
            'rule': 'in-process: whole pipeline on dead-code / adversarial-layout / dense programs (exception = internal error); CLI: adversarial layouts + generated fragment / call-loop / dead-code programs x {detect text, detect JSON, 5 printers} as subprocesses; distinct = distinct programs'}


def repr_num_correspondence(cx):
    """the model of `_repr_num_list` (lean/TealerModel/NumList.lean, about which C18_annotation_denotes is proved) against the real one on
    EVERY subset of 0..16 (every value a group-index / group-size context can have), and the real one against an own reader"""
    import urllib.parse
    from tealer.printers.transaction_context import PrinterTransactionContext as P
    drv = engine.driver()
    subsets = [[i for i in range(17) if m >> i & 1] for m in range(1 << 17)]
    diffs, bad = 0, 0
    for k in range(0, len(subsets), 128):
        chunk = subsets[k:k + 128]
        drv.p.stdin.write(''.join(f"reprnum {k + j} {','.join(map(str, sub)) if sub else '-'}\n" for j, sub in enumerate(chunk))); drv.p.stdin.flush()
        for j, sub in enumerate(chunk):
            parts = drv.p.stdout.readline().rstrip('\n').split(' ')
            model = urllib.parse.unquote(parts[2]) if len(parts) > 2 else ''
            real = P._repr_num_list(list(sub))
            if model != real:
                diffs += 1
                if diffs == 1:
                    cx.broken.append(f"correspondence (_repr_num_list) differs, e.g. on {sub}: tealer prints {real!r}, the model {model!r}")
            # own reader of the notation
            got = set()
            for tok in real.split():
                mm = re.fullmatch(r'(\d+)\.\.(\d+)', tok)
                if mm: got.update(range(int(mm.group(1)), int(mm.group(2)) + 1))
                elif tok.isdigit(): got.add(int(tok))
                else: got.add(-1)
            if got != set(sub):
                bad += 1
                if bad <= 3:
                    cx.violations.append({'kind': 'export', 'program': 'repr-num-list', 'prop': 'C18', 'field': 'annotations', 'where': '_repr_num_list',
                                          'detail': f"the context {sub} is annotated as {real!r}, which denotes {sorted(got)}", 'src': str(sub), 'env': None})
    cx.evaluations += len(subsets)
    return {'repr_num_list_subsets': len(subsets), 'repr_num_list_model_differences': diffs, 'repr_num_list_misread': bad}


def c18(cx):
    n = 8 if cx.quick() else 100
    items = programs(cx, n)
    for it in items:
        it['modes'] = MODES; it['c18'] = True; it['filters'] = ["^0 -> 1", "2", " -> 3 -> "]
    # a contract with more than ten blocks and several paths: in the notation `0 -> 4 -> 10 -> 11` a blank next to a number is how
    # one says "block 1, not 10 / 11 / 12" - patterns with leading / trailing blanks must reach the matcher as written
    ladder = ["#pragma version 8"]
    for k in range(6):
        ladder += [f"load {k % 3}", f"bnz step{k}", "int 1", "return", f"step{k}:"]
    ladder += ["int 1", "return"]
    items.append({'name': 'c18:ladder', 'src': "\n".join(ladder) + "\n", 'modes': [], 'c18': True,
                  'filters': [" 1 ", "1 ", " 1$", "^0 ", " -> 1 ", "> 1$", "3 -"]})
    res = run_all(items)
    checks = 0
    for r in res:
        for run in r['runs']:
            checks += 1
        for (kind, where, detail) in r['c18']:
            if kind == 'harness':
                raise RuntimeError(detail)
            cx.violations.append({'kind': 'export', 'program': r['name'], 'prop': 'C18', 'field': kind, 'where': where, 'detail': detail, 'src': r['src'], 'env': None})
        cx.distinct.add(r['name'])
    cx.evaluations += checks + 3 * len(res)
    cx.samples += [{'program': res[0]['name'], 'source': res[0]['src'], 'compared': ['JSON envelope/count/short/blocks', 'cfg DOT nodes+edges', 'path DOT marks', 'transaction-context annotations', 'subroutine-cfg nodes', 'call-graph edges', '--filter-paths']}]
    rn = repr_num_correspondence(cx)
    return {**rn, 'programs': len(items), 'disagreements_checked': 0, 'cli_runs': checks,
            'rule': 'same programs as C17; every exported file / JSON document is parsed back and compared with the internal results of an in-process run on the same source'}
