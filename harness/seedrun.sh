#!/bin/bash
# seedrun.sh <patch.diff> <check ids...>: run checks against a seeded change WITHOUT touching /repo: the change is applied to a
# scratch worktree of /repo's HEAD and the harness is pointed at it (PYTHONPATH / VERIF_REPO); regenerated Lean files and replays
# go to scratch directories.  --full as first argument: also build the Lean part (then the regenerated files DO go to
# lean/TealerModel/Generated and are restored from /repo afterwards by the next ordinary run).
full=0; [ "$1" = "--full" ] && { full=1; shift; }
patch=$(readlink -f $1); shift
wt=/tmp/seedrun_repo_$$
git -C /repo worktree add -q --detach $wt HEAD || exit 3
git -C $wt apply $patch || { git -C /repo worktree remove --force $wt; exit 3; }
export PYTHONPATH=$wt VERIF_REPO=$wt VERIF_REPLAY_DIR=/tmp/seedrun_replays
mkdir -p $VERIF_REPLAY_DIR
for c in "$@"; do
  if [ $full = 1 ]; then
    out=$(cd /verif && VERIF_REPLAY_DIR=$VERIF_REPLAY_DIR ./check $c --no-evidence 2>&1 | grep -v WARNING | grep -v KNOWN-FINDING | tail -2 | tr '\n' ' ')
  else
    out=$(cd /verif && VERIF_GEN_DIR=/tmp/seedrun_gen ./check $c --skip-lean 2>&1 | grep -v WARNING | grep -v KNOWN-FINDING | tail -2 | tr '\n' ' ')
  fi
  echo "$c: $out"
done
git -C /repo worktree remove --force $wt
