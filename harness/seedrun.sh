#!/bin/bash
# seedrun.sh <patch.diff> <check ids...>: apply a seeded change to /repo, run the checks, undo it
patch=$1; shift
git -C /repo apply $patch || exit 3
for c in "$@"; do
  out=$(cd /verif && ./check $c --skip-lean 2>&1 | grep -v WARNING | grep -v KNOWN-FINDING | tail -2 | tr '\n' ' ')
  echo "$c: $out"
done
git -C /repo checkout -- .
# the evidence files must describe runs on the unchanged tree: put the committed ones back
git -C /verif checkout -- evidence
