#!/venv/bin/python
"""Entry point of every check:  ./check <ID> [--tier quick|thorough] [--replay file]

Steps (DESIGN §5): regenerate the translated definitions from /repo, build the Lean model + the property's
theorems, audit axioms, run the correspondence between the real tool and the model on corpus + generated
programs, run the semantic oracle, replay known findings, decide, write evidence.
Exit 0 = property held on everything explored (known findings are printed as KNOWN-FINDING lines);
exit 1 = VIOLATION line printed; exit 2 = the check itself could not run (timeout, build of the harness).
"""
import argparse, collections, json, os, random, sys, time, traceback
HERE = os.path.dirname(os.path.abspath(__file__))
ROOT = os.path.abspath(os.path.join(HERE, '..'))
sys.path.insert(0, HERE)
os.environ.setdefault('PYTHONHASHSEED', '0')

import leanpart


def load_findings():
    out = []
    p = os.path.join(ROOT, 'known_findings.jsonl')
    if os.path.exists(p):
        for l in open(p):
            l = l.strip()
            if l and not l.startswith('#'):
                out.append(json.loads(l))
    return out


class Ctx:
    """what one check run accumulates"""
    def __init__(self, pid, tier, seed):
        self.pid, self.tier, self.seed = pid, tier, seed
        self.t0 = time.time()
        self.violations = []        # dicts: kind, detail, replay payload
        self.known_seen = collections.OrderedDict()   # finding id -> what
        self.broken = []            # broken obligations / correspondence phases (names)
        self.coverage = {}
        self.samples = []
        self.assumptions = []
        self.findings = load_findings()
        self.evaluations = 0
        self.distinct = set()

    def quick(self):
        return self.tier == 'quick'


TRUSTED_BASE = [
    "Lean 4.33.0 kernel (property theorems depend on at most propext, Classical.choice, Quot.sound; audited by #print axioms on every run)",
    "hand-written spec side: lean/TealerModel/Avm.lean (AVM fragment semantics), property predicates in harness/oracle.py",
    "harness/extract.py translator + introspection (regenerated definitions), fail-closed",
    "correspondence check (harness/impl.py wrappers, protocol codec, canonicalisation, generators): differential testing of model vs /repo",
    "Python built-ins and libraries used by tealer (int, set/dict, re, base64, yaml) are not modelled",
]


def write_evidence(cx, lean, extra_cov):
    obligations = len(lean.theorems) + len(extra_cov.get('extra_obligations', []))
    discharged = len([t for t in lean.theorems if t not in lean.failed and t not in lean.bad_axioms]) + \
        len([o for o in extra_cov.get('extra_obligations', []) if o.get('ok')])
    cov = {
        'obligations': obligations,
        'discharged': discharged,
        'checker_cmd': f"cd lean && lake build TealerModel.Props.{cx.pid} tmdrv && lake env lean .lake/audit/{cx.pid}.lean  # via ./check {cx.pid} --tier {cx.tier}",
        'trusted_base': TRUSTED_BASE,
        'theorems': lean.theorems,
        'theorems_failed': lean.failed,
        'axioms': lean.axioms,
        'forbidden_constructs': lean.forbidden,
        'evaluations': cx.evaluations,
        'distinct_nontrivial': len(cx.distinct),
        'rule': extra_cov.get('rule', 'programs generated from VERIF_SEED by harness/gen.py plus the repository corpus; distinct = distinct source text; non-trivial = analysed by both sides and (for semantic properties) with at least one accepting concrete execution'),
        'samples': cx.samples[:6] if cx.samples else [{'note': 'no generated cases in this run'}],
        'programs': extra_cov.get('programs', 0),
        'disagreements_checked': extra_cov.get('disagreements_checked', 0),
        'known_findings_seen': list(cx.known_seen.keys()),
        'broken': cx.broken,
    }
    cov.update({k: v for k, v in extra_cov.items() if k not in cov and k != 'extra_obligations'})
    if extra_cov.get('extra_obligations'):
        cov['table_obligations'] = extra_cov['extra_obligations'][:50]
    ev = {
        'property_id': cx.pid, 'tier': cx.tier, 'seed': cx.seed, 'level': 'proof',
        'coverage': cov,
        'assumptions': cx.assumptions + ["the Lean model corresponds to /repo on the sampled programs only (differential testing); theorems are about the model"],
        'wall_s': round(time.time() - cx.t0, 2),
        'violations': len(cx.violations),
    }
    # a development run that skipped the Lean part (--skip-lean: seeded-change sweeps) is not evidence for a proof-level
    # claim: its record goes under replays/ (not committed), never over the evidence file
    edir = os.path.join(os.environ.get('VERIF_REPLAY_DIR') or os.path.join(ROOT, 'replays'), 'skiplean-evidence') if (getattr(cx, 'skip_lean', False) or getattr(cx, 'is_replay', False)) else os.path.join(ROOT, 'evidence')
    os.makedirs(edir, exist_ok=True)
    with open(os.path.join(edir, f'{cx.pid}.json'), 'w') as f:
        json.dump(ev, f, indent=1, default=str)


def write_replay(cx, payload, tag):
    d = os.environ.get('VERIF_REPLAY_DIR') or os.path.join(ROOT, 'replays')
    os.makedirs(d, exist_ok=True)
    p = os.path.join(d, f'{cx.pid}_{tag}_{cx.seed}.json')
    with open(p, 'w') as f:
        json.dump(payload, f, indent=1, default=str)
    return os.path.relpath(p, ROOT)


def finish(cx, lean, extra_cov):
    # broken proof obligations
    for t in lean.failed:
        cx.broken.append(f"theorem {t} no longer checks")
    for t, ax in lean.bad_axioms.items():
        cx.broken.append(f"theorem {t} depends on non-standard axioms {ax}")
    for f in lean.forbidden:
        cx.broken.append(f"forbidden construct at {f[0]}:{f[1]}: {f[2]}")
    if not lean.build_ok:
        cx.broken.append("lake build of the model failed: " + lean.build_log[-600:])
    write_evidence(cx, lean, extra_cov)
    for fid, what in cx.known_seen.items():
        print(f"KNOWN-FINDING: property={cx.pid} {fid} {what}")
    code = 0
    if cx.violations:
        v = cx.violations[0]
        path = write_replay(cx, {'property': cx.pid, 'seed': cx.seed, 'tier': cx.tier, 'violations': cx.violations[:10], 'broken': cx.broken}, 'violation')
        print(f"VIOLATION property={cx.pid} replay={path}")
        code = 1
    elif cx.broken:
        path = write_replay(cx, {'property': cx.pid, 'seed': cx.seed, 'tier': cx.tier, 'no_longer_checks': cx.broken,
                                 'note': 'a proof obligation or the model/implementation correspondence broke; the failing-input search found no concrete input on which the property fails'}, 'broken')
        print(f"VIOLATION property={cx.pid} replay={path} no-failing-input-found")
        code = 1
    print(f"[{cx.pid}] tier={cx.tier} seed={cx.seed} evaluations={cx.evaluations} violations={len(cx.violations)} broken={len(cx.broken)} "
          f"known={len(cx.known_seen)} wall={time.time() - cx.t0:.1f}s exit={code}")
    return code


def main():
    ap = argparse.ArgumentParser()
    ap.add_argument('pid')
    ap.add_argument('--tier', default=os.environ.get('VERIF_TIER', 'quick'))
    ap.add_argument('--replay')
    ap.add_argument('--skip-lean', action='store_true', help=argparse.SUPPRESS)
    ap.add_argument('--no-evidence', action='store_true', help=argparse.SUPPRESS)   # development runs against a scratch copy of the repository
    a = ap.parse_args()
    seed = int(os.environ.get('VERIF_SEED', '0'))
    tier = a.tier if a.tier in ('quick', 'thorough') else 'quick'
    cx = Ctx(a.pid, tier, seed)
    import props
    if a.pid not in props.REGISTRY:
        print(f"unknown property {a.pid}"); return 2
    try:
        import extract
        ext = extract.regenerate()
        # a translation error concerns a property only if its theorems depend on the regenerated file in question
        deps = leanpart.transitive_imports(f'TealerModel.Props.{a.pid}')
        for e in ext.get('errors', []):
            gen = e.split(':', 1)[0] if e.split(':', 1)[0] in ('Leaf', 'Matchers', 'Flow', 'Search', 'Asserted', 'Worklist', 'StackAst', 'GroupLoop', 'OpTable', 'ParseTable', 'Consts') else 'Leaf'
            if f'TealerModel.Generated.{gen}' in deps:
                cx.broken.append(f"translate: {e}")
    except Exception:
        cx.broken.append("extract failed: " + traceback.format_exc()[-500:])
    cx.skip_lean = bool(a.skip_lean)
    cx.is_replay = bool(a.replay) or bool(a.no_evidence)      # a replay of one recorded case is not a coverage record either
    if a.skip_lean:
        lean = leanpart.LeanResult(); lean.build_ok = True
    else:
        lean = leanpart.build_and_audit(a.pid)
    extra = {}
    try:
        if a.replay:
            extra = props.REGISTRY[a.pid](cx, replay=json.load(open(a.replay))) or {}
        else:
            extra = props.REGISTRY[a.pid](cx) or {}
    except Exception:
        traceback.print_exc()
        print(f"[{a.pid}] harness error"); return 2
    if tier == 'thorough' and not a.skip_lean and lean.build_ok and lean.theorems:
        code, out = leanpart.leanchecker([f'TealerModel.Props.{a.pid}'])
        extra['leanchecker'] = 'ok' if code == 0 else out[-500:]
        if code != 0:
            cx.broken.append("leanchecker rejected the property module")
    return finish(cx, lean, extra)


if __name__ == '__main__':
    sys.exit(main())
