"""Builds the witness files of the known findings (corpus/F*.json): minimal program + concrete environment on
which the real code violates the property.  Run by hand when a finding is added; checks only replay them."""
import json, os, sys
HERE = os.path.dirname(os.path.abspath(__file__)); ROOT = os.path.abspath(os.path.join(HERE, '..'))
sys.path.insert(0, HERE)
import engine
FRESH = "FRESHATTACKERADDRESS"

def txn(**kw):
    m = {'TypeEnum': 1, 'OnCompletion': 0, 'ApplicationID': 0, 'Fee': 1000, 'RekeyTo': 'ZERO', 'CloseRemainderTo': 'ZERO',
         'AssetCloseTo': 'ZERO', 'Sender': 'CREATOR'}
    m.update(kw); return m

W = {
 'F01': ("#pragma version 6\ntxn OnCompletion\nint NoOp\n==\nassert\nint 1\nreturn\n",
         [{'size': 1, 'self': 0, 'txns': {'0': txn(TypeEnum=1, CloseRemainderTo=FRESH)}}]),
 'F02': ("#pragma version 6\ngtxn 0 Amount\npop\nint 2\nglobal GroupSize\n<\nassert\nint 1\nreturn\n",
         [{'size': 16, 'self': 0, 'txns': {'0': txn()}}]),
 'F02b': ("#pragma version 6\nint 1000\ntxn Fee\n>=\nbnz reject\nint 1\nreturn\nreject:\nerr\n",
         [{'size': 1, 'self': 0, 'txns': {'0': txn(Fee=272001)}}]),
 'F03': ("#pragma version 6\ntxn Fee\nint 1000\n>\nbz l\nl:\nint 1\nreturn\n",
         [{'size': 1, 'self': 0, 'txns': {'0': txn(Fee=272001)}}]),
 'F04': ("#pragma version 6\ntxn NumAppArgs\nbz skip\ntxn Fee\nint 1000\n<=\nassert\ncallsub f\nskip:\nint 1\nreturn\nf:\nretsub\n",
         [{'size': 1, 'self': 0, 'txns': {'0': txn(Fee=272001, NumAppArgs=0)}}]),
 'F05': ("#pragma version 6\ncallsub f\nerr\nf:\ntxn NumAppArgs\nbz r\nint 1\nreturn\nr:\nretsub\n",
         [{'size': 1, 'self': 0, 'txns': {'0': txn(Fee=272001, NumAppArgs=1, RekeyTo=FRESH)}}]),
 'F06': ("#pragma version 6\nint 0\nstore 0\ntop:\nload 0\nint 1\n<\nbz exit\ngtxn 0 Amount\npop\nload 0\nint 1\n+\nstore 0\nb top\nexit:\nint 1\nreturn\n",
         [{'size': 16, 'self': 3, 'txns': {'0': txn(), '3': txn()}}]),
 'F08': ("#pragma version 6\ntxn RekeyTo\naddr AAAAAAAAAAAAAAAAAAAAAAAAAAAAAAAAAAAAAAAAAAAAEVAL4QAJS7JHB4\n==\nassert\nint 1\nreturn\n",
         [{'size': 1, 'self': 0, 'txns': {'0': txn(RekeyTo='AAAAAAAAAAAAAAAAAAAAAAAAAAAAAAAAAAAAAAAAAAAAEVAL4QAJS7JHB4')}}]),
 'F07': ("#pragma version 6\nb main\nf:\nretsub\nmain:\nint 1\ncallsub f\n",
         [{'size': 1, 'self': 0, 'txns': {'0': txn(Fee=272001, RekeyTo=FRESH)}}]),
}

if __name__ == '__main__':
    for fid, (src, envs) in W.items():
        r = engine.process({'name': fid, 'src': src, 'envs': envs, 'nenv': 0, 'seed': 0})
        v = sorted(set((x['prop'], x['field'], x['in_other']) for x in r['viol_impl']))
        print(fid, r['status'], r.get('stats'), v, r.get('shapes'))
        json.dump({'kind': 'oracle', 'src': src, 'envs': envs, 'observed': [list(x) for x in v]}, open(os.path.join(ROOT, 'corpus', fid + '.json'), 'w'), indent=1)
