"""C14 (no history / order / hash-seed effects) and C15 (invariance under meaning-preserving rewrites): relations between
runs of the real tool."""
import json, os, random, re, subprocess, sys, tempfile, shutil
HERE = os.path.dirname(os.path.abspath(__file__))
sys.path.insert(0, HERE)
import gen, engine, corr


def analyse_lines(src, dets_order=None):
    """contexts as a set of lines (the order of Function.blocks is not observable), reported paths in their order"""
    import impl
    toks, lines = impl.analyse_source(src, want=("ctx", "paths"))
    return sorted(l for l in lines if not l.startswith('paths')) + [l for l in lines if l.startswith('paths')]


def c14_one(item):
    """in-process histories: the same contract analysed fresh, after other contracts, with detectors re-run and re-ordered"""
    import impl
    name, src, others = item['name'], item['src'], item['others']
    res = {'name': name, 'src': src, 'viol': [], 'runs': 0}
    base = analyse_lines(src)
    res['runs'] += 1
    if 'err timeout' in base:
        return res
    for h in others:
        for o in h:
            analyse_lines(o)
        again = analyse_lines(src)
        res['runs'] += 1
        if 'err timeout' in again:
            continue
        if again != base:
            d = corr.diff(base, again)
            first = next(((x, y) for x, y in zip(base, again) if x != y), ('', ''))
            res['viol'].append(('history', f"results differ after analysing {len(h)} other contracts first: {first[0][:200]} vs {first[1][:200]}"))
    # detectors in another order and repeated on ONE Tealer object: contexts unchanged, same paths
    try:
        teal, cap = impl.parse(src)
        fn = impl.construct_function_traced(teal, ["B0"])
        keys = impl.block_keys(fn)
        ctx0 = impl.render_contexts(fn, keys)
        classes = impl.detector_classes()
        rng = random.Random(f"c14/{name}")
        names = list(impl.DETECTORS)
        outs = {}
        for rnd in range(3):
            rng.shuffle(names)
            if rnd > 0:
                # a fresh parse and function for every registration order: state that survives on the objects of the first
                # round (or in caches keyed by them) must not make later rounds agree with it by construction
                teal, cap = impl.parse(src)
                fn = impl.construct_function_traced(teal, ["B0"])
                keys = impl.block_keys(fn)
                if impl.render_contexts(fn, keys) != ctx0:
                    res['viol'].append(('history', "re-analysing the same source in the same process gives different contexts"))
            tl = impl.make_tealer(teal, fn)
            for n in names: tl.register_detector(classes[n])
            rs = tl.run_detectors()
            for n, r in zip(names, rs):
                paths = ['-'.join(str(b.idx) for b in p) for ep in r for p in ep.paths]
                if n in outs and outs[n] != paths:
                    res['viol'].append(('detector-order', f"{n} reports {paths} in one registration order and {outs[n]} in another"))
                outs[n] = paths
            res['runs'] += 1
            if impl.render_contexts(fn, keys) != ctx0:
                res['viol'].append(('detector-purity', "running the detectors changed the per-block contexts another detector reads"))
        # what was analysed earlier includes OTHER FUNCTIONS OF THE SAME CONTRACT (group configurations build several from one
        # parsed contract): building them neither changes what the whole-contract function answers nor depends on their order
        import engine
        dps = [p for p in engine.dispatch_paths(src, rng=random.Random(f"c14f/{name}")) if list(p) != ["B0"]][:3]
        if dps:
            teal, cap = impl.parse(src)
            fn = impl.construct_function_traced(teal, ["B0"])
            keys = impl.block_keys(fn)
            first = impl.render_contexts(fn, keys)
            for pth in dps:
                try:
                    impl.construct_function_traced(teal, list(pth))
                except impl.AnalysisFailed:
                    pass
            res['runs'] += 1
            if impl.render_contexts(fn, keys) != first:
                res['viol'].append(('history', f"the contexts of the whole-contract function changed after the functions for the dispatch paths {[list(p) for p in dps]} of the same contract were built"))
            if first != ctx0:
                res['viol'].append(('history', "re-analysing the same source in the same process gives different contexts"))
    except impl.AnalysisFailed:
        pass
    except BaseException as e:  # noqa
        if isinstance(e, impl.Timeout): pass
    return res


def cli_json(src, hashseed):
    base = tempfile.mkdtemp(prefix='tealer-verif-c14-')
    try:
        with open(os.path.join(base, 'c.teal'), 'w') as f: f.write(src)
        env = dict(os.environ, TEALER_ROOT_OUTPUT_DIR=os.path.join(base, 'out'), PYTHONHASHSEED=str(hashseed))
        p = subprocess.run(['/venv/bin/python', '-m', 'tealer', '--json', '-', 'detect', '--contracts', 'c.teal'], capture_output=True, text=True, env=env, cwd=base, timeout=180)
        return p.stdout[p.stdout.find('{'):]
    finally:
        shutil.rmtree(base, ignore_errors=True)


def c14_seeds(item):
    outs = [cli_json(item['src'], hs) for hs in item['seeds']]
    bad = [hs for hs, o in zip(item['seeds'], outs) if o != outs[0]]
    return {'name': item['name'], 'src': item['src'], 'bad': bad, 'n': len(outs)}


def quiet(fn, *a):
    import contextlib, io
    buf = io.StringIO()
    with contextlib.redirect_stdout(buf), contextlib.redirect_stderr(buf):
        return fn(*a)


OPT_SNIPPETS = [["int 0", "gtxns Sender", "pop"], ["txn GroupIndex", "gtxns Fee", "pop"], ["txna Accounts 0", "pop"], ["int 1", "gtxns Receiver", "pop"],
                ["pushint 2", "gtxns Amount", "pop"], ["txn GroupIndex", "gtxnsa ApplicationArgs 0", "pop"]]


def c14_multi_one(item):
    """several contracts in ONE Tealer object (group-configuration mode): what every detector - the path-reporting ones and the
    optimisation detectors - reports for a contract must not depend on which other contracts are loaded with it, nor on their order"""
    import logging, tempfile, shutil
    logging.disable(logging.CRITICAL)
    from tealer.utils.command_line.common import init_tealer_from_config
    from tealer.utils.command_line.group_config import (GroupConfig, GroupConfigContract, GroupConfigFunction, GroupConfigFunctionCall,
                                                        GroupConfigGroup, GroupConfigTransaction)
    from tealer.detectors import all_detectors
    from tealer.detectors.abstract_detector import AbstractDetector
    import inspect as _inspect
    dets = sorted([d for d in vars(all_detectors).values() if _inspect.isclass(d) and issubclass(d, AbstractDetector) and d is not AbstractDetector], key=lambda d: d.NAME)
    res = {'name': item['name'], 'src': "\n---\n".join(item['srcs'].values()), 'runs': 0, 'viol': []}
    wd = tempfile.mkdtemp(prefix='c14multi_')
    try:
        def analyse(names):
            contracts, groups = [], []
            for nm in names:
                path = os.path.join(wd, f"{nm}.teal")
                open(path, 'w').write(item['srcs'][nm])
                contracts.append(GroupConfigContract(name=nm, file_path=path, contract_type="LogicSig", version=6, subroutines=[],
                                                     functions=[GroupConfigFunction(name="main", dispatch_path=["B0"])]))
                groups.append(GroupConfigGroup(operation=f"op_{nm}", transactions=[GroupConfigTransaction(txn_id=f"T_{nm}", txn_type="pay",
                                               logic_sig=GroupConfigFunctionCall(contract=nm, function="main"))]))
            tealer = init_tealer_from_config(GroupConfig(name="c14", contracts=contracts, groups=groups))
            for d in dets: tealer.register_detector(d)
            out = {nm: {} for nm in names}
            for douts in tealer.run_detectors():
                for o in (douts if isinstance(douts, list) else [douts]):
                    teal = getattr(o, '_teal', None)
                    if teal is None or teal.contract_name not in out: continue
                    out[teal.contract_name].setdefault(o.detector.NAME, []).append(json.dumps(o.to_json(), sort_keys=True))
            return out
        names = sorted(item['srcs'])
        arrangements = [tuple(names), tuple(reversed(names))] + [(n,) for n in names]
        seen = {}
        for arr in arrangements:
            try:
                r = quiet(analyse, arr)
            except BaseException as e:  # noqa
                res['viol'].append(('multi-contract', f"analysing the contracts {arr} together raises {type(e).__name__}: {e}")); continue
            res['runs'] += 1
            for nm in arr:
                for d in dets:
                    got = sorted(r[nm].get(d.NAME, []))
                    if (nm, d.NAME) in seen and seen[(nm, d.NAME)][1] != got:
                        res['viol'].append(('multi-contract', f"detector {d.NAME} on contract {nm}: loaded as {seen[(nm, d.NAME)][0]} it reports {seen[(nm, d.NAME)][1]}, loaded as {arr} it reports {got}"))
                    seen.setdefault((nm, d.NAME), (arr, got))
    finally:
        shutil.rmtree(wd, ignore_errors=True)
    return res


def c14_multi_items(cx, n):
    items = []
    for k in range(n):
        r = random.Random(f"c14multi/{cx.seed}/{k}")
        common = ["#pragma version 6"] + [l for _ in range(r.randrange(1, 4)) for l in r.choice(OPT_SNIPPETS)]
        srcs = {}
        for nm in ("A", "B", "C")[:r.randrange(2, 4)]:
            tail = [l for _ in range(r.randrange(0, 3)) for l in r.choice(OPT_SNIPPETS + [["txn RekeyTo", "global ZeroAddress", "==", "assert"], ["txn Fee", "int 1000", "<=", "assert"]])]
            srcs[nm] = "\n".join(common + tail + ["int 1", "return"]) + "\n"
        items.append({'name': f'c14multi/{cx.seed}/{k}', 'srcs': srcs})
    return items


def c14(cx):
    rng = random.Random(f"c14/{cx.seed}")
    n = 24 if cx.quick() else 300
    progs = [gen.fragment(cx.seed, 3000 + i, max_stmts=4)[0] for i in range(n)] + [gen.callfam(cx.seed, i)[0] for i in range(0, gen.N_CALLFAM, 6)]
    # fixed shapes where one detector's verdict comes from the at-index contexts only (a cache keyed too coarsely, or state
    # shared between detectors, shows as an order effect here)
    progs = ["#pragma version 8\ntxn GroupIndex\nint 0\n==\nassert\ngtxn 0 RekeyTo\nglobal ZeroAddress\n==\nassert\nint 1\nreturn\n",
             "#pragma version 8\ntxn GroupIndex\nint 1\n==\nassert\ngtxn 1 CloseRemainderTo\nglobal ZeroAddress\n==\nassert\ngtxn 1 Fee\nint 1000\n<=\nassert\nint 1\nreturn\n",
             "#pragma version 8\ntxn GroupIndex\nint 0\n==\nassert\nint 0\ngtxns Fee\nint 5000\n<\nassert\nint 1\nreturn\n"] + progs
    items = []
    for k, src in enumerate(progs):
        others = [[rng.choice(progs) for _ in range(rng.randrange(1, 4))] for _ in range(2)]
        items.append({'name': f'c14/{cx.seed}/{k}', 'src': src, 'others': others})
    res = engine.run_items_with(c14_one, items)
    runs = 0
    for r in res:
        runs += r['runs']; cx.distinct.add(r['name'])
        for kind, detail in r['viol']:
            cx.violations.append({'kind': kind, 'program': r['name'], 'prop': 'C14', 'field': kind, 'where': kind, 'detail': detail, 'src': r['src'], 'env': None})
    nseeds = 4 if cx.quick() else 32
    sitems = [{'name': f'c14seed/{cx.seed}/{k}', 'src': src, 'seeds': list(range(nseeds))} for k, src in enumerate(progs[:(6 if cx.quick() else 40)])]
    # regression corpus first: witnesses of repaired hash-seed / history defects (known_findings F25), then programs with the
    # known-defect shapes allowed (where the worklist's fixpoint is not unique, any order effect shows)
    corpus_items = []
    for f in sorted(os.listdir(os.path.join(HERE, '..', 'corpus'))):
        try:
            w = json.load(open(os.path.join(HERE, '..', 'corpus', f)))
        except Exception:  # noqa
            continue
        if w.get('kind') == 'hash-seed':
            corpus_items.append({'name': 'corpus:' + f, 'src': w['src'], 'seeds': list(range(8))})
    shape_items = [{'name': f'c14shapes/{cx.seed}/{k}', 'src': gen.fragment(cx.seed, 7000 + k, shapes=True)[0], 'seeds': list(range(6 if cx.quick() else 12))}
                   for k in range(6 if cx.quick() else 60)]
    sitems = corpus_items + shape_items + sitems
    sres = engine.run_items_with(c14_seeds, sitems)
    for r in sres:
        runs += r['n']
        if r['bad']:
            cx.violations.append({'kind': 'hash-seed', 'program': r['name'], 'prop': 'C14', 'field': 'hash-seed', 'where': str(r['bad']),
                                  'detail': f"`tealer --json - detect` output under PYTHONHASHSEED in {r['bad']} differs byte-wise from PYTHONHASHSEED=0", 'src': r['src'], 'env': None})
    mres = engine.run_items_with(c14_multi_one, c14_multi_items(cx, 12 if cx.quick() else 60))
    for r in mres:
        runs += r['runs']; cx.distinct.add(r['name'])
        for kind, detail in r['viol'][:3]:
            cx.violations.append({'kind': kind, 'program': r['name'], 'prop': 'C14', 'field': kind, 'where': kind, 'detail': detail[:1500], 'src': r['src'], 'env': None})
    cx.evaluations += runs
    cx.samples += [{'program': res[0]['name'], 'source': res[0]['src'][:400], 'histories': 2, 'detector orders': 3, 'hash seeds': nseeds}]
    return {'programs': len(items), 'disagreements_checked': 0, 'runs': runs, 'hash_seeds': nseeds,
            'rule': 'generated programs x {fresh, after 2 random histories, 3 detector registration orders on one Tealer object} in-process + fresh processes under several PYTHONHASHSEED values compared byte-for-byte; distinct = distinct programs'}


# ---------------------------------------------------------------------------------------------
# C15 rewrites

def tag_lines(src):
    """give every instruction line a stable id in a trailing comment"""
    out, k = [], 0
    for l in src.splitlines():
        if l.strip() and not l.strip().startswith('//'):
            out.append(f"{l} // id{k}"); k += 1
        else:
            out.append(l)
    return out


def rewrite(lines, rng):
    """apply a random composition of the C15 rewrites to tagged lines; returns new lines + the rewrites applied"""
    applied = []
    lines = list(lines)
    def code(l): return l.split(' // id')[0]
    def tag(l): return ' // id' + l.split(' // id')[1] if ' // id' in l else ''
    if rng.random() < 0.6:   # label renaming
        labs = [code(l).strip()[:-1] for l in lines if code(l).strip().endswith(':')]
        m = {a: f"renamed_{k}_{a[::-1]}" for k, a in enumerate(labs)}
        def ren(l):
            c, t = code(l), tag(l)
            w = c.split()
            if not w: return l
            if w[0].endswith(':') and w[0][:-1] in m: w[0] = m[w[0][:-1]] + ':'
            elif w[0] in ('b', 'bz', 'bnz', 'callsub', 'switch', 'match'): w = [w[0]] + [m.get(x, x) for x in w[1:]]
            return ' '.join(w) + t
        lines = [ren(l) for l in lines]; applied.append('labels')
    if rng.random() < 0.6:   # integer spelling / named constants / pushint
        NAMED = {'pay': 1, 'keyreg': 2, 'acfg': 3, 'axfer': 4, 'afrz': 5, 'appl': 6, 'NoOp': 0, 'OptIn': 1, 'CloseOut': 2, 'ClearState': 3, 'UpdateApplication': 4, 'DeleteApplication': 5}
        def spell(l):
            c, t = code(l), tag(l)
            w = c.split()
            if len(w) == 2 and w[0] in ('int', 'pushint'):
                v = w[1]
                if v in NAMED and w[0] == 'int' and rng.random() < 0.5: v = str(NAMED[v])
                try:
                    n = int(v, 0) if not (v.startswith('0') and v[1:].isdigit() and len(v) > 1) else int(v, 8)
                    v = rng.choice([str(n), hex(n), ('0' + oct(n)[2:]) if n else '0'])
                    op = rng.choice(['int', 'pushint'])
                    return f"{op} {v}{t}"
                except ValueError:
                    return f"{w[0]} {v}{t}"
            return l
        lines = [spell(l) for l in lines]; applied.append('int-spelling')
    if rng.random() < 0.6:   # comments, blank lines, indentation
        out = []
        for l in lines:
            if rng.random() < 0.2: out.append("")
            if rng.random() < 0.2: out.append("   // a comment")
            out.append((rng.choice(["", "  ", "\t"]) + l) if l.strip() else l)
        lines = out; applied.append('layout')
    if rng.random() < 0.5:   # stack-neutral padding between statements (never inside a condition: only after assert / pop / store / labels)
        out = []
        for l in lines:
            out.append(l)
            w = code(l).split()
            if w and (w[0] in ('assert', 'pop') or w[0].startswith('store')) and rng.random() < 0.4:
                out += ["int 77", "pop"]
        lines = out; applied.append('padding')
    if rng.random() < 0.4:   # move whole subroutine bodies (subroutines are the trailing `subN:` ... `retsub` chunks)
        idx = [k for k, l in enumerate(lines) if re.match(r'\s*(renamed_\d+_\d?bus|sub\d+):', code(l))]
        if len(idx) >= 2 and not any('main_code' in l or 'edoc_niam' in l for l in lines):
            head = lines[:idx[0]]
            chunks = [lines[a:b] for a, b in zip(idx, idx[1:] + [len(lines)])]
            rng.shuffle(chunks)
            lines = head + [l for c in chunks for l in c]; applied.append('move-subs')
    return lines, applied


def summary(src):
    """per-instruction-id block contexts and per-detector verdicts of the real tool"""
    import impl
    teal, cap = impl.parse(src)
    fn = impl.construct_function_traced(teal, ["B0"])
    keys = impl.block_keys(fn)
    ctx = {}
    by_key = {}
    for l in impl.render_contexts(fn, keys):
        w = l.split(' ')
        by_key.setdefault(int(w[1]), []).append(' '.join(w[2:]))
    for b in fn.blocks:
        ids = [m.group(1) for i in b.instructions for m in [re.search(r'id(\d+)', i.comment or '')] if m]
        if ids:
            ctx[ids[0]] = by_key.get(keys[b], [])
    verdict = {}
    for l in impl.run_detectors(teal, fn):
        w = l.split(' ')
        verdict[w[1] if w[0] == 'paths' else w[2]] = (len([p for p in (w[2] if len(w) > 2 else '').split('|') if p]) if w[0] == 'paths' else 'error')
    return ctx, verdict


def c15_one(item):
    import impl
    name, src, seed = item['name'], item['src'], item['seed']
    rng = random.Random(f"c15/{seed}/{name}")
    res = {'name': name, 'src': src, 'viol': [], 'cases': 0}
    tagged = tag_lines(src)
    try:
        with impl.time_limit(30):
            c0, v0 = summary("\n".join(tagged) + "\n")
    except BaseException:
        return res
    for _ in range(item.get('ncases', 3)):
        new, applied = rewrite(tagged, rng)
        if not applied: continue
        try:
            with impl.time_limit(30):
                c1, v1 = summary("\n".join(new) + "\n")
        except impl.Timeout:
            # the per-case time limit (path explosion, loaded machine) is not a verdict about the rewritten contract
            res['timeouts'] = res.get('timeouts', 0) + 1; continue
        except BaseException as e:
            res['viol'].append((applied, f"rewritten contract fails to analyse: {type(e).__name__}", "\n".join(new))); continue
        res['cases'] += 1
        if v1 != v0:
            res['viol'].append((applied, f"detector verdicts (number of paths) change: {v0} -> {v1}", "\n".join(new)))
        elif 'padding' not in applied and c1 != c0:
            bad = [k for k in c0 if c0.get(k) != c1.get(k)][:2]
            res['viol'].append((applied, f"contexts of the blocks starting at instruction ids {bad} change: {[c0.get(k, [''])[0][:150] for k in bad]} -> {[c1.get(k, [''])[0][:150] for k in bad]}", "\n".join(new)))
        elif 'padding' in applied:
            # padding may merge nothing but shifts nothing either: compare the blocks present in both
            bad = [k for k in c0 if k in c1 and c0[k] != c1[k]][:2]
            if bad:
                res['viol'].append((applied, f"contexts of the blocks starting at instruction ids {bad} change under padding", "\n".join(new)))
    return res


KIND_CONSTS = [('TypeEnum', n, v) for n, v in (('pay', 1), ('keyreg', 2), ('acfg', 3), ('axfer', 4), ('afrz', 5), ('appl', 6))] + \
              [('OnCompletion', n, v) for n, v in (('NoOp', 0), ('OptIn', 1), ('CloseOut', 2), ('ClearState', 3), ('UpdateApplication', 4), ('DeleteApplication', 5))]


def kindspell_programs():
    """systematic family for 'naming a transaction type or completion action by word or by number' (and the pushint /
    intcblock rewrites of that constant): every named constant x operand order x {==, !=} x {assert, bz, bnz}; the by-word
    program first, then every numeric spelling of the same constant"""
    out = []
    for field, name, val in KIND_CONSTS:
        for const_first in (False, True):
            for op in ('==', '!='):
                for use in ('assert', 'bz', 'bnz'):
                    def prog(push, head=''):
                        a, b = (push, f"txn {field}") if const_first else (f"txn {field}", push)
                        cond = f"{a}\n{b}\n{op}"
                        if use == 'assert':
                            body = f"{cond}\nassert\ntxn Fee\nint 1000\n<=\nassert\nint 1\nreturn"
                        else:
                            body = f"{cond}\n{use} other\ntxn RekeyTo\nglobal ZeroAddress\n==\nassert\nint 1\nreturn\nother:\ntxn Fee\nint 1000\n<=\nassert\nint 1\nreturn"
                        return f"#pragma version 8\n{head}{body}\n"
                    base = prog(f"int {name}")
                    variants = [('number', prog(f"int {val}")), ('hex', prog(f"int {hex(val)}")), ('octal', prog(f"int 0{oct(val)[2:]}" if val else "int 0")),
                                ('pushint', prog(f"pushint {val}")), ('intc', prog("intc 1", f"intcblock 77 {val}\n")),
                                ('intc_k', prog("intc_0", f"intcblock {val} 1000\n")),
                                # the constant block anywhere in the entry block, after stack-neutral padding
                                ('intc-after-padding', prog("intc 1", f"int 7\npop\nintcblock 77 {val}\n")),
                                ('intc_k-after-bytecblock', prog("intc_0", f"bytecblock 0x01\nint 7\npop\nintcblock {val}\n"))]
                    out.append((f"kindspell/{field}/{name}/{'const-first' if const_first else 'field-first'}/{op}/{use}", base, variants))
    return out


def c15_kindspell(item):
    import impl
    name, base, variants = item['name'], item['base'], item['variants']
    res = {'name': name, 'src': base, 'viol': [], 'cases': 0}
    def summ(src):
        # blocks are matched by position: these rewrites neither add nor remove blocks (the intcblock line joins block 0)
        c, v = summary("\n".join(tag_lines(src)) + "\n")
        return sorted(c.items(), key=lambda kv: int(kv[0])), v
    try:
        c0, v0 = summ(base)
    except BaseException as e:
        res['viol'].append((['base'], f"by-word contract fails to analyse: {type(e).__name__}", base)); return res
    for kind, src in variants:
        try:
            c1, v1 = summ(src)
        except BaseException as e:
            res['viol'].append(([kind], f"rewritten contract fails to analyse: {type(e).__name__}", src)); continue
        res['cases'] += 1
        if v1 != v0:
            res['viol'].append(([kind], f"detector verdicts (number of paths) change: {v0} -> {v1}", src))
        elif [x[1] for x in c0] != [x[1] for x in c1]:
            k = next(i for i, (x, y) in enumerate(zip(c0, c1)) if x[1] != y[1])
            res['viol'].append(([kind], f"contexts of block #{k} change: {c0[k][1][0][:160]} -> {c1[k][1][0][:160]}", src))
    return res


def c15(cx):
    fam = kindspell_programs()
    if cx.quick():
        rng = random.Random(f"c15fam/{cx.seed}")
        # every (constant, operand order) once in the quick tier, with a seed-dependent operator and consumption
        pick = {}
        for it in fam:
            w = it[0].split('/')
            pick.setdefault((w[1], w[2], w[3]), []).append(it)
        fam = [rng.choice(v) for v in pick.values()]
    fres = engine.run_items_with(c15_kindspell, [{'name': n_, 'base': b_, 'variants': v_} for n_, b_, v_ in fam])
    fam_cases = 0
    for r in fres:
        fam_cases += r['cases']
        if r['cases']: cx.distinct.add(r['name'])
        for applied, detail, new in r['viol']:
            cx.violations.append({'kind': 'rewrite', 'program': r['name'], 'prop': 'C15', 'field': '+'.join(applied), 'where': '+'.join(applied), 'detail': detail, 'src': r['src'], 'env': {'rewritten': new}})
    cx.evaluations += fam_cases
    n = 50 if cx.quick() else 600
    items = [{'name': f'fragment/{cx.seed}/{4000 + i}', 'src': gen.fragment(cx.seed, 4000 + i, max_stmts=4, intc=False)[0], 'seed': cx.seed, 'ncases': 3} for i in range(n)]
    res = engine.run_items_with(c15_one, items)
    cases = 0
    kinds = {}
    for r in res:
        cases += r['cases']
        if r['cases']: cx.distinct.add(r['name'])
        for applied, detail, new in r['viol']:
            cx.violations.append({'kind': 'rewrite', 'program': r['name'], 'prop': 'C15', 'field': '+'.join(applied), 'where': '+'.join(applied), 'detail': detail, 'src': r['src'], 'env': {'rewritten': new}})
    cx.evaluations += cases
    cx.samples += [{'program': res[0]['name'], 'original': res[0]['src'][:300], 'rewrites': ['labels', 'int-spelling', 'layout', 'padding', 'move-subs']}]
    return {'programs': len(items) + len(fam), 'disagreements_checked': 0, 'rewrite_cases': cases, 'kind_spelling_cases': fam_cases,
            'rule': 'systematic family (named type / completion constant x operand order x ==,!= x assert,bz,bnz) x {number, hex, octal, pushint, intcblock+intc, intc_k}; generated programs x random compositions of {label renaming, int spelling / named constants / pushint, comments-blank lines-indentation, stack-neutral padding, moving subroutine bodies}; blocks are matched through instruction ids carried in comments; distinct = distinct programs'}
