"""Generated/Worklist.lean: the two worklist solvers of generic.py translated from the Python AST of /repo, for ONE analysis key:

  DataflowTransactionContext._merge_information_forward / forward_analyis
  DataflowTransactionContext._merge_information_backward / backward_analysis

`while worklist:` becomes recursion on an explicit fuel (`none` when it runs out); the per-key dictionaries
`global_reachout[key]` / `global_liveout[key]` become functions of the block (a dictionary that is only written and looked up),
updated in place by the merge functions in Python and therefore RETURNED by their translations.  Blocks are named by their keys;
`blockOf b` is the view of block `b` (PyView.PyBlock).  With several keys the Python re-queues a block when ANY key changed; the
translation is the loop for `analysis_keys = [key]` (that the schedule does not matter is the confluence theorem of C14)."""
import ast
import inspect
import textwrap

from pydo import Untranslatable
from flow_gen import FlowDo, KeyLoopRewriter

BID_ATTRS = {'sub_return_point': ('subReturnPoint', ('opt', 'bid')), 'is_callsub_block': ('isCallsubBlock', 'bool'),
             'callsub_block': ('callsubBlock', 'bid'), 'is_sub_return_point': ('isSubReturnPoint', 'bool')}


class Unroll(KeyLoopRewriter):
    def visit_Subscript(self, node):     # the per-key dictionaries are handled (fail-closed) by WorkDo.expr
        self.generic_visit(node)
        return node


class WorkDo(FlowDo):
    """adds: block ids with views, the per-key dictionary as a function, list operations of the worklist"""
    COMMON = "dom univ blockCtx pathCtx blocks blockOf self key"

    def expr(self, e):
        s = self.src(e)
        if s == 'self._function.blocks': return ('blocks', 'bidlist')
        if isinstance(e, ast.Subscript):
            v = self.src(e.value)
            if isinstance(e.value, ast.Name) and self.env.get(e.value.id) == 'gmap' and self.src(e.slice) == 'key':
                return (e.value.id, 'dmap')
            if v == 'self._block_contexts[key]':
                i, it = self.expr(e.slice)
                if it != 'bid': raise Untranslatable(s)
                return (f"(blockCtx {i})", 'dval')
            if isinstance(e.value, ast.Name) and self.env.get(e.value.id) == 'bidlist':
                if isinstance(e.slice, ast.Constant) and e.slice.value == 0:
                    return (f"({e.value.id}.headD 0)", 'bid')       # under the `while worklist:` guard
                if isinstance(e.slice, ast.Slice) and e.slice.upper is None and e.slice.step is None and isinstance(e.slice.lower, ast.Constant):
                    return (f"({e.value.id}.drop {e.slice.lower.value})", 'bidlist')
        if isinstance(e, ast.Attribute) and isinstance(e.value, ast.Name) and self.env.get(e.value.id) == 'bid' and e.attr in BID_ATTRS:
            a, t = BID_ATTRS[e.attr]
            return (f"(blockOf {e.value.id}).{a}", t)
        if isinstance(e, ast.List):
            if not e.elts: return ('([] : List Nat)', 'bidlist')
            if len(e.elts) == 1:
                c, t = self.expr(e.elts[0])
                if t == 'bid': return (f"[{c}]", 'bidlist')
                if t == ('opt', 'bid'): return (f"[({c}.getD 0)]", 'bidlist')     # under an `is not None` test
        if isinstance(e, ast.BinOp) and isinstance(e.op, ast.Add):
            (l, lt), (r, rt) = self.expr(e.left), self.expr(e.right)
            if lt == rt == 'bidlist': return (f"({l} ++ {r})", 'bidlist')
            raise Untranslatable(s)
        if isinstance(e, ast.Compare) and len(e.ops) == 1 and isinstance(e.ops[0], (ast.NotIn, ast.In)):
            (l, lt), (r, rt) = self.expr(e.left), self.expr(e.comparators[0])
            if lt == 'bid' and rt == 'bidlist':
                return (f"(!({r}.contains {l}))" if isinstance(e.ops[0], ast.NotIn) else f"({r}.contains {l})", 'bool')
            raise Untranslatable(s)
        if isinstance(e, ast.Compare) and len(e.ops) == 1 and isinstance(e.ops[0], (ast.NotEq, ast.Eq)):
            (l, lt), (r, rt) = self.expr(e.left), self.expr(e.comparators[0])
            if lt == rt == 'dval': return (f"({l} {'!=' if isinstance(e.ops[0], ast.NotEq) else '=='} {r})", 'bool')
        if isinstance(e, ast.Call):
            f = self.src(e.func)
            if f in ('next_blocks_global', 'prev_blocks_global') and len(e.args) == 2 and self.src(e.args[0]) == 'self._function':
                c, t = self.expr(e.args[1])
                if t != 'bid': raise Untranslatable(s)
                return (f"(blockOf {c}).{'nextGlobal' if f.startswith('next') else 'prevGlobal'}", 'bidlist')
            if f == 'leaf_block_global' and len(e.args) == 1:
                c, t = self.expr(e.args[0])
                if t != 'bid': raise Untranslatable(s)
                return (f"(blockOf {c}).isLeaf", 'bool')
            if f in ('self._calculate_reachin', 'self._calculate_livein') and len(e.args) == 3 and self.src(e.args[0]) == 'key':
                (b, bt), (m, mt) = self.expr(e.args[1]), self.expr(e.args[2])
                if bt != 'bid' or mt != 'dmap': raise Untranslatable(s)
                if f.endswith('reachin'):
                    return (f"(calculateReachin dom univ (pathCtx {b}) self key (blockOf {b}) {m})", 'dval')
                return (f"(calculateLivein dom univ self key (blockOf {b}) {m})", 'dval')
        return super().expr(e)

    def block_(self, stmts, ind, declared, out, pad):
        for s in stmts:
            src = self.src(s)
            if isinstance(s, ast.AnnAssign) and isinstance(s.target, ast.Name) and isinstance(s.value, ast.Dict) and not s.value.keys:
                if self.env.get(s.target.id) != 'gmap': raise Untranslatable(src)
                out.append(f"{pad}-- `{s.target.id} = {{}}`: the dictionary of per-key dictionaries")
                continue
            if isinstance(s, ast.Assign) and len(s.targets) == 1 and isinstance(s.targets[0], ast.Subscript):
                t = s.targets[0]
                if isinstance(t.value, ast.Name) and self.env.get(t.value.id) == 'gmap' and self.src(t.slice) == 'key' and isinstance(s.value, ast.Dict) and not s.value.keys:
                    out.append(f"{pad}-- `{src}`: the dictionary of this key (a function of the block)")
                    continue
                if (isinstance(t.value, ast.Subscript) and isinstance(t.value.value, ast.Name) and self.env.get(t.value.value.id) == 'gmap'
                        and self.src(t.value.slice) == 'key'):
                    (b, bt), (v, vt) = self.expr(t.slice), self.expr(s.value)
                    if bt != 'bid' or vt != 'dval': raise Untranslatable(src)
                    g = t.value.value.id
                    out.append(f"{pad}{g} := Tealer.PyView.dmapSet {g} {b} {v}")
                    continue
                raise Untranslatable(src)
            if (isinstance(s, ast.Expr) and isinstance(s.value, ast.Call) and isinstance(s.value.func, ast.Attribute) and s.value.func.attr == 'append'
                    and isinstance(s.value.func.value, ast.Name) and self.env.get(s.value.func.value.id) == 'bidlist' and len(s.value.args) == 1):
                c, t = self.expr(s.value.args[0])
                if t != 'bid': raise Untranslatable(src)
                n = s.value.func.value.id
                out.append(f"{pad}{n} := {n} ++ [{c}]")
                continue
            if (isinstance(s, ast.Assign) and len(s.targets) == 1 and isinstance(s.targets[0], ast.Name) and isinstance(s.value, ast.Call)
                    and self.src(s.value.func) in ('self._merge_information_forward', 'self._merge_information_backward')):
                a = s.value.args
                if len(a) != 3 or self.src(a[0]) != 'analysis_keys' or self.env.get(self.src(a[2])) != 'gmap': raise Untranslatable(src)
                b, bt = self.expr(a[1])
                if bt != 'bid': raise Untranslatable(src)
                fn = 'mergeInformationForward' if self.src(s.value.func).endswith('forward') else 'mergeInformationBackward'
                g, n = self.src(a[2]), s.targets[0].id
                out.append(f"{pad}-- the Python updates `{g}[key]` in place")
                out.append(f"{pad}let (t_{n}, t_state) := ({fn} {self.COMMON} {b} {g})")
                out.append(f"{pad}let mut {n} := t_{n}" if n not in declared else f"{pad}{n} := t_{n}")
                out.append(f"{pad}{g} := t_state")
                self.env[n] = 'bool'; declared.add(n)
                continue
            if isinstance(s, ast.Return) and s.value is not None and getattr(self, 'state_name', None):
                c, t = self.expr(s.value)
                if t != 'bool': raise Untranslatable(src)
                out.append(f"{pad}return ({c}, {self.state_name})")
                continue
            saved = self.after
            self.after = stmts[stmts.index(s) + 1:] + saved
            try:
                super().block_([s], ind, declared, out, pad)
            finally:
                self.after = saved
        return out


SIG = ("{D : Type} [DecidableEq D] (dom : Tealer.Domain D) (univ : D) (blockCtx : Nat → D) (pathCtx : Nat → Nat → D) (blocks : List Nat) "
       "(blockOf : Nat → Tealer.PyView.PyBlock) (self : Tealer.PyView.Env) (key : Tealer.Key)")


def fn_tree(pyfn):
    tree = ast.parse(textwrap.dedent(inspect.getsource(pyfn))).body[0]
    tree = Unroll('ctx').visit(tree)
    ast.fix_missing_locations(tree)
    body = [st for st in tree.body if not (isinstance(st, ast.Expr) and isinstance(st.value, ast.Constant))]
    return tree, body


def new_tr(env):
    tr = WorkDo({'field_classes': (), 'funcs': {}, 'names': {}, 'special': {}})
    tr.env = dict(env)
    tr.none_vars, tr.pending_none, tr.var_lean_types, tr.lines_ref = set(), {}, {}, []
    tr.ret_type, tr.raises, tr.after, tr.seen_types, tr.final_value = 'bool', False, [], {}, None
    return tr


def translate_merge(pyfn, lean_name, gname, doc):
    tree, body = fn_tree(pyfn)
    names = [a.arg for a in tree.args.args]
    if names != ['self', 'analysis_keys', 'block', gname]: raise Untranslatable(f"signature of {pyfn.__qualname__}: {names}")
    tr = new_tr({'self': 'env', 'key': 'key', 'block': 'bid', gname: 'gmap'})
    tr.state_name = gname
    if not isinstance(body[-1], ast.Return): raise Untranslatable("function may fall off its end")
    lines = tr.block(body, 2, set(tr.env))
    return [f"/-- {doc} -/",
            f"def {lean_name} {SIG} (block : Nat) ({gname} : Nat → D) : Bool × (Nat → D) := Id.run do",
            f"  let mut {gname} := {gname}"] + lines + [""]


def translate_solver(pyfn, lean_name, gname, doc):
    tree, body = fn_tree(pyfn)
    names = [a.arg for a in tree.args.args]
    if names != ['self', 'analysis_keys', 'worklist']: raise Untranslatable(f"signature of {pyfn.__qualname__}: {names}")
    idx = [i for i, st in enumerate(body) if isinstance(st, ast.While)]
    if len(idx) != 1: raise Untranslatable("expected exactly one top-level while loop")
    pre, loop, post = body[:idx[0]], body[idx[0]], body[idx[0] + 1:]
    if ast.unparse(loop.test) != 'worklist' or loop.orelse: raise Untranslatable(f"while {ast.unparse(loop.test)}")
    if [ast.unparse(p) for p in post] != [f"for _k in ONE_KEY:\n    self._block_contexts[key] = {gname}[key]"]:
        raise Untranslatable("statements after the loop: " + " / ".join(ast.unparse(p) for p in post))
    env = {'self': 'env', 'key': 'key', 'worklist': 'bidlist', gname: 'gmap'}
    tr = new_tr(env)
    pre_lines = tr.block(pre, 2, set(tr.env))
    tr2 = new_tr(env)
    for st in ast.walk(loop):
        if isinstance(st, (ast.Return, ast.Break, ast.Continue)) and st in loop.body: raise Untranslatable("return / break / continue directly in the while loop")
    loop_lines = tr2.block(loop.body, 4, set(tr2.env))
    common = WorkDo.COMMON
    return [f"/-- the `while worklist:` loop of {pyfn.__qualname__}; one iteration per unit of fuel -/",
            f"def {lean_name}Loop {SIG} : Nat → List Nat → (Nat → D) → Option (Nat → D)",
            "  | 0, _, _ => none    -- out of fuel",
            f"  | fuel + 1, worklist, {gname} => do",
            f"    if worklist.isEmpty then return {gname}    -- `while worklist:` is left",
            "    let mut worklist := worklist",
            f"    let mut {gname} := {gname}"] + loop_lines + [
            f"    {lean_name}Loop {common} fuel worklist {gname}", "",
            f"/-- {doc} -/",
            f"def {lean_name} {SIG} (fuel : Nat) (worklist : List Nat) : Option (Nat → D) := do",
            f"  let mut {gname} : Nat → D := fun _ => dom.null"] + pre_lines + [
            f"  -- `self._block_contexts[key] = {gname}[key]`: the result",
            f"  {lean_name}Loop {common} fuel worklist {gname}", ""]


def gen_worklist():
    from tealer.analyses.dataflow.transaction_context import generic
    cls = generic.DataflowTransactionContext
    errors, out = [], ["/- REGENERATED on every run by harness/worklist_gen.py (+ flow_gen.py, pydo.py): the worklist solvers of",
                       "   analyses/dataflow/transaction_context/generic.py translated statement by statement from the Python AST of /repo, for one",
                       "   analysis key; `while worklist:` is recursion on fuel (`none` when it runs out). -/",
                       "import TealerModel.Generated.Flow", "set_option linter.unusedVariables false", "namespace Tealer.Generated", ""]
    for fn, args in ((translate_merge, (cls._merge_information_forward, 'mergeInformationForward', 'global_reachout',
                                        'translated from DataflowTransactionContext._merge_information_forward for one key: (updated, global_reachout[key] after the call)')),
                     (translate_solver, (cls.forward_analyis, 'forwardAnalyis', 'global_reachout',
                                         'translated from DataflowTransactionContext.forward_analyis for one key: the value of self._block_contexts[key] when it returns')),
                     (translate_merge, (cls._merge_information_backward, 'mergeInformationBackward', 'global_liveout',
                                        'translated from DataflowTransactionContext._merge_information_backward for one key: (updated, global_liveout[key] after the call)')),
                     (translate_solver, (cls.backward_analysis, 'backwardAnalysis', 'global_liveout',
                                         'translated from DataflowTransactionContext.backward_analysis for one key: the value of self._block_contexts[key] when it returns'))):
        try:
            out.extend(fn(*args))
        except Untranslatable as e:
            errors.append(f"{args[0].__qualname__}: {e}")
            out.extend([f"-- {args[0].__qualname__} could not be translated: {e}", ""])
    try:
        out.extend(translate_update_gtxn(cls._update_gtxn_constraints))
    except Untranslatable as e:
        errors.append(f"_update_gtxn_constraints: {e}")
        out.extend([f"-- _update_gtxn_constraints could not be translated: {e}", ""])
    return "\n".join(out + ["end Tealer.Generated", ""]), errors




# ---- _update_gtxn_constraints ----------------------------------------------------------------------------------------------
def translate_update_gtxn(pyfn):
    """one (key, ind) entry of the double loop: the value written to self._block_contexts[gtx_key][block]"""
    tree = ast.parse(textwrap.dedent(inspect.getsource(pyfn))).body[0]
    if [a.arg for a in tree.args.args] != ['self', 'keys_with_gtxn', 'block']: raise Untranslatable("signature of _update_gtxn_constraints")
    body = [st for st in tree.body if not (isinstance(st, ast.Expr) and isinstance(st.value, ast.Constant))]
    if len(body) != 1 or not isinstance(body[0], ast.For) or ast.unparse(body[0].target) != 'key' or ast.unparse(body[0].iter) != 'keys_with_gtxn':
        raise Untranslatable("expected `for key in keys_with_gtxn:`")
    inner = body[0].body
    if len(inner) != 1 or not isinstance(inner[0], ast.For) or ast.unparse(inner[0].target) != 'ind' or ast.unparse(inner[0].iter) != 'range(MAX_GROUP_SIZE)':
        raise Untranslatable("expected `for ind in range(MAX_GROUP_SIZE):`")
    stmts = inner[0].body
    if not stmts or ast.unparse(stmts[0]) != 'gtx_key = get_gtxn_at_index_key(ind, key)': raise Untranslatable("expected gtx_key = get_gtxn_at_index_key(ind, key)")
    def expr(e):
        s = ast.unparse(e)
        if s == 'self._block_contexts[gtx_key][block]': return 'gtxCtx'
        if s == 'self._block_contexts[key][block]': return 'baseCtx'
        if isinstance(e, ast.Call):
            f = ast.unparse(e.func)
            if f == 'self._null_set' and len(e.args) == 1 and ast.unparse(e.args[0]) == 'gtx_key': return 'dom.null'
            if f in ('self._intersection', 'self._union') and len(e.args) == 3 and ast.unparse(e.args[0]) == 'gtx_key':
                return f"(dom.{'inter' if f.endswith('intersection') else 'union'} {expr(e.args[1])} {expr(e.args[2])})"
        raise Untranslatable(s)
    def cond(e):
        s = ast.unparse(e)
        if isinstance(e, ast.Compare) and len(e.ops) == 1 and isinstance(e.ops[0], (ast.In, ast.NotIn)) and ast.unparse(e.left) == 'ind' \
                and ast.unparse(e.comparators[0]) == 'self._function.transaction_context(block).group_indices':
            return '(groupIndices.contains ind)' if isinstance(e.ops[0], ast.In) else '(!(groupIndices.contains ind))'
        raise Untranslatable(s)
    def block(sts, ind):
        out, pad = [], ' ' * ind
        for st in sts:
            if isinstance(st, ast.Assign) and len(st.targets) == 1 and ast.unparse(st.targets[0]) == 'self._block_contexts[gtx_key][block]':
                out.append(f"{pad}gtxCtx := {expr(st.value)}"); continue
            if isinstance(st, ast.If):
                out.append(f"{pad}if {cond(st.test)} then"); out += block(st.body, ind + 2)
                if st.orelse: out.append(f"{pad}else"); out += block(st.orelse, ind + 2)
                continue
            raise Untranslatable(ast.unparse(st)[:100])
        return out
    return ["/-- translated from DataflowTransactionContext._update_gtxn_constraints: the value it writes to",
            "    self._block_contexts[get_gtxn_at_index_key(ind, key)][block] (one entry of the double loop over keys and indices);",
            "    `groupIndices` = self._function.transaction_context(block).group_indices -/",
            "def updateGtxnConstraints {D : Type} (dom : Tealer.Domain D) (groupIndices : List Nat) (ind : Nat) (gtxCtx baseCtx : D) : D := Id.run do",
            "  let mut gtxCtx := gtxCtx"] + block(stmts[1:], 2) + ["  return gtxCtx", ""]


if __name__ == '__main__':
    import sys
    text, errs = gen_worklist()
    print(text)
    print(errs, file=sys.stderr)
