"""Writes MANIFEST.json from the registry of checks (keeps it valid against the schema)."""
import json, os, sys
HERE = os.path.dirname(os.path.abspath(__file__)); ROOT = os.path.abspath(os.path.join(HERE, '..'))
sys.path.insert(0, HERE)

CLAIMS = {
 'C01': ("Lean 4 theorems about the model of the analysis chain (lattice laws, operator tables, flow soundness of any solution, worklist returns a solution, DFS validity) + run-time correspondence of the whole pipeline (CFG, function, stack AST, contexts, the nine detectors' paths) with /repo + concrete AVM-semantics oracle searching for an approvable dangerous transaction without report",
         "The end-to-end composition C01_complete is not yet one theorem: layers are proved separately and composed through hypotheses checked on every run (graph well-formedness, trace facts). Known findings F01-F07 are hypotheses of the partial statements.", "8/C01"),
 'C02': ("Lean theorems on the model of search_paths: every returned path is the entry followed by a matched walk (retsub resumes at its own callsub's return point) ending in a leaf, no block twice per activation, no recursion, no validated block (searchPaths_valid); together with searchPaths_complete the reported set is exactly the set of such walks; correspondence of the reported path multisets of all nine detectors + independent executable validity predicate on the real tool's output",
         "Renderings (short notation / JSON blocks) are checked by parsing them back in the harness; their Lean statement is partial.", "8/C02"),
 'C03': ("Lean theorems: a path is reported only if it is a matched walk to a leaf with no validated block, so if every such walk has a validated block nothing is reported (C03_no_report); exactness of the set domains and of the fee chain; direct checks validate their block; + correspondence of contexts and paths + EXACT verdict oracle on the systematic direct-check family (field x operator x operand order x constant x consumption form x unknown-operand variants), where the concrete semantics coincides with the literal reading and every (size,index) / fee representative is enumerated",
         "The distributive-framework argument (computed context = union over paths) is not yet a Lean theorem; exactness is decided on the direct-check family by exhaustive region enumeration.", "8/C03"),
 'C17': ("Lean theorems: every Python operation that can raise is an explicit Except/Option in the model; proved: label resolution, list.remove, pruning and the path search do not raise under the stated graph conditions; + `tealer detect` (text, JSON) and all five printers run as SUBPROCESSES on adversarial layouts (dead code that branches or calls, labels at end, empty subroutines, back-to-back labels, branch / call last, recursion, duplicate switch labels) and generated programs: exit status 0 and no traceback",
         "Partial by nature: process exit status, file system, recursion limit are observed, not modelled. Termination (fuel bounds) is not yet a theorem. Known findings F21, F22.", "8/C17"),
 'C18': ("Lean theorems on the output model: count = number of listed paths and one instruction list per block occurrence, success iff no error, --filter-paths removes exactly the matching paths (parametric in the matcher), path marks by block id; + every exported file is PARSED BACK on every run: JSON envelope / count / short notations / per-block instruction lists, cfg DOT node set, node line numbers and edge set = global graph, path DOT marks = path blocks, transaction-context annotations = computed contexts, subroutine-cfg node sets, call-graph edges, --filter-paths results",
         "Partial by nature: files on disk and Python's re are external. The DOT reader understands exactly the shapes tealer emits.", "8/C18"),
 'C20': ("Lean model of _is_match / _find_instructions (Regex.lean) with the theorem that every reported match starts at an instruction reachable from the label at which the pattern occurs consecutively in straight-line code, lists those instructions in order, and every covered instruction is reachable (C20_sound, by induction on the search with an invariant over visited / matches / covered); + correspondence of matches and covered with the real match_regex; + independent reachability-closure oracle for completeness of the match set and soundness of covered",
         "Completeness of `covered` is false on the unchanged tree (known finding F23); completeness of the match set is decided by the oracle, not yet a theorem.", "8/C20"),
 'C13': ("Lean theorems: the offset table built by fill_group_relative_indexes is exactly the inverse of the configured offsets; the verdict loop as a model (Group.groupVerdict) with the decision logic stated outright (C13_group_verdict_iff: reported = eligible and not cleared; C13_cleared_spec: cleared iff an own contract, or a member through the configured absolute index, or a member through its configured offset, excludes the value at every accepting exit); leaf criterion; + on every run: correspondence of the real verdict loop with the model on random configured groups (1-4 members, shuffled listing order, absolute indices, offsets, declared-but-absent logic-sigs, type filters) under scripted answers of the three contract-level questions; through the YAML reader and init_tealer_from_config: one-transaction configurations (group verdict = single-contract verdict per applicable detector) and two-transaction configurations x who checks the field x absolute / relative configuration, with the concrete group executed by the Lean AVM semantics (both contracts must approve)",
         "The three contract-level questions (contract_checks_its_field / _txn_at_absolute_index / _using_relative_index) are parameters of the group model; their own model (validatedInBlock over leaf contexts) is compared in the ctx / paths phases of C01-C10. Detector types other than STATELESS / STATEFULL are outside the model (no caller has one). Known finding F24.", "8/C13"),
 'C14': ("Lean theorems: the model is a pure function of the program; whatever the initial order of the worklist (any order a set iteration may give) the result solves the equations when the loop stops (worklist theorem), permuting the initial worklist keeps the precondition, detectors read the contexts as an immutable argument; + on every run: the same contract analysed fresh, after random histories in the same process, with detectors registered in shuffled orders and re-run on one Tealer object, and in fresh processes under several PYTHONHASHSEED values with byte-identical JSON",
         "Partial by nature: hash seeds, id()-ordered sets, lru_caches and module-level lists are Python runtime behaviour that the pure model cannot exhibit; uniqueness of the fixpoint (confluence) is not yet a theorem.", "8/C14"),
 'C15': ("Lean theorems on the model: int / pushint / intcblock+intc spellings push the same known value, named type and completion constants denote their numbers, stack-neutral padding leaves the symbolic stack unchanged, consistent label renaming resolves every jump to the same position; + metamorphic check on the real tool: random compositions of label renaming, integer spellings (decimal/hex/octal, names), int->pushint, comments / blank lines / indentation, padding, moving subroutine bodies leave per-block contexts (matched through instruction ids) and detector verdicts unchanged",
         "The end-to-end relation analyse(rewrite p) = rename(analyse p) is checked metamorphically, not yet proved as one theorem.", "8/C15"),
 'C16': ("Lean theorems (kernel decide over the parse table REGENERATED from the real parse_line on every run): every opcode sample is parsed into the class and printed form of the specification table (no prefix capture), its printed form parses back to an identical instruction, unknown opcodes are kept verbatim; + the real parser run on every sample x whitespace/comment variants, decimal/hex/octal integer spellings, hex/base64/base32 byte forms, programs with blank and comment lines for the recorded line numbers",
         "Python's int(), base64 and re are not modelled (partial by nature). Known finding F19 (method signature printed without quotes).", "8/C16"),
 'C19': ("Lean theorems (kernel decide over regenerated tables): introduction version, execution mode and per-version opcode cost of every sample equal the specification tables; model of the version flag and of mode detection; + the real parse_teal run on every sample x declared versions 1..8 (stderr of the version check), random mode mixtures (mode, mixed-mode report, contract type) and random blocks (displayed cost = sum of table costs)",
         "Specification tables are reviewed snapshots (no AVM spec file offline). Field introduction versions are not specified independently (partial). Known finding F18 (sha3_256 cost).", "8/C19"),
 'C12': ("Lean model of copy_main_cfg / construct_function incl. error blocks and the used-subroutine closure (Function.lean), tied by correspondence of the function graph and all contexts for every sampled dispatch path; oracle: contexts are sound w.r.t. exactly the accepting executions whose block trace starts with the path; the contract's graph is unchanged by building functions; results do not depend on the order in which functions are built",
         "Theorems specific to construct_function are in progress; the flow theorems apply to the function graph as to any graph. Known findings F15, F16.", "8/C12"),
 'C04': ("Lean theorems about the model of parse_teal's four passes + correspondence of block structure, ordered successor/predecessor lists, retained set with /repo + check that the block trace of every concrete execution of the Lean AVM semantics is a matched walk of the tool's graph",
         "CFG construction is hand-modelled (Cfg.lean) and tied by differential execution on corpus + generated layouts.", "8/C04"),
 'C05': ("Lean model of subroutine discovery, caller/return-point tables and function construction (Cfg.lean, Function.lean) tied by correspondence of the subroutine tables at contract and function level; independent executable closure oracle (subroutines = callsub targets, blocks = intraprocedural closure, exits, call sites, return points) on the real tool's output; the exported call graph (`tealer print call-graph` as a subprocess, call-graph.dot parsed back) on call-heavy layouts under declared versions 4-8",
         "The C05 statements are checked on the tool's output by the executable predicate (harness/structural.py) and by model/tool agreement; Lean theorems for the closure characterisation are in progress (the partition and edge-order theorems of C04 are shared).", "8/C05"),
 'C11': ("Lean theorems: regenerated opcode table (class, printed form, pops, pushes, version, mode of every sample built by the real parse_line) equals the committed spec table (kernel decide); immediate families (dig/cover/uncover/bury/popn/dupn 0..255, frame ops, pushints/pushbytess/switch/match 0..8, proto) satisfy the AVM formulas; one-step simulation of construct_stack_ast against an instrumented concrete stack; + correspondence of the per-instruction operand ASTs on straight-line sequences over the whole opcode table",
         "Spec table is a reviewed snapshot (no AVM spec file available offline); known deviations F13/F14 are explicit in the theorem.", "8/C11"),
 'C06': ("Lean theorems: exact true/false sets for all six operators and every constant, exact set algebra, index<size coupling, forward/backward flow soundness for any solution; correspondence of stored contexts; oracle over (size,index) x environments",
         "Leaf layer proved for the field as first operand; constant-first ordered comparisons are known finding F02.", "8/C06"),
 'C07': ("Lean theorems: kernel-checked counter-example to the full statement (F01), per-dimension exactness for Pay/Axfer under TypeEnum checks and Update/Delete under OnCompletion checks, flow soundness; correspondence of stored kind sets; oracle over (TypeEnum,OnCompletion,ApplicationID) valuations",
         "The property is false on the unchanged tree (known finding F01, pinned by the repository's tests); the check reports any violation the reference model does not exhibit.", "8/C07"),
 'C08': ("Lean theorems: ANY/NO set algebra over-approximates, comparand soundness, not-any excludes; flow soundness; correspondence; oracle over address valuations (zero, literals, creator, fresh)",
         "Addresses compared with run-time values (SOME_ADDRESS tokens) are outside the claim as the property states.", "8/C08"),
 'C09': ("Lean theorems: chain-lattice soundness and exactness, six-operator table for every constant and every uint64 fee, single-check exactness, credit iff bounded, flow soundness, kernel-checked counter-example for constant-first comparisons (F02); correspondence; oracle over fee representatives",
         "Unknown comparands are read under the tool's documented heuristic (explicit hypothesis of assertedMax_unknown_sound).", "8/C09"),
 'C10': ("Lean theorems shared with C06-C09 (flow soundness instantiated for derived keys) + correspondence of all at-index / absolute / relative contexts + oracle over groups with several distinguished members",
         "Index classification and key matching are hand-modelled (Ast.lean) and tied by correspondence; their soundness lemmas are in progress.", "8/C10"),
}

def main():
    props = [json.loads(l) for l in open(os.path.join(ROOT, 'properties.jsonl'))]
    checks, na = [], []
    for p in props:
        pid = p['id']
        if pid in CLAIMS:
            text, note, ref = CLAIMS[pid]
            checks.append({
                'property_id': pid,
                'quick_cmd': f'./check {pid} --tier quick',
                'thorough_cmd': f'./check {pid} --tier thorough',
                'evidence_file': f'evidence/{pid}.json',
                'replay_cmd_template': f'./check {pid} --replay {{path}}',
                'engine': 'lean-model',
                'level_claimed': {'category': 'proof', 'text': text, 'design_ref': 'DESIGN.md §' + ref},
                'level_note': note + ' Trusted base: Lean kernel; axioms ⊆ {propext, Classical.choice, Quot.sound} audited per run; hand-written AVM spec (lean/TealerModel/Avm.lean); translator/extractor; correspondence harness (differential, sample-bounded).',
                'technique': 'Lean 4 machine-checked proof over a model tied to the source by translation + differential correspondence',
            })
        else:
            na.append({'property_id': pid, 'reason': NOT_YET.get(pid, 'check not built yet in this round; the technique applies (see DESIGN.md §8) and the property will be claimed once its model part and correspondence exist')})
    m = {
        'version': 1,
        'setup_cmd': './setup.sh',
        'hooks': {'guard': 'TEALER_VERIF', 'enable': 'no source hooks are needed: the harness wraps tealer functions in-process at run time (harness/impl.py); the guard variable is unused',
                  'baseline_off_cmd': 'cd /repo && /venv/bin/python -m pytest -ra -q -p no:cacheprovider --timeout=900 --continue-on-collection-errors',
                  'source_commits': [], 'add_only': True},
        'engines': [{'name': 'lean-model', 'path': 'lean/', 'serves_properties': sorted(CLAIMS), 'kind_free_text': 'Lean 4 model + theorems (lake project), compiled line-protocol driver tmdrv'},
                    {'name': 'harness', 'path': 'harness/', 'serves_properties': sorted(CLAIMS), 'kind_free_text': 'Python: extractor, generators, real-tool runner, correspondence diff, semantic oracle, evidence'}],
        'checks': checks,
        'not_applicable': na,
        'notes': 'All checks: ./check <ID> --tier quick|thorough, VERIF_SEED honoured. Known findings: known_findings.jsonl (witnesses under corpus/).',
    }
    json.dump(m, open(os.path.join(ROOT, 'MANIFEST.json'), 'w'), indent=1)
    print('claimed', len(checks), 'not claimed', len(na))

NOT_YET = {}
if __name__ == '__main__':
    main()
