"""Copies a confirmed seeded change into /verif/seeded/<PID>-<mN>/ with meta.json"""
import json, os, re, shutil, sys
pid, m = sys.argv[1], sys.argv[2]
src = f'/tmp/seed_{pid}/{m}'; dst = f'/verif/seeded/{pid}-{m}'
os.makedirs(dst, exist_ok=True)
for f in ('patch.diff', 'demo.py', 'notes.md'):
    if os.path.exists(os.path.join(src, f)): shutil.copy(os.path.join(src, f), os.path.join(dst, f))
log = open(f'/tmp/seedlogs/{pid}_{m}.log').read()
g = lambda pat: (re.search(pat, log) or [None, None])[1]
notes = open(os.path.join(src, 'notes.md')).read() if os.path.exists(os.path.join(src, 'notes.md')) else ''
meta = {'property': pid, 'source': 'independent sub-agent given only the property text and a scratch worktree',
        'files_changed': sorted(set(re.findall(r'^\+\+\+ b/(\S+)', open(os.path.join(src, 'patch.diff')).read(), flags=re.M))),
        'needs_to_manifest': ' '.join(notes.split('\n')[:40])[:1500],
        'confirmed': {'demo_exit_unchanged': g(r'DEMO_CLEAN_EXIT=(\d+)'), 'demo_exit_with_change': g(r'DEMO_MUT_EXIT=(\d+)'),
                      'test_suite_with_change': g(r'(\d+ passed[^\n]*)'),
                      'how': 'harness/seedverify.sh: scratch worktree of /repo HEAD, PYTHONPATH=<worktree>, demo before/after git apply, full pytest suite with the change'}}
json.dump(meta, open(os.path.join(dst, 'meta.json'), 'w'), indent=1)
print(dst, meta['confirmed'])
