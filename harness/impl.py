"""Runs the real tealer in-process and renders its state in the model driver's line format.

No change to /repo is needed: intermediate state is captured by wrapping functions at run time.
"""
import io, os, sys, logging, contextlib, signal
logging.disable(logging.CRITICAL)

import tealer.teal.parse_teal as PT
import tealer.teal.parse_functions as PF
from tealer.teal.instructions import instructions as I
from tealer.teal.instructions.parse_transaction_field import TX_FIELD_TXT_TO_OBJECT
from tealer.utils.teal_enums import TealerTransactionType
from tealer.utils.analyses import is_int_push_ins, leaf_block_global
from tealer.analyses.utils.stack_ast_builder import construct_stack_ast, compute_equations, UnknownStackValue
from tealer.teal.basic_blocks import BasicBlock

SUB_OFF = 1048576
ERR_OFF = 1073741824

def penc(s):
    out = []
    for c in str(s):
        if c == '%': out.append('%25')
        elif c == ',': out.append('%2C')
        elif c == ' ': out.append('%20')
        elif c == '\n': out.append('%0A')
        elif c == '|': out.append('%7C')
        elif c == '=': out.append('%3D')
        else: out.append(c)
    return ''.join(out)

CMP = {I.Eq: '==', I.Neq: '!=', I.Less: '<', I.LessE: '<=', I.Greater: '>', I.GreaterE: '>='}

def field_name(f):
    # the text under which key_helpers finds the field class
    for txt, cls in TX_FIELD_TXT_TO_OBJECT.items():
        if type(f) is cls:
            return txt
    return type(f).__name__

def enc_ins(ins):
    """protocol token of one instruction: line,text,op,args..."""
    t = type(ins)
    def tok(op, *args):
        return ','.join([str(ins.line), penc(str(ins)), op] + [penc(a) for a in args])
    if t is I.Pragma: return tok('pragma', ins.program_version)
    if t is I.Label: return tok('label', ins.label)
    if t is I.B: return tok('b', ins.label)
    if t is I.BZ: return tok('bz', ins.label)
    if t is I.BNZ: return tok('bnz', ins.label)
    if t is I.Switch: return tok('switch', *ins.labels)
    if t is I.Match: return tok('match', *ins.labels)
    if t is I.Callsub: return tok('callsub', ins.label)
    if t is I.Retsub: return tok('retsub')
    if t is I.Err: return tok('err')
    if t is I.Return: return tok('ret')
    if t is I.Assert: return tok('assert')
    if t is I.Int:
        return tok('int', ins.value) if isinstance(ins.value, int) else tok('intn', ins.value)
    if t is I.PushInt:
        return tok('pushint', ins.value) if isinstance(ins.value, int) else tok('pushintn', ins.value)
    if t is I.Intcblock: return tok('intcblock', *ins.constants)
    if t is I.Bytecblock: return tok('bytecblock')
    if isinstance(ins, I.IntcInstruction): return tok('intc', ins.index)
    if t is I.Addr: return tok('addr', ins.addr)
    if t is I.Txn: return tok('txn', field_name(ins.field))
    if t is I.Gtxn: return tok('gtxn', ins.idx, field_name(ins.field))
    if t is I.Gtxns: return tok('gtxns', field_name(ins.field))
    if t in (I.Gtxna, I.Gtxnas): return tok('gtxnimm', ins.stack_pop_size)
    if t in (I.Gtxnsa, I.Gtxnsas): return tok('gtxnstk', ins.stack_pop_size)
    if t is I.Global: return tok('global', type(ins.field).__name__)
    if t in CMP: return tok('cmp', CMP[t])
    if t is I.And: return tok('and')
    if t is I.Or: return tok('or')
    if t is I.Not: return tok('not')
    if t is I.Add: return tok('add')
    if t is I.Sub: return tok('sub')
    if t is I.TealerCustomErrInstruction: return tok('customerr')
    return tok('other', str(ins), ins.stack_pop_size, ins.stack_push_size)

class Capture:
    """captures the full instruction list and block list of the first parse_teal call"""
    def __init__(self):
        self.instructions = None
        self.all_bbs = None

@contextlib.contextmanager
def capture_parse():
    cap = Capture()
    orig_first, orig_bb = PT.first_pass, PT.create_bb
    def first_pass(lines, labels, subs, instructions):
        r = orig_first(lines, labels, subs, instructions)
        if cap.instructions is None:
            cap.instructions = list(instructions)
        return r
    def create_bb(instructions, all_bbs):
        r = orig_bb(instructions, all_bbs)
        if cap.all_bbs is None:
            cap.all_bbs = all_bbs
        return r
    PT.first_pass, PT.create_bb = first_pass, create_bb
    try:
        yield cap
    finally:
        PT.first_pass, PT.create_bb = orig_first, orig_bb

def exc_name(e):
    n = type(e).__name__
    return n

class Timeout(Exception):
    pass

@contextlib.contextmanager
def time_limit(seconds):
    def handler(signum, frame):
        raise Timeout()
    old = signal.signal(signal.SIGALRM, handler)
    signal.alarm(seconds)
    try:
        yield
    finally:
        signal.alarm(0)
        signal.signal(signal.SIGALRM, old)

def nl(xs):
    return ','.join(str(x) for x in xs)

def parse(src, name="c"):
    """parse_teal with stdout/stderr silenced; returns (teal, capture) or raises"""
    with capture_parse() as cap:
        buf = io.StringIO()
        with contextlib.redirect_stdout(buf), contextlib.redirect_stderr(buf):
            teal = PT.parse_teal(src, name)
    return teal, cap

def exit_kind(b):
    e = b.exit_instr
    t = type(e)
    if t is I.Callsub: return 'callsub:' + penc(e.label)
    if t is I.Retsub: return 'retsub'
    if t is I.BZ: return 'bz:' + penc(e.label)
    if t is I.BNZ: return 'bnz:' + penc(e.label)
    if t is I.B: return 'b:' + penc(e.label)
    if t is I.Switch: return 'switch'
    if t is I.Match: return 'match'
    if t is I.Err: return 'err'
    if t is I.Return: return 'return'
    return '-'

def render_teal(teal, cap):
    out = []
    live = set(teal.bbs)
    # all blocks ever created, by idx (idx assignment sorts by entry line)
    allb = sorted(cap.all_bbs, key=lambda b: b.entry_instr.line)
    for b in allb:
        sub = b._subroutine.name if b._subroutine is not None else '-'
        out.append(f"block {b.idx} live={1 if b in live else 0} sub={penc(sub)} lines={b.entry_instr.line}-{b.exit_instr.line} "
                   f"n={len(b.instructions)} next={nl(x.idx for x in b.next)} prev={nl(x.idx for x in b.prev)} exit={exit_kind(b)}")
    for s in [teal.main] + list(teal.subroutines.values()):
        out.append(f"sub {penc(s.name)} entry={s.entry.idx} blocks={nl(x.idx for x in s.blocks)} exits={nl(x.idx for x in s.exit_blocks)} "
                   f"callers={nl(x.idx for x in s.caller_blocks)} retpoints={nl(x.idx for x in s.return_point_blocks)}")
    out.append("intcs " + (nl(teal._int_constants) if teal._int_constants else "none"))  # [] and unset are the same to get_int_constant
    out.append(f"version {teal.version}")
    out.append(f"live {nl(b.idx for b in teal.bbs)}")
    return out

def block_keys(function):
    """model node keys of the blocks of a function"""
    keys = {}
    cnt = 0
    # error blocks are numbered in creation order: along the dispatch path, successor position order
    for b in function.blocks:
        if b._subroutine is function.main:
            if isinstance(b.entry_instr, I.TealerCustomErrInstruction):
                continue
            keys[b] = b.idx
        else:
            keys[b] = b.idx + SUB_OFF
    # walk main blocks in idx order to number error blocks deterministically as the construction does
    path_blocks = getattr(function, "_verif_path_blocks", None)
    if path_blocks:
        for bi in path_blocks[:-1]:
            for nb in bi.next:
                if isinstance(nb.entry_instr, I.TealerCustomErrInstruction) and nb not in keys:
                    keys[nb] = ERR_OFF + cnt
                    cnt += 1
    for b in function.blocks:
        if b not in keys:
            keys[b] = ERR_OFF + cnt
            cnt += 1
    return keys

def render_function(function, keys):
    out = [f"fentry {keys[function.entry]}"]
    K = lambda b: keys.get(b, b.idx if b._subroutine is None else b.idx + SUB_OFF)
    from tealer.detectors.groupsize import MissingGroupSize
    for b in function.blocks:
        try:
            ab = 1 if MissingGroupSize._accessed_using_absolute_index(b) else 0
        except Exception as e:  # noqa
            ab = 'E'
        out.append(f"fblock {keys[b]} idx={b.idx} sub={penc(b.subroutine.name)} n={len(b.instructions)} "
                   f"next={nl(K(x) for x in b.next)} prev={nl(K(x) for x in b.prev)} leaf={1 if leaf_block_global(b) else 0} abs={ab} exit={exit_kind(b)} lines={b.entry_instr.line}-{b.exit_instr.line}")
    construct_stack_ast.cache_clear()
    for s in [function.main] + list(function.subroutines.values()):
        callers = function.caller_blocks(s) if s is not function.main else []
        rps = function.return_point_blocks(s) if s is not function.main else []
        out.append(f"fsub {penc(s.name)} entry={K(s.entry)} blocks={nl(K(x) for x in s.blocks)} retsubs={nl(K(x) for x in s.retsub_blocks)} "
                   f"callers={nl(K(x) for x in callers)} retpoints={nl(K(x) for x in rps)}")
    return out

def render_asts(function, keys):
    out = []
    for b in function.blocks:
        pos = {ins: p for p, ins in enumerate(b.instructions)}
        ast = construct_stack_ast(b)
        for p, ins in enumerate(b.instructions):
            args = ast[ins].args
            if not args:
                continue
            r = []
            for a in args:
                if isinstance(a, UnknownStackValue):
                    r.append('?')
                else:
                    r.append(f"{pos[a.instruction]}.{a.ins_out_values_index}")
            out.append(f"ast {keys[b]} {p} {' '.join(r)}")
    construct_stack_ast.cache_clear()
    compute_equations.cache_clear()
    return out

def r_addr(a):
    return ('A' if a.any_addr else '') + ('N' if a.no_addr else '') + '[' + ';'.join(sorted(a.possible_addr)) + ']'

def r_ctx(c):
    types = sorted(int(t.value) for t in c.transaction_types)
    fee = 'unknown' if c.max_fee_unknown else str(c.max_fee)
    return (f"sizes={nl(sorted(c.group_sizes))} indices={nl(sorted(c.group_indices))} types={nl(types)} "
            f"rekey={r_addr(c.rekeyto)} close={r_addr(c.closeto)} aclose={r_addr(c.assetcloseto)} sender={r_addr(c.sender)} fee={fee}")

_DEFAULT_TAIL = None
def default_tail():
    global _DEFAULT_TAIL
    if _DEFAULT_TAIL is None:
        from tealer.teal.context.block_transaction_context import BlockTransactionContext
        _DEFAULT_TAIL = r_ctx(BlockTransactionContext(True))
    return _DEFAULT_TAIL

def render_contexts(function, keys):
    out = []
    dt = default_tail()
    for b in function.blocks:
        c = function.transaction_context(b)
        out.append(f"ctx {keys[b]} self 0 {r_ctx(c)}")
        for i in range(16):
            s = r_ctx(c.gtxn_context(i))
            if s != dt: out.append(f"ctx {keys[b]} at {i} {s}")
        for i in range(16):
            s = r_ctx(c.absolute_context(i))
            if s != dt: out.append(f"ctx {keys[b]} abs {i} {s}")
        for k in range(-15, 16):
            if k == 0: continue
            s = r_ctx(c.relative_context(k))
            if s != dt: out.append(f"ctx {keys[b]} rel {k} {s}")
    return out

DETECTORS = ["rekey-to", "can-close-account", "can-close-asset", "missing-fee-check", "is-updatable",
             "is-deletable", "unprotected-updatable", "unprotected-deletable", "group-size-check"]

def detector_classes():
    from tealer.detectors import all_detectors
    import inspect
    from tealer.detectors.abstract_detector import AbstractDetector
    res = {}
    for n in dir(all_detectors):
        d = getattr(all_detectors, n)
        if inspect.isclass(d) and issubclass(d, AbstractDetector) and d is not AbstractDetector:
            res[d.NAME] = d
    return res

def make_tealer(teal, function, name="c"):
    from tealer.tealer import Tealer
    from tealer.execution_context.transactions import Transaction, GroupTransaction
    from tealer.utils.teal_enums import ContractType
    teal.functions = {name: function}
    txn = Transaction()
    if teal.contract_type == ContractType.LogicSig:
        txn.transacton_id = name
        txn.has_logic_sig = True
        txn.logic_sig = function
    else:
        txn.application = function
    g = GroupTransaction()
    g.operation_name = name
    g.transactions = [txn]
    return Tealer({name: teal}, [g])

def run_detectors(teal, function):
    """returns lines `paths <det> ...` / `err detect <det> <E>` using the real detector classes"""
    out = []
    classes = detector_classes()
    for name in DETECTORS:
        try:
            tl = make_tealer(teal, function)
            tl.register_detector(classes[name])
            res = tl.run_detectors()[0]
            paths = []
            for ep in res:
                for p in ep.paths:
                    paths.append('-'.join(str(b.idx) for b in p))
            out.append(f"paths {name} {'|'.join(paths)}")
        except Timeout:
            raise
        except BaseException as e:  # noqa
            out.append(f"err detect {name} {exc_name(e)}")
    return out

class AnalysisFailed(Exception):
    def __init__(self, fn, exc):
        self.fn, self.exc = fn, exc

def construct_function_traced(teal, path):
    """construct_function, remembering the dispatch path blocks for error-block numbering.
    Raises AnalysisFailed(fn, exc) when the function was built but the dataflow analysis raised."""
    orig = PF._apply_transaction_context_analysis
    box = {}
    def wrapped(function):
        box['fn'] = function
        try:
            orig(function)
        except Timeout:
            raise
        except BaseException as e:
            box['exc'] = e
    PF._apply_transaction_context_analysis = wrapped
    try:
        fn = PF.construct_function(teal, path)
    finally:
        PF._apply_transaction_context_analysis = orig
    # recover the dispatch path blocks by following idx from the entry
    pb = []
    cur = [fn.entry]
    try:
        for bid in path:
            i = int(bid[1:])
            for b in cur:
                if b.idx == i and not isinstance(b.entry_instr, I.TealerCustomErrInstruction):
                    pb.append(b); cur = b.next; break
    except Exception:
        pass
    fn._verif_path_blocks = pb
    if 'exc' in box:
        raise AnalysisFailed(fn, box['exc'])
    return fn

def analyse_source(src, path=("B0",), want=("teal", "func", "ast", "ctx", "paths"), limit=30):
    """Full pipeline on the real implementation. Returns (tokens or None, lines)."""
    lines = []
    toks = None
    try:
        with time_limit(limit):
            try:
                teal, cap = parse(src)
            except BaseException as e:  # SystemExit on ParseError included
                if isinstance(e, Timeout): raise
                return None, [f"err parse {exc_name(e)}"]
            toks = [enc_ins(i) for i in cap.instructions]
            if "teal" in want:
                lines += render_teal(teal, cap)
            failed = None
            try:
                buf = io.StringIO()
                with contextlib.redirect_stdout(buf), contextlib.redirect_stderr(buf):
                    fn = construct_function_traced(teal, list(path))
            except AnalysisFailed as af:
                fn, failed = af.fn, af.exc
            except BaseException as e:
                if isinstance(e, Timeout): raise
                lines.append(f"err func {exc_name(e)}")
                return toks, lines
            keys = block_keys(fn)
            if "func" in want: lines += render_function(fn, keys)
            if "ast" in want: lines += render_asts(fn, keys)
            if failed is not None:
                lines.append(f"err analyse {exc_name(failed)}")
                return toks, lines
            if "ctx" in want: lines += render_contexts(fn, keys)
            if "paths" in want: lines += run_detectors(teal, fn)
    except Timeout:
        lines.append("err timeout")
    return toks, lines
