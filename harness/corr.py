"""Correspondence: run programs through the real tealer and through the Lean model driver, diff by phase."""
import os, subprocess, sys, collections
sys.path.insert(0, os.path.dirname(__file__))
import impl

DRV = os.path.join(os.path.dirname(__file__), '..', 'lean', '.lake', 'build', 'bin', 'tmdrv')

def run_model(requests):
    """requests: list of request lines -> list of response-line lists (split at `end`)"""
    inp = ''.join(r + '\n' for r in requests)
    r = subprocess.run([DRV], input=inp, capture_output=True, text=True)
    if r.returncode != 0:
        raise RuntimeError("model driver failed: " + r.stderr[:2000])
    out, cur = [], []
    for l in r.stdout.splitlines():
        if l.startswith('end '):
            out.append(cur); cur = []
        else:
            cur.append(l)
    return out

PHASE_OF = {'block': 'cfg', 'sub': 'subs', 'intcs': 'cfg', 'version': 'cfg', 'live': 'cfg', 'fentry': 'func',
            'fblock': 'func', 'fsub': 'func', 'ast': 'ast', 'ctx': 'ctx', 'paths': 'paths', 'err': 'err'}

def phase(line):
    return PHASE_OF.get(line.split(' ', 1)[0], 'other')

def canon(line):
    """order-insensitive canonical form for lines whose Python order is set/dict dependent"""
    w = line.split(' ')
    if w[0] in ('sub', 'fsub'):
        # blocks / exits / callers / retpoints as sorted sets
        res = w[:2]
        for f in w[2:]:
            k, _, v = f.partition('=')
            if k in ('blocks', 'exits', 'callers', 'retpoints', 'retsubs'):
                v = ','.join(sorted(v.split(','), key=lambda x: (len(x), x))) if v else ''
            res.append(k + '=' + v)
        return ' '.join(res)
    if w[0] == 'paths' and len(w) > 2:
        return ' '.join(w[:2] + ['|'.join(sorted(w[2].split('|')))])
    return line

def diff(impl_lines, model_lines):
    """returns dict phase -> (only_impl, only_model)"""
    a = collections.Counter(canon(l) for l in impl_lines)
    b = collections.Counter(canon(l) for l in model_lines)
    res = {}
    for l in (a - b):
        res.setdefault(phase(l), ([], []))[0].append(l)
    for l in (b - a):
        res.setdefault(phase(l), ([], []))[1].append(l)
    return res

def compare_sources(srcs, path=("B0",), limit=30):
    """srcs: list of (name, source). Returns list of (name, status, detail)"""
    reqs, metas = [], []
    results = []
    for name, src in srcs:
        toks, lines = impl.analyse_source(src, path=path, limit=limit)
        if toks is None:
            results.append((name, 'impl-parse-error', lines))
            continue
        pspec = '.'.join(p[1:] for p in path)
        reqs.append(f"prog {len(reqs)} {pspec} " + ' '.join(toks))
        metas.append((name, lines))
    outs = run_model(reqs) if reqs else []
    for (name, lines), ml in zip(metas, outs):
        d = diff(lines, ml)
        results.append((name, 'ok' if not d else 'diff', d))
    return results

if __name__ == '__main__':
    import corpus
    srcs = corpus.repo_sources()
    res = compare_sources(srcs)
    st = collections.Counter(r[1] for r in res)
    print(st)
    for name, status, d in res:
        if status == 'diff':
            print('==', name, {k: (len(v[0]), len(v[1])) for k, v in d.items()})
            for k, v in d.items():
                for l in v[0][:3]: print('   impl :', l[:300])
                for l in v[1][:3]: print('   model:', l[:300])
        elif status != 'ok':
            print('==', name, status, d[:2])
