"""C13: group-configuration verdicts.  (a) one transaction / one contract: the group verdict equals the single-contract
verdict; (b) two configured transactions over small contracts: a transaction that carries the dangerous value in a concrete
group approved by every configured contract (Lean AVM semantics) must be reported vulnerable, and a direct exclusion by its
own contract or by the other member (absolute index / offset) clears it; (c) fill_group_relative_indexes is the inverse map."""
import itertools, os, random, shutil, sys, tempfile, contextlib, io
HERE = os.path.dirname(os.path.abspath(__file__))
sys.path.insert(0, HERE)
import gen, engine
import oracle as O

SINGLE_DETS = ["rekey-to", "can-close-account", "can-close-asset", "missing-fee-check", "is-updatable", "is-deletable",
               "unprotected-updatable", "unprotected-deletable"]
TWO_FIELD = {"can-close-account", "can-close-asset", "unprotected-updatable", "unprotected-deletable"}


def run_group(contracts, groups):
    """contracts: list of (name, src, type); groups: list of list of txn dicts. Returns {det: [set of vulnerable txn ids per group]}"""
    import yaml, impl
    from pathlib import Path
    from tealer.utils.command_line.group_config import read_config_from_file
    from tealer.utils.command_line.common import init_tealer_from_config
    base = tempfile.mkdtemp(prefix='tealer-verif-c13-')
    try:
        cfg = {'name': 'verif', 'contracts': [], 'groups': [{'operation': f'op{k}', 'transactions': g} for k, g in enumerate(groups)]}
        for (name, src, typ) in contracts:
            fp = os.path.join(base, name + '.teal')
            with open(fp, 'w') as f: f.write(src)
            cfg['contracts'].append({'name': name, 'file_path': name + '.teal', 'type': typ, 'version': 8, 'subroutines': [],
                                     'functions': [{'name': 'whole', 'dispatch_path': ['B0']}]})
        with open(os.path.join(base, 'config.yaml'), 'w') as f:
            yaml.safe_dump(cfg, f)
        cwd = os.getcwd(); os.chdir(base)
        try:
            buf = io.StringIO()
            with contextlib.redirect_stdout(buf), contextlib.redirect_stderr(buf):
                config = read_config_from_file(Path('config.yaml'))
                tl = init_tealer_from_config(config)
                classes = impl.detector_classes()
                out = {}
                for d in SINGLE_DETS:
                    tl2 = init_tealer_from_config(config)
                    tl2.register_detector(classes[d])
                    res = tl2.run_detectors()[0]
                    per_group = {}
                    for o in res:
                        per_group[o.group_transactions.operation_name if hasattr(o, 'group_transactions') else None] = None
                    vuln = []
                    for o in res:
                        vuln.append(sorted(t.transacton_id for t in o.transactions))
                    out[d] = vuln
        finally:
            os.chdir(cwd)
        return out
    finally:
        shutil.rmtree(base, ignore_errors=True)


def single_one(item):
    """(a) one contract, one transaction"""
    import impl
    name, src = item['name'], item['src']
    res = {'name': name, 'src': src, 'viol': [], 'known': [], 'cases': 0}
    try:
        with impl.time_limit(40):
            toks, lines = impl.analyse_source(src, want=("paths",))
            if toks is None or any(l.startswith('err') for l in lines):
                return res
            single = {}
            for l in lines:
                w = l.split(' ')
                if w[0] == 'paths': single[w[1]] = bool(len(w) > 2 and w[2])
            teal, _ = impl.parse(src)
            stateful = str(teal.contract_type) != 'LogicSig'
            typ = 'ApprovalProgram' if stateful else 'LogicSig'
            txn = {'txn_id': 'T1', 'txn_type': 'txn'}
            txn['application' if stateful else 'logic_sig'] = {'contract': 'C', 'function': 'whole'}
            out = run_group([('C', src, typ)], [[txn]])
    except BaseException as e:  # noqa
        return res
    from tealer.detectors.abstract_detector import DetectorType
    classes = impl.detector_classes()
    for d in SINGLE_DETS:
        t = classes[d].TYPE
        if (t == DetectorType.STATELESS and stateful) or (t == DetectorType.STATEFULL and not stateful):
            continue
        res['cases'] += 1
        group_v = any('T1' in g for g in out.get(d, []))
        if group_v != single.get(d, False):
            msg = f"{d}: group mode says vulnerable={group_v}, single-contract mode reports paths={single.get(d)}"
            (res['known'] if d in TWO_FIELD else res['viol']).append(msg)
    return res


FIELDS = {
    'rekey-to': ('RekeyTo', ['global ZeroAddress', '=='], {'RekeyTo': O.FRESH}, {}),
    'missing-fee-check': ('Fee', ['int 1000', '<='], {'Fee': 300000}, {}),
    'can-close-account': ('CloseRemainderTo', ['global ZeroAddress', '=='], {'CloseRemainderTo': O.FRESH, 'TypeEnum': 1}, {}),
}


def pair_one(item):
    """(b) two logic sigs T0 (index 0) and T1 (index 1); who checks T0's field: nobody / T0 itself / T1 by absolute index /
    T1 by offset -1"""
    import impl
    det, who, form = item['det'], item['who'], item['form']
    field, chk, danger, _ = FIELDS[det]
    check = lambda read: read + chk + ['assert']
    a = ["#pragma version 8"] + (check([f"txn {field}"]) if who == 'self' else []) + ["int 1", "return"]
    if who == 'abs': b_chk = check([f"gtxn 0 {field}"])
    elif who == 'rel': b_chk = check(["txn GroupIndex", "int 1", "-", f"gtxns {field}"])
    elif who == 'abs-wrong': b_chk = check([f"gtxn 1 {field}"])       # checks itself, not T0
    else: b_chk = []
    b = ["#pragma version 8"] + b_chk + ["int 1", "return"]
    if who in ('abs-branch', 'rel-branch'):
        # T1 has SEVERAL accepting exits and excludes the dangerous value at each of them in a different way: T0 is not a payment
        # (nothing to close), or it is one and its CloseRemainderTo is checked.  No single block of T1 carries the whole argument.
        rd = (lambda f: [f"gtxn 0 {f}"]) if who == 'abs-branch' else (lambda f: ["txn GroupIndex", "int 1", "-", f"gtxns {f}"])
        b = ["#pragma version 8"] + rd('TypeEnum') + ["int pay", "==", "bnz is_pay", "int 1", "return", "is_pay:"] + check(rd(field)) + ["int 1", "return"]
    srcA, srcB = "\n".join(a) + "\n", "\n".join(b) + "\n"
    t0 = {'txn_id': 'T0', 'txn_type': 'pay' if det == 'can-close-account' else 'txn', 'logic_sig': {'contract': 'A', 'function': 'whole'}}
    t1 = {'txn_id': 'T1', 'txn_type': 'txn', 'logic_sig': {'contract': 'B', 'function': 'whole'}}
    if form == 'absolute':
        t0['absolute_index'] = 0; t1['absolute_index'] = 1
    else:
        t1['relative_indexes'] = [{'other_txn_id': 'T0', 'offset': -1}]
    res = {'name': item['name'], 'src': srcA + '---\n' + srcB, 'viol': [], 'cases': 1, 'config': [t0, t1]}
    try:
        with impl.time_limit(60):
            out = run_group([('A', srcA, 'LogicSig'), ('B', srcB, 'LogicSig')], [[t0, t1]])
    except BaseException as e:
        res['viol'].append(f"group run failed: {type(e).__name__}: {e}"); return res
    reported = any('T0' in g for g in out.get(det, []))
    # oracle: concrete groups of size 2 approved by both contracts with T0 carrying the dangerous value
    drv = engine.driver()
    base = {'TypeEnum': 1, 'OnCompletion': 0, 'ApplicationID': 0, 'Fee': 1000, 'RekeyTo': 'ZERO', 'CloseRemainderTo': 'ZERO', 'AssetCloseTo': 'ZERO', 'Sender': 'CREATOR'}
    m0 = dict(base); m0.update(danger)
    txns = {0: m0, 1: dict(base)}
    approved = True
    for src, self_idx in ((srcA, 0), (srcB, 1)):
        teal, cap = impl.parse(src)
        toks = [impl.enc_ins(i) for i in cap.instructions]
        if drv.load(toks) != 'semprog ok': return res
        r = O.parse_res(drv.run_many([O.env_line(0, 2000, 2, self_idx, txns)])[0])
        approved = approved and r['tag'] == 'accept'
    # which configurations let the checker see T0 at all
    visible = (who == 'self') or (who in ('abs', 'abs-branch') and form == 'absolute') or (who in ('rel', 'rel-branch') and form == 'relative')
    if approved and not reported:
        res['viol'].append(f"{det}: the group (T0 index 0 carrying the dangerous value, both contracts approve) exists but T0 is not reported vulnerable [who={who}, config={form}]")
    if (not approved) and visible and reported:
        res['viol'].append(f"{det}: T0's field is excluded at every accepting exit by {who} (visible through the {form} configuration) but T0 is reported vulnerable")
    res['approved'] = approved; res['reported'] = reported
    return res


def inverse_check():
    """(c) fill_group_relative_indexes: group_relative_indexes[other][t] = k  <=>  t.relative_indexes[k] = other"""
    from tealer.execution_context.transactions import Transaction, GroupTransaction, fill_group_relative_indexes
    bad = []
    rng = random.Random(5)
    for _ in range(200):
        n = rng.randrange(1, 5)
        ts = [Transaction() for _ in range(n)]
        for i, t in enumerate(ts): t.transacton_id = f"T{i}"
        for t in ts:
            for o in rng.sample(ts, rng.randrange(0, len(ts))):
                k = rng.randrange(-3, 4) or 1
                if o is not t and k not in t.relative_indexes: t.relative_indexes[k] = o   # one offset per pair of transactions
        g = GroupTransaction(); g.transactions = ts
        fill_group_relative_indexes(g)
        for t in ts:
            for k, o in t.relative_indexes.items():
                if g.group_relative_indexes[o].get(t) != k: bad.append((t.transacton_id, k, o.transacton_id))
        for o in ts:
            for t, k in g.group_relative_indexes[o].items():
                if t.relative_indexes.get(k) is not o: bad.append(('inv', o.transacton_id, k))
    return bad


def verdict_corr(seed, n):
    """(d) the verdict loop itself: detect_missing_tx_field_validations_group_complete on random configured groups, with the
    three contract-level questions answered by a random script, against the Lean model `Group.groupVerdict` on the same
    group and script.  The real loop, Transaction / GroupTransaction objects and fill_group_relative_indexes are used as
    they are; only the three question functions are replaced for the duration of the call."""
    import tealer.detectors.utils as U
    from tealer.detectors.abstract_detector import DetectorType
    from tealer.execution_context.transactions import Transaction, GroupTransaction, fill_group_relative_indexes
    from tealer.utils.teal_enums import TransactionType
    rng = random.Random(f"c13-verdict/{seed}")

    class K:  # stands for a Function object; the loop only passes it on
        def __init__(self, tid, app): self.tid, self.app = tid, app
    class Det:
        def __init__(self, t): self.TYPE = t
    class Tl:
        def __init__(self, gs): self.groups = gs
    saved = (U.contract_checks_its_field, U.contract_checks_txn_at_absolute_index, U.contract_checks_using_relative_index)
    cases, reqs, stats = [], [], {'txns': {}, 'det': {}, 'reported': 0, 'cleared': 0, 'skipped': 0}
    types = [TransactionType.Any, TransactionType.Pay, TransactionType.Appl, TransactionType.Axfer]
    try:
        for c in range(n):
            k = rng.choice([1, 2, 2, 3, 3, 4])
            det = rng.choice([('sl', DetectorType.STATELESS), ('sf', DetectorType.STATEFULL)])   # the types of the loop's callers
            vtt = rng.choice([None, None, [TransactionType.Pay], [TransactionType.Appl, TransactionType.Any]])
            ts = []
            for i in range(k):
                t = Transaction(); t.transacton_id = f"T{i}"; t.type = rng.choice(types)
                if rng.random() < 0.7:
                    t.has_logic_sig = True
                    if rng.random() < 0.85: t.logic_sig = K(i, 0)
                if rng.random() < 0.5: t.application = K(i, 1)
                ts.append(t)
            rng.shuffle(ts)                                         # listing order is not index order
            idx = list(range(k)); rng.shuffle(idx)
            for t, a in zip(ts, idx):
                if rng.random() < 0.5: t.absoulte_index = a
            for t in ts:
                for o in rng.sample(ts, rng.randrange(0, k)):
                    off = rng.randrange(-3, 4) or 1
                    if o is not t and off not in t.relative_indexes and o not in t.relative_indexes.values():
                        t.relative_indexes[off] = o                 # one offset per ordered pair, as a consistent group has
            g = GroupTransaction(); g.transactions = ts; g.operation_name = f"op{c}"
            for t in ts:
                t.group_transaction = g
                if t.absoulte_index is not None: g.absolute_indexes[t.absoulte_index] = t
            fill_group_relative_indexes(g)
            p = rng.choice([0.15, 0.4])
            own = {(i, a) for i in range(k) for a in (0, 1) if rng.random() < p}
            ab = {(i, a, j) for i in range(k) for a in (0, 1) for j in range(k) if rng.random() < p}
            rel = {(i, a, o) for i in range(k) for a in (0, 1) for o in range(-3, 4) if rng.random() < p}
            U.contract_checks_its_field = lambda f, chk, absidx: (f.tid, f.app) in own
            U.contract_checks_txn_at_absolute_index = lambda f, chk, j: (f.tid, f.app, j) in ab
            U.contract_checks_using_relative_index = lambda f, chk, o: (f.tid, f.app, o) in rel
            try:
                out = U.detect_missing_tx_field_validations_group_complete(Tl([g]), Det(det[1]), None, vtt)
                got = sorted(int(t.transacton_id[1:]) for o in out for t in o.transactions)
                shape_ok = all(list(fs) == ([t.logic_sig] if det[1] == DetectorType.STATELESS and t.logic_sig is not None else
                                            [t.application] if det[1] == DetectorType.STATEFULL and t.application is not None else [])
                               for o in out for t, fs in o.transactions.items())
            except BaseException as e:  # noqa
                got, shape_ok = f"EXC {type(e).__name__}: {e}", True
            num = lambda t: int(t.transacton_id[1:])
            tx = '|'.join(','.join([str(num(t)), str(int(t.has_logic_sig)), str(int(t.logic_sig is not None)), str(int(t.application is not None)),
                                    str(int(vtt is None or t.type in vtt)), '-' if t.absoulte_index is None else str(t.absoulte_index),
                                    ';'.join(f"{off}:{num(o)}" for off, o in t.relative_indexes.items()) or '-']) for t in ts)
            enc = lambda s_: ','.join(':'.join(str(x) for x in e) for e in sorted(s_)) or '-'
            reqs.append(f"group {c} {det[0]} {tx} {enc(own)} {enc(ab)} {enc(rel)}")
            cases.append({'id': c, 'det': det[0], 'txns': tx, 'own': enc(own), 'abs': enc(ab), 'rel': enc(rel), 'impl': got, 'shape_ok': shape_ok, 'n': k})
            stats['txns'][k] = stats['txns'].get(k, 0) + 1; stats['det'][det[0]] = stats['det'].get(det[0], 0) + 1
    finally:
        U.contract_checks_its_field, U.contract_checks_txn_at_absolute_index, U.contract_checks_using_relative_index = saved
    drv = engine.driver()
    outs = drv.run_many(reqs)
    bad = []
    for cse, line in zip(cases, outs):
        w = line.split(' ')
        model = sorted(int(x) for x in w[2].split(',') if x) if len(w) > 2 and w[0] == 'gv' and w[2] != 'badrequest' else (line if len(w) < 3 or w[2] == 'badrequest' else [])
        if len(w) == 2 and w[0] == 'gv': model = []
        cse['model'] = model
        if isinstance(model, list) and isinstance(cse['impl'], list):
            stats['reported'] += len(model); stats['cleared'] += cse['n'] - len(model)
        if model != cse['impl'] or not cse['shape_ok']:
            bad.append(cse)
    return bad, len(cases), stats


def c13(cx):
    n = 30 if cx.quick() else 300
    items = [{'name': f'fragment/{cx.seed}/{5000 + i}', 'src': gen.fragment(cx.seed, 5000 + i, max_stmts=4)[0]} for i in range(n)]
    items += [{'name': f'callfam/{cx.seed}/{i}', 'src': gen.callfam(cx.seed, i)[0]} for i in range(0, gen.N_CALLFAM, 8)]
    items.append({'name': 'known:F24', 'src': "#pragma version 8\nload 0\nbnz right\ntxn CloseRemainderTo\nglobal ZeroAddress\n==\nassert\nb join\nright:\ntxn TypeEnum\nint axfer\n==\nassert\njoin:\nint 1\nreturn\n"})
    # an accepting exit INSIDE a subroutine (`int 1; return` in the callee) that no check covers, while every exit of the main
    # code is covered: the transaction is vulnerable in both modes
    SUBEXIT = {'rekey-to': ["txn RekeyTo", "global ZeroAddress", "=="], 'missing-fee-check': ["txn Fee", "int 1000", "<="],
               'is-updatable': ["txn OnCompletion", "int UpdateApplication", "!="], 'is-deletable': ["txn OnCompletion", "int DeleteApplication", "!="]}
    for det, chk in SUBEXIT.items():
        for variant in range(3):
            app = det.startswith('is-')
            head = ["#pragma version 8"] + (["txn ApplicationID", "pop"] if app else [])
            # the callee never returns (no retsub): it approves or fails by itself
            sub = {0: ["f:", "int 1", "return"],
                   1: ["f:", "callsub g", "err", "g:", "load 1", "bnz no", "int 1", "return", "no:", "err"],
                   2: ["f:", "load 1", "switch bad ok", "bad:", "err", "ok:", "int 1", "return"]}[variant]
            body = ["load 0", "bnz other"] + chk + ["assert", "int 1", "return", "other:", "callsub f", "err"] + sub
            items.append({'name': f'subexit/{det}/{variant}', 'src': "\n".join(head + body) + "\n"})
    res = engine.run_items_with(single_one, items)
    cases, known = 0, 0
    for r in res:
        cases += r['cases']; known += len(r['known'])
        if r['cases']: cx.distinct.add(r['name'])
        for msg in r['viol']:
            cx.violations.append({'kind': 'single-vs-group', 'program': r['name'], 'prop': 'C13', 'field': 'single', 'where': 'T1', 'detail': msg, 'src': r['src'], 'env': None})
        if r['known'] and 'F24' not in cx.known_seen:
            what = next((f['what'] for f in cx.findings if f['id'] == 'F24'), '')
            cx.known_seen['F24'] = f"{what} [{r['name']}: {r['known'][0]}]"
    pitems = []
    for det in FIELDS:
        for who in ('nobody', 'self', 'abs', 'rel', 'abs-wrong') + (('abs-branch', 'rel-branch') if det == 'can-close-account' else ()):
            for form in ('absolute', 'relative'):
                pitems.append({'name': f'pair/{det}/{who}/{form}', 'det': det, 'who': who, 'form': form})
    pres = engine.run_items_with(pair_one, pitems)
    for r in pres:
        cases += r['cases']; cx.distinct.add(r['name'])
        for msg in r['viol']:
            cx.violations.append({'kind': 'group-semantics', 'program': r['name'], 'prop': 'C13', 'field': 'pair', 'where': 'T0', 'detail': msg, 'src': r['src'], 'env': {'config': r.get('config')}})
    vbad, vn, vstats = verdict_corr(cx.seed, 400 if cx.quick() else 6000)
    cases += vn
    for b in vbad[:5]:
        cx.violations.append({'kind': 'verdict-loop', 'program': f"group {b['txns']}", 'prop': 'C13', 'field': 'verdict', 'where': b['det'],
                              'detail': f"the verdict loop reports {b['impl']} where the model (Group.groupVerdict: eligible and not cleared by an own contract, an absolute-index check or an offset check) gives {b['model']}; scripted answers own={b['own']} abs={b['abs']} rel={b['rel']}; contracts listed per transaction as expected: {b['shape_ok']}",
                              'src': '', 'env': b})
    cx.samples.append({'verdict-loop correspondence': vstats})
    for b in inverse_check()[:3]:
        cx.violations.append({'kind': 'offset-inversion', 'program': 'fill_group_relative_indexes', 'prop': 'C13', 'field': 'inverse', 'where': str(b), 'detail': f"offset table is not the inverse of the configured offsets: {b}", 'src': '', 'env': None})
    cx.evaluations += cases + 200
    cx.samples += [{'pair': pres[0]['name'], 'contracts': pres[0]['src'], 'config': pres[0].get('config'), 'approved': pres[0].get('approved'), 'reported': pres[0].get('reported')}]
    return {'programs': len(items) + len(pitems), 'disagreements_checked': 0, 'cases': cases, 'two_field_mismatches_known': known,
            'rule': 'one-transaction configs over generated contracts (group verdict vs single verdict per applicable detector); two-transaction configs x {who checks T0: nobody / itself / T1 by absolute index / T1 by offset / T1 checking the wrong index} x {absolute, relative configuration} with the concrete group run by the Lean AVM semantics; random offset tables for the inversion; configs go through the YAML reader and init_tealer_from_config'}
