"""Translator: imperative Python functions of the leaf matchers -> Lean `do` blocks (Generated/Matchers.lean).

The Python is translated statement by statement (assignments become `let mut`, `if`/`elif`/`else` and early `return`
are kept, tuple assignment is a pattern `let`), into the `Id` monad, or into `Option` for functions that can raise
(a raising dictionary lookup is `none`).  The translated subset is small and the translator is FAIL-CLOSED: any
construct, name, attribute, class or callable it does not know raises `Untranslatable`, which the check treats like a
broken proof.  A light type discipline decides the few places where Python's dynamic typing needs an explicit Lean
coercion (`x = None` then `x = v`; `isinstance(v, int)`; `value == 0`; set construction).

Types: 'bool' 'op' 'sv' 'oiv' (Option IntVal) 'nat' 'int' 'str' 'cmp' 'fee' 'natlist' 'natset' 'strset' 'index'
       'field' (name of a field class), ('opt', T), ('tuple', [T...]), 'none' (the literal None, type not yet known)
"""
import ast
import inspect
import textwrap


class Untranslatable(Exception):
    pass


CMP_CLASSES = ('Eq', 'Neq', 'Less', 'LessE', 'Greater', 'GreaterE')
INS_CLASSES = CMP_CLASSES + ('Int', 'PushInt', 'IntcInstruction', 'Addr', 'Txn', 'Gtxn', 'Gtxns', 'Global', 'And', 'Or', 'Not', 'Add', 'Sub')
SET_T = ('natset', 'strset')


def lean_str(s):
    return '"' + s.replace('\\', '\\\\').replace('"', '\\"') + '"'


def opt(t):
    return ('opt', t)


def is_opt(t):
    return t == 'oiv' or (isinstance(t, tuple) and t[0] == 'opt') or t == 'none'


def events(node, name, out):
    """loads / stores of `name` in (approximate) execution order: the value of an assignment before its target"""
    if isinstance(node, (ast.Assign, ast.AnnAssign)):
        if node.value is not None: events(node.value, name, out)
        for t in (node.targets if isinstance(node, ast.Assign) else [node.target]): events(t, name, out)
        return
    if isinstance(node, ast.Name):
        if node.id == name: out.append('load' if isinstance(node.ctx, ast.Load) else 'store')
        return
    for child in ast.iter_child_nodes(node): events(child, name, out)


def first_event(stmts, name):
    out = []
    for st in stmts:
        events(st, name, out)
        if out: return out[0]
    return None


class Fn:
    """one translated function: its Lean name, parameter list, result type, and whether it can raise"""
    def __init__(self, lean_name, params, ret, raises=False):
        self.lean_name, self.params, self.ret, self.raises = lean_name, params, ret, raises


class PyDo:
    def __init__(self, ctx):
        """ctx: dict with
             'self_consts': {attribute path -> (lean code, type)}     e.g. 'self.UNIVERSAL_SETS[self.GROUP_SIZE_KEY]'
             'names': {python global name -> (lean code, type)}       constants
             'field_classes': set of names of transaction/global field classes
             'enum': {'TealerTransactionType.X' -> int}
             'funcs': {python callable (as written) -> Fn}            other translated functions
             'inline': {'self._universal_set' -> (code, type)}        zero-argument methods inlined
        """
        self.ctx = ctx
        self.env = {}
        self.raises = False

    # ---- expressions -------------------------------------------------------------------------------------------
    def src(self, e):
        return ast.unparse(e)

    def expr(self, e):
        """-> (lean code, type)"""
        s = self.src(e)
        if s in self.ctx.get('self_consts', {}):
            return self.ctx['self_consts'][s]
        if isinstance(e, ast.Constant):
            if e.value is None: return ('none', 'none')
            if isinstance(e.value, bool): return (str(e.value).lower(), 'bool')
            if isinstance(e.value, int): return (str(e.value), 'nat')
            if isinstance(e.value, str): return (lean_str(e.value), 'str')
            raise Untranslatable(s)
        if isinstance(e, ast.Name):
            if e.id in self.env: return (e.id if e.id != 'match' else 'match_', self.env[e.id])
            if e.id in self.ctx.get('names', {}): return self.ctx['names'][e.id]
            if e.id in self.ctx.get('field_classes', ()): return (lean_str(e.id), 'field')
            raise Untranslatable(f"unknown name {e.id}")
        if isinstance(e, ast.Tuple):
            parts = [self.expr(x) for x in e.elts]
            return ("(" + ", ".join(p[0] for p in parts) + ")", ('tuple', [p[1] for p in parts]))
        if isinstance(e, ast.BoolOp):
            parts = [self.as_bool(v) for v in e.values]
            op = ' && ' if isinstance(e.op, ast.And) else ' || '
            return ('(' + op.join(parts) + ')', 'bool')
        if isinstance(e, ast.UnaryOp) and isinstance(e.op, ast.Not):
            return (f"(!{self.as_bool(e.operand)})", 'bool')
        if isinstance(e, ast.UnaryOp) and isinstance(e.op, ast.USub):
            c, t = self.expr(e.operand)
            return (f"(-{self.as_int(c, t)})", 'int')
        if isinstance(e, ast.Attribute):
            return self.attribute(e)
        if isinstance(e, ast.Subscript):
            return self.subscript(e)
        if isinstance(e, ast.Compare) and len(e.ops) == 1:
            return self.compare(e)
        if isinstance(e, ast.Call):
            return self.call(e)
        if isinstance(e, ast.BinOp) and isinstance(e.op, ast.Sub):
            (l, lt), (r, rt) = self.expr(e.left), self.expr(e.right)
            if lt in SET_T and rt == lt: return (f"(Tealer.OSet.diff {l} {r})", lt)
            raise Untranslatable(s)
        if isinstance(e, ast.IfExp):
            (a, at), (b, bt) = self.expr(e.body), self.expr(e.orelse)
            if at != bt: raise Untranslatable(f"branches of different type: {s}")
            return (f"(if {self.as_bool(e.test)} then {a} else {b})", at)
        if isinstance(e, ast.List):
            parts = [self.expr(x) for x in e.elts]
            ts = {p[1] for p in parts}
            if ts == {'nat'}: return ("[" + ", ".join(p[0] for p in parts) + "]", 'natlist')
            if ts == {'str'}: return ("[" + ", ".join(p[0] for p in parts) + "]", 'strlist')
            raise Untranslatable(s)
        if isinstance(e, ast.JoinedStr):
            raise Untranslatable(s)
        raise Untranslatable(s)

    def as_bool(self, e):
        c, t = self.expr(e)
        if t != 'bool': raise Untranslatable(f"truth value of a {t}: {self.src(e)}")
        return c

    def as_int(self, c, t):
        if t == 'int': return c
        if t == 'nat': return f"(({c} : Nat) : Int)"
        if t == 'oiv': return f"((Tealer.PyView.litOf {c} : Nat) : Int)"
        raise Untranslatable(f"integer from {t}")

    def as_nat(self, c, t):
        if t == 'nat': return c
        if t == 'oiv': return f"(Tealer.PyView.litOf {c})"
        raise Untranslatable(f"natural number from {t}")

    def attribute(self, e):
        s = self.src(e)
        if isinstance(e.value, ast.Name) and e.value.id in self.ctx.get('enum_classes', {}):
            tbl = self.ctx['enum_classes'][e.value.id]
            if e.attr not in tbl: raise Untranslatable(s)
            return (str(tbl[e.attr]), 'nat')
        c, t = self.expr(e.value)
        if isinstance(t, tuple) and t[0] == 'opt':
            # attribute of a value the Python has asserted / checked not to be None (AttributeError otherwise)
            c, t = f"({c}.getD default)", t[1]
        if t == 'sv':
            if e.attr == 'instruction': return (f"{c}.instruction", 'op')
            if e.attr == 'args': return (c, 'svargs')
        if t == 'op':
            m = {'field': ('fieldOf', 'field'), 'idx': ('idxOf', 'int'), 'value': ('valueOf', 'oiv'), 'index': ('indexOf', 'nat'),
                 'addr': ('addrOf', 'str')}.get(e.attr)
            if m: return (f"(Tealer.PyView.{m[0]} {c})", m[1])
        if t == 'fee':
            m = {'is_unknown': ('isUnknown', 'bool'), 'value': ('value', 'nat')}.get(e.attr)
            if m: return (f"{c}.{m[0]}", m[1])
        if t == 'index':
            m = {'index_type': ('indexType', 'nat'), 'value': ('value', 'int')}.get(e.attr)
            if m: return (f"{c}.{m[0]}", m[1])
        if t == 'key':
            pass
        raise Untranslatable(f"attribute {s} of a {t}")

    def subscript(self, e):
        if isinstance(e.value, ast.Name) and e.value.id == 'TX_FIELD_TXT_TO_OBJECT':
            # the field class named by a string: field classes are represented by their names
            c, t = self.expr(e.slice)
            if t != 'str': raise Untranslatable(self.src(e))
            return (c, 'field')
        c, t = self.expr(e.value)
        if t == 'svargs' and isinstance(e.slice, ast.Constant) and isinstance(e.slice.value, int):
            return (f"({c}.arg {e.slice.value})", 'sv')
        raise Untranslatable(self.src(e))

    def compare(self, e):
        op = e.ops[0]
        left, right = e.left, e.comparators[0]
        if isinstance(op, (ast.Is, ast.IsNot)):
            if not (isinstance(right, ast.Constant) and right.value is None): raise Untranslatable(self.src(e))
            c, t = self.expr(left)
            if not is_opt(t): raise Untranslatable(f"`is None` of a {t}: {self.src(e)}")
            return (f"{c}.isNone" if isinstance(op, ast.Is) else f"{c}.isSome", 'bool')
        (l, lt), (r, rt) = self.expr(left), self.expr(right)
        sym = {ast.Eq: '==', ast.NotEq: '!='}.get(type(op))
        if sym:
            if lt == 'oiv' and rt == 'nat':      # `value == 0` for an int-or-name value: a name is never equal to an int
                return (f"((Tealer.PyView.isIntLit {l}) && (Tealer.PyView.litOf {l} {sym} {r}))" if sym == '==' else
                        f"(!((Tealer.PyView.isIntLit {l}) && (Tealer.PyView.litOf {l} == {r})))", 'bool')
            if lt == rt and lt in ('nat', 'int', 'str', 'field', 'op', 'cmp'):
                return (f"({l} {sym} {r})", 'bool')
            if {lt, rt} == {'nat', 'int'}:
                return (f"({self.as_int(l, lt)} {sym} {self.as_int(r, rt)})", 'bool')
            raise Untranslatable(f"comparison of {lt} with {rt}: {self.src(e)}")
        sym = {ast.Lt: '<', ast.LtE: '≤', ast.Gt: '>', ast.GtE: '≥'}.get(type(op))
        if sym and lt == rt and lt in ('nat', 'int'):
            return (f"(decide ({l} {sym} {r}))", 'bool')
        raise Untranslatable(self.src(e))

    def isinstance_(self, e):
        obj, cls = e.args
        classes = [c.id for c in cls.elts] if isinstance(cls, ast.Tuple) else [cls.id] if (isinstance(cls, ast.Name) and cls.id not in self.env) else None
        if classes is None:
            # isinstance(value_field, field) with `field` a variable holding a field class
            c, t = self.expr(obj)
            c2, t2 = self.expr(cls)
            if t == 'field' and t2 == 'field': return (f"({c} == {c2})", 'bool')
            if t == opt('field') and t2 == 'field': return (f"({c} == some {c2})", 'bool')
            raise Untranslatable(self.src(e))
        c, t = self.expr(obj)
        if classes == ['UnknownStackValue'] and t == 'sv':
            return (f"{c}.isUnknown", 'bool')
        if t == 'op' and all(k in INS_CLASSES for k in classes):
            return ("(" + " || ".join(f"(Tealer.PyView.isClass {c} {lean_str(k)})" for k in classes) + ")", 'bool')
        if t == 'field' and len(classes) == 1 and classes[0] in self.ctx.get('field_classes', ()):
            return (f"({c} == {lean_str(classes[0])})", 'bool')
        if t == 'oiv' and classes == ['int']:
            return (f"(Tealer.PyView.isIntLit {c})", 'bool')
        if isinstance(t, tuple) and t == opt('oiv'):
            raise Untranslatable(self.src(e))
        raise Untranslatable(f"isinstance of a {t}: {self.src(e)}")

    def call(self, e):
        s = self.src(e.func)
        if s == 'isinstance' and len(e.args) == 2: return self.isinstance_(e)
        if s in ('set', 'list') and len(e.args) == 1 and not e.keywords:
            c, t = self.expr(e.args[0])
            if t == 'natlist': return ((f"(Tealer.OSet.ofList {c})", 'natset') if s == 'set' else (c, 'natlist'))
            if t == 'strlist' and s == 'set': return (f"(Tealer.OSet.ofList {c})", 'strset')
            if t in SET_T and s == 'set': return (c, t)
            if t in SET_T and s == 'list': raise Untranslatable(f"list of a set (order): {self.src(e)}")
            raise Untranslatable(self.src(e))
        if s == 'FeeValue':
            kw = {}
            for k in e.keywords:
                c, t = self.expr(k.value)
                if k.arg == 'is_unknown' and t == 'bool': kw['isUnknown'] = c
                elif k.arg == 'value': kw['value'] = self.as_nat(c, t)
                else: raise Untranslatable(self.src(e))
            if e.args: raise Untranslatable(self.src(e))
            return (f"({{ isUnknown := {kw.get('isUnknown', 'false')}, value := {kw.get('value', 'Tealer.Generated.MAX_UINT64')} }} : Tealer.Generated.GFeeValue)", 'fee')
        if s == 'TransactionIndex' and len(e.args) == 2:
            (a, at), (b, bt) = self.expr(e.args[0]), self.expr(e.args[1])
            if at != 'nat': raise Untranslatable(self.src(e))
            return (f"({{ indexType := {a}, value := {self.as_int(b, bt)} }} : Tealer.Generated.GIndex)", 'index')
        if s in self.ctx.get('inline', {}) and not e.args and not e.keywords:
            return self.ctx['inline'][s]
        if s in self.ctx.get('special', {}):
            return self.ctx['special'][s](self, e)
        if s in self.ctx.get('funcs', {}):
            fn = self.ctx['funcs'][s]
            if e.keywords or len(e.args) != len(fn.params): raise Untranslatable(f"call {self.src(e)}: arity")
            args = []
            for a, want in zip(e.args, fn.params):
                c, t = self.expr(a)
                args.append(self.coerce(c, t, want, self.src(a)))
            code = f"({fn.lean_name} " + " ".join(args) + ")"
            if fn.raises:
                self.raises = True
                return (f"(← {code})", fn.ret)
            return (code, fn.ret)
        raise Untranslatable(f"unknown callable {s}")

    def coerce(self, c, t, want, what):
        if t == want: return c
        if want == 'cmp' and t == 'op': return f"(Tealer.PyView.cmpOf {c})"
        if want == 'nat' and t == 'oiv': return f"(Tealer.PyView.litOf {c})"
        if want == 'natlist' and t == 'natlist': return c
        if isinstance(t, tuple) and t[0] == 'opt' and t[1] == want: return f"({c}.getD default)"
        if want == 'env': return c
        raise Untranslatable(f"argument {what}: have {t}, want {want}")

    # ---- statements --------------------------------------------------------------------------------------------
    def infer_var_types(self, fn):
        """variables first bound to None get the type of their first non-None assignment, as an Option"""
        none_vars = set()
        for node in ast.walk(fn):
            tgts, val = [], None
            if isinstance(node, ast.Assign) and len(node.targets) == 1: tgts, val = node.targets[0], node.value
            elif isinstance(node, ast.AnnAssign) and node.value is not None: tgts, val = node.target, node.value
            else: continue
            if isinstance(tgts, ast.Name) and isinstance(val, ast.Constant) and val.value is None: none_vars.add(tgts.id)
            if isinstance(tgts, ast.Tuple) and isinstance(val, ast.Tuple):
                for t, v in zip(tgts.elts, val.elts):
                    if isinstance(t, ast.Name) and isinstance(v, ast.Constant) and v.value is None: none_vars.add(t.id)
        return none_vars

    def block(self, stmts, ind, declared):
        """-> list of lines.  `declared`: variables declared in an enclosing scope (assignment = mutation)"""
        out = []
        outer = set(declared)
        declared = set(declared)
        pad = ' ' * ind
        try:
            return self.block_(stmts, ind, declared, out, pad)
        finally:
            for n in declared - outer:                     # block-local declarations end with the block
                if n in self.env:
                    t = self.env.pop(n)
                    if t != 'none' and self.seen_types.get(n) in (None, 'none'): self.seen_types[n] = t

    def block_(self, stmts, ind, declared, out, pad):
        for s in stmts:
            if isinstance(s, ast.Expr) and isinstance(s.value, ast.Constant): continue          # docstring
            if isinstance(s, ast.Assert):
                # `assert x is not None and ...` documents an invariant of the surrounding code; it never fails there and
                # carries no behaviour, but it must be translatable (so that it cannot hide anything)
                self.as_bool(s.test)
                continue
            if isinstance(s, ast.Return):
                out.append(f"{pad}return {self.ret_value(s.value, self.ret_type)}")
                continue
            if isinstance(s, (ast.Assign, ast.AnnAssign)):
                tgt = s.targets[0] if isinstance(s, ast.Assign) else s.target
                if isinstance(s, ast.Assign) and len(s.targets) != 1: raise Untranslatable(self.src(s))
                out += self.assign(tgt, s.value, pad, declared)
                continue
            if isinstance(s, ast.If):
                out += self.hoisted_if(s, stmts[stmts.index(s) + 1:], ind, declared)
                continue
            if isinstance(s, ast.Raise):
                raise Untranslatable(f"raise outside the accepted guard pattern: {self.src(s)}")
            raise Untranslatable(self.src(s)[:120])
        return out

    def ret_value(self, e, want):
        """the returned expression at the function's declared result type (None / a value at an optional type)"""
        if isinstance(e, ast.Tuple) and isinstance(want, tuple) and want[0] == 'tuple' and len(want[1]) == len(e.elts):
            return "(" + ", ".join(self.ret_value(x, w) for x, w in zip(e.elts, want[1])) + ")"
        c, t = self.expr(e)
        if t == want: return c
        if isinstance(t, tuple) and t[0] == 'opt' and t[1] == want: return f"({c}.getD default)"
        if is_opt(want):
            inner = 'oiv_inner' if want == 'oiv' else want[1]
            if t == 'none': return 'none'
            if t == inner: return f"(some {c})"
            if want == 'oiv' and t == 'nat': return f"(some (Tealer.IntVal.lit {c}))"
        raise Untranslatable(f"returned {t}, declared {want}: {self.src(e)}")

    def assign(self, tgt, val, pad, declared):
        if isinstance(tgt, ast.Name):
            name = tgt.id
            c, t = self.expr(val)
            if name in self.none_vars:
                cur = self.env.get(name)
                if t == 'none':
                    if cur is None:
                        self.env[name] = 'none'
                        self.pending_none[name] = len(self.lines_ref)      # typed when the first real value is seen
                        declared.add(name)
                        return [f"{pad}let mut {name} : %TYPE_{name}% := none"]
                    return [f"{pad}{name} := none"]
                vt = t if is_opt(t) and t != 'none' else opt(t)
                if cur in (None, 'none'):
                    self.env[name] = vt
                    self.var_lean_types[name] = self.lean_type(vt)
                elif cur != vt: raise Untranslatable(f"variable {name}: {cur} then {vt}")
                rhs = c if (is_opt(t) and t != 'none') else f"(some {c})"
                if name in declared: return [f"{pad}{name} := {rhs}"]
                declared.add(name)
                return [f"{pad}let mut {name} : %TYPE_{name}% := {rhs}"]
            if t == 'none': raise Untranslatable(f"None assigned to {name}")
            if t == 'key': c, t = f"(Tealer.PyView.keyStr {c})", 'str'
            cur = self.env.get(name)
            if name in declared:
                if isinstance(t, tuple) and t[0] == 'opt' and t[1] == cur: c, t = f"({c}.getD default)", cur
                if cur != t: raise Untranslatable(f"variable {name}: {cur} then {t}")
                return [f"{pad}{name} := {c}"]
            self.env[name] = t
            declared.add(name)
            return [f"{pad}let mut {name} := {c}"]
        if isinstance(tgt, ast.Tuple) and all(isinstance(x, ast.Name) for x in tgt.elts):
            names = [x.id for x in tgt.elts]
            if isinstance(val, ast.Tuple) and len(val.elts) == len(names):
                out = []
                for n, v in zip(tgt.elts, val.elts): out += self.assign(n, v, pad, declared)
                return out
            c, t = self.expr(val)
            if not (isinstance(t, tuple) and t[0] == 'tuple' and len(t[1]) == len(names)): raise Untranslatable(f"tuple pattern for {t}")
            fresh = all(n not in declared for n in names)
            if fresh:
                pats = []
                for n, ty in zip(names, t[1]):
                    if n == '_': pats.append('_'); continue
                    if n in self.none_vars: raise Untranslatable(f"tuple assignment to optional variable {n}")
                    self.env[n] = ty; declared.add(n); pats.append(n)
                return [f"{pad}let mut ({', '.join(pats)}) := {c}"]
            tmp = [f"t_{n}" if n != '_' else '_' for n in names]
            out = [f"{pad}let ({', '.join(tmp)}) := {c}"]
            for n, ty, tn in zip(names, t[1], tmp):
                if n == '_': continue
                if n in declared:
                    if self.env.get(n) != ty: raise Untranslatable(f"variable {n}: {self.env.get(n)} then {ty}")
                    out.append(f"{pad}{n} := {tn}")
                else:
                    self.env[n] = ty; declared.add(n)
                    out.append(f"{pad}let mut {n} := {tn}")
            return out
        raise Untranslatable(f"assignment target {ast.unparse(tgt)}")

    def hoisted_if(self, s, rest, ind, declared):
        """Python variables are function-scoped: one first assigned inside an `if` and read after it is declared before
        the `if` (with the type's default value, which is never read when every path that reaches the use has assigned it)"""
        stored = []
        for node in ast.walk(s):
            if isinstance(node, ast.Name) and isinstance(node.ctx, ast.Store) and node.id not in declared and node.id != '_' and node.id not in stored:
                stored.append(node.id)
        hoist = [n for n in stored if first_event(rest + self.after, n) == 'load']
        if not hoist:
            self.after = rest + self.after
            try: return self.if_(s, ind, declared)
            finally: self.after = self.after[len(rest):]
        saved_env = dict(self.env); saved = (dict(self.pending_none), dict(self.var_lean_types))
        for n in stored: self.seen_types.pop(n, None)
        self.after = rest + self.after
        try:
            self.if_(s, ind, set(declared))                      # scratch pass: learn the types
            pad = ' ' * ind
            decl = []
            for n in hoist:
                t = self.env.get(n, self.seen_types.get(n))
                if t is None or t == 'none': raise Untranslatable(f"cannot type hoisted variable {n}")
                decl.append(f"{pad}let mut {n} : {self.lean_type(t)} := {self.default_value(t)}")
                declared.add(n)
            types = {n: self.env.get(n, self.seen_types.get(n)) for n in hoist}
            self.env = saved_env; self.env.update(types)
            self.pending_none, self.var_lean_types = saved
            return decl + self.if_(s, ind, declared)
        finally:
            self.after = self.after[len(rest):]

    def if_(self, s, ind, declared):
        pad = ' ' * ind
        # accepted guard pattern: `if not x.bb or not x.bb.teal: raise TealerException(...)` (objects always initialised)
        if (len(s.body) == 1 and isinstance(s.body[0], ast.Raise) and not s.orelse
                and ast.unparse(s.test) in self.ctx.get('dropped_guards', ())):
            return [f"{pad}-- dropped guard: `if {ast.unparse(s.test)}: raise ...` (the block and its Teal object are always set)"]
        out = [f"{pad}if {self.as_bool(s.test)} then"]
        body = self.block(s.body, ind + 2, declared)
        out += body if body else [f"{pad}  pure ()"]
        if s.orelse:
            if len(s.orelse) == 1 and isinstance(s.orelse[0], ast.If):
                sub = self.if_(s.orelse[0], ind, declared)
                out.append(f"{pad}else " + sub[0].lstrip())
                out += sub[1:]
            else:
                out.append(f"{pad}else")
                body = self.block(s.orelse, ind + 2, declared)
                out += body if body else [f"{pad}  pure ()"]
        return out

    def default_value(self, t):
        return 'default'

    def lean_type(self, t):
        base = {'bool': 'Bool', 'op': 'Tealer.Op', 'sv': 'Tealer.PySV', 'oiv': 'Option Tealer.IntVal', 'nat': 'Nat', 'int': 'Int', 'str': 'String',
                'cmp': 'Tealer.Cmp', 'fee': 'Tealer.Generated.GFeeValue', 'natlist': 'List Nat', 'natset': 'List Nat', 'strset': 'List String',
                'index': 'Tealer.Generated.GIndex', 'field': 'String', 'key': 'Tealer.Key', 'env': 'Tealer.PyView.Env'}
        if isinstance(t, str) and t in base: return base[t]
        if isinstance(t, tuple) and t[0] == 'opt': return f"Option ({self.lean_type(t[1])})"
        if isinstance(t, tuple) and t[0] == 'tuple': return " × ".join(f"({self.lean_type(x)})" for x in t[1])
        raise Untranslatable(f"type {t}")

    def function(self, pyfn, lean_name, params, ret, doc):
        """params: list of (python parameter name or None for an extra Lean parameter, lean name, type)"""
        tree = ast.parse(textwrap.dedent(inspect.getsource(pyfn))).body[0]
        names = [a.arg for a in tree.args.args]
        want = [p[0] for p in params if p[0] is not None]
        if names != want: raise Untranslatable(f"signature of {pyfn.__qualname__}: {names}, expected {want}")
        self.env = {p[1]: p[2] for p in params}
        self.none_vars = self.infer_var_types(tree)
        self.pending_none, self.var_lean_types, self.lines_ref = {}, {}, []
        self.ret_type, self.raises = ret, False
        self.after = []
        self.seen_types = {}
        for p in params:
            if p[0] is not None and p[0] != p[1]: raise Untranslatable("parameter renaming is not supported")
        lines = self.block(tree.body, 2, set(self.env))
        # a function whose last statement is not a return falls off its end (None): not accepted
        last = [s for s in tree.body if not (isinstance(s, ast.Expr) and isinstance(s.value, ast.Constant))][-1]
        if not isinstance(last, ast.Return): raise Untranslatable("function may fall off its end")
        text = "\n".join(lines)
        for n in self.none_vars:
            if f"%TYPE_{n}%" in text:
                if n not in self.var_lean_types: raise Untranslatable(f"variable {n} is only ever None")
                text = text.replace(f"%TYPE_{n}%", self.var_lean_types[n])
        ret = self.lean_type(self.ret_type)
        sig = " ".join(f"({p[1]} : {self.lean_type(p[2])})" for p in params)
        if self.raises:
            head = f"def {lean_name} {sig} : Option ({ret}) := do"
        else:
            head = f"def {lean_name} {sig} : {ret} := Id.run do"
        return [f"/-- {doc} -/", head, text, ""], Fn(lean_name, [p[2] for p in params], self.ret_type, self.raises)
