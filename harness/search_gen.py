"""Generated/Search.lean: the nested function `search_paths` of detectors/utils.py detect_missing_tx_field_validations, translated
from the Python AST.  The Python function returns nothing and appends to the shared list `paths_without_check`; the translation
threads that list through (parameter and result).  Python recursion has no bound; the Lean function recurses on a fuel argument
(`none` when it runs out, like an exception) - the model `Detect.searchPaths` does the same and the tie is proved for every fuel."""
import ast
import inspect
import textwrap

from pydo import PyDo, Fn, Untranslatable, lean_str

ACC = 'paths_without_check'


class SearchDo(PyDo):
    def lean_type(self, t):
        m = {'bid': 'Nat', 'bidlist': 'List Nat', 'pathlist': 'List (List Nat)', 'frame': 'Option Nat × String', 'framelist': 'List (Option Nat × String)',
             'sub': 'String', 'sublist': 'List String', 'graph': 'Tealer.PyView.PyGraph', 'obid': 'Option Nat'}
        if isinstance(t, str) and t in m: return m[t]
        return super().lean_type(t)

    def expr(self, e):
        s = self.src(e)
        if isinstance(e, ast.Call):
            f = self.src(e.func)
            if f == 'validated_in_block' and [self.src(a) for a in e.args] == ['bb', 'function', 'checks_field']:
                return ('(G.validated bb)', 'bool')
            if f == 'leaf_block_global' and len(e.args) == 1:
                a, at = self.expr(e.args[0])
                if at == 'bid': return (f"(G.isLeaf {a})", 'bool')
            if f == 'satisfies_report_condition' and len(e.args) == 1:
                a, at = self.expr(e.args[0])
                if at == 'bidlist': return (f"(satisfies {a})", 'bool')
            if f == 'next_blocks_global' and len(e.args) == 2 and self.src(e.args[0]) == 'function':
                a, at = self.expr(e.args[1])
                if at == 'bid': return (f"(G.nextGlobal {a})", 'bidlist')
        if isinstance(e, ast.Attribute):
            c, t = self.expr(e.value)
            if t == 'bid':
                m = {'is_callsub_block': ('isCallsub', 'bool'), 'is_retsub_block': ('isRetsub', 'bool'), 'called_subroutine': ('calledSub', 'sub'),
                     'sub_return_point': ('retPoint', 'obid')}.get(e.attr)
                if m: return (f"(G.{m[0]} {c})", m[1])
            if t == 'obid' and e.attr == 'sub_return_point':
                # after `assert callsub_block is not None`
                return (f"(G.retPoint ({c}.getD 0))", 'obid')
            raise Untranslatable(f"attribute {s} of a {t}")
        if isinstance(e, ast.BinOp) and isinstance(e.op, ast.Add):
            (l, lt), (r, rt) = self.expr(e.left), self.expr(e.right)
            if lt == rt and lt in ('bidlist', 'pathlist', 'framelist'): return (f"({l} ++ {r})", lt)
            raise Untranslatable(f"{s}: {lt} + {rt}")
        if isinstance(e, ast.List):
            if not e.elts: return ('[]', 'emptylist')
            parts = [self.expr(x) for x in e.elts]
            ts = {p[1] for p in parts}
            wrap = {'bid': 'bidlist', 'bidlist': 'pathlist', 'frame': 'framelist', 'emptylist': 'pathlist'}
            if len(ts) == 1 and next(iter(ts)) in wrap: return ("[" + ", ".join(p[0] for p in parts) + "]", wrap[next(iter(ts))])
            raise Untranslatable(s)
        if isinstance(e, ast.Subscript):
            c, t = self.expr(e.value)
            sl = self.src(e.slice)
            if sl == ':-1' and t in ('bidlist', 'pathlist', 'framelist'): return (f"{c}.dropLast", t)
            if sl == '-1' and t == 'pathlist':
                # the Python raises IndexError on an empty list; the list of per-activation lists is never empty (one entry per frame)
                return (f"({c}.getLast?.getD [])", 'bidlist')
            if sl == '-1' and t == 'framelist':
                self.raises = True
                return (f"(← {c}.getLast?)", 'frame')              # IndexError on an empty call stack
            if sl == '1' and t == 'frame': return (f"{c}.2", 'sub')
            raise Untranslatable(s)
        if isinstance(e, ast.ListComp) and len(e.generators) == 1:
            g = e.generators[0]
            if isinstance(g.target, ast.Name) and not g.ifs and not g.is_async:
                c, t = self.expr(g.iter)
                if t == 'framelist':
                    self.env[g.target.id] = 'frame'
                    b, bt = self.expr(e.elt)
                    self.env.pop(g.target.id)
                    if bt == 'sub': return (f"({c}.map fun {g.target.id} => {b})", 'sublist')
            raise Untranslatable(s)
        if isinstance(e, ast.Compare) and len(e.ops) == 1 and isinstance(e.ops[0], ast.In):
            (l, lt), (r, rt) = self.expr(e.left), self.expr(e.comparators[0])
            if (lt, rt) in (('bid', 'bidlist'), ('sub', 'sublist')): return (f"({r}.contains {l})", 'bool')
            raise Untranslatable(s)
        if isinstance(e, ast.Tuple) and len(e.elts) == 2:
            (a, at), (b, bt) = self.expr(e.elts[0]), self.expr(e.elts[1])
            if at == 'bid' and bt == 'sub': return (f"(some {a}, {b})", 'frame')
        if isinstance(e, ast.Compare) and len(e.ops) == 1 and isinstance(e.ops[0], (ast.Is, ast.IsNot)) and isinstance(e.comparators[0], ast.Constant) and e.comparators[0].value is None:
            c, t = self.expr(e.left)
            if t == 'obid': return (f"{c}.isNone" if isinstance(e.ops[0], ast.Is) else f"{c}.isSome", 'bool')
        return super().expr(e)

    def block_(self, stmts, ind, declared, out, pad):
        for s in stmts:
            src = self.src(s)
            if isinstance(s, ast.Expr) and isinstance(s.value, ast.Call):
                f = self.src(s.value.func)
                if f == 'logger_detectors.debug':
                    continue                                          # logging: no effect on the result
                if f == f'{ACC}.append' and len(s.value.args) == 1:
                    a, at = self.expr(s.value.args[0])
                    if at != 'bidlist': raise Untranslatable(src)
                    out.append(f"{pad}{ACC} := {ACC} ++ [{a}]")
                    continue
                if f == 'search_paths' and len(s.value.args) == 5 and not s.value.keywords:
                    args = [self.expr(a) for a in s.value.args]
                    want = ['bid', 'bidlist', 'pathlist', 'framelist', 'pathlist']
                    got = [t for _, t in args]
                    if got[0] == 'obid':      # under `if return_point is not None:`
                        args[0] = (f"({args[0][0]}.getD 0)", 'bid'); got[0] = 'bid'
                    if got != want or args[2][0] != ACC: raise Untranslatable(f"{src}: argument types {got}")
                    self.raises = True
                    out.append(f"{pad}{ACC} ← searchPaths G satisfies fuel " + " ".join(a for a, _ in args))
                    continue
                raise Untranslatable(src)
            if isinstance(s, ast.Return) and s.value is None:
                out.append(f"{pad}return {ACC}")
                continue
            if isinstance(s, ast.Assert):
                # an assertion that fails is an exception (the model returns `none` there)
                self.raises = True
                out.append(f"{pad}if !({self.as_bool(s.test)}) then failure")
                continue
            if isinstance(s, ast.Assign) and len(s.targets) == 1 and isinstance(s.targets[0], ast.Tuple) and self.src(s.value) == 'current_call_stack[-1]':
                names = [x.id for x in s.targets[0].elts]
                if len(names) != 2: raise Untranslatable(src)
                self.raises = True
                out.append(f"{pad}let ({names[0]}, {names[1]}) ← current_call_stack.getLast?")
                self.env[names[0]] = 'obid'; declared.add(names[0])
                if names[1] != '_': self.env[names[1]] = 'sub'; declared.add(names[1])
                continue
            if isinstance(s, ast.For):
                if s.orelse or not isinstance(s.target, ast.Name): raise Untranslatable(src[:80])
                c, t = self.expr(s.iter)
                if t != 'bidlist': raise Untranslatable(f"loop over a {t}")
                self.env[s.target.id] = 'bid'
                out.append(f"{pad}for {s.target.id} in {c} do")
                inner = set(declared); inner.add(s.target.id)
                body = self.block(s.body, ind + 2, inner)
                out += body if body else [f"{pad}  pure ()"]
                self.env.pop(s.target.id, None)
                continue
            saved = self.after
            self.after = stmts[stmts.index(s) + 1:] + saved
            try:
                super().block_([s], ind, declared, out, pad)
            finally:
                self.after = saved
        return out

    def attribute(self, e):
        c, t = self.expr(e.value)
        if t == 'obid' and e.attr == 'sub_return_point':
            # after `assert callsub_block is not None`
            return (f"(G.retPoint ({c}.getD 0))", 'obid')
        raise Untranslatable(f"attribute {self.src(e)} of a {t}")


def gen_search():
    from tealer.detectors import utils as dutils
    errors = []
    out = ["/- REGENERATED on every run by harness/search_gen.py + harness/pydo.py: the path search of detectors/utils.py",
           "   (the nested function search_paths of detect_missing_tx_field_validations), translated statement by statement from the Python",
           "   AST of /repo.  The shared result list is threaded through; recursion is on a fuel argument. -/",
           "import TealerModel.PyView", "set_option linter.unusedVariables false", "namespace Tealer.Generated", ""]
    try:
        outer = ast.parse(textwrap.dedent(inspect.getsource(dutils.detect_missing_tx_field_validations))).body[0]
        fns = [n for n in outer.body if isinstance(n, ast.FunctionDef) and n.name == 'search_paths']
        if len(fns) != 1: raise Untranslatable("search_paths is no longer a nested function of detect_missing_tx_field_validations")
        fn = fns[0]
        names = [a.arg for a in fn.args.args]
        want = ['bb', 'current_path', ACC, 'current_call_stack', 'current_subroutine_executed']
        if names != want: raise Untranslatable(f"signature {names}")
        # the driver around it: entry block, empty path, [(None, main)], [[]]
        tail = [ast.unparse(st) for st in outer.body if not isinstance(st, (ast.FunctionDef, ast.Expr))]
        expect = ["entry_block = function.entry", f"{ACC}: List[List['BasicBlock']] = []",
                  f"search_paths(entry_block, [], {ACC}, [(None, function.main)], [[]])", f"return {ACC}"]
        rest = [ast.unparse(st) for st in outer.body if not isinstance(st, ast.FunctionDef) and not (isinstance(st, ast.Expr) and isinstance(st.value, ast.Constant))]
        if rest != expect: raise Untranslatable(f"the call of search_paths changed: {rest}")
        tr = SearchDo({'funcs': {}, 'names': {}, 'special': {}})
        tr.env = {'bb': 'bid', 'current_path': 'bidlist', ACC: 'pathlist', 'current_call_stack': 'framelist', 'current_subroutine_executed': 'pathlist', 'G': 'graph'}
        tr.none_vars = tr.infer_var_types(fn)
        tr.pending_none, tr.var_lean_types, tr.lines_ref = {}, {}, []
        tr.ret_type, tr.raises = 'pathlist', True
        tr.after, tr.seen_types = [], {}
        body = [st for st in fn.body if not (isinstance(st, ast.Expr) and isinstance(st.value, ast.Constant))]
        declared = set(tr.env)
        lines = tr.block(body, 4, declared)
        params = "(bb : Nat) (current_path : List Nat) (paths_without_check : List (List Nat)) (current_call_stack : List (Option Nat × String)) (current_subroutine_executed : List (List Nat))"
        out += ["/-- translated from detectors/utils.py detect_missing_tx_field_validations.search_paths; returns the list `paths_without_check`",
                "    after the call; `none` = the Python raises (or the fuel is exhausted) -/",
                "def searchPaths (G : Tealer.PyView.PyGraph) (satisfies : List Nat → Bool) : Nat → Nat → List Nat → List (List Nat) → List (Option Nat × String) → List (List Nat) → Option (List (List Nat))",
                "  | 0, _, _, _, _, _ => none",
                "  | fuel + 1, bb, current_path, paths_without_check, current_call_stack, current_subroutine_executed => do",
                "    let mut current_path := current_path", "    let mut paths_without_check := paths_without_check",
                "    let mut current_call_stack := current_call_stack", "    let mut current_subroutine_executed := current_subroutine_executed"]
        out += lines
        out += ["    return paths_without_check", ""]
    except Untranslatable as e:
        errors.append(f"search_paths: {e}")
        out += [f"-- search_paths could not be translated: {e}", ""]
    return "\n".join(out + ["end Tealer.Generated", ""]), errors


if __name__ == '__main__':
    import sys
    text, errs = gen_search()
    print(text)
    print(errs, file=sys.stderr)
