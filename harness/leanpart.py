"""Lean side of a check: build, list the property theorems, audit their axioms, scan for forbidden constructs."""
import fcntl, os, re, subprocess, time

ROOT = os.path.abspath(os.path.join(os.path.dirname(__file__), '..'))
LEAN = os.path.join(ROOT, 'lean')
ALLOWED_AXIOMS = {'propext', 'Classical.choice', 'Quot.sound'}
FORBIDDEN = re.compile(r'\bsorry\b|\badmit\b|^axiom\s|\bnative_decide\b|\bbv_decide\b|\bimplemented_by\b|\bunsafe\s|maxHeartbeats\s+0')


class LeanResult:
    def __init__(self):
        self.build_ok = False
        self.build_log = ''
        self.theorems = []        # names in Props/<ID>.lean
        self.axioms = {}          # theorem -> list of axioms (only for those that checked)
        self.bad_axioms = {}      # theorem -> offending axioms
        self.forbidden = []       # (file, lineno, text)
        self.failed = []          # theorem names that did not check
        self.wall = 0.0


def _lock():
    os.makedirs(os.path.join(LEAN, '.lake'), exist_ok=True)
    f = open(os.path.join(LEAN, '.lake', 'verif.lock'), 'w')
    fcntl.flock(f, fcntl.LOCK_EX)
    return f


def strip_comments(text):
    text = re.sub(r'/-.*?-/', lambda m: '\n' * m.group(0).count('\n'), text, flags=re.S)
    return '\n'.join(l.split('--')[0] for l in text.split('\n'))


def scan_forbidden():
    out = []
    for d, _, fs in os.walk(LEAN):
        if '.lake' in d: continue
        for f in fs:
            if not f.endswith('.lean'): continue
            p = os.path.join(d, f)
            for n, l in enumerate(strip_comments(open(p, encoding='utf-8').read()).split('\n'), 1):
                if FORBIDDEN.search(l):
                    out.append((os.path.relpath(p, ROOT), n, l.strip()))
    return out


def props_theorems(pid):
    p = os.path.join(LEAN, 'TealerModel', 'Props', f'{pid}.lean')
    if not os.path.exists(p):
        return []
    txt = strip_comments(open(p, encoding='utf-8').read())
    ns = re.search(r'^namespace\s+(\S+)', txt, flags=re.M)
    prefix = (ns.group(1) + '.') if ns else ''
    return [prefix + m.group(1) for m in re.finditer(r'^theorem\s+(\S+)', txt, flags=re.M)]


def run(cmd, cwd, timeout=1800):
    p = subprocess.run(cmd, cwd=cwd, capture_output=True, text=True, timeout=timeout)
    return p.returncode, p.stdout + p.stderr


def build_and_audit(pid, extra_targets=()):
    """lake build of the model, the driver and the property module; `#print axioms` on each property theorem"""
    r = LeanResult()
    t0 = time.time()
    lock = _lock()
    try:
        r.theorems = props_theorems(pid)
        targets = ['tmdrv', 'TealerModel.Proto', 'TealerModel.Avm'] + list(extra_targets)
        code, log = run(['lake', 'build'] + targets, LEAN)
        r.build_log = log[-4000:]
        if code != 0:
            r.failed = list(r.theorems)
            return r
        mod = f'TealerModel.Props.{pid}'
        if r.theorems:
            code, log2 = run(['lake', 'build', mod], LEAN)
            r.build_log += log2[-4000:]
            if code != 0:
                # find which theorems fail: errors carry line numbers; map them to the enclosing theorem
                r.failed = failing_theorems(pid, log2) or list(r.theorems)
        r.build_ok = True
        ok = [t for t in r.theorems if t not in r.failed]
        if ok and not r.failed:
            os.makedirs(os.path.join(LEAN, '.lake', 'audit'), exist_ok=True)
            ap = os.path.join(LEAN, '.lake', 'audit', f'{pid}.lean')
            with open(ap, 'w') as f:
                f.write(f'import {mod}\n' + ''.join(f'#print axioms {t}\n' for t in ok))
            code, out = run(['lake', 'env', 'lean', ap], LEAN)
            cur = None
            for m in re.finditer(r"'([^']+)' (depends on axioms: \[([^\]]*)\]|does not depend on any axioms)", out.replace('\n', ' ')):
                name = m.group(1)
                axs = [a.strip() for a in (m.group(3) or '').split(',') if a.strip()]
                r.axioms[name] = axs
                bad = [a for a in axs if a not in ALLOWED_AXIOMS]
                if bad: r.bad_axioms[name] = bad
            for t in ok:
                if t not in r.axioms:
                    r.failed.append(t)
        r.forbidden = scan_forbidden()
    finally:
        lock.close()
        r.wall = time.time() - t0
    return r


def transitive_imports(mod):
    """modules of this project that `mod` imports, directly or indirectly (read from the `import` lines)"""
    seen, todo = set(), [mod]
    while todo:
        m = todo.pop()
        if m in seen: continue
        seen.add(m)
        p = os.path.join(LEAN, *m.split('.')) + '.lean'
        if not os.path.exists(p): continue
        for l in open(p, encoding='utf-8'):
            mm = re.match(r'^import\s+(TealerModel\.\S+)', l)
            if mm: todo.append(mm.group(1))
    return seen


def failing_theorems(pid, log):
    """the theorems the build errors belong to: errors carry file and line; each is mapped to the enclosing theorem of that
    file - a theorem of Props/<pid>.lean, or of a proof module it depends on (the tie theorems of Props/Tie*.lean), in which
    case the name says so"""
    bad = []
    for m in re.finditer(r'(?:error: \S*?(TealerModel/[\w/]+\.lean):(\d+):\d+)|(?:(TealerModel/[\w/]+\.lean):(\d+):\d+: error)', log):
        m = type('M', (), {'group': (lambda self, i, _m=m: (_m.group(1) or _m.group(3)) if i == 1 else (_m.group(2) or _m.group(4)))})()
        rel, ln = m.group(1), int(m.group(2))
        path = os.path.join(LEAN, rel)
        if not os.path.exists(path): continue
        lines = open(path, encoding='utf-8').read().split('\n')
        ns = re.search(r'^namespace\s+(\S+)', '\n'.join(lines), flags=re.M)
        prefix = (ns.group(1) + '.') if ns else ''
        starts = [(n, mm.group(2)) for n, l in enumerate(lines, 1) for mm in [re.match(r'^(theorem|def)\s+(\S+)', l)] if mm]
        cands = [name for (n, name) in starts if n <= ln]
        name = prefix + (cands[-1] if cands else '?')
        if rel != f'TealerModel/Props/{pid}.lean':
            name += f' (in {rel}, on which Props/{pid}.lean depends)'
        if name not in bad: bad.append(name)
    return bad


def leanchecker(mods):
    lock = _lock()
    try:
        return run(['lake', 'env', 'leanchecker'] + list(mods), LEAN, timeout=3600)
    finally:
        lock.close()
