"""Generated/Flow.lean: the transfer functions of generic.py (DataflowTransactionContext) translated from the Python AST:
_calculate_reachin, _calculate_livein, _block_level_constraints, _path_level_constraints - for ONE analysis key (the
Python loops `for key in analysis_keys` over independent dictionary entries; the loop is removed and `key` becomes a
parameter, after checking that every access to the per-key dictionaries inside the loop uses exactly `[key]`)."""
import ast
import inspect
import textwrap

from pydo import PyDo, Fn, Untranslatable, lean_str


class KeyLoopRewriter(ast.NodeTransformer):
    """`for key in analysis_keys: BODY` -> BODY;  self._block_contexts[key][block] -> ctx;  self._path_contexts[key] -> PATHCTX"""
    def __init__(self, state_var):
        self.state_var = state_var

    def visit_For(self, node):
        self.generic_visit(node)
        if isinstance(node.target, ast.Name) and node.target.id == 'key' and isinstance(node.iter, ast.Name) and node.iter.id == 'analysis_keys':
            if node.orelse: raise Untranslatable("for-else")
            # `break` leaves the loop for ALL remaining keys: the per-key translation is exact only if whether it happens does
            # not depend on the key.  Names computed from `key` inside the loop are tainted; a `break` under a tainted test
            # is not accepted.  (`continue` only ends the iteration of the current key.)
            tainted = {'key'}
            changed = True
            while changed:
                changed = False
                for n in ast.walk(node):
                    if isinstance(n, ast.Assign):
                        if any(isinstance(x, ast.Name) and x.id in tainted for x in ast.walk(n.value)):
                            for t in n.targets:
                                names = [t] if isinstance(t, ast.Name) else (list(t.elts) if isinstance(t, ast.Tuple) else [])
                                for x in names:
                                    if isinstance(x, ast.Name) and x.id not in tainted:
                                        tainted.add(x.id); changed = True
            def check(stmts, tests):
                for st in stmts:
                    if isinstance(st, ast.Break):
                        for t in tests:
                            if any(isinstance(x, ast.Name) and x.id in tainted for x in ast.walk(t)):
                                raise Untranslatable("`break` out of the loop over analysis keys under a key-dependent condition")
                    elif isinstance(st, ast.If):
                        check(st.body, tests + [st.test]); check(st.orelse, tests + [st.test])
                    elif isinstance(st, (ast.For, ast.While)):
                        pass        # a break inside an inner loop belongs to that loop
            check(node.body, [])
            # one iteration of the loop, for the key that is a parameter of the translation
            return ast.copy_location(ast.For(target=ast.Name(id='_k', ctx=ast.Store()), iter=ast.Name(id='ONE_KEY', ctx=ast.Load()),
                                             body=node.body, orelse=[]), node)
        return node

    def visit_Subscript(self, node):
        s = ast.unparse(node)
        if s == 'self._block_contexts[key][block]':
            return ast.copy_location(ast.Name(id=self.state_var, ctx=node.ctx), node)
        if s == 'self._path_contexts[key]':
            return node
        if s.startswith('self._block_contexts') or s == 'self._path_contexts' or (s.startswith('self._path_contexts[') and not s.startswith('self._path_contexts[key]')):
            raise Untranslatable(f"access to a per-key dictionary other than through [key]: {s}")
        self.generic_visit(node)
        return node


class FlowDo(PyDo):
    """adds: values of the analysis domain (type 'dval'), block / instruction views, `for` loops, `continue`"""
    def lean_type(self, t):
        m = {'dval': 'D', 'blk': 'Tealer.PyView.PyBlock', 'bid': 'Nat', 'bidlist': 'List Nat', 'ins': 'Tealer.PyView.PyIns', 'inslist': 'List Tealer.PyView.PyIns',
             'dmap': 'Nat → D', 'dom': 'Tealer.Domain D', 'ga': 'Tealer.PySV → D × D', 'pcmap': 'Nat → Option D'}
        if isinstance(t, str) and t in m: return m[t]
        return super().lean_type(t)

    def default_value(self, t):
        return 'dom.null' if t == 'dval' else 'default'

    def expr(self, e):
        s = self.src(e)
        if isinstance(e, ast.Name) and self.env.get(e.id) == 'pathctx': return ('PATHCTX', 'pathctx')
        if s == 'block == self._entry_block': return ('block.isEntry', 'bool')
        if s in ('prev_blocks_global(self._function, block)',): return ('block.prevGlobal', 'bidlist')
        if s in ('next_blocks_global(self._function, block)',): return ('block.nextGlobal', 'bidlist')
        if s == 'block.instructions': return ('block.instructions', 'inslist')
        if s == 'block.exit_instr': return ('block.exitInstr', 'ins')
        if s == 'len(block.exit_instr.next)': return ('block.exitInstrNextLen', 'nat')
        if s == 'len(block.next)': return ('block.next.length', 'nat')
        if s == 'block.is_sub_return_point': return ('block.isSubReturnPoint', 'bool')
        if s == 'block.callsub_block': return ('block.callsubBlock', 'bid')
        if s == 'block.is_callsub_block': return ('block.isCallsubBlock', 'bool')
        if s == 'block.sub_return_point': return ('block.subReturnPoint', ('opt', 'bid'))
        if s == 'len(block.called_subroutine.retsub_blocks)': return ('block.calleeRetsubBlocks', 'nat')
        if s == 'self._path_contexts[key]': return ('PATHCTX', 'pathctx')
        if s in ('block.next[0]', 'block.next[1]'):
            return (f"(block.next.getD {e.slice.value} 0)", 'bid')
        if isinstance(e, ast.Subscript):
            c, t = self.expr(e.value)
            if t == 'dmap':
                i, it = self.expr(e.slice)
                if it == 'bid': return (f"({c} {i})", 'dval')
                if it == ('opt', 'bid'): return (f"({c} ({i}.getD 0))", 'dval')
                raise Untranslatable(s)
            if t == 'pathctx' and self.src(e.slice) == 'block': return ('PATHCTX_B', 'pathctx_b')
            if t == 'pathctx_b':
                i, it = self.expr(e.slice)
                if it == 'bid': return (f"(pathCtx {i})", 'dval')
                raise Untranslatable(s)
            if s in ('block.next[0]', 'block.next[1]'):
                return (f"(block.next.getD {e.slice.value} 0)", 'bid')
        if isinstance(e, ast.Call):
            f = self.src(e.func)
            if f in ('self._universal_set', 'self._null_set') and len(e.args) == 1 and self.src(e.args[0]) == 'key':
                return ('univ' if f.endswith('universal_set') else 'dom.null', 'dval')
            if f in ('self._union', 'self._intersection') and len(e.args) == 3 and self.src(e.args[0]) == 'key':
                (a, at), (b, bt) = self.expr(e.args[1]), self.expr(e.args[2])
                if at != 'dval' or bt != 'dval': raise Untranslatable(f"{s}: operands {at}, {bt}")
                return (f"(dom.{'union' if f.endswith('union') else 'inter'} {a} {b})", 'dval')
            if f == 'self._get_asserted' and len(e.args) == 2 and self.src(e.args[0]) == 'key':
                a, at = self.expr(e.args[1])
                if at != 'sv': raise Untranslatable(s)
                return (f"(getAsserted {a})", ('tuple', ['dval', 'dval']))
            if f == 'get_stack_value_for_ins' and len(e.args) == 1:
                a, at = self.expr(e.args[0])
                if at != 'ins': raise Untranslatable(s)
                return (f"{a}.sv", 'sv')
            if f == 'isinstance' and len(e.args) == 2:
                a, at = self.expr(e.args[0])
                if at == 'ins':
                    cls = e.args[1]
                    names = [c.id for c in cls.elts] if isinstance(cls, ast.Tuple) else [cls.id]
                    ok = ('Assert', 'Return', 'Err', 'TealerCustomErrInstruction', 'BZ', 'BNZ')
                    if not all(n in ok for n in names): raise Untranslatable(s)
                    return ("(" + " || ".join(f"(Tealer.PyView.isClass {a}.op {lean_str(n)})" for n in names) + ")", 'bool')
        return super().expr(e)

    def block_(self, stmts, ind, declared, out, pad):
        # statement forms added here; everything else goes to the base class one statement at a time
        for s in stmts:
            if isinstance(s, ast.For):
                if s.orelse or not isinstance(s.target, ast.Name): raise Untranslatable(self.src(s)[:80])
                if isinstance(s.iter, ast.Name) and s.iter.id == 'ONE_KEY':
                    c, t, et = '[()]', 'unitlist', 'unit'
                else:
                    c, t = self.expr(s.iter)
                    et = {'bidlist': 'bid', 'inslist': 'ins'}.get(t)
                if et is None: raise Untranslatable(f"loop over a {t}")
                self.env[s.target.id] = et
                out.append(f"{pad}for {s.target.id} in {c} do")
                inner = set(declared); inner.add(s.target.id)
                self.loop_depth = getattr(self, 'loop_depth', 0) + 1
                body = self.block(s.body, ind + 2, inner)
                self.loop_depth -= 1
                out += body if body else [f"{pad}  pure ()"]
                self.env.pop(s.target.id, None)
                continue
            if isinstance(s, ast.If) and not s.orelse and len(s.body) == 1 and __import__('re').fullmatch(
                    r'if (\w+) not in path_context:\n    path_context\[\1\] = \{\}', self.src(s)):
                out.append(f"{pad}-- `{self.src(s.test)}`: the inner dictionary is created (no entry is written)")
                continue
            if isinstance(s, (ast.Continue, ast.Break)):
                if getattr(self, 'loop_depth', 0) < 1: raise Untranslatable("continue / break outside a loop")
                out.append(f"{pad}{'continue' if isinstance(s, ast.Continue) else 'break'}")
                continue
            if isinstance(s, ast.Return) and s.value is None:
                out.append(f"{pad}return {self.final_value}")
                continue
            if isinstance(s, ast.Assign) and len(s.targets) == 1 and isinstance(s.targets[0], ast.Name) and self.src(s.value) == 'self._path_contexts[key]':
                self.env[s.targets[0].id] = 'pathctx'        # an alias of the per-key dictionary: no statement
                declared.add(s.targets[0].id)
                continue
            if isinstance(s, ast.Assign) and len(s.targets) == 1 and isinstance(s.targets[0], ast.Subscript):
                out += self.subscript_store(s.targets[0], s.value, pad)
                continue
            saved = self.after
            self.after = stmts[stmts.index(s) + 1:] + saved
            try:
                super().block_([s], ind, declared, out, pad)
            finally:
                self.after = saved
        return out

    def subscript_store(self, tgt, val, pad):
        # path_context[b][block] = V   /   self._path_contexts[key][b][block] = V   ->   pc := dictSet pc b V
        s = self.src(tgt)
        if isinstance(tgt.value, ast.Subscript) and self.src(tgt.slice) == 'block' and self.src(tgt.value.value) in ('path_context', 'self._path_contexts[key]'):
            b, bt = self.expr(tgt.value.slice)
            if bt == ('opt', 'bid'): b, bt = f"({b}.getD 0)", 'bid'
            v, vt = self.expr(val)
            if bt != 'bid' or vt != 'dval': raise Untranslatable(f"{s} = {self.src(val)}: {bt}, {vt}")
            return [f"{pad}pc := Tealer.PyView.dictSet pc {b} {v}"]
        raise Untranslatable(f"store to {s}")


def parse_fn(pyfn, state_var='ctx'):
    tree = ast.parse(textwrap.dedent(inspect.getsource(pyfn))).body[0]
    tree = KeyLoopRewriter(state_var).visit(tree)
    ast.fix_missing_locations(tree)
    return tree


def translate(pyfn, lean_name, params, ret, doc, ctx, final_value=None, prelude=(), state_var='ctx'):
    tr = FlowDo(ctx)
    tree = parse_fn(pyfn, state_var)
    names = [a.arg for a in tree.args.args]
    want = [p[0] for p in params if p[0] is not None]
    if names != want: raise Untranslatable(f"signature of {pyfn.__qualname__}: {names}, expected {want}")
    tr.env = {p[1]: p[2] for p in params}
    tr.none_vars = tr.infer_var_types(tree)
    tr.pending_none, tr.var_lean_types, tr.lines_ref = {}, {}, []
    tr.ret_type, tr.raises = ret, False
    tr.after, tr.seen_types = [], {}
    tr.final_value = final_value
    body = [st for st in tree.body if not (isinstance(st, ast.Expr) and isinstance(st.value, ast.Constant))]
    declared = set(tr.env)
    lines = list(prelude)
    for p in prelude:
        # `let mut x : T := e`
        nm = p.split('let mut ')[1].split(' ')[0]
        declared.add(nm)
        tr.env[nm] = 'dval' if ': D :=' in p else 'pcmap'
    lines += tr.block(body, 2, declared)
    if final_value is not None:
        lines.append(f"  return {final_value}")
    elif not isinstance(body[-1], ast.Return):
        raise Untranslatable("function may fall off its end")
    text = "\n".join(lines)
    for n in tr.none_vars:
        if f"%TYPE_{n}%" in text:
            if n not in tr.var_lean_types: raise Untranslatable(f"variable {n} is only ever None")
            text = text.replace(f"%TYPE_{n}%", tr.var_lean_types[n])
    sig = " ".join(f"({p[1]} : {tr.lean_type(p[2])})" for p in params)
    head = f"def {lean_name} {{D : Type}} {sig} : {tr.lean_type(ret)} := Id.run do"
    return [f"/-- {doc} -/", head, text, ""]


def gen_flow():
    from tealer.analyses.dataflow.transaction_context import generic
    from matchers_gen import field_classes
    cls = generic.DataflowTransactionContext
    errors, out = [], ["/- REGENERATED on every run by harness/flow_gen.py + harness/pydo.py: the transfer functions of",
                       "   analyses/dataflow/transaction_context/generic.py translated statement by statement from the Python AST of /repo, for one",
                       "   analysis key (the loops over independent per-key dictionary entries are removed). -/",
                       "import TealerModel.PyView", "import TealerModel.Dom", "import TealerModel.Generated.Matchers", "set_option linter.unusedVariables false",
                       "namespace Tealer.Generated", ""]
    DOM, UNIV, KEYP = (None, 'dom', 'dom'), (None, 'univ', 'dval'), ('key', 'key', 'key')
    SELF, BLOCK = ('self', 'self', 'env'), ('block', 'block', 'blk')
    base = {'field_classes': field_classes(), 'funcs': {}, 'names': {}, 'special': {}}
    def emit(pyfn, lean_name, params, ret, doc, **kw):
        try:
            out.extend(translate(pyfn, lean_name, params, ret, doc, dict(base), **kw))
        except Untranslatable as e:
            errors.append(f"{pyfn.__qualname__}: {e}")
            out.extend([f"-- {pyfn.__qualname__} could not be translated: {e}", ""])
    emit(cls._calculate_reachin, 'calculateReachin',
         [DOM, UNIV, (None, 'pathCtx', 'dmap'), SELF, KEYP, BLOCK, ('reachout', 'reachout', 'dmap')], 'dval',
         'translated from DataflowTransactionContext._calculate_reachin; `pathCtx p` = self._path_contexts[key][block][p]')
    emit(cls._calculate_livein, 'calculateLivein', [DOM, UNIV, SELF, KEYP, BLOCK, ('liveout', 'liveout', 'dmap')], 'dval',
         'translated from DataflowTransactionContext._calculate_livein')
    bl = dict(base)
    bl['funcs'] = {'is_int_push_ins': Fn('Tealer.Generated.isIntPushIns E', ['op'], ('tuple', ['bool', 'oiv']))}
    try:
        out.extend(translate(cls._block_level_constraints, 'blockLevelConstraints',
                             [(None, 'E', 'env'), DOM, UNIV, (None, 'getAsserted', 'ga'), SELF, ('analysis_keys', 'key', 'key'), BLOCK], 'dval',
                             'translated from DataflowTransactionContext._block_level_constraints for one key: the value of self._block_contexts[key][block] when the function returns; `getAsserted v` = self._get_asserted(key, v)',
                             bl, final_value='ctx', prelude=["  let mut ctx : D := dom.null"]))
    except Untranslatable as e:
        errors.append(f"_block_level_constraints: {e}")
        out.extend([f"-- _block_level_constraints could not be translated: {e}", ""])
    try:
        out.extend(translate(cls._path_level_constraints, 'pathLevelConstraints',
                             [(None, 'E', 'env'), DOM, UNIV, (None, 'getAsserted', 'ga'), SELF, ('analysis_keys', 'key', 'key'), BLOCK], 'pcmap',
                             'translated from DataflowTransactionContext._path_level_constraints for one key: the entries self._path_contexts[key][b][block] it writes, as a partial function of the successor (a later write to the same successor replaces the earlier one); `getAsserted v` = self._get_asserted(key, v)',
                             bl, final_value='pc', prelude=["  let mut pc : Nat → Option D := fun _ => none"]))
    except Untranslatable as e:
        errors.append(f"_path_level_constraints: {e}")
        out.extend([f"-- _path_level_constraints could not be translated: {e}", ""])
    return "\n".join(out + ["end Tealer.Generated", ""]), errors


if __name__ == '__main__':
    import sys
    text, errs = gen_flow()
    print(text)
    print(errs, file=sys.stderr)
