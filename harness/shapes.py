"""Syntactic shape predicates on programs (computed on the protocol tokens of tealer's own parse).

A shape is a feature that a *listed known finding* (known_findings.jsonl) says the unchanged tool mishandles.
A violation found by the oracle is attributed to a known finding only if the program has that finding's shape,
the violated property is one the finding lists, AND the reference model (which reproduces the unchanged code)
exhibits the very same violation.  Anything else is a new violation.
"""
import sys, os
sys.path.insert(0, os.path.dirname(__file__))

KIND_FIELDS = ("TypeEnum", "OnCompletion", "ApplicationID")

import urllib.parse

def split_tok(tok):
    f = tok.split(',')
    return int(f[0]), f[2], [urllib.parse.unquote(x) for x in f[3:]]

def shapes_of(toks):
    ops = [split_tok(t) for t in toks]
    n = len(ops)
    tags = set()
    labels = {}
    for k, (_, op, args) in enumerate(ops):
        if op == 'label':
            labels[args[0]] = k
    sub_labels = set(args[0] for _, op, args in ops if op == 'callsub')
    for k, (_, op, args) in enumerate(ops):
        nxt = ops[k + 1] if k + 1 < n else None
        if op in ('txn', 'gtxns') and args and args[-1] in KIND_FIELDS: tags.add('kindcheck')
        if op == 'gtxn' and args[-1] in KIND_FIELDS: tags.add('kindcheck')
        if op == 'addr' and args[0] == 'AAAAAAAAAAAAAAAAAAAAAAAAAAAAAAAAAAAAAAAAAAAAEVAL4QAJS7JHB4': tags.add('zeroAddrConst')
        if op == 'callsub':
            if nxt is None: tags.add('callsubLast')
            elif nxt[1] == 'label': tags.add('retPointJoin')
            if labels.get(args[0], n) <= k: pass
        if op in ('bz', 'bnz') and nxt is not None and nxt[1] == 'label' and nxt[2][0] == args[0]:
            tags.add('branchToNext')
        if op == 'cmp' and args[0] in ('<', '%3C', '<=', '>', '>='):
            # constant pushed before the governed read: [int] [read] [cmp]
            if k >= 2:
                a, b = ops[k - 2], ops[k - 1]
                is_read = (b[1] == 'txn' and b[2][0] in ('Fee', 'GroupIndex')) or (b[1] == 'global' and b[2][0] == 'GroupSize') \
                    or (b[1] in ('gtxn', 'gtxns') and b[2][-1] == 'Fee')
                if is_read:
                    # what precedes the read expression?
                    j = k - 2
                    if b[1] == 'gtxns':
                        # skip the index expression: int | txn GroupIndex int +/-
                        j = k - 3
                        if j >= 0 and ops[j][1] in ('add', 'sub'): j -= 3
                        elif j >= 0: j -= 1
                        j = j if j >= 0 else 0
                        a = ops[j]
                    if a[1] in ('int', 'intn', 'pushint', 'pushintn', 'intc'):
                        # Fee is repaired (F02b); GroupSize / GroupIndex are the known finding F02
                        tags.add('constLeftFee' if b[2][-1] == 'Fee' else 'constLeft')
        # a Fee read whose comparison operand is not a directly pushed integer: something stands between the read, the
        # constant and the comparison (stack shuffling, arithmetic, a run-time value) -- the stack AST hands the tool an
        # unknown comparand, which its documented heuristic treats as a bound (known finding F26 for C01)
        if (op == 'txn' and args and args[-1] == 'Fee') or (op in ('gtxn', 'gtxns') and args and args[-1] == 'Fee'):
            j = k + 1
            while j < n and j <= k + 10 and ops[j][1] != 'cmp' and ops[j][1] not in ('label', 'b', 'bz', 'bnz', 'assert', 'ret', 'err', 'callsub', 'retsub', 'switch', 'match'):
                j += 1
            if j < n and j <= k + 10 and ops[j][1] == 'cmp':
                between = [o[1] for o in ops[k + 1:j]]
                pushes = ('int', 'intn', 'pushint', 'pushintn', 'intc')
                direct = between == [] or (len(between) == 1 and between[0] in pushes)
                if not direct:
                    tags.add('feeUnknownOperand')
        if op in ('b', 'bz', 'bnz') and labels.get(args[0], n) < k:
            lo = labels[args[0]]
            if any(ops[j][1] in ('gtxn', 'gtxnimm', 'gtxns', 'gtxnstk') for j in range(lo, k)):
                tags.add('absInLoop')
    # a program-terminating `return` inside a subroutine body (textual region of a callsub target)
    region = None
    for k, (_, op, args) in enumerate(ops):
        if op == 'label':
            if args[0] in sub_labels: region = args[0]
            elif args[0] == 'main_code': region = None
        if op == 'ret' and region is not None:
            tags.add('innerApprove')
        if op == 'retsub' and region is None:
            tags.add('retsubInMain')
    # recursion: a callsub inside the region of the same label (direct) -- approximate
    region = None
    for k, (_, op, args) in enumerate(ops):
        if op == 'label' and args[0] in sub_labels: region = args[0]
        elif op == 'label' and args[0] == 'main_code': region = None
        if op == 'callsub' and region is not None and args[0] == region:
            tags.add('recursion')
    return tags
