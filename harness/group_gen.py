"""Generated/GroupLoop.lean: the verdict loop of detectors/utils.py detect_missing_tx_field_validations_group_complete, translated from
the Python AST of /repo for ONE group (the body of `for group_txn in tealer.groups:`): which transactions of the group are reported.

Views (Group.GTxn of the model is what the loop reads of a configured transaction): `txn.has_logic_sig` / `txn.logic_sig is not None`
/ `txn.application is not None` / `txn.absoulte_index` are fields; `vulnerable_transaction_types is not None and txn.type not in
vulnerable_transaction_types` is `!txn.typeOk`; the three contract-level questions are the parameter `A : Group.Answers` (the Bool
says whether the application or the logic-sig is asked); `group_txn.group_relative_indexes[txn].items()` is `relItems txn`; the
dictionary `vulnerable_transactions` (a new key per reported transaction) is the list of the reported transactions' ids."""
import ast
import inspect
import textwrap

from pydo import Untranslatable
from flow_gen import FlowDo

CONTRACT = {'logic_sig': 'false', 'application': 'true'}


class GroupDo(FlowDo):
    def lean_type(self, t):
        m = {'gtxn': 'Tealer.Group.GTxn', 'gtxnlist': 'List Tealer.Group.GTxn', 'idlist': 'List Nat', 'offset': 'Int'}
        if isinstance(t, str) and t in m: return m[t]
        return super().lean_type(t)

    def contract_of(self, e):
        """`txn.logic_sig` / `other_txn.application` -> (txn variable, Lean Bool)"""
        if isinstance(e, ast.Attribute) and isinstance(e.value, ast.Name) and self.env.get(e.value.id) == 'gtxn' and e.attr in CONTRACT:
            return e.value.id, CONTRACT[e.attr]
        raise Untranslatable(self.src(e))

    def expr(self, e):
        s = self.src(e)
        if s == 'detector.TYPE == DetectorType.STATELESS': return ('(det == Tealer.Group.DetType.stateless)', 'bool')
        if s == 'detector.TYPE == DetectorType.STATEFULL': return ('(det == Tealer.Group.DetType.stateful)', 'bool')
        if s == 'vulnerable_transaction_types is not None and txn.type not in vulnerable_transaction_types': return ('(!txn.typeOk)', 'bool')
        if s == 'group_txn.transactions': return ('transactions', 'gtxnlist')
        if isinstance(e, ast.Attribute) and isinstance(e.value, ast.Name) and self.env.get(e.value.id) == 'gtxn':
            if e.attr == 'has_logic_sig': return (f"{e.value.id}.hasLogicSig", 'bool')
        if isinstance(e, ast.Compare) and len(e.ops) == 1 and isinstance(e.ops[0], (ast.Is, ast.IsNot)) and isinstance(e.comparators[0], ast.Constant) \
                and e.comparators[0].value is None and isinstance(e.left, ast.Attribute) and isinstance(e.left.value, ast.Name) and self.env.get(e.left.value.id) == 'gtxn':
            v, a = e.left.value.id, e.left.attr
            fld = {'logic_sig': 'lsContract', 'application': 'hasApp'}.get(a)
            pos = isinstance(e.ops[0], ast.IsNot)
            if fld: return (f"{v}.{fld}" if pos else f"(!{v}.{fld})", 'bool')
            if a == 'absoulte_index': return (f"{v}.absIndex.isSome" if pos else f"{v}.absIndex.isNone", 'bool')
        if isinstance(e, ast.Call):
            f = self.src(e.func)
            if f == 'contract_checks_its_field' and len(e.args) == 3 and self.src(e.args[1]) == 'checks_field':
                v, app = self.contract_of(e.args[0])
                if self.src(e.args[2]) != f'{v}.absoulte_index': raise Untranslatable(s)
                return (f"(A.own {v}.id {app})", 'bool')
            if f == 'contract_checks_txn_at_absolute_index' and len(e.args) == 3 and self.src(e.args[1]) == 'checks_field':
                v, app = self.contract_of(e.args[0])
                if self.src(e.args[2]) != 'txn.absoulte_index': raise Untranslatable(s)
                return (f"(A.atAbs {v}.id {app} (txn.absIndex.getD 0))", 'bool')      # under `txn.absoulte_index is not None`
            if f == 'contract_checks_using_relative_index' and len(e.args) == 3 and self.src(e.args[1]) == 'checks_field':
                v, app = self.contract_of(e.args[0])
                o, ot = self.expr(e.args[2])
                if ot != 'offset': raise Untranslatable(s)
                return (f"(A.atRel {v}.id {app} {o})", 'bool')
        return super().expr(e)

    def block_(self, stmts, ind, declared, out, pad):
        for s in stmts:
            src = self.src(s)
            if isinstance(s, ast.For) and not s.orelse:
                it = self.src(s.iter)
                if isinstance(s.target, ast.Name) and it == 'group_txn.transactions':
                    v = s.target.id
                    self.env[v] = 'gtxn'
                    out.append(f"{pad}for {v} in transactions do")
                elif isinstance(s.target, ast.Tuple) and [self.src(x) for x in s.target.elts] == ['other_txn', 'offset'] and it == 'group_txn.group_relative_indexes[txn].items()':
                    self.env['other_txn'] = 'gtxn'; self.env['offset'] = 'offset'
                    out.append(f"{pad}for (other_txn, offset) in relItems txn do")
                else:
                    raise Untranslatable(src[:100])
                inner = set(declared) | {'other_txn', 'offset', 'txn'}
                self.loop_depth = getattr(self, 'loop_depth', 0) + 1
                body = self.block(s.body, ind + 2, inner)
                self.loop_depth -= 1
                out += body if body else [f"{pad}  pure ()"]
                continue
            if isinstance(s, ast.Assign) and len(s.targets) == 1 and self.src(s.targets[0]) == 'vulnerable_transactions[txn]':
                v = s.value
                ok = isinstance(v, ast.List) and (not v.elts or (len(v.elts) == 1 and self.src(v.elts[0]) in ('txn.logic_sig', 'txn.application')))
                if not ok: raise Untranslatable(src)
                out.append(f"{pad}vulnerable_transactions := vulnerable_transactions ++ [txn.id]    -- `{src}`")
                continue
            if isinstance(s, ast.Assign) and len(s.targets) == 1 and self.src(s.targets[0]) == 'vulnerable_transactions' and self.src(s.value) == '{}':
                self.env['vulnerable_transactions'] = 'idlist'; declared.add('vulnerable_transactions')
                out.append(f"{pad}let mut vulnerable_transactions : List Nat := []")
                continue
            saved = self.after
            self.after = stmts[stmts.index(s) + 1:] + saved
            try:
                super().block_([s], ind, declared, out, pad)
            finally:
                self.after = saved
        return out


def gen_group():
    from tealer.detectors import utils as U
    errors = []
    out = ["/- REGENERATED on every run by harness/group_gen.py (+ flow_gen.py, pydo.py): the verdict loop of",
           "   detectors/utils.py detect_missing_tx_field_validations_group_complete for one group, from the Python AST of /repo. -/",
           "import TealerModel.Group", "set_option linter.unusedVariables false", "namespace Tealer.Generated", ""]
    try:
        tree = ast.parse(textwrap.dedent(inspect.getsource(U.detect_missing_tx_field_validations_group_complete))).body[0]
        if [a.arg for a in tree.args.args] != ['tealer', 'detector', 'checks_field', 'vulnerable_transaction_types']:
            raise Untranslatable("signature of detect_missing_tx_field_validations_group_complete")
        body = [st for st in tree.body if not (isinstance(st, ast.Expr) and isinstance(st.value, ast.Constant))]
        if len(body) != 3 or ast.unparse(body[0]) != 'output = []' or ast.unparse(body[2]) != 'return output' or not isinstance(body[1], ast.For) \
                or ast.unparse(body[1].target) != 'group_txn' or ast.unparse(body[1].iter) != 'tealer.groups':
            raise Untranslatable("expected `output = []; for group_txn in tealer.groups: ...; return output`")
        loop = body[1].body
        last = loop[-1]
        if not (isinstance(last, ast.If) and ast.unparse(last.test) == 'is_vulnerable' and not last.orelse and len(last.body) == 1
                and ast.unparse(last.body[0]) == 'output.append(GroupTransactionOutput(detector, group_txn, vulnerable_transactions))'):
            raise Untranslatable("expected `if is_vulnerable: output.append(GroupTransactionOutput(detector, group_txn, vulnerable_transactions))`")
        tr = GroupDo({'field_classes': (), 'funcs': {}, 'names': {}, 'special': {}})
        tr.env = {}
        tr.none_vars, tr.pending_none, tr.var_lean_types, tr.lines_ref = set(), {}, {}, []
        tr.ret_type, tr.raises, tr.after, tr.seen_types, tr.final_value = 'bool', False, [], {}, None
        lines = tr.block(loop[:-1], 2, set())
        out += ["/-- the body of `for group_txn in tealer.groups:` - (is_vulnerable, ids of the keys of vulnerable_transactions in insertion order);",
                "    the group is appended to the output exactly when the first component is true -/",
                "def groupComplete (det : Tealer.Group.DetType) (A : Tealer.Group.Answers) (relItems : Tealer.Group.GTxn → List (Tealer.Group.GTxn × Int))",
                "    (transactions : List Tealer.Group.GTxn) : Bool × List Nat := Id.run do"] + lines + ["  return (is_vulnerable, vulnerable_transactions)", ""]
    except Untranslatable as e:
        errors.append(f"detect_missing_tx_field_validations_group_complete: {e}")
        out += [f"-- could not be translated: {e}", ""]
    return "\n".join(out + ["end Tealer.Generated", ""]), errors


if __name__ == '__main__':
    import sys
    text, errs = gen_group()
    print(text)
    print(errs, file=sys.stderr)
