"""C20: the regex engine vs the Lean model of _find_instructions (correspondence) and vs an independent reachability
closure (oracle): matches = reachable straight-line occurrences; covered = instructions on some path label -> match."""
import contextlib, io, os, random, sys
HERE = os.path.dirname(os.path.abspath(__file__))
sys.path.insert(0, HERE)
import gen, engine


def quiet(fn, *a):
    out = io.StringIO()
    with contextlib.redirect_stdout(out), contextlib.redirect_stderr(out):
        return fn(*a)


def one(item):
    from tealer.teal.parse_teal import parse_teal
    from tealer.utils.regex.regex import match_regex, Regex
    from tealer.teal.instructions.parse_instruction import parse_line
    from tealer.teal.instructions.instructions import Label
    src, seed, name = item['src'], item['seed'], item['name']
    rng = random.Random(f"rx/{seed}/{name}")
    res = {'name': name, 'src': src, 'cases': 0, 'viol': [], 'diff': [], 'known': 0}
    try:
        teal = quiet(parse_teal, src)
    except BaseException:
        return res
    ins = teal.instructions
    pos = {i: k for k, i in enumerate(ins)}
    labels = ['*'] + [i.label for i in ins if isinstance(i, Label)]
    drv = engine.driver()
    for _ in range(item.get('ncases', 6)):
        lab = rng.choice(labels)
        # pattern: an occurrence taken from the program (present), possibly perturbed (absent), length 1..4
        k0 = rng.randrange(0, len(ins)); L = rng.randrange(1, 5)
        pat_src = [str(i) for i in ins[k0:k0 + L]]
        if item.get('words') and rng.random() < 0.7:
            # a word over the program's small alphabet: usually occurs several times, the occurrences overlapping
            k = rng.randrange(3)
            if k == 0: pat_src = [rng.choice(gen.REP_ALPHABET)] * rng.randrange(1, 4)
            elif k == 1:
                a, b = rng.sample(gen.REP_ALPHABET, 2); pat_src = ([a, b] * rng.randrange(1, 3)) + [a]
            else: pat_src = [rng.choice(gen.REP_ALPHABET) for _ in range(rng.randrange(1, 4))]
        elif rng.random() < 0.25: pat_src[-1] = "int 424242"
        if any(s.endswith(':') for s in pat_src) and rng.random() < 0.5:
            pat_src = [s for s in pat_src if not s.endswith(':')] or ["int 1"]
        try:
            pat = [quiet(parse_line, s) for s in pat_src]
        except BaseException:
            continue
        if any(p is None for p in pat): continue
        rg = Regex(lab, pat)
        try:
            matches, covered = quiet(match_regex, teal, rg)
        except BaseException as e:
            res['viol'].append(('exception', lab, pat_src, type(e).__name__)); continue
        res['cases'] += 1
        got_m = [[pos[i] for i in m] for m in matches]
        got_c = sorted(pos[i] for i in covered)
        start = 0 if lab == '*' else next(k for k, i in enumerate(ins) if isinstance(i, Label) and i.label == lab)
        nxt = {k: [pos[j] for j in i.next] for k, i in enumerate(ins)}
        same = {k: [p for p, i in enumerate(ins) if type(i) is type(pi) and str(i) == str(pi)] for k, pi in enumerate(pat)}
        # model
        req = f"regex 0 {start} {len(pat)} {len(ins)} " + ';'.join(f"{k}:{','.join(map(str, v))}" for k, v in nxt.items()) + " " + \
              ';'.join(f"{k}:{','.join(map(str, v))}" for k, v in same.items())
        drv.p.stdin.write(req + "\n"); drv.p.stdin.flush()
        line = drv.p.stdout.readline().strip()
        d = dict(f.partition('=')[::2] for f in line.split(' ')[2:])
        mod_m = [[int(x) for x in m.split('-')] for m in d.get('matches', '').split('|') if m]
        mod_c = [int(x) for x in d.get('covered', '').split(',') if x]
        if mod_m != got_m or mod_c != got_c:
            res['diff'].append((lab, pat_src, {'tool_matches': got_m, 'model_matches': mod_m, 'tool_covered': got_c, 'model_covered': mod_c}))
        # oracle: reachability closure from the label; straight-line occurrence of the pattern
        reach, stack = set(), [start]
        while stack:
            x = stack.pop()
            if x in reach: continue
            reach.add(x); stack += nxt[x]
        def occurs(c):
            cur = c
            for k in range(len(pat)):
                if cur is None or cur not in same[k]: return None
                seq.append(cur)
                cur = nxt[cur][0] if len(nxt[cur]) == 1 else None
            return True
        want = []
        for c in sorted(reach):
            seq = []
            if occurs(c): want.append(list(seq))
        if sorted(got_m) != sorted(want):
            res['viol'].append(('matches', lab, pat_src, f"tool reports matches at {sorted(got_m)}, reachable straight-line occurrences are {sorted(want)}"))
        # covered: every covered instruction lies on a path label -> match head; and every instruction on such a path is covered
        heads = set(m[0] for m in want)
        can_reach_head, changed = set(heads), True
        while changed:
            changed = False
            for k, ns in nxt.items():
                if k not in can_reach_head and any(n in can_reach_head for n in ns):
                    can_reach_head.add(k); changed = True
        on_path = set(k for k in reach if k in can_reach_head)
        strict = set(k for k in on_path if any(n in can_reach_head for n in nxt[k]))   # proper predecessors of a match
        if not set(got_c) <= on_path:
            res['viol'].append(('covered-sound', lab, pat_src, f"covered instructions {sorted(set(got_c) - on_path)} lie on no path from the label to a match"))
        if not strict <= set(got_c):
            res['known'] += 1     # known finding F23: `covered` is incomplete at joins / after already visited instructions
    return res


def c20(cx):
    n = 40 if cx.quick() else 500
    items = []
    for i in range(n):
        src, tags = gen.fragment(cx.seed, 2000 + i, max_stmts=4)
        items.append({'name': f'fragment/{cx.seed}/{2000 + i}', 'src': src, 'seed': cx.seed, 'ncases': 8})
    for i in range(0, gen.N_CALLFAM, 3):
        src, tags = gen.callfam(cx.seed, i)
        items.append({'name': f'callfam/{cx.seed}/{i}', 'src': src, 'seed': cx.seed, 'ncases': 6})
    for i in range(30 if cx.quick() else 300):
        items.append({'name': f'repetitive/{cx.seed}/{i}', 'src': gen.repetitive(cx.seed, i), 'seed': cx.seed, 'ncases': 8, 'words': True})
    results = engine.run_items_with(one, items)
    cases, diffs, known = 0, 0, 0
    for r in results:
        cases += r['cases']; known += r['known']
        if r['cases']: cx.distinct.add(r['name'])
        for (kind, lab, pat, detail) in r['viol']:
            cx.violations.append({'kind': kind, 'program': r['name'], 'prop': 'C20', 'field': kind, 'where': f"{lab} => {pat}", 'detail': str(detail), 'src': r['src'], 'env': {'label': lab, 'pattern': pat}})
        for (lab, pat, d) in r['diff']:
            diffs += 1
            if diffs == 1:
                cx.broken.append(f"correspondence (regex matches / covered) differs, e.g. {r['name']} {lab} => {pat}: {d}")
    if known:
        what = next((f['what'] for f in cx.findings if f['id'] == 'F23'), '')
        cx.known_seen['F23'] = f"{what} [{known} of {cases} cases]"
    cx.evaluations += cases
    cx.samples += [{'program': results[0]['name'], 'source': results[0]['src'][:400], 'cases': results[0]['cases']}]
    return {'programs': len(items), 'disagreements_checked': diffs, 'regex_cases': cases,
            'rule': 'generated programs x labels (incl. *) x patterns of 1-4 instructions taken from the program (present / perturbed / spanning blocks); distinct = distinct programs with at least one case'}
